package main

// conc.go — concurrent clients.
//   "conc":  2..4 clients of the IMMUTABLE cache, each running a short program of Store / Fetch / CleanEntry calls, under a
//            deterministic scheduler: exactly one client runs at a time and control changes hands at every backend
//            operation on the remote entry, following a seeded schedule (optionally one client crashes at a remote op).
//   "gated": the MUTABLE cache with its real lock: a holder is paused inside its critical section at a chosen backend
//            operation; contenders with a short lock timeout run to completion meanwhile (they must fail WITHOUT
//            disturbing the holder), contenders with a long timeout wait for the holder.

import (
	"encoding/json"
	"fmt"
	"math/rand"
	"strings"
	"sync"
	"time"

	"verif/harness/internal/h"
	"verif/harness/internal/shim"
)

// ---------------------------------------------------------------------------------------------------------------
// deterministic scheduler (immutable cache)

type prog struct {
	Ops     []opSpec `json:"ops"`
	CrashAt int      `json:"crash_at,omitempty"` // >0: the client dies at its CrashAt-th remote operation
}

type concScenario struct {
	Type      string     `json:"type"` // "conc"
	Kind      string     `json:"kind"`
	Versions  []treeSpec `json:"versions"`
	Progs     []prog     `json:"progs"`
	Env       envSpec    `json:"env"`
	SchedSeed int64      `json:"sched_seed"`
	Burst     int        `json:"burst"` // maximal number of consecutive remote operations given to one client
}

type callRec struct {
	Client, Op, Ver int
	Kind            string
	Start, End      int64
	Res             string
	Installed       int
	Damage          string
}

func runConc(r *h.Run, sc concScenario) {
	r.Eval()
	setEnv(sc.Env)
	w := newWorld(sc.Versions)
	for i := range sc.Progs {
		w.dirtyDest(fmt.Sprintf("/dst/c%d", i))
	}
	w.dirtyDest("/dst/final")
	// version 0 is stored up front so that early Fetches have something to find
	c0 := w.newClient(sc.Kind, 2*time.Second, true)
	if err := c0.store(0); err != nil {
		r.Note("conc: initial store failed: " + err.Error())
		return
	}
	c0.done()

	n := len(sc.Progs)
	type req struct{ id int }
	var mu sync.Mutex
	var tick int64
	turn := make([]chan struct{}, n) // scheduler -> client: you may run
	yield := make(chan int, n)       // client -> scheduler: I am at a remote operation / I have finished
	finished := make([]bool, n)
	remoteOps := make([]int, n)
	var calls []callRec
	stored := map[int]bool{0: true}
	storeOK := map[int]bool{0: true}
	anyErrFault := false
	for i := range turn {
		turn[i] = make(chan struct{})
	}
	clients := make([]*client, n)
	for i := 0; i < n; i++ {
		i := i
		go func() {
			<-turn[i] // wait for the first turn
			for _, op := range sc.Progs[i].Ops {
				c := w.newClient(sc.Kind, 2*time.Second, true)
				clients[i] = c
				c.gate = func(c *client, o *shim.Op) {
					remoteOps[i]++
					if sc.Progs[i].CrashAt > 0 && remoteOps[i] == sc.Progs[i].CrashAt {
						c.crashed.Store(true)
					}
					yield <- i
					<-turn[i]
				}
				mu.Lock()
				tick++
				rec := callRec{Client: i, Kind: op.Op, Ver: op.Ver, Start: tick, Installed: -1}
				if op.Op == "store" {
					stored[op.Ver] = true
				}
				mu.Unlock()
				dest := fmt.Sprintf("/dst/c%d", i)
				var err error
				switch op.Op {
				case "store":
					err = c.store(op.Ver)
				case "fetch":
					err = c.fetch(dest)
				case "clean":
					err = c.clean()
				}
				c.done()
				rec.Res = errKind(err)
				if c.crashed.Load() {
					rec.Res = "crashed"
				}
				if op.Op == "fetch" && err == nil {
					rec.Installed, rec.Damage = w.installed(dest)
				}
				mu.Lock()
				tick++
				rec.End = tick
				if op.Op == "store" && rec.Res == "ok" {
					storeOK[op.Ver] = true
				}
				calls = append(calls, rec)
				mu.Unlock()
				if c.crashed.Load() {
					break // a dead client issues no further calls
				}
			}
			finished[i] = true
			yield <- i
		}()
	}
	rng := rand.New(rand.NewSource(sc.SchedSeed))
	burst := sc.Burst
	if burst < 1 {
		burst = 1
	}
	live := n
	for live > 0 {
		// pick a live client
		var cand []int
		for i := 0; i < n; i++ {
			if !finished[i] {
				cand = append(cand, i)
			}
		}
		i := cand[rng.Intn(len(cand))]
		k := 1 + rng.Intn(burst)
		for ; k > 0 && !finished[i]; k-- {
			turn[i] <- struct{}{}
			<-yield // the client reached its next remote operation or finished
		}
		if finished[i] {
			live--
		}
	}
	// oracle
	for _, c := range calls {
		if c.Kind == "fetch" {
			r.Count("conc-fetch:" + c.Res)
			if c.Res == "ok" && (c.Installed < 0 || !stored[c.Installed]) {
				r.Fail("fetch-success-not-a-stored-version:"+sc.Kind+":concurrent:"+c.Damage+sc.Env.sig(),
					fmt.Sprintf("client %d: Fetch reported success under a concurrent schedule but the destination holds %s", c.Client, c.Damage), sc)
			}
		}
		if c.Res != "ok" && c.Res != "crashed" && c.Kind == "store" {
			anyErrFault = true
		}
	}
	// real-time order (the per-call projection of the schedule: start / end instants and result kinds). The immutable cache
	// serves the most recent package, so a Fetch that BEGAN after a successful Store(w) had returned must not install a
	// version whose own Store had returned before Store(w) even began (the start/end instants are logical ticks).
	storeOf := map[int]callRec{0: {Kind: "store", Ver: 0, Start: -1, End: 0, Res: "ok"}}
	for _, c := range calls {
		if c.Kind == "store" {
			storeOf[c.Ver] = c
		}
	}
	for _, f := range calls {
		if f.Kind != "fetch" || f.Res != "ok" || f.Installed < 0 {
			continue
		}
		sv, known := storeOf[f.Installed]
		if !known {
			continue
		}
		for _, w := range storeOf {
			if w.Res == "ok" && w.Ver != sv.Ver && w.End < f.Start && sv.End < w.Start {
				r.Fail("store-success-not-visible:"+sc.Kind+":concurrent:stale-version"+sc.Env.sig(),
					fmt.Sprintf("client %d: Fetch began after Store(v%d) had reported success, yet installed v%d whose Store had ended before Store(v%d) began", f.Client, w.Ver, f.Installed, w.Ver), sc)
				break
			}
		}
	}
	// quiescent: a fresh client fetches
	fc := w.newClient(sc.Kind, 2*time.Second, true)
	_ = fc.clean()
	err := fc.fetch("/dst/final")
	fc.done()
	if err == nil {
		v, dmg := w.installed("/dst/final")
		if v < 0 || !stored[v] {
			r.Fail("fetch-success-not-a-stored-version:"+sc.Kind+":after-concurrent:"+dmg+sc.Env.sig(), "final Fetch reported success but the destination holds "+dmg, sc)
		}
	} else if !anyErrFault {
		r.Fail("store-success-not-visible:"+sc.Kind+":after-concurrent:fetch-fails-"+errKind(err)+sc.Env.sig(),
			"Stores reported success (no I/O fault injected) but the final fault-free Fetch fails: "+err.Error(), sc)
	}
	r.Count(fmt.Sprintf("conc:%s:%d-clients", sc.Kind, n))
	tot := 0
	for _, x := range remoteOps {
		tot += x
	}
	r.CountN("conc-remote-ops-scheduled", tot)
	r.Distinct(fmt.Sprintf("conc|%d|%v|%d", sc.SchedSeed, sc.Progs, sc.Burst))
}

func genConc(r *h.Run, idx int) concScenario {
	n := 2 + r.Rng.Intn(3)
	sc := concScenario{Type: "conc", Kind: "immutable", Env: envFor(idx), SchedSeed: r.Rng.Int63(), Burst: []int{1, 1, 3, 12}[r.Rng.Intn(4)]}
	nv := 1
	for i := 0; i < n; i++ {
		var p prog
		for j, m := 0, 1+r.Rng.Intn(3); j < m; j++ {
			switch x := r.Rng.Intn(10); {
			case x < 4 && nv < 4:
				p.Ops = append(p.Ops, opSpec{Op: "store", Ver: nv})
				nv++
			case x < 8:
				p.Ops = append(p.Ops, opSpec{Op: "fetch"})
			default:
				p.Ops = append(p.Ops, opSpec{Op: "clean"})
			}
		}
		sc.Progs = append(sc.Progs, p)
	}
	if nv == 1 { // at least one concurrent Store
		sc.Progs[0].Ops = append([]opSpec{{Op: "store", Ver: 1}}, sc.Progs[0].Ops...)
		nv = 2
	}
	if r.Rng.Intn(3) == 0 {
		sc.Progs[r.Rng.Intn(n)].CrashAt = 1 + r.Rng.Intn(60)
	}
	sc.Versions = specsFor(int64(idx)*7+r.Seed, nv, idx)
	return sc
}

// ---------------------------------------------------------------------------------------------------------------
// mutable cache: a holder paused inside its critical section

type contender struct {
	Op   string `json:"op"`
	Ver  int    `json:"ver,omitempty"`
	Long bool   `json:"long"` // long lock timeout: waits for the holder; short: gives up while the holder is paused
}

type gatedScenario struct {
	Type       string      `json:"type"` // "gated"
	Env        envSpec     `json:"env"`
	Versions   []treeSpec  `json:"versions"`
	Holder     opSpec      `json:"holder"`
	PauseAt    int         `json:"pause_at"` // the holder pauses at its PauseAt-th operation on the remote package / side file after acquiring
	Contenders []contender `json:"contenders"`
}

func runGated(r *h.Run, sc gatedScenario) {
	r.Eval()
	setEnv(sc.Env)
	w := newWorld(sc.Versions)
	w.dirtyDest("/dst/holder")
	w.dirtyDest("/dst/final")
	for i := range sc.Contenders {
		w.dirtyDest(fmt.Sprintf("/dst/k%d", i))
	}
	c0 := w.newClient("mutable", 2*time.Second, true)
	if err := c0.store(0); err != nil {
		r.Note("gated: initial store failed: " + err.Error())
		return
	}
	c0.done()
	storeOK := map[int]bool{0: true}
	stored := map[int]bool{0: true}

	hc := w.newClient("mutable", 2*time.Second, false)
	reached := make(chan struct{})
	resume := make(chan struct{})
	seen := 0
	paused := false
	hc.gate = func(c *client, o *shim.Op) {
		if paused || !strings.HasPrefix(o.Path, entryDir+"/cache.zip") {
			return
		}
		if _, err := w.inner.Stat(lockDirPath); err != nil {
			return // not (yet) inside the critical section
		}
		seen++
		if seen == sc.PauseAt {
			paused = true
			close(reached)
			<-resume
		}
	}
	hdone := make(chan error, 1)
	go func() {
		var err error
		if sc.Holder.Op == "store" {
			stored[sc.Holder.Ver] = true
			err = hc.store(sc.Holder.Ver)
		} else {
			err = hc.fetch("/dst/holder")
		}
		hdone <- err
	}()
	var herr error
	hfinished := false
	select {
	case <-reached:
	case herr = <-hdone: // fewer operations than PauseAt: nothing to contend with
		hfinished = true
	case <-time.After(20 * time.Second):
		r.Note("gated: holder did not reach its pause point")
		return
	}
	type cres struct {
		c   contender
		err error
		v   int
		dmg string
	}
	var results []cres
	var wg sync.WaitGroup
	var rmu sync.Mutex
	runContender := func(i int, ct contender) {
		to := 150 * time.Millisecond
		if ct.Long {
			to = 20 * time.Second
		}
		c := w.newClient("mutable", to, false)
		res := cres{c: ct, v: -1}
		if ct.Op == "store" {
			rmu.Lock()
			stored[ct.Ver] = true
			rmu.Unlock()
			res.err = c.store(ct.Ver)
		} else {
			dest := fmt.Sprintf("/dst/k%d", i)
			res.err = c.fetch(dest)
			if res.err == nil {
				res.v, res.dmg = w.installed(dest)
			}
		}
		c.done()
		rmu.Lock()
		results = append(results, res)
		rmu.Unlock()
	}
	if !hfinished {
		for i, ct := range sc.Contenders {
			if !ct.Long {
				runContender(i, ct)
				// the mechanism: somebody who did not get the lock must leave the holder's lock alone, and nobody gets the
				// lock while the holder is inside its critical section
				last := results[len(results)-1]
				if last.err == nil {
					r.Fail("mutable:two-clients-inside-critical-section",
						fmt.Sprintf("the holder (%s) is paused inside its critical section, yet a %s with a 150 ms lock timeout completed successfully", sc.Holder.Op, ct.Op), sc)
				} else if _, err := w.inner.Stat(lockDirPath); err != nil {
					r.Fail("mutable:failed-acquirer-removed-holder-lock",
						fmt.Sprintf("the holder (%s) is paused inside its critical section; a %s that could not acquire the entry lock (%s) removed the holder's lock directory",
							sc.Holder.Op, ct.Op, errKind(last.err)), sc)
				}
			}
		}
		for i, ct := range sc.Contenders {
			if ct.Long {
				wg.Add(1)
				go func() { defer wg.Done(); runContender(i, ct) }()
			}
		}
		time.Sleep(30 * time.Millisecond) // let the waiting contenders reach the lock
		close(resume)
		select {
		case herr = <-hdone:
		case <-time.After(30 * time.Second):
			r.Note("gated: holder did not finish")
			return
		}
		wg.Wait()
	}
	hc.done()
	if sc.Holder.Op == "store" && herr == nil {
		storeOK[sc.Holder.Ver] = true
	}
	if sc.Holder.Op == "fetch" && herr == nil {
		if v, dmg := w.installed("/dst/holder"); v < 0 || !stored[v] {
			r.Fail("fetch-success-not-a-stored-version:mutable:concurrent:"+dmg, "the paused-and-resumed holder Fetch reported success but its destination holds "+dmg, sc)
		}
	}
	for _, res := range results {
		r.Count("gated-contender:" + res.c.Op + ":" + errKind(res.err))
		if res.c.Op == "store" && res.err == nil {
			storeOK[res.c.Ver] = true
		}
		if res.c.Op == "fetch" && res.err == nil && (res.v < 0 || !stored[res.v]) {
			r.Fail("fetch-success-not-a-stored-version:mutable:concurrent:"+res.dmg, "a contender's Fetch reported success but its destination holds "+res.dmg, sc)
		}
	}
	r.Count("gated-holder:" + sc.Holder.Op + ":" + errKind(herr))
	// quiescent state: no I/O fault was injected, so every Store that got the lock succeeded and the last one to hold it
	// decides what a Fetch returns
	fc := w.newClient("mutable", 2*time.Second, true)
	_ = fc.clean()
	err := fc.fetch("/dst/final")
	fc.done()
	if err != nil {
		r.Fail("store-success-not-visible:mutable:after-concurrent:fetch-fails-"+errKind(err),
			"Stores reported success (no I/O fault injected) but the final fault-free Fetch fails: "+err.Error(), sc)
	} else if v, dmg := w.installed("/dst/final"); v < 0 || !storeOK[v] {
		r.Fail("store-success-not-visible:mutable:after-concurrent:"+dmg,
			fmt.Sprintf("the final Fetch installed %s (v%d), which is not the version of a Store that reported success", dmg, v), sc)
	}
	r.Distinct(fmt.Sprintf("gated|%s|%d|%v", sc.Holder.Op, sc.PauseAt, sc.Contenders))
}

func genGated(r *h.Run, idx int) gatedScenario {
	sc := gatedScenario{Type: "gated", Env: envFor(idx), Versions: specsFor(int64(idx)*3+r.Seed, 4, idx)}
	if idx%2 == 0 {
		sc.Holder = opSpec{Op: "store", Ver: 1}
	} else {
		sc.Holder = opSpec{Op: "fetch"}
	}
	sc.PauseAt = 1 + r.Rng.Intn(8)
	nv := 2
	for i, m := 0, 1+r.Rng.Intn(3); i < m; i++ {
		ct := contender{Op: "fetch", Long: r.Rng.Intn(3) == 0}
		if r.Rng.Intn(2) == 0 && nv < 4 {
			ct = contender{Op: "store", Ver: nv, Long: ct.Long}
			nv++
		}
		sc.Contenders = append(sc.Contenders, ct)
	}
	return sc
}

// d15Witness: the holder stores v1 and is paused at its first write; a Fetch and then a Store give up on the lock.
func d15Witness() gatedScenario {
	return gatedScenario{Type: "gated", Versions: specsFor(11, 3, 2), Holder: opSpec{Op: "store", Ver: 1}, PauseAt: 2,
		Contenders: []contender{{Op: "fetch"}, {Op: "store", Ver: 2}}}
}

func replayOther(r *h.Run, typ string, raw json.RawMessage) {
	switch typ {
	case "conc":
		var sc concScenario
		if json.Unmarshal(raw, &sc) == nil {
			runConc(r, sc)
		}
	case "gated":
		var sc gatedScenario
		if json.Unmarshal(raw, &sc) == nil {
			runGated(r, sc)
		}
	case "oslinks":
		var sc linkScenario
		if json.Unmarshal(raw, &sc) == nil {
			runLinks(r, sc)
		}
	case "zipcut":
		var sc zipcutScenario
		if json.Unmarshal(raw, &sc) == nil {
			runZipcut(r, sc)
		}
	}
}

func otherScenarios(r *h.Run) {
	for i, n := 0, r.N(10, 60); i < n; i++ {
		runGated(r, genGated(r, i))
	}
	for i, n := 0, r.N(80, 1500); i < n; i++ {
		runConc(r, genConc(r, i))
	}
	zipcutScenarios(r)
}
