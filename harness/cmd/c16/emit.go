package main

// emit.go — Coq correspondence cases for sequential scenarios (model: coq/C16/Model.v, check_case).

import (
	"fmt"
	"strings"
	"time"

	"verif/harness/internal/h"
)

var nwritesMemo = map[treeSpec]int{}

// nwrites: number of backend writes in which the package of a version travels to the remote entry (measured on a
// fault-free Store in a scratch world).
func nwrites(spec treeSpec) int {
	if n, ok := nwritesMemo[spec]; ok {
		return n
	}
	w := newWorld([]treeSpec{spec})
	c := w.newClient("mutable", 2*time.Second, true)
	pkgPath := entryDir + "/cache.zip"
	_ = c.store(0)
	c.done()
	n := 0
	for _, t := range c.trace {
		if t.Name == "f.Write" && t.Path == pkgPath {
			n++
		}
	}
	nwritesMemo[spec] = n
	return n
}

func coqRobs(o remoteObs) string {
	var ps []string
	for i, p := range o.Packages {
		pc := "PPartial"
		if strings.HasPrefix(p, "v") {
			pc = "PFull " + p[1:] + "%nat"
		}
		hc := map[string]string{"ok": "HOk", "stale": "HStale", "bad": "HBadC", "none": "HNone"}[o.Hashes[i]]
		ps = append(ps, fmt.Sprintf("(%s, %s)", pc, hc))
	}
	return fmt.Sprintf("(mkRobs %s %d%%nat %s)", h.List(ps), o.Parts, h.Bool(o.Lock))
}

func emitSeqCase(r *h.Run, sc seqScenario, obs []opObs) {
	var ops []string
	for _, op := range sc.Ops {
		if op.Key != "" {
			return // the model has one entry (one key); several keys are independent copies of it (krun in Proofs.v)
		}
	}
	for i, op := range sc.Ops {
		o := obs[i]
		fault := "None"
		if op.Fault != nil {
			if o.Label == "" {
				return // the model does not distinguish the operation that was hit
			}
			// a short count without error is noticed by every writer involved (io.ErrShortWrite): same as a short write with error
			k, ok := map[string]string{"err": "KErr", "short": "KShort", "shortnil": "KShort", "crash": "KCrash", "crashshort": "KCrashShort"}[op.Fault.Kind]
			if !ok {
				return
			}
			fault = fmt.Sprintf("(Some (%s, %s))", strings.Replace(o.Label, " ", " ", 1), k)
			if strings.HasPrefix(o.Label, "LWrite") {
				fault = fmt.Sprintf("(Some (%s%%nat, %s))", o.Label, k)
			}
		}
		var sop string
		switch op.Op {
		case "store":
			sop = fmt.Sprintf("(QStore %d%%nat)", op.Ver)
		case "fetch":
			sop = "QFetch"
		default:
			sop = "QClean"
		}
		res := "RErr"
		switch o.Res {
		case "ok":
			res = "ROk"
		case "crashed":
			res = "RCrashed"
		}
		inst := "None"
		if op.Op == "fetch" && o.Res == "ok" && o.Installed >= 0 {
			inst = fmt.Sprintf("(Some %d%%nat)", o.Installed)
		}
		rem := "None"
		if o.observed {
			rem = "(Some " + coqRobs(o.Remote) + ")"
		}
		ops = append(ops, fmt.Sprintf("(mkOp %s %s %s %s %s)", sop, fault, res, inst, rem))
	}
	more := make([]string, len(sc.Versions))
	for i, v := range sc.Versions {
		more[i] = fmt.Sprintf("%d%%nat", nwrites(v)-1)
	}
	kind := "Mutable"
	if sc.Kind == "immutable" {
		kind = "Immutable"
	}
	// the model's flags (deferred unlock after acquiring, re-hash of the source on mismatch) are not supplied here: the
	// model reads them from coq/C16/Gen.v, generated from the source on every run
	r.Case(fmt.Sprintf("(mkCase %s %s %s)", kind, h.List(more), h.List(ops)), sc)
}
