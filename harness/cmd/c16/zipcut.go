package main

// zipcut.go — attack on the hypothesis "a file that is not a complete package does not unzip" (zip integrity).
// The stored tree contains an incompressible nested archive inner.zip; the package writer stores it verbatim, so the
// package contains, in the clear, the complete inner archive including its end-of-central-directory record. Go's
// archive/zip accepts an archive preceded by arbitrary bytes, so the prefix of the package that ends right after the
// inner record IS a valid archive — of the inner files. The scenario crashes the very first Store of the mutable cache
// (no side file yet to contradict the truncated package) after exactly that prefix.

import (
	"archive/zip"
	"bytes"
	"fmt"
	"math/rand"
	"time"

	"github.com/spf13/afero"

	"verif/harness/internal/h"
)

type zipcutScenario struct {
	Type string `json:"type"` // "zipcut"
	Kind string `json:"kind"`
	Seed int64  `json:"seed"`
	// History: number of complete versions stored before the interrupted Store
	History int `json:"history"`
}

// innerZip: a tiny archive (stored, not compressed) holding one file that belongs to no version.
func innerZip(seed int64) []byte {
	var buf bytes.Buffer
	zw := zip.NewWriter(&buf)
	g, _ := zw.CreateHeader(&zip.FileHeader{Name: "evil.txt", Method: zip.Store})
	_, _ = g.Write([]byte(fmt.Sprintf("this tree was never stored (%d)", seed)))
	_ = zw.Close()
	return buf.Bytes()
}

// blob: the content of the file blob.bin = 15360 bytes with an exactly uniform byte histogram in seeded random order
// (Huffman coding cannot gain anything, few LZ77 matches: the deflate writer emits ONE stored block), followed by innerZip.
func blob(seed int64) []byte {
	rng := rand.New(rand.NewSource(seed))
	u := make([]byte, 0, 256*60)
	for i := 0; i < 60; i++ {
		for b := 0; b < 256; b++ {
			u = append(u, byte(b))
		}
	}
	rng.Shuffle(len(u), func(i, j int) { u[i], u[j] = u[j], u[i] })
	return append(u, innerZip(seed)...)
}

func runZipcut(r *h.Run, sc zipcutScenario) {
	r.Eval()
	setEnv(envSpec{})
	specs := specsFor(sc.Seed, sc.History+1, 0)
	build := func() *world {
		w := newWorld(specs)
		_ = afero.WriteFile(w.inner, w.srcPath(sc.History)+"/blob.bin", blob(sc.Seed), 0o644)
		w.versions[sc.History] = w.readTree(w.srcPath(sc.History))
		return w
	}
	// 1. fault-free Store in a scratch world: where does the inner end-of-central-directory record end in the package?
	w0 := build()
	c := w0.newClient(sc.Kind, 2*time.Second, true)
	if err := c.store(sc.History); err != nil {
		r.Note("zipcut: scratch store failed: " + err.Error())
		return
	}
	c.done()
	var pkg []byte
	infos, _ := afero.ReadDir(w0.inner, entryDir)
	var pkgName string
	for _, fi := range infos {
		if !fi.IsDir() && len(fi.Name()) > 4 && fi.Name()[len(fi.Name())-4:] == ".zip" {
			pkgName = fi.Name()
			pkg, _ = afero.ReadFile(w0.inner, entryDir+"/"+fi.Name())
		}
	}
	inner := innerZip(sc.Seed)
	at := bytes.Index(pkg, inner)
	if at < 0 {
		r.Count("zipcut:inner-archive-not-stored-verbatim")
		return
	}
	cut := at + len(inner)
	// 2. which backend write of the transfer covers the cut?
	k, sofar := -1, 0
	for i, t := range c.trace {
		if t.Name == "f.Write" && isRemote(t.Path) && !isLockPath(t.Path) && len(t.Path) > 5 && t.Path[len(t.Path)-5:] != ".hash" &&
			(t.Path == entryDir+"/"+pkgName || t.Path == entryDir+"/"+pkgName+".part") {
			if cut <= sofar+t.N && cut > sofar {
				k = i
				break
			}
			sofar += t.N
		}
	}
	if k < 0 {
		r.Count("zipcut:no-write-covers-cut")
		return
	}
	// 3. the real scenario: earlier versions stored completely, then the Store dies after exactly `cut` bytes
	w := build()
	stored := map[int]bool{}
	for v := 0; v < sc.History; v++ {
		cc := w.newClient(sc.Kind, 2*time.Second, true)
		_ = cc.store(v)
		cc.done()
		stored[v] = true
	}
	cc := w.newClient(sc.Kind, 2*time.Second, true)
	cc.fault = &faultSpec{K: k, Kind: "crashshort", N: cut - sofar}
	_ = cc.store(sc.History)
	cc.done()
	stored[sc.History] = true
	fc := w.newClient(sc.Kind, 2*time.Second, true)
	_ = fc.clean()
	err := fc.fetch(destDir)
	fc.done()
	r.Count(fmt.Sprintf("zipcut:%s:history-%d:fetch-%s", sc.Kind, sc.History, errKind(err)))
	if err == nil {
		if v, dmg := w.installed(destDir); v < 0 || !stored[v] {
			r.Fail("fetch-success-not-a-stored-version:"+sc.Kind+":truncated-package-is-a-valid-archive",
				fmt.Sprintf("Store of a tree with a nested archive died after %d of %d package bytes (first Store: %v); the later Fetch reported success and installed %s (the files of the NESTED archive)",
					cut, len(pkg), sc.History == 0, dmg), sc)
		}
	}
	r.Distinct(fmt.Sprintf("zipcut|%s|%d", sc.Kind, sc.History))
}

func zipcutScenarios(r *h.Run) {
	for _, kind := range []string{"mutable", "immutable"} {
		for hist := 0; hist <= 1; hist++ {
			runZipcut(r, zipcutScenario{Type: "zipcut", Kind: kind, Seed: 5 + r.Seed, History: hist})
		}
	}
}
