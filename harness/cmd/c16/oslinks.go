package main

// oslinks.go — a small deterministic family on the OS back end: stored trees that contain symbolic links (the in-memory
// back end has none). Sequential Store ; Fetch, both cache kinds. The expectation is what the library defines for links
// (recorded from the unmodified code, see expectLinks): Fetch installs what Store was given.

import (
	"context"
	"crypto/sha256"
	"encoding/hex"
	"fmt"
	"os"
	"path/filepath"
	"sort"
	"strings"
	"time"

	"github.com/ARM-software/golang-utils/utils/filesystem"
	"github.com/ARM-software/golang-utils/utils/sharedcache"

	"verif/harness/internal/h"
)

type linkScenario struct {
	Type string `json:"type"` // "oslinks"
	Kind string `json:"kind"`
	Tree string `json:"tree"` // link-to-file | link-to-dir | dangling-link | links-nested
}

// osTree lists a directory on the OS file system WITHOUT following links: path -> "dir" | "file:<hash>" | "link:<target>".
func osTree(root string) map[string]string {
	t := map[string]string{}
	_ = filepath.Walk(root, func(p string, fi os.FileInfo, err error) error {
		if err != nil || p == root {
			return nil
		}
		rel, _ := filepath.Rel(root, p)
		switch {
		case fi.Mode()&os.ModeSymlink != 0:
			tg, _ := os.Readlink(p)
			t[rel] = "link:" + tg
		case fi.IsDir():
			t[rel] = "dir"
		default:
			b, _ := os.ReadFile(p)
			h := sha256.Sum256(b)
			t[rel] = "file:" + hex.EncodeToString(h[:6])
		}
		return nil
	})
	return t
}

func fileEntry(content string) string {
	h := sha256.Sum256([]byte(content))
	return "file:" + hex.EncodeToString(h[:6])
}

// buildLinkTree creates the source tree and returns what a Fetch has to install for it.
// How the library treats links (recorded from the unmodified code): a link to a file is stored as a regular file with the
// linked content under the link's name; see the other cases below.
func buildLinkTree(src, tree string) (expect map[string]string, storeFails bool) {
	_ = os.MkdirAll(filepath.Join(src, "sub", "deep"), 0o755)
	_ = os.WriteFile(filepath.Join(src, "a.txt"), []byte("content of a"), 0o644)
	_ = os.WriteFile(filepath.Join(src, "sub", "b.txt"), []byte("content of b"), 0o644)
	_ = os.WriteFile(filepath.Join(src, "sub", "deep", "c.txt"), []byte("content of c"), 0o644)
	expect = map[string]string{"a.txt": fileEntry("content of a"), "sub": "dir", "sub/b.txt": fileEntry("content of b"),
		"sub/deep": "dir", "sub/deep/c.txt": fileEntry("content of c")}
	switch tree {
	case "link-to-file":
		_ = os.Symlink("a.txt", filepath.Join(src, "link-a"))
		expect["link-a"] = fileEntry("content of a")
	case "links-nested":
		_ = os.Symlink("../a.txt", filepath.Join(src, "sub", "link-up"))
		_ = os.Symlink(filepath.Join(src, "sub", "b.txt"), filepath.Join(src, "sub", "deep", "link-abs"))
		expect["sub/link-up"] = fileEntry("content of a")
		expect["sub/deep/link-abs"] = fileEntry("content of b")
	case "link-to-dir":
		_ = os.Symlink("sub", filepath.Join(src, "link-sub"))
	case "dangling-link":
		_ = os.Symlink("missing.txt", filepath.Join(src, "link-nowhere"))
	}
	return
}

func describe(t map[string]string) string {
	var ks []string
	for k, v := range t {
		ks = append(ks, k+"="+v)
	}
	sort.Strings(ks)
	return strings.Join(ks, " ")
}

func runLinks(r *h.Run, sc linkScenario) {
	r.Eval()
	tmp, err := os.MkdirTemp("", "verif-c16-*")
	if err != nil {
		r.Note("oslinks: no temporary directory: " + err.Error())
		return
	}
	defer os.RemoveAll(tmp)
	src, dst, remote := filepath.Join(tmp, "src"), filepath.Join(tmp, "dst"), filepath.Join(tmp, "remote")
	_ = os.MkdirAll(remote, 0o755)
	expect, _ := buildLinkTree(src, sc.Tree)
	fs := filesystem.NewStandardFileSystem()
	cfg := &sharedcache.Configuration{RemoteStoragePath: remote, Timeout: 5 * time.Second}
	var repo sharedcache.ISharedCacheRepository
	if sc.Kind == "mutable" {
		repo, err = sharedcache.NewSharedMutableCacheRepository(cfg, fs)
	} else {
		repo, err = sharedcache.NewSharedImmutableCacheRepository(cfg, fs)
	}
	if err != nil {
		r.Note("oslinks: constructor: " + err.Error())
		return
	}
	ctx := context.Background()
	errS := repo.Store(ctx, "key", src)
	var errF error
	got := map[string]string{}
	if errS == nil {
		errF = repo.Fetch(ctx, "key", dst)
		got = osTree(dst)
	}
	r.Count(fmt.Sprintf("oslinks:%s:%s:store-%s:fetch-%s", sc.Kind, sc.Tree, errKind(errS), errKind(errF)))
	if os.Getenv("C16_DEBUG") != "" {
		fmt.Fprintf(os.Stderr, "oslinks %s %s store=%v fetch=%v\n  got    %s\n  expect %s\n", sc.Kind, sc.Tree, errS, errF, describe(got), describe(expect))
	}
	expectLinks(r, sc, expect, got, errS, errF)
	r.Distinct("oslinks|" + sc.Kind + "|" + sc.Tree)
}

func linkScenarios(r *h.Run) {
	for _, kind := range []string{"mutable", "immutable"} {
		for _, tree := range []string{"link-to-file", "links-nested", "link-to-dir", "dangling-link"} {
			runLinks(r, linkScenario{Type: "oslinks", Kind: kind, Tree: tree})
		}
	}
}

// expectLinks. Recorded from the unmodified library: a link to a file (relative, upwards, absolute) is stored as a regular
// file holding the linked content under the link's name; a tree with a link to a directory or a dangling link is REFUSED
// by Store (error). So: whenever Store reports success a Fetch must succeed, and if both report success every name of the
// source must be present in the destination — exactly the expected tree where the library defines one.
func expectLinks(r *h.Run, sc linkScenario, expect, got map[string]string, errS, errF error) {
	if errS != nil {
		if sc.Tree == "link-to-file" || sc.Tree == "links-nested" {
			r.Fail("os-links:"+sc.Kind+":"+sc.Tree+":store-refuses-link-to-file", "Store of a tree with links to regular files fails: "+errS.Error(), sc)
		}
		return
	}
	if errF != nil {
		r.Fail("store-success-not-visible:"+sc.Kind+":os-links:"+sc.Tree, "Store of a tree with symbolic links reported success, the Fetch that follows fails: "+errF.Error(), sc)
		return
	}
	switch sc.Tree {
	case "link-to-file", "links-nested":
		if describe(got) != describe(expect) {
			r.Fail("fetch-success-not-a-stored-version:"+sc.Kind+":os-links:"+sc.Tree,
				"Store and Fetch reported success; installed ["+describe(got)+"] but the stored tree is ["+describe(expect)+"] (links to files are stored as the linked content under the link's name)", sc)
		}
	default:
		name := map[string]string{"link-to-dir": "link-sub", "dangling-link": "link-nowhere"}[sc.Tree]
		_, present := got[name]
		for k, v := range expect {
			if got[k] != v {
				present = false
			}
		}
		if !present {
			r.Fail("fetch-success-not-a-stored-version:"+sc.Kind+":os-links:"+sc.Tree,
				"Store and Fetch reported success but the destination ["+describe(got)+"] lacks part of the stored tree (entry "+name+")", sc)
		}
	}
}
