package main

// keys.go — several keys per history. Every key has its own entry: Fetch(k) may only install a version stored under k,
// Fetch of a key under which nothing was stored fails, CleanEntry(k) leaves the entries of the other keys alone.

import (
	"fmt"

	"verif/harness/internal/h"
)

// The key alphabets. Hierarchical keys share first / last elements; several keys are string prefixes of others.
// Mutable cache: a key with a separator cannot be used at all even by the unmodified code (the lock directory
// "<entry>/lockfile-SharedMutableCache-<key>" then has a parent that does not exist: Store and Fetch fail with an error,
// nothing is reported as success), so its alphabet has none.
// Keys of which one is a PATH prefix of another ("a" and "a/b") are excluded for the immutable cache: the entry of the
// longer key is a directory inside the entry of the shorter one (see the note in the final report).
var keyAlphabet = map[string][]string{
	"immutable": {"main", "project-a/main", "project-b/main", "project-a/lib", "lib/project-a", "project-a/main-2", "project-a/mai"},
	"mutable":   {"main", "project-a", "project-a-main", "project", "a-main", "mai"},
}
var keysNeverStored = map[string][]string{
	"immutable": {"project-c/main", "project-b/lib", "lib/main", "ain"},
	"mutable":   {"project-b", "project-", "main-", "ain"},
}

func genKeys(r *h.Run, kind string, idx int) seqScenario {
	alpha := keyAlphabet[kind]
	never := keysNeverStored[kind]
	sc := seqScenario{Type: "seq", Kind: kind, Env: envFor(idx)}
	sc.Env.Layout = "" // the default key is not used here
	nv := 0
	n := 8 + r.Rng.Intn(8)
	used := map[string]bool{}
	for i := 0; i < n; i++ {
		switch x := r.Rng.Intn(10); {
		case x < 4 && nv < 6:
			k := alpha[r.Rng.Intn(len(alpha))]
			used[k] = true
			sc.Ops = append(sc.Ops, opSpec{Op: "store", Key: k, Ver: nv})
			nv++
		case x < 8:
			k := alpha[r.Rng.Intn(len(alpha))]
			if r.Rng.Intn(4) == 0 {
				k = never[r.Rng.Intn(len(never))]
			}
			sc.Ops = append(sc.Ops, opSpec{Op: "fetch", Key: k})
		default:
			sc.Ops = append(sc.Ops, opSpec{Op: "clean", Key: alpha[r.Rng.Intn(len(alpha))]})
		}
	}
	// every key that was used is fetched at the end, and so is a key that never was
	for _, k := range alpha {
		if used[k] {
			sc.Ops = append(sc.Ops, opSpec{Op: "fetch", Key: k})
		}
	}
	sc.Ops = append(sc.Ops, opSpec{Op: "fetch", Key: never[idx%len(never)]})
	if nv == 0 {
		nv = 1
	}
	// half of the histories carry one fault somewhere: what fails under one key must not disturb another
	if r.Rng.Intn(2) == 0 {
		i := r.Rng.Intn(n)
		sc.Ops[i].Fault = &faultSpec{K: r.Rng.Intn(120), Kind: []string{"err", "crash", "ctxcancel"}[r.Rng.Intn(3)]}
	}
	sc.Versions = specsFor(int64(idx)*11+r.Seed, nv, idx)
	return sc
}

func keyScenarios(r *h.Run) {
	for _, kind := range []string{"mutable", "immutable"} {
		a := keyAlphabet[kind]
		nvr := keysNeverStored[kind]
		// the plain histories first: two keys with a common last element; a never-stored key; CleanEntry of a neighbour
		runSeq(r, seqScenario{Type: "seq", Kind: kind, Versions: specsFor(21, 4, 1), Ops: []opSpec{
			{Op: "store", Key: a[1], Ver: 0}, {Op: "store", Key: a[2], Ver: 1}, {Op: "fetch", Key: a[1]}, {Op: "fetch", Key: a[2]},
			{Op: "fetch", Key: nvr[0]}, {Op: "fetch", Key: a[0]}, {Op: "store", Key: a[0], Ver: 2}, {Op: "store", Key: a[1], Ver: 3},
			{Op: "clean", Key: a[2]}, {Op: "clean", Key: a[0]}, {Op: "fetch", Key: a[1]}, {Op: "fetch", Key: a[2]}, {Op: "fetch", Key: a[0]},
			{Op: "fetch", Key: nvr[1]}, {Op: "fetch", Key: nvr[2]}, {Op: "fetch", Key: nvr[3]}}}, false)
		for i, n := 0, r.N(25, 300); i < n; i++ {
			sc := genKeys(r, kind, i)
			runSeq(r, sc, false)
			r.Count("several-keys:" + kind)
			r.Distinct(fmt.Sprintf("keys|%s|%v", kind, sc.Ops))
		}
	}
}
