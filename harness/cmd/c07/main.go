// C07 harness: archives are faithful.
//
//   - round trip: generated trees are written to a back end (OS / in-memory), zipped with the library, unzipped with
//     the library (with and without limits); the oracle compares paths, kinds, contents, mtimes (to the second) and the
//     returned list with the tree that was generated (independently of the Coq model);
//   - views: NewZipFileSystem / NewTarFileSystem over archives of the same tree must expose the same paths, kinds, sizes
//     and contents (also on a second read), refuse every mutating call without changing anything, and serve nothing
//     once closed (every method of the file system is called by reflection);
//   - correspondence cases for GU.C07.Model.check_case: CRound (walker + unzip), CRaw (hand-made archives: sanitiser
//     and unzip branches), CView (zipfs/tarfs model), CClosed (generated guard table vs observed outcome).
package main

import (
	"archive/tar"
	"archive/zip"
	"bytes"
	"context"
	"crypto/sha256"
	"encoding/json"
	"encoding/hex"
	"fmt"
	"io"
	"math/rand"
	"os"
	"os/user"
	"path/filepath"
	"reflect"
	"sort"
	"strings"
	"time"

	"github.com/spf13/afero"
	"github.com/spf13/afero/tarfs"
	"github.com/spf13/afero/zipfs"

	"github.com/ARM-software/golang-utils/utils/commonerrors"
	"github.com/ARM-software/golang-utils/utils/filesystem"

	"verif/harness/internal/h"
	"verif/harness/internal/shim"
)

// ---------------------------------------------------------------- scenario description (self-contained: replayable)

type nodeSpec struct {
	Rel   string `json:"rel"` // relative path, '/' separated; parents come before children
	Dir   bool   `json:"dir,omitempty"`
	Data  []byte `json:"data,omitempty"`  // literal content (small files)
	Size  int    `json:"size,omitempty"`  // generated content (large files): Size bytes from GenSeed
	Seed  int64  `json:"gseed,omitempty"` //
	Comp  bool   `json:"comp,omitempty"`  // generated content is compressible
	MTime int64  `json:"mtime"`           // nanoseconds since the epoch
	// Nested: the file's content is a real zip archive of this (flat, parents first) tree
	Nested []nodeSpec `json:"nested,omitempty"`
}

type limSpec struct {
	MaxFile   int64 `json:"max_file"`
	MaxTotal  int64 `json:"max_total"`
	MaxCount  int64 `json:"max_count"`
	MaxDepth  int64 `json:"max_depth"`
	Recursive bool  `json:"recursive,omitempty"`
	Rel       bool  `json:"relative,omitempty"` // the four numbers are offsets from the exact fit of the tree / archive
}

type rawEntry struct {
	Name  string `json:"name"`
	Data  []byte `json:"data,omitempty"`
	MTime int64  `json:"mtime"` // seconds
}

type scenario struct {
	Kind        string     `json:"kind"`    // round | raw | view | readonly | closed
	Backend     string     `json:"backend"` // os | mem
	Tree        []nodeSpec `json:"tree,omitempty"`
	Limits      *limSpec   `json:"limits,omitempty"`
	ZipLimits   bool       `json:"zip_limits,omitempty"`  // zip with (generous) limits instead of none
	Prepopulate bool       `json:"prepopulate,omitempty"` // destination already holds longer files of the same names
	Raw         []rawEntry `json:"raw,omitempty"`
	Archive     string     `json:"archive,omitempty"` // zip | tar (view / readonly / closed)
	CloseOrder  string     `json:"close_order,omitempty"` // closed: "" = fs.Close() | file-fs | fs-file | fs-fs
	DestSpell   string     `json:"dest_spelling,omitempty"` // round: how the destination is written (trailing, inner-dot, double-sep, dotdot, dot-trailing, relative, rel-dot)
	ViewLim     string     `json:"view_limit,omitempty"`    // view: limits relative to the archive's own size (size-1, size, size+1, huge, depth0)
	FaultSide   string     `json:"fault_side,omitempty"`    // fault: unzip | zip
	FaultOp     string     `json:"fault_op,omitempty"`      // fault: back-end operation that fails (f.Write, f.Close, MkdirAll, Chtimes, OpenFile, ...)
	FaultK      int        `json:"fault_k,omitempty"`       // fault: the k-th such operation (0-based)
	Lose        bool       `json:"fault_loses_data,omitempty"` // fault: the failing Close also loses the file's data (delayed allocation)
	Announced   int        `json:"announced,omitempty"`        // size-lie: bytes Stat announces for d/payload.bin
	Served      int        `json:"served,omitempty"`           // size-lie: bytes Open really serves
}

func (n nodeSpec) content() []byte {
	if n.Dir {
		return nil
	}
	if n.Nested != nil {
		var buf bytes.Buffer
		zw := zip.NewWriter(&buf)
		for _, m := range n.Nested {
			name := m.Rel
			if m.Dir {
				name += "/"
			}
			fw, err := zw.CreateHeader(&zip.FileHeader{Name: name, Method: zip.Deflate, Modified: time.Unix(0, m.MTime)})
			if err == nil && !m.Dir {
				_, _ = fw.Write(m.content())
			}
		}
		_ = zw.Close()
		return buf.Bytes()
	}
	if n.Size == 0 {
		return n.Data
	}
	rg := rand.New(rand.NewSource(n.Seed))
	b := make([]byte, n.Size)
	if n.Comp {
		word := []byte("golang-utils archive faithful ")
		for i := range b {
			b[i] = word[(i+int(n.Seed))%len(word)]
			if i%997 == 0 {
				b[i] = byte(rg.Intn(256))
			}
		}
	} else {
		_, _ = rg.Read(b)
	}
	return b
}

// ---------------------------------------------------------------- back ends

type world struct {
	fs   filesystem.FS
	raw  afero.Fs // direct access for building and dumping, not through the library
	base string
}

var scratch string
var worldSeq int

func newWorld(backend string) *world {
	worldSeq++
	if backend == "mem" {
		m := afero.NewMemMapFs()
		base := fmt.Sprintf("/w%d", worldSeq)
		_ = m.MkdirAll(base, 0o755)
		return &world{fs: filesystem.NewVirtualFileSystem(m, filesystem.InMemoryFS, filesystem.IdentityPathConverterFunc), raw: m, base: base}
	}
	base := filepath.Join(scratch, fmt.Sprintf("w%d", worldSeq))
	_ = os.MkdirAll(base, 0o755)
	return &world{fs: filesystem.NewStandardFileSystem(), raw: afero.NewOsFs(), base: base}
}

func (w *world) done() {
	if strings.HasPrefix(w.base, scratch) && scratch != "" {
		_ = os.RemoveAll(w.base)
	}
}

func (w *world) build(root string, tree []nodeSpec) error {
	if err := w.raw.MkdirAll(root, 0o755); err != nil {
		return err
	}
	for _, n := range tree {
		p := filepath.Join(root, filepath.FromSlash(n.Rel))
		if n.Dir {
			if err := w.raw.Mkdir(p, 0o755); err != nil {
				return err
			}
			continue
		}
		if err := afero.WriteFile(w.raw, p, n.content(), 0o644); err != nil {
			return err
		}
	}
	// times: deepest first, so that creating children no longer disturbs a directory
	for i := len(tree) - 1; i >= 0; i-- {
		n := tree[i]
		t := time.Unix(0, n.MTime)
		if err := w.raw.Chtimes(filepath.Join(root, filepath.FromSlash(n.Rel)), t, t); err != nil {
			return err
		}
	}
	return nil
}

type dumpNode struct {
	Rel   string
	Dir   bool
	Data  []byte
	MTime time.Time
}

func (w *world) dump(root string) (map[string]dumpNode, error) {
	out := map[string]dumpNode{}
	err := afero.Walk(w.raw, root, func(p string, info os.FileInfo, err error) error {
		if err != nil {
			return err
		}
		rel, err := filepath.Rel(root, p)
		if err != nil {
			return err
		}
		if rel == "." {
			return nil
		}
		d := dumpNode{Rel: filepath.ToSlash(rel), Dir: info.IsDir(), MTime: info.ModTime()}
		if !info.IsDir() {
			b, err := afero.ReadFile(w.raw, p)
			if err != nil {
				return err
			}
			d.Data = b
		}
		out[d.Rel] = d
		return nil
	})
	return out, err
}

// ---------------------------------------------------------------- helpers

func errKind(err error) string {
	switch {
	case err == nil:
		return "nil"
	case commonerrors.Any(err, commonerrors.ErrMalicious):
		return "malicious"
	case commonerrors.Any(err, commonerrors.ErrTooLarge):
		return "toolarge"
	case commonerrors.Any(err, commonerrors.ErrCondition):
		return "condition"
	case commonerrors.Any(err, commonerrors.ErrNotFound):
		return "notfound"
	case commonerrors.Any(err, commonerrors.ErrEmpty):
		return "empty"
	case commonerrors.Any(err, commonerrors.ErrInvalid):
		return "invalid"
	default:
		return "other"
	}
}

func short(b []byte) string {
	if len(b) <= 24 {
		return fmt.Sprintf("%q", b)
	}
	s := sha256.Sum256(b)
	return fmt.Sprintf("%d bytes sha256=%s", len(b), hex.EncodeToString(s[:6]))
}

func hasArchiveExt(rel string) bool {
	e := strings.ToLower(filepath.Ext(rel))
	for _, x := range filesystem.ZipFileExtensions {
		if e == x {
			return true
		}
	}
	return false
}

// expectedAfter: what must be on disk (and, except for `unlisted`, in the returned list) after unzipping an archive of
// the tree.  With limits that apply recursively a FILE that is a real archive and carries an archive extension is replaced
// by a directory <dir>/<stem> holding the nested tree (that directory itself is no entry of any archive: unlisted).
func expectedAfter(tree []nodeSpec, recursive bool) (want map[string]nodeSpec, unlisted map[string]bool) {
	want, unlisted, _, _ = expectedAfterFull(tree, recursive)
	return
}

// expectedAfterFull also says whether recursive extraction must REFUSE the archive (a nested archive whose stem is "..":
// "...zip", "...Z", ... has no directory to be expanded into; unzipNestedZipFiles answers with the malicious kind, which is
// what confinement demands) and whether the expansion would collide with other entries (no expectation is derived then).
// A stem "" or "." (".zip", "..zip") expands the nested archive into the directory that holds it.
func expectedAfterFull(tree []nodeSpec, recursive bool) (want map[string]nodeSpec, unlisted map[string]bool, refuse bool, conflict bool) {
	want, unlisted = map[string]nodeSpec{}, map[string]bool{}
	var expand []nodeSpec
	for _, n := range tree {
		if recursive && !n.Dir && n.Nested != nil && hasArchiveExt(n.Rel) {
			expand = append(expand, n)
			continue
		}
		want[n.Rel] = n
	}
	add := func(rel string, m nodeSpec) {
		if _, ok := want[rel]; ok {
			conflict = true
		}
		m.Rel = rel
		want[rel] = m
	}
	for _, n := range expand {
		base := n.Rel[strings.LastIndex(n.Rel, "/")+1:]
		parent := n.Rel[:len(n.Rel)-len(base)] // "" or "dir/"
		stem := strings.TrimSuffix(base, filepath.Ext(base))
		prefix := parent + stem + "/"
		switch stem {
		case "..":
			refuse = true
			continue
		case "", ".":
			prefix = parent
		default:
			add(parent+stem, nodeSpec{Dir: true})
			unlisted[parent+stem] = true
		}
		for _, m := range n.Nested {
			add(prefix+m.Rel, m)
		}
	}
	return
}

func treeStats(tree []nodeSpec) (count int, total int64, maxFile int64, depth int64) {
	for _, n := range tree {
		count++
		d := int64(strings.Count(n.Rel, "/"))
		if d > depth {
			depth = d
		}
		if !n.Dir {
			sz := int64(len(n.content()))
			total += sz
			if sz > maxFile {
				maxFile = sz
			}
		}
	}
	return
}

func (l *limSpec) resolve(tree []nodeSpec, archiveSize int64) (filesystem.ILimits, *limSpec) {
	if l == nil {
		return filesystem.NoLimits(), nil
	}
	r := *l
	if l.Rel {
		count, total, _, depth := treeStats(tree)
		r.MaxFile = archiveSize + l.MaxFile
		r.MaxTotal = total + l.MaxTotal
		r.MaxCount = int64(count) + l.MaxCount
		if l.MaxDepth > -1000 {
			r.MaxDepth = depth + l.MaxDepth
		} else {
			r.MaxDepth = -1
		}
		r.Rel = false
	}
	if r.MaxTotal < 0 {
		r.MaxTotal = 0
	}
	return filesystem.NewLimits(r.MaxFile, uint64(r.MaxTotal), r.MaxCount, r.MaxDepth, r.Recursive), &r
}

// ---------------------------------------------------------------- Coq printers

func coqPathFromString(abs string) string { // "/a/b" or "a/b" -> [[..];[..]]
	var cs []string
	for _, c := range strings.Split(filepath.ToSlash(abs), "/") {
		if c != "" {
			cs = append(cs, h.Str(c))
		}
	}
	return h.List(cs)
}

func coqLim(l *limSpec) string {
	if l == nil {
		return "None"
	}
	return fmt.Sprintf("(Some (mkLim %s %s %s %s %s))", h.Z(l.MaxFile), h.Z(l.MaxTotal), h.Z(l.MaxCount), h.Z(l.MaxDepth), h.Bool(l.Recursive))
}

func coqRes(k string) string {
	switch k {
	case "nil":
		return "UOk"
	case "malicious":
		return "UMalicious"
	case "toolarge":
		return "UTooLarge"
	}
	return "UErr"
}

// coqTree prints the tree with the children of every directory in the order `order` (rel -> rank)
func coqTree(tree []nodeSpec, order map[string]int) string {
	kids := map[string][]nodeSpec{}
	for _, n := range tree {
		parent := ""
		if i := strings.LastIndex(n.Rel, "/"); i >= 0 {
			parent = n.Rel[:i]
		}
		kids[parent] = append(kids[parent], n)
	}
	var pr func(parent string) string
	pr = func(parent string) string {
		ks := kids[parent]
		sort.SliceStable(ks, func(i, j int) bool { return order[ks[i].Rel] < order[ks[j].Rel] })
		ts := make([]string, len(ks))
		for i, n := range ks {
			base := n.Rel[strings.LastIndex(n.Rel, "/")+1:]
			if n.Dir {
				ts[i] = fmt.Sprintf("(%s, Dir %s %s)", h.Str(base), h.Z(n.MTime), pr(n.Rel))
			} else {
				ts[i] = fmt.Sprintf("(%s, File %s %s)", h.Str(base), h.Bytes(n.content()), h.Z(n.MTime))
			}
		}
		return h.List(ts)
	}
	return pr("")
}

func coqDump(d map[string]dumpNode) string {
	keys := make([]string, 0, len(d))
	for k := range d {
		keys = append(keys, k)
	}
	sort.Strings(keys)
	ts := make([]string, len(keys))
	for i, k := range keys {
		n := d[k]
		ts[i] = fmt.Sprintf("(mkO %s %s %s %s)", coqPathFromString(n.Rel), h.Bool(n.Dir), h.Bytes(n.Data), h.Z(n.MTime.UnixNano()))
	}
	return h.List(ts)
}

func coqPaths(ps []string) string {
	ts := make([]string, len(ps))
	for i, p := range ps {
		ts[i] = coqPathFromString(p)
	}
	return h.List(ts)
}

func coqEntries(es []rawEntry) string {
	ts := make([]string, len(es))
	for i, e := range es {
		ts[i] = fmt.Sprintf("(mkE %s %s %s)", h.Str(e.Name), h.Bytes(e.Data), h.Z(e.MTime))
	}
	return h.List(ts)
}

// ---------------------------------------------------------------- round trip

func readZipListing(w *world, archive string) (names []string, sizes []int64, secs []int64, err error) {
	b, err := afero.ReadFile(w.raw, archive)
	if err != nil {
		return
	}
	zr, err := zip.NewReader(bytes.NewReader(b), int64(len(b)))
	if err != nil {
		return
	}
	for _, f := range zr.File {
		names = append(names, f.Name)
		sizes = append(sizes, int64(f.UncompressedSize64))
		secs = append(secs, f.Modified.Unix())
	}
	return
}

// spellDest writes the clean absolute destination in another, equivalent way
func spellDest(dest, how string) string {
	dir, base := filepath.Dir(dest), filepath.Base(dest)
	switch how {
	case "trailing":
		return dest + "/"
	case "inner-dot":
		return dir + "/./" + base
	case "double-sep":
		return dir + "//" + base
	case "dotdot":
		return dir + "/zz/../" + base
	case "dot-trailing":
		return dest + "/."
	case "relative", "rel-dot":
		rel := strings.TrimPrefix(dest, "/") // in-memory back end: relative names are a namespace of their own
		if strings.HasPrefix(dest, scratch) {
			if cwd, err := os.Getwd(); err == nil {
				if x, err := filepath.Rel(cwd, dest); err == nil {
					rel = x
				}
			}
		}
		if how == "rel-dot" {
			return "./" + rel
		}
		return rel
	}
	return dest
}

func runRound(r *h.Run, sc scenario, emit bool) {
	r.Eval()
	w := newWorld(sc.Backend)
	defer w.done()
	src, archive, dest := filepath.Join(w.base, "src"), filepath.Join(w.base, "a.zip"), filepath.Join(w.base, "out")
	if err := w.build(src, sc.Tree); err != nil {
		r.Note("harness could not build a tree: " + err.Error())
		r.Count("skipped:build-error")
		return
	}
	ctx := context.Background()
	var err error
	if sc.ZipLimits {
		err = w.fs.ZipWithContextAndLimits(ctx, src, archive, filesystem.NewLimits(1<<40, 1<<40, 1<<40, -1, false))
	} else {
		err = w.fs.Zip(src, archive)
	}
	if err != nil {
		r.Fail("roundtrip-zip-error:"+errKind(err), "Zip of a tree of regular files and directories failed: "+err.Error(), sc)
		return
	}
	st, _ := w.raw.Stat(archive)
	limits, lim := sc.Limits.resolve(sc.Tree, st.Size())
	count, total, maxFile, depth := treeStats(sc.Tree)
	if lim != nil && lim.Recursive {
		for _, n := range sc.Tree {
			if !n.Dir && n.Nested == nil && hasArchiveExt(n.Rel) && bytes.HasPrefix(n.content(), []byte("PK\x03\x04")) {
				// recursive extraction expands (or rejects) what looks like a nested archive: by design, not a round trip
				r.Count("skipped:recursive-limits-with-zip-looking-content")
				return
			}
		}
	}
	expectOK := lim == nil || (lim.MaxFile >= maxFile && lim.MaxFile >= st.Size() && lim.MaxTotal >= total && lim.MaxCount >= int64(count) && (lim.MaxDepth < 0 || lim.MaxDepth >= depth))
	if sc.Prepopulate {
		for _, n := range sc.Tree {
			if !n.Dir {
				p := filepath.Join(dest, filepath.FromSlash(n.Rel))
				_ = w.raw.MkdirAll(filepath.Dir(p), 0o755)
				_ = afero.WriteFile(w.raw, p, append(append([]byte{}, n.content()...), []byte("-stale-tail-of-an-older-extraction")...), 0o644)
			}
		}
	}
	var list []string
	spelled := spellDest(dest, sc.DestSpell)
	if sc.Limits == nil {
		list, err = w.fs.Unzip(archive, spelled)
	} else {
		list, err = w.fs.UnzipWithContextAndLimits(ctx, archive, spelled, limits)
	}
	dest = filepath.Clean(spelled) // what the library works with; everything below is relative to it
	kind := errKind(err)
	r.Count("round:" + sc.Backend + ":" + kind)
	if sc.DestSpell != "" {
		r.Count("round:dest-spelling=" + sc.DestSpell + ":" + kind)
	}
	got, derr := w.dump(dest)
	if derr != nil && err == nil {
		r.Fail("roundtrip-dump-error", "cannot walk the extraction: "+derr.Error(), sc)
		return
	}
	// ---- oracle (independent of the model)
	_, _, refuseNested, conflictNested := expectedAfterFull(sc.Tree, lim != nil && lim.Recursive)
	if conflictNested {
		r.Count("skipped:nested-expansion-collides-with-other-entries")
		return
	}
	if refuseNested {
		// recursive extraction of a nested archive named "...<ext>": there is no directory to expand it into; the only
		// demands are the refusal (malicious kind) and that nothing appears beside the destination
		r.Count("round:nested-dotdot-stem:" + kind)
		if !commonerrors.Any(err, commonerrors.ErrMalicious) {
			r.Fail("roundtrip-nested-dotdot-not-refused", fmt.Sprintf("a nested archive whose stem is \"..\" was not refused with the malicious kind under recursive limits (result: %v)", err), sc)
		}
		if outside, oerr := w.dump(w.base); oerr == nil {
			for rel := range outside {
				if rel != "src" && rel != "a.zip" && rel != "out" && !strings.HasPrefix(rel, "src/") && !strings.HasPrefix(rel, "out/") {
					r.Fail("roundtrip-nested-escape", fmt.Sprintf("recursive extraction created %q beside the destination", rel), sc)
				}
			}
		}
		return
	}
	if expectOK {
		if err != nil {
			r.Fail("roundtrip-unzip-error:"+kind, "Unzip of an archive produced by Zip failed: "+err.Error(), sc)
		} else {
			want, unlisted := expectedAfter(sc.Tree, lim != nil && lim.Recursive)
			for rel, n := range want {
				g, ok := got[rel]
				switch {
				case !ok:
					r.Fail("roundtrip-missing", fmt.Sprintf("entry %q of the tree is missing after unzip", rel), sc)
				case g.Dir != n.Dir:
					r.Fail("roundtrip-kind", fmt.Sprintf("entry %q changed kind (dir=%v -> dir=%v)", rel, n.Dir, g.Dir), sc)
				case !n.Dir && !bytes.Equal(g.Data, n.content()):
					r.Fail("roundtrip-content", fmt.Sprintf("content of %q differs: %s -> %s", rel, short(n.content()), short(g.Data)), sc)
				}
				if ok && g.Dir == n.Dir && !unlisted[rel] && g.MTime.Unix() != time.Unix(0, n.MTime).Unix() {
					what := "file"
					if n.Dir {
						what = "dir"
					}
					r.Fail("roundtrip-mtime:"+what, fmt.Sprintf("mtime of %q: %v -> %v (differs at one-second precision)", rel, time.Unix(0, n.MTime).UTC(), g.MTime.UTC()), sc)
				}
			}
			for rel := range got {
				if _, ok := want[rel]; !ok {
					r.Fail("roundtrip-extra", fmt.Sprintf("unzip created %q which is not in the tree", rel), sc)
				}
			}
			seen := map[string]int{}
			for _, p := range list {
				rel, rerr := filepath.Rel(dest, p)
				if rerr != nil {
					rel = p
				}
				seen[filepath.ToSlash(rel)]++
			}
			for rel := range want {
				if unlisted[rel] {
					delete(seen, rel) // destination directory of a nested archive: may or may not be named
					continue
				}
				if seen[rel] != 1 {
					r.Fail("roundtrip-list", fmt.Sprintf("returned list names %q %d times (expected exactly once: it was created)", rel, seen[rel]), sc)
				}
			}
			for rel := range seen {
				if _, ok := want[rel]; !ok {
					r.Fail("roundtrip-list", fmt.Sprintf("returned list names %q which is not an entry of the tree", rel), sc)
				}
			}
		}
	} else if err == nil {
		// limits below the tree's needs must not be silently ignored (C03 owns the details; this keeps the generator honest)
		r.Count("round:limit-too-small-accepted")
	}
	// ---- correspondence
	hasNested := false
	for _, n := range sc.Tree {
		if n.Nested != nil {
			hasNested = true
		}
	}
	if emit && !sc.Prepopulate && !(hasNested && lim != nil && lim.Recursive) {
		names, sizes, secs, lerr := readZipListing(w, archive)
		if lerr != nil {
			r.Fail("roundtrip-archive-unreadable", "archive/zip cannot list the produced archive: "+lerr.Error(), sc)
			return
		}
		order := map[string]int{}
		for i, n := range names {
			order[strings.TrimSuffix(n, "/")] = i
		}
		oe := make([]string, len(names))
		for i := range names {
			oe[i] = fmt.Sprintf("(%s, %s, %s)", h.Str(names[i]), h.Z(sizes[i]), h.Z(secs[i]))
		}
		dumpT := "[]"
		if err == nil {
			dumpT = coqDump(got)
		}
		r.Case(fmt.Sprintf("(CRound %s %s %s %s %s %s %s)", coqTree(sc.Tree, order), coqPathFromString(dest), coqLim(lim),
			h.List(oe), coqRes(kind), coqPaths(list), dumpT), map[string]any{"scenario": sc, "result": kind})
	}
	if len(sc.Tree) > 1 {
		r.Distinct(fmt.Sprintf("round|%s|%v|%v", sc.Backend, sc.Limits, sc.Tree))
	}
	r.Sample(map[string]any{"kind": "round", "backend": sc.Backend, "entries": len(sc.Tree), "limits": lim, "result": kind, "listed": len(list)})
}

// ---------------------------------------------------------------- raw archives (sanitiser / unzip branches)

func writeRawZip(w *world, archive string, es []rawEntry) error {
	var buf bytes.Buffer
	zw := zip.NewWriter(&buf)
	for _, e := range es {
		fw, err := zw.CreateHeader(&zip.FileHeader{Name: e.Name, Method: zip.Deflate, Modified: time.Unix(e.MTime, 0)})
		if err != nil {
			return err
		}
		if _, err = fw.Write(e.Data); err != nil {
			return err
		}
	}
	if err := zw.Close(); err != nil {
		return err
	}
	return afero.WriteFile(w.raw, archive, buf.Bytes(), 0o644)
}

func runRaw(r *h.Run, sc scenario, emit bool) {
	r.Eval()
	w := newWorld(sc.Backend)
	defer w.done()
	archive, dest := filepath.Join(w.base, "raw.zip"), filepath.Join(w.base, "sub", "out")
	if err := writeRawZip(w, archive, sc.Raw); err != nil {
		r.Count("skipped:raw-writer-refused")
		return
	}
	outsideBefore, _ := w.dump(w.base)
	st, _ := w.raw.Stat(archive)
	var fake []nodeSpec
	limits, lim := sc.Limits.resolve(fake, st.Size())
	var list []string
	var err error
	if sc.Limits == nil {
		list, err = w.fs.Unzip(archive, dest)
	} else {
		list, err = w.fs.UnzipWithContextAndLimits(context.Background(), archive, dest, limits)
	}
	kind := errKind(err)
	r.Count("raw:" + kind)
	// oracle: whatever the archive says, nothing appears outside the destination and the list stays inside it
	after, _ := w.dump(w.base)
	for rel := range after {
		if _, ok := outsideBefore[rel]; !ok && rel != "sub" && !strings.HasPrefix(rel, "sub/out") {
			r.Fail("raw-escape", fmt.Sprintf("unzip created %q outside the destination", rel), sc)
		}
	}
	for _, p := range list {
		if p != dest && !strings.HasPrefix(p, dest+"/") {
			r.Fail("raw-list-outside", fmt.Sprintf("returned list names %q outside the destination", p), sc)
		}
	}
	if emit {
		got := map[string]dumpNode{}
		if err == nil {
			got, _ = w.dump(dest)
		}
		r.Case(fmt.Sprintf("(CRaw %s %s %s %s %s %s)", coqEntries(sc.Raw), coqPathFromString(dest), coqLim(lim), coqRes(kind), coqPaths(list), coqDump(got)),
			map[string]any{"scenario": sc, "result": kind})
	}
	r.Distinct(fmt.Sprintf("raw|%v", sc.Raw))
}

// ---------------------------------------------------------------- archive views

func writeTar(w *world, archive string, tree []nodeSpec) error {
	var buf bytes.Buffer
	tw := tar.NewWriter(&buf)
	for _, n := range tree {
		hd := &tar.Header{Name: n.Rel, Mode: 0o644, ModTime: time.Unix(0, n.MTime), Typeflag: tar.TypeReg, Format: tar.FormatPAX}
		if n.Dir {
			hd.Name += "/"
			hd.Typeflag = tar.TypeDir
			hd.Mode = 0o755
		} else {
			hd.Size = int64(len(n.content()))
		}
		if err := tw.WriteHeader(hd); err != nil {
			return err
		}
		if !n.Dir {
			if _, err := tw.Write(n.content()); err != nil {
				return err
			}
		}
	}
	if err := tw.Close(); err != nil {
		return err
	}
	return afero.WriteFile(w.raw, archive, buf.Bytes(), 0o644)
}

// openView builds the archive of the tree and opens the library's file system over it.
func openView(r *h.Run, w *world, sc scenario) (filesystem.ICloseableFS, filesystem.File, string, bool) {
	src := filepath.Join(w.base, "src")
	archive := filepath.Join(w.base, "a."+sc.Archive)
	if sc.Archive == "zip" {
		if err := w.build(src, sc.Tree); err != nil {
			r.Count("skipped:build-error")
			return nil, nil, "", false
		}
		if err := w.fs.Zip(src, archive); err != nil {
			r.Fail("roundtrip-zip-error:"+errKind(err), "Zip failed: "+err.Error(), sc)
			return nil, nil, "", false
		}
	} else if err := writeTar(w, archive, sc.Tree); err != nil {
		r.Count("skipped:tar-writer-refused")
		return nil, nil, "", false
	}
	st, _ := w.raw.Stat(archive)
	limits, lim := sc.Limits.resolve(sc.Tree, st.Size())
	if sc.ViewLim != "" {
		l := limSpec{MaxFile: st.Size(), MaxTotal: 1 << 40, MaxCount: 1 << 30, MaxDepth: -1}
		switch sc.ViewLim {
		case "size-1":
			l.MaxFile = st.Size() - 1
		case "size+1":
			l.MaxFile = st.Size() + 1
		case "huge":
			l.MaxFile = 1 << 40
		case "depth0":
			l.MaxDepth = 0
		}
		limits, lim = filesystem.NewLimits(l.MaxFile, uint64(l.MaxTotal), l.MaxCount, l.MaxDepth, false), &l
	}
	var v filesystem.ICloseableFS
	var f filesystem.File
	var err error
	if sc.Archive == "zip" {
		v, f, err = filesystem.NewZipFileSystem(w.fs, archive, limits)
	} else {
		v, f, err = filesystem.NewTarFileSystem(w.fs, archive, limits)
	}
	if lim != nil {
		// the archive-size guard of newZipReader / newTarReader: refused (too large) iff the archive is strictly larger
		refused := commonerrors.Any(err, commonerrors.ErrTooLarge)
		r.Case(fmt.Sprintf("(COpen %s %s %s)", coqLim(lim), h.Z(st.Size()), h.Bool(refused)), map[string]any{"scenario": sc, "archive_size": st.Size(), "refused": refused})
		r.Count(fmt.Sprintf("view-open:%s:limit=%s:%s", sc.Archive, sc.ViewLim, errKind(err)))
		if lim.MaxFile < st.Size() {
			if err == nil {
				r.Fail("view-open-limit-ignored:"+sc.Archive, fmt.Sprintf("the %s archive has %d bytes, the limits allow %d, yet the file system opens", sc.Archive, st.Size(), lim.MaxFile), sc)
				_ = v.Close()
			} else if !refused {
				r.Fail("view-open-error-kind:"+sc.Archive, fmt.Sprintf("archive above the size limit refused with %v instead of the too-large kind", err), sc)
			}
			if f != nil {
				_ = f.Close()
			}
			return nil, nil, "", false
		}
	}
	if err != nil || v == nil {
		r.Fail("view-open-error:"+sc.Archive, fmt.Sprintf("cannot open the %s file system over an archive of the tree: %v", sc.Archive, err), sc)
		return nil, nil, "", false
	}
	return v, f, archive, true
}

func sortedCopy(s []string) []string {
	c := append([]string{}, s...)
	sort.Strings(c)
	return c
}

func childrenOf(tree []nodeSpec, dir string) []string {
	var out []string
	for _, n := range tree {
		parent := ""
		base := n.Rel
		if i := strings.LastIndex(n.Rel, "/"); i >= 0 {
			parent, base = n.Rel[:i], n.Rel[i+1:]
		}
		if parent == dir {
			out = append(out, base)
		}
	}
	sort.Strings(out)
	return out
}

func runView(r *h.Run, sc scenario, emit bool) {
	r.Eval()
	w := newWorld(sc.Backend)
	defer w.done()
	v, f, _, ok := openView(r, w, sc)
	if !ok {
		return
	}
	defer func() {
		_ = v.Close()
		if f != nil {
			_ = f.Close()
		}
	}()
	a := sc.Archive
	r.Count("view:" + a)
	var ops []string
	var obs []string
	rec := func(op, rel, o string) {
		if emit {
			ops = append(ops, fmt.Sprintf("(%s, %s)", op, coqPathFromString(rel)))
			obs = append(obs, o)
		}
	}
	emptyDirInvisible := false
	for _, n := range sc.Tree {
		p := "/" + n.Rel
		if n.Rel[0] != '.' && len(n.Rel)%2 == 0 {
			p = n.Rel // relative spelling as well
		}
		// Stat
		info, err := v.Stat(p)
		if err != nil {
			r.Fail("view-missing:"+a, fmt.Sprintf("Stat(%q) on the %s view fails: %v", p, a, err), sc)
			rec("OpStat", n.Rel, "VNotFound")
			continue
		}
		sz := int64(0)
		if !info.IsDir() {
			sz = info.Size()
		}
		rec("OpStat", n.Rel, fmt.Sprintf("(VStat %s %s)", h.Bool(info.IsDir()), h.Z(sz)))
		if info.IsDir() != n.Dir {
			r.Fail("view-kind:"+a, fmt.Sprintf("%q is dir=%v in the tree and dir=%v in the %s view", n.Rel, n.Dir, info.IsDir(), a), sc)
			continue
		}
		if !n.Dir && info.Size() != int64(len(n.content())) {
			r.Fail("view-size:"+a, fmt.Sprintf("%q has %d bytes in the tree and size %d in the %s view", n.Rel, len(n.content()), info.Size(), a), sc)
		}
		// Exists
		ex := v.Exists(p)
		rec("OpExists", n.Rel, fmt.Sprintf("(VBool %s)", h.Bool(ex)))
		kids := childrenOf(sc.Tree, n.Rel)
		if !ex {
			if n.Dir && len(kids) == 0 && a == "tar" {
				emptyDirInvisible = true
				r.Fail("view-empty-dir-invisible:tar", fmt.Sprintf("empty directory %q of the tree: Stat succeeds but Exists answers false on the tar view (listing it, or listing its ancestors recursively, fails)", n.Rel), sc)
				_, lerr := v.Ls(p)
				rec("OpLs", n.Rel, map[bool]string{true: "VInvalid", false: "(VNames [])"}[lerr != nil])
				continue
			}
			r.Fail("view-missing:"+a, fmt.Sprintf("Exists(%q) answers false on the %s view", p, a), sc)
			continue
		}
		if n.Dir {
			isd, err := v.IsDir(p)
			if err != nil || !isd {
				r.Fail("view-kind:"+a, fmt.Sprintf("IsDir(%q) = %v, %v on the %s view", p, isd, err, a), sc)
			}
			rec("OpIsDir", n.Rel, fmt.Sprintf("(VBool %s)", h.Bool(isd)))
			names, err := v.Ls(p)
			if err != nil {
				r.Fail("view-listing:"+a, fmt.Sprintf("Ls(%q) fails on the %s view: %v", p, a, err), sc)
				rec("OpLs", n.Rel, "VInvalid")
			} else {
				if strings.Join(sortedCopy(names), "\x00") != strings.Join(kids, "\x00") {
					r.Fail("view-listing:"+a, fmt.Sprintf("Ls(%q) = %q, the tree has %q", p, sortedCopy(names), kids), sc)
				}
				ts := make([]string, len(names))
				for i, x := range names {
					ts[i] = h.Str(x)
				}
				rec("OpLs", n.Rel, "(VNames "+h.List(ts)+")")
			}
			continue
		}
		isf, err := v.IsFile(p)
		if err != nil || !isf {
			r.Fail("view-kind:"+a, fmt.Sprintf("IsFile(%q) = %v, %v on the %s view", p, isf, err, a), sc)
		}
		want := n.content()
		for attempt := 0; attempt < 3; attempt++ {
			b, err := v.ReadFile(p)
			okRead := (err == nil && bytes.Equal(b, want)) || (len(want) == 0 && len(b) == 0 && (err == nil || commonerrors.Any(err, commonerrors.ErrEmpty)))
			switch {
			case err == nil && len(b) > 0:
				rec("OpRead", n.Rel, "(VData "+h.Bytes(b)+")")
			case commonerrors.Any(err, commonerrors.ErrEmpty) || (err == nil && len(b) == 0):
				rec("OpRead", n.Rel, "VEmptyErr")
			case commonerrors.Any(err, commonerrors.ErrNotFound):
				rec("OpRead", n.Rel, "VNotFound")
			default:
				rec("OpRead", n.Rel, "VOtherErr")
			}
			if !okRead {
				r.Fail("view-content:"+a, fmt.Sprintf("ReadFile(%q) #%d on the %s view = %s, %v; the tree has %s", p, attempt+1, a, short(b), err, short(want)), sc)
			}
		}
		// the same content through every way of opening a handle, each twice (a handle must start at the beginning)
		openers := []struct {
			name string
			open func() (io.Reader, io.Closer, error)
		}{
			{"GenericOpen", func() (io.Reader, io.Closer, error) { fh, e := v.GenericOpen(p); return fh, fh, e }},
			{"OpenFile(O_RDONLY)", func() (io.Reader, io.Closer, error) { fh, e := v.OpenFile(p, os.O_RDONLY, 0o444); return fh, fh, e }},
			{"Open", func() (io.Reader, io.Closer, error) {
				fh, e := v.Open(p)
				if e != nil {
					return nil, nil, e
				}
				rd, _ := fh.(io.Reader)
				return rd, fh, nil
			}},
		}
		for round := 0; round < 2; round++ {
			for _, o := range openers {
				rd, cl, err := o.open()
				if err != nil || rd == nil {
					r.Fail("view-content:"+a, fmt.Sprintf("%s(%q) on the %s view fails: %v", o.name, p, a, err), sc)
					continue
				}
				b, rerr := io.ReadAll(rd)
				_ = cl.Close()
				if rerr != nil || !bytes.Equal(b, want) {
					r.Fail("view-content:"+a, fmt.Sprintf("reading %q through %s (pass %d, after earlier reads) on the %s view gives %s, %v; the tree has %s", p, o.name, round+1, a, short(b), rerr, short(want)), sc)
				}
			}
		}
		if sz, err := v.GetFileSize(p); err != nil || sz != int64(len(want)) {
			r.Fail("view-size:"+a, fmt.Sprintf("GetFileSize(%q) = %d, %v on the %s view; the tree has %d bytes", p, sz, err, a, len(want)), sc)
		}
	}
	// two handles on two DIFFERENT files, reads interleaved; then both files once more
	var fa, fb *nodeSpec
	for i := range sc.Tree {
		n := &sc.Tree[i]
		if !n.Dir && len(n.content()) >= 2 {
			if fa == nil {
				fa = n
			} else if fb == nil {
				fb = n
			}
		}
	}
	if fa != nil && fb != nil {
		ha, ea := v.GenericOpen("/" + fa.Rel)
		hb, eb := v.OpenFile("/"+fb.Rel, os.O_RDONLY, 0o444)
		if ea == nil && eb == nil {
			half := make([]byte, len(fa.content())/2)
			_, e1 := io.ReadFull(ha, half)
			allB, e2 := io.ReadAll(hb)
			restA, e3 := io.ReadAll(ha)
			gotA := append(append([]byte{}, half...), restA...)
			if e1 != nil || e2 != nil || e3 != nil || !bytes.Equal(gotA, fa.content()) || !bytes.Equal(allB, fb.content()) {
				r.Fail("view-content:"+a, fmt.Sprintf("interleaved reads of %q and %q on the %s view: %s / %s (%v %v %v); the tree has %s / %s", fa.Rel, fb.Rel, a, short(gotA), short(allB), e1, e2, e3, short(fa.content()), short(fb.content())), sc)
			}
			_ = ha.Close()
			_ = hb.Close()
			for _, n := range []*nodeSpec{fa, fb, fa} {
				if b, err := v.ReadFile("/" + n.Rel); err != nil || !bytes.Equal(b, n.content()) {
					r.Fail("view-content:"+a, fmt.Sprintf("ReadFile(%q) after interleaved reads on the %s view = %s, %v", n.Rel, a, short(b), err), sc)
				}
			}
			// observation only: two handles on the SAME file (afero's tarfs shares one reader per entry)
			h1, e1 := v.GenericOpen("/" + fa.Rel)
			h2, e2 := v.GenericOpen("/" + fa.Rel)
			if e1 == nil && e2 == nil {
				_, _ = io.ReadFull(h1, half)
				b2, _ := io.ReadAll(h2)
				r1, _ := io.ReadAll(h1)
				r.Count(fmt.Sprintf("view:same-file-two-handles-independent=%v:%s", bytes.Equal(b2, fa.content()) && bytes.Equal(append(append([]byte{}, half...), r1...), fa.content()), a))
			}
			if h1 != nil {
				_ = h1.Close()
			}
			if h2 != nil {
				_ = h2.Close()
			}
		}
	}
	// paths that are not in the tree
	for _, ghost := range []string{"no-such-entry", "/no/such/dir/file", "zz..zz"} {
		clash := false
		for _, n := range sc.Tree {
			if n.Rel == strings.TrimPrefix(ghost, "/") {
				clash = true
			}
		}
		if clash {
			continue
		}
		ex := v.Exists(ghost)
		rec("OpExists", ghost, fmt.Sprintf("(VBool %s)", h.Bool(ex)))
		if _, err := v.Stat(ghost); ex || err == nil {
			r.Fail("view-extra:"+a, fmt.Sprintf("%q is not in the tree but the %s view serves it", ghost, a), sc)
		}
	}
	// whole-tree listing
	if len(sc.Tree) > 0 {
		all, err := v.LsRecursive(context.Background(), "/", true)
		if err != nil {
			if !(emptyDirInvisible && a == "tar") {
				r.Fail("view-listing:"+a, fmt.Sprintf("LsRecursive(\"/\") fails on the %s view: %v", a, err), sc)
			}
		} else {
			got := map[string]bool{}
			for _, p := range all {
				if p != "/" {
					got[strings.TrimPrefix(filepath.ToSlash(p), "/")] = true
				}
			}
			for _, n := range sc.Tree {
				if !got[n.Rel] {
					r.Fail("view-listing:"+a, fmt.Sprintf("LsRecursive(\"/\") does not list %q on the %s view", n.Rel, a), sc)
				}
				delete(got, n.Rel)
			}
			for p := range got {
				r.Fail("view-extra:"+a, fmt.Sprintf("LsRecursive(\"/\") lists %q which is not in the tree (%s view)", p, a), sc)
			}
		}
		names, err := v.Ls("/")
		if err != nil || strings.Join(sortedCopy(names), "\x00") != strings.Join(childrenOf(sc.Tree, ""), "\x00") {
			r.Fail("view-listing:"+a, fmt.Sprintf("Ls(\"/\") = %q, %v on the %s view; the tree has %q", names, err, a, childrenOf(sc.Tree, "")), sc)
		}
	} else {
		_, err := v.Ls("/")
		r.Count(fmt.Sprintf("view:empty-tree-root-listing-error=%v:%s", err != nil, a))
		if err != nil {
			r.Note("observation (not counted as a violation: the root is not an entry of the tree): Ls(\"/\") on the " + a + " view of an EMPTY tree fails: " + errKind(err))
		}
	}
	if emit {
		var es []rawEntry
		if a == "zip" {
			names, _, _, _ := readZipListing(w, filepath.Join(w.base, "a.zip"))
			byRel := map[string]nodeSpec{}
			for _, n := range sc.Tree {
				byRel[n.Rel] = n
			}
			for _, nm := range names {
				n := byRel[strings.TrimSuffix(nm, "/")]
				es = append(es, rawEntry{Name: nm, Data: n.content()})
			}
		} else {
			for _, n := range sc.Tree {
				nm := n.Rel
				if n.Dir {
					nm += "/"
				}
				es = append(es, rawEntry{Name: nm, Data: n.content()})
			}
		}
		k := map[string]string{"zip": "VZip", "tar": "VTar"}[a]
		r.Case(fmt.Sprintf("(CView %s %s %s %s)", k, coqEntries(es), h.List(ops), h.List(obs)), map[string]any{"scenario": sc})
	}
	if len(sc.Tree) > 1 {
		r.Distinct(fmt.Sprintf("view|%s|%v", a, sc.Tree))
	}
}

// ---------------------------------------------------------------- read-only

type viewSnap struct {
	listing string
	archive [32]byte
}

func snapView(w *world, v filesystem.FS, archive string, tree []nodeSpec) viewSnap {
	var sb strings.Builder
	for _, n := range tree {
		info, err := v.Stat("/" + n.Rel)
		if err != nil {
			fmt.Fprintf(&sb, "%s: %s\n", n.Rel, errKind(err))
			continue
		}
		fmt.Fprintf(&sb, "%s dir=%v size=%d mt=%d\n", n.Rel, info.IsDir(), map[bool]int64{true: 0, false: info.Size()}[info.IsDir()], info.ModTime().Unix())
	}
	for _, extra := range []string{"/verif-new-dir", "/verif-new-file", "/verif-new-dir/x", "/verif-moved", "/verif-copy", "/verif-link"} {
		if _, err := v.Stat(extra); err == nil {
			fmt.Fprintf(&sb, "UNEXPECTED %s exists\n", extra)
		}
	}
	b, _ := afero.ReadFile(w.raw, archive)
	return viewSnap{sb.String(), sha256.Sum256(b)}
}

func runReadOnly(r *h.Run, sc scenario) {
	r.Eval()
	w := newWorld(sc.Backend)
	defer w.done()
	v, f, archive, ok := openView(r, w, sc)
	if !ok {
		return
	}
	defer func() {
		_ = v.Close()
		if f != nil {
			_ = f.Close()
		}
	}()
	a := sc.Archive
	var file, dir, nonEmptyDir, emptyDir string
	for _, n := range sc.Tree {
		if !n.Dir && file == "" && len(n.content()) > 0 {
			file = "/" + n.Rel
		}
		if n.Dir && emptyDir == "" && len(childrenOf(sc.Tree, n.Rel)) == 0 {
			emptyDir = "/" + n.Rel
		}
		if n.Dir && dir == "" { // a directory with a file somewhere below it: removing / emptying it must be refused
			for _, m := range sc.Tree {
				if !m.Dir && strings.HasPrefix(m.Rel, n.Rel+"/") {
					dir = "/" + n.Rel
					nonEmptyDir = dir // (a directory holding only empty directories falls under the known finding Rm-empty-dir)
					break
				}
			}
		}
	}
	if file == "" {
		r.Count("skipped:readonly-needs-a-file")
		return
	}
	before := snapView(w, v, archive, sc.Tree)
	ctx := context.Background()
	now := time.Now()
	cur, _ := user.Current()
	// an archive to unzip INTO the view, and a source tree to zip INTO the view, live on the world's own file system
	type call struct {
		name string
		must bool // the call would change the file system: it must be refused
		fn   func() error
	}
	calls := []call{
		{"MkDir(new)", true, func() error { return v.MkDir("/verif-new-dir") }},
		{"MkDirAll(new/x)", true, func() error { return v.MkDirAll("/verif-new-dir/x", 0o755) }},
		{"WriteFile(new)", true, func() error { return v.WriteFile("/verif-new-file", []byte("x"), 0o644) }},
		{"WriteFile(existing)", true, func() error { return v.WriteFile(file, []byte("overwritten"), 0o644) }},
		{"WriteFileWithContext(existing)", true, func() error { return v.WriteFileWithContext(ctx, file, []byte("overwritten"), 0o644) }},
		{"WriteToFile(existing)", true, func() error {
			_, err := v.WriteToFile(ctx, file, strings.NewReader("overwritten"), 0o644)
			return err
		}},
		{"CreateFile(new)", true, func() error {
			fh, err := v.CreateFile("/verif-new-file")
			if fh != nil {
				_ = fh.Close()
			}
			return err
		}},
		{"CreateFile(existing)", true, func() error {
			fh, err := v.CreateFile(file)
			if fh != nil {
				_ = fh.Close()
			}
			return err
		}},
		{"OpenFile(existing, O_WRONLY|O_TRUNC)", true, func() error {
			fh, err := v.OpenFile(file, os.O_WRONLY|os.O_TRUNC, 0o644)
			if fh != nil {
				_ = fh.Close()
			}
			return err
		}},
		{"OpenFile(existing, O_RDWR|O_APPEND)", true, func() error {
			fh, err := v.OpenFile(file, os.O_RDWR|os.O_APPEND, 0o644)
			if fh != nil {
				_, werr := fh.Write([]byte("appended"))
				_ = fh.Close()
				if err == nil {
					err = werr
				}
			}
			return err
		}},
		{"Open(existing).Write", true, func() error {
			fh, err := v.GenericOpen(file)
			if err != nil {
				return nil // not a mutation attempt
			}
			_, err = fh.Write([]byte("x"))
			_ = fh.Close()
			return err
		}},
		{"Touch(new)", true, func() error { return v.Touch("/verif-new-file") }},
		{"Touch(existing)", true, func() error { return v.Touch(file) }},
		{"Rm(file)", true, func() error { return v.Rm(file) }},
		{"RemoveWithContext(file)", true, func() error { return v.RemoveWithContext(ctx, file) }},
		{"RemoveWithPrivileges(file)", true, func() error { return v.RemoveWithPrivileges(ctx, file) }},
		{"Chmod(file)", true, func() error { return v.Chmod(file, 0o600) }},
		{"ChmodRecursively(/)", true, func() error { return v.ChmodRecursively(ctx, file, 0o600) }},
		{"Chtimes(file)", true, func() error { return v.Chtimes(file, now, now) }},
		{"Chown(file)", true, func() error { return v.Chown(file, 0, 0) }},
		{"ChangeOwnership(file)", cur != nil, func() error { return v.ChangeOwnership(file, cur) }},
		{"Move(file,new)", true, func() error { return v.Move(file, "/verif-moved") }},
		{"MoveWithContext(file,new)", true, func() error { return v.MoveWithContext(ctx, file, "/verif-moved") }},
		{"Copy(file,new)", true, func() error { return v.Copy(file, "/verif-copy") }},
		{"CopyToFile(file,new)", true, func() error { return v.CopyToFile(file, "/verif-copy") }},
		{"CopyToDirectory(file,newdir)", true, func() error { return v.CopyToDirectory(file, "/verif-new-dir") }},
		{"Symlink", true, func() error { return v.Symlink(file, "/verif-link") }},
		{"Link", true, func() error { return v.Link(file, "/verif-link") }},
		{"TempDir", true, func() error { _, err := v.TempDir("/", "verif"); return err }},
		{"TempFile", true, func() error {
			fh, err := v.TempFile("/", "verif")
			if fh != nil {
				_ = fh.Close()
			}
			return err
		}},
		{"TouchTempFile", true, func() error { _, err := v.TouchTempFile("/", "verif"); return err }},
		{"Zip(into the view)", true, func() error { return v.Zip("/", "/verif-new-file") }},
		// GarbageCollect / StatTimes are not called on an OPEN view: DetermineFileTimes hands the zip FileInfo to
		// djherbis/times, which panics (interface conversion of Sys()) in a goroutine that cannot be recovered.
		// calls that have nothing to change: only "without changing anything" is demanded of them
		{"Rm(nonexistent)", false, func() error { return v.Rm("/verif-nonexistent") }},
		{"CleanDir(nonexistent)", false, func() error { return v.CleanDir("/verif-nonexistent") }},
		{"Move(file,file)", false, func() error { return v.Move(file, file) }},
	}
	if dir != "" {
		calls = append(calls,
			call{"MkDir(existing dir)", false, func() error { return v.MkDir(dir) }},
			call{"Rm(dir)", true, func() error { return v.Rm(dir) }},
			call{"Chtimes(dir)", true, func() error { return v.Chtimes(dir, now, now) }},
			call{"Move(dir,new)", true, func() error { return v.Move(dir, "/verif-moved") }},
		)
	}
	if nonEmptyDir != "" {
		calls = append(calls,
			call{"CleanDir(non-empty dir)", true, func() error { return v.CleanDir(nonEmptyDir) }},
			call{"CleanDirWithContext(non-empty dir)", true, func() error { return v.CleanDirWithContext(ctx, nonEmptyDir) }},
			call{"Copy(dir,new)", true, func() error { return v.Copy(nonEmptyDir, "/verif-copy") }},
		)
	}
	if emptyDir != "" {
		// an empty directory: on the tar view it is invisible (known finding view-empty-dir-invisible:tar), so removing it is
		// the removal of a path that "does not exist"; on the zip view it exists and its removal must be refused
		calls = append(calls, call{"Rm-empty-dir(" + a + ")", a == "zip", func() error { return v.Rm(emptyDir) }})
	}
	for _, c := range calls {
		err := c.fn()
		r.Count(fmt.Sprintf("readonly:%s:%s", a, map[bool]string{true: "refused", false: "accepted"}[err != nil]))
		if c.must && err == nil {
			if strings.HasPrefix(c.name, "Rm-empty-dir") {
				r.Fail("readonly-accepted:Rm-empty-dir:zip", fmt.Sprintf("Rm(%q) of an existing empty directory on the read-only zip file system returns nil (nothing is removed): IsEmpty answers false for it, so the removal is silently abandoned instead of refused", emptyDir), sc)
				continue
			}
			r.Fail("readonly-accepted:"+strings.SplitN(c.name, "(", 2)[0], fmt.Sprintf("mutating call %s on the read-only %s file system returned no error", c.name, a), sc)
		}
		after := snapView(w, v, archive, sc.Tree)
		if after != before {
			r.Fail("readonly-changed:"+a, fmt.Sprintf("after %s the %s view / archive differs:\n%s", c.name, a, after.listing), sc)
			before = after
		}
	}
	// the content is still the tree's
	for _, n := range sc.Tree {
		if "/"+n.Rel == file {
			if b, err := v.ReadFile(file); err != nil || !bytes.Equal(b, n.content()) {
				r.Fail("readonly-changed:"+a, fmt.Sprintf("after the mutating calls ReadFile(%q) = %s, %v", file, short(b), err), sc)
			}
		}
	}
	r.Distinct(fmt.Sprintf("readonly|%s|%v", a, sc.Tree))
}

// ---------------------------------------------------------------- closed file system

// classes: cond = must fail with the 'failed condition' kind (direct accessors); err = must fail; false = must answer
// false; free = does not need the archive (any answer).
var closedClass = map[string]string{
	"Open": "cond", "GenericOpen": "cond", "OpenFile": "cond", "CreateFile": "cond", "Stat": "cond", "Lstat": "cond",
	"ReadFile": "cond", "ReadFileWithContext": "cond", "ReadFileWithLimits": "cond", "ReadFileWithContextAndLimits": "cond", "ReadFileContent": "cond",
	"WriteFile": "cond", "WriteFileWithContext": "cond", "WriteToFile": "cond",
	"IsFile": "cond", "IsDir": "cond", "IsLink": "cond", "IsEmpty": "cond",
	"Ls": "cond", "LsWithExclusionPatterns": "cond", "LsFromOpenedDirectory": "cond", "Lls": "cond", "LlsFromOpenedDirectory": "cond",
	"LsRecursive": "cond", "LsRecursiveWithExclusionPatterns": "cond", "LsRecursiveWithExclusionPatternsAndLimits": "cond",
	"Walk": "cond", "WalkWithContext": "cond", "WalkWithContextAndExclusionPatterns": "cond",
	"ListDirTree": "cond", "ListDirTreeWithContext": "cond", "ListDirTreeWithContextAndExclusionPatterns": "cond",
	"SubDirectories": "cond", "SubDirectoriesWithContext": "cond", "SubDirectoriesWithContextAndExclusionPatterns": "cond",
	"Glob": "cond", "FindAll": "cond", "GetFileSize": "cond", "FileHash": "cond", "FileHashWithContext": "cond",
	"MkDir": "cond", "MkDirAll": "cond", "Rm": "cond", "RemoveWithContext": "cond", "RemoveWithContextAndExclusionPatterns": "cond",
	"CleanDir": "cond", "CleanDirWithContext": "cond", "CleanDirWithContextAndExclusionPatterns": "cond",
	"Chmod": "cond", "Chtimes": "cond", "Chown": "cond", "ChangeOwnership": "cond", "Touch": "cond",
	"Link": "cond", "Readlink": "cond", "Symlink": "cond", "FetchOwners": "cond", "FetchFileOwner": "cond",
	"Move": "cond", "MoveWithContext": "cond", "CopyToFile": "cond", "CopyToFileWithContext": "cond",
	"CopyToDirectory": "cond", "CopyToDirectoryWithContext": "cond",
	"TempDir": "cond", "TempDirInTempDir": "cond", "TempFile": "cond", "TempFileInTempDir": "cond",
	"TouchTempFile": "cond", "TouchTempFileInTempDir": "cond",
	"GarbageCollect": "cond", "GarbageCollectWithContext": "cond",
	"Zip": "cond", "ZipWithContext": "cond", "ZipWithContextAndLimits": "cond", "ZipWithContextAndLimitsAndExclusionPatterns": "cond",
	"DiskUsage": "cond", "ConvertToAbsolutePath": "cond", "ConvertToRelativePath": "cond",
	// fail, but the kind is decided elsewhere (the guarded call's error is inspected or replaced)
	"StatTimes": "err", "LsRecursiveFromOpenedDirectory": "err", "RemoveWithPrivileges": "err",
	"ChmodRecursively": "err", "ChownRecursively": "err", "ChangeOwnershipRecursively": "err",
	"Copy": "err", "CopyWithContext": "err", "CopyWithContextAndExclusionPatterns": "err",
	"Unzip": "err", "UnzipWithContext": "err", "UnzipWithContextAndLimits": "err",
	"Exists": "false",
	// do not read the archive
	"IsZip": "free", "IsZipWithContext": "free", "Close": "free", "GetType": "free", "PathSeparator": "free", "ConvertFilePath": "free",
	"TempDirectory": "free", "CurrentDirectory": "free", "NewRemoteLockFile": "free", "ExcludeAll": "free",
}

func closedArgs(m reflect.Method, mt reflect.Type, file, dir string, dirHandle, fileHandle filesystem.File) ([]reflect.Value, bool) {
	ctxT := reflect.TypeOf((*context.Context)(nil)).Elem()
	limT := reflect.TypeOf((*filesystem.ILimits)(nil)).Elem()
	fileT := reflect.TypeOf((*filesystem.File)(nil)).Elem()
	readerT := reflect.TypeOf((*io.Reader)(nil)).Elem()
	var args []reflect.Value
	n := mt.NumIn()
	strSeen := 0
	for i := 1; i < n; i++ { // 0 is the receiver
		t := mt.In(i)
		if mt.IsVariadic() && i == n-1 {
			break
		}
		switch {
		case t == ctxT:
			args = append(args, reflect.ValueOf(context.Background()))
		case t == limT:
			args = append(args, reflect.ValueOf(filesystem.NoLimits()))
		case t == fileT:
			if strings.Contains(m.Name, "Directory") {
				args = append(args, reflect.ValueOf(dirHandle))
			} else {
				args = append(args, reflect.ValueOf(fileHandle))
			}
		case t == readerT:
			args = append(args, reflect.ValueOf(io.Reader(strings.NewReader("data"))))
		case t.Kind() == reflect.String:
			s := file
			switch {
			case strings.HasPrefix(m.Name, "Ls") || strings.HasPrefix(m.Name, "Lls") || strings.HasPrefix(m.Name, "Walk") || strings.HasPrefix(m.Name, "ListDirTree") ||
				strings.HasPrefix(m.Name, "SubDirectories") || strings.HasPrefix(m.Name, "CleanDir") || strings.HasPrefix(m.Name, "FindAll") || strings.HasPrefix(m.Name, "GarbageCollect") ||
				strings.HasPrefix(m.Name, "TempDir") || strings.HasPrefix(m.Name, "TempFile") || strings.HasPrefix(m.Name, "TouchTempFile"):
				s = dir
			case strings.HasPrefix(m.Name, "FileHash") && strSeen == 0:
				s = "sha256"
			case strSeen > 0:
				s = "/verif-other"
			}
			if strings.HasPrefix(m.Name, "Zip") && strSeen == 0 {
				s = dir
			}
			if m.Name == "Glob" {
				s = "/*"
			}
			args = append(args, reflect.ValueOf(s))
			strSeen++
		case t == reflect.TypeOf(os.FileMode(0)):
			args = append(args, reflect.ValueOf(os.FileMode(0o644)))
		case t == reflect.TypeOf(time.Time{}):
			args = append(args, reflect.ValueOf(time.Now()))
		case t == reflect.TypeOf(time.Duration(0)):
			args = append(args, reflect.ValueOf(time.Duration(0)))
		case t == reflect.TypeOf([]byte(nil)):
			args = append(args, reflect.ValueOf([]byte("data")))
		case t == reflect.TypeOf((*user.User)(nil)):
			u, _ := user.Current()
			args = append(args, reflect.ValueOf(u))
		case t == reflect.TypeOf((*[]string)(nil)):
			args = append(args, reflect.ValueOf(&[]string{}))
		case t == reflect.TypeOf([]string(nil)):
			args = append(args, reflect.ValueOf([]string{file}))
		case t == reflect.TypeOf(filepath.WalkFunc(nil)):
			args = append(args, reflect.ValueOf(filepath.WalkFunc(func(string, os.FileInfo, error) error { return nil })))
		case t.Kind() == reflect.Int:
			if strings.Contains(m.Name, "OpenFile") {
				args = append(args, reflect.ValueOf(os.O_RDONLY))
			} else {
				args = append(args, reflect.ValueOf(0))
			}
		case t.Kind() == reflect.Bool:
			args = append(args, reflect.ValueOf(true))
		default:
			return nil, false
		}
	}
	return args, true
}

// closedSweep calls every method of v (already closed) and classifies what came back.
func closedSweep(r *h.Run, sc scenario, v filesystem.ICloseableFS, file, dir string, dirHandle, fileHandle filesystem.File, emit bool, tag string) {
	errT := reflect.TypeOf((*error)(nil)).Elem()
	rv := reflect.ValueOf(v)
	rt := rv.Type()
	for i := 0; i < rt.NumMethod(); i++ {
		m := rt.Method(i)
		args, ok := closedArgs(m, m.Type, file, dir, dirHandle, fileHandle)
		if !ok {
			r.Note("closed sweep: cannot build arguments for " + m.Name)
			r.Count("closed:uncallable")
			continue
		}
		var outs []reflect.Value
		func() {
			defer func() {
				if p := recover(); p != nil {
					r.Fail("closed-panic:"+m.Name, fmt.Sprintf("%s on a closed %s file system panicked: %v", m.Name, sc.Archive, p), sc)
					outs = nil
				}
			}()
			outs = rv.Method(i).Call(args)
		}()
		if outs == nil && m.Type.NumOut() > 0 {
			continue
		}
		var err error
		hasErr := false
		var boolOut *bool
		for _, o := range outs {
			if o.Type() == errT {
				hasErr = true
				if !o.IsNil() {
					err = o.Interface().(error)
				}
			} else if o.Kind() == reflect.Bool {
				b := o.Bool()
				boolOut = &b
			}
		}
		obs := "CNoErr"
		switch {
		case hasErr && err != nil && commonerrors.Any(err, commonerrors.ErrCondition):
			obs = "CCond"
		case hasErr && err != nil:
			obs = "CErr"
		case !hasErr && boolOut != nil && !*boolOut:
			obs = "CFalse"
		case !hasErr && boolOut != nil && *boolOut:
			obs = "CTrue"
		}
		class, known := closedClass[m.Name]
		if !known {
			class = "free"
			r.Note("closed sweep: method " + m.Name + " is not in the harness's class table (treated as not needing the archive)")
		}
		r.Count("closed:" + class + ":" + obs)
		switch class {
		case "cond":
			if obs != "CCond" {
				r.Fail("closed-serves:"+m.Name, fmt.Sprintf("%s on a closed %s file system (%s) answered %s (%v) instead of failing with 'failed condition'", m.Name, sc.Archive, tag, obs, err), sc)
			}
		case "err":
			if obs != "CCond" && obs != "CErr" {
				r.Fail("closed-serves:"+m.Name, fmt.Sprintf("%s on a closed %s file system (%s) did not fail (%s)", m.Name, sc.Archive, tag, obs), sc)
			}
		case "false":
			if obs != "CFalse" {
				r.Fail("closed-serves:"+m.Name, fmt.Sprintf("%s on a closed %s file system (%s) answered %s instead of false", m.Name, sc.Archive, tag, obs), sc)
			}
		}
		if emit {
			r.Case(fmt.Sprintf("(CClosed %q%%string %s)", m.Name, obs), map[string]any{"method": m.Name, "archive": sc.Archive, "observed": obs})
		}
	}
}

func runClosed(r *h.Run, sc scenario, emit bool) {
	r.Eval()
	w := newWorld(sc.Backend)
	defer w.done()
	var file, dir string
	for _, n := range sc.Tree {
		if !n.Dir && file == "" && len(n.content()) > 0 {
			file = "/" + n.Rel
		}
		if n.Dir && dir == "" && len(childrenOf(sc.Tree, n.Rel)) > 0 {
			dir = "/" + n.Rel
		}
	}
	if file == "" || dir == "" {
		r.Count("skipped:closed-needs-file-and-dir")
		return
	}
	// (1) the library's own constructor
	v, f, archive, ok := openView(r, w, sc)
	if !ok {
		return
	}
	dh, err1 := v.GenericOpen(dir)
	fh, err2 := v.GenericOpen(file)
	if err1 != nil || err2 != nil || !v.Exists(file) {
		r.Fail("view-missing:"+sc.Archive, fmt.Sprintf("cannot open %q / %q on the open view: %v %v", dir, file, err1, err2), sc)
		return
	}
	// closing orders: the constructor's documentation asks the caller to close the returned archive File as well
	var closeErr error
	underlyingFails := false
	switch sc.CloseOrder {
	case "file-fs":
		if f != nil {
			_ = f.Close()
			underlyingFails = f.Close() != nil // does this back end refuse to close the archive file twice?
		}
		closeErr = v.Close()
	case "fs-file":
		closeErr = v.Close()
		if f != nil {
			_ = f.Close()
		}
	case "fs-fs":
		closeErr = v.Close()
		if err := v.Close(); err != nil {
			r.Fail("closed-close-error:"+sc.Archive, "second Close() failed: "+err.Error(), sc)
		}
	default:
		closeErr = v.Close()
	}
	_, serr := v.Stat(file)
	servesNothing := commonerrors.Any(serr, commonerrors.ErrCondition)
	r.Count(fmt.Sprintf("closed:order=%s:close-nil=%v:serves-nothing=%v", sc.CloseOrder, closeErr == nil, servesNothing))
	if emit || sc.CloseOrder != "" {
		r.Case(fmt.Sprintf("(CClose %s %s %s)", h.Bool(underlyingFails), h.Bool(closeErr == nil), h.Bool(servesNothing)),
			map[string]any{"scenario": sc, "underlying_fails": underlyingFails, "close_nil": closeErr == nil, "serves_nothing": servesNothing})
	}
	if closeErr != nil {
		if !underlyingFails {
			r.Fail("closed-close-error:"+sc.Archive, "Close() of the archive file system failed: "+closeErr.Error(), sc)
			return
		}
		// Close() did not report success (the archive file had already been closed by the caller): the file system may
		// legitimately still be open; what it does then is recorded, not judged
		r.Note(fmt.Sprintf("order %s on %s/%s: Close() returns %s and the file system stays open (Stat -> %s)", sc.CloseOrder, sc.Backend, sc.Archive, errKind(closeErr), errKind(serr)))
		return
	}
	// Close() returned nil: from here on nothing may be served
	if !servesNothing {
		// still open although Close() reported success: report it and do not sweep (calling every method on an OPEN
		// archive file system would, among others, run into the unrecoverable djherbis/times panic of StatTimes)
		r.Fail("closed-serves:Stat", fmt.Sprintf("Close() returned nil (closing order %q, %s back end) but Stat on the %s file system still answers %s instead of failing with 'failed condition': the closed flag is not set",
			sc.CloseOrder, sc.Backend, sc.Archive, errKind(serr)), sc)
		for _, probe := range []string{"Exists", "Ls", "ReadFile"} {
			switch probe {
			case "Exists":
				if v.Exists(file) {
					r.Fail("closed-serves:Exists", "Exists still answers true after a Close() that returned nil", sc)
				}
			case "Ls":
				if _, e := v.Ls(dir); !commonerrors.Any(e, commonerrors.ErrCondition) {
					r.Fail("closed-serves:Ls", "Ls still answers ("+errKind(e)+") after a Close() that returned nil", sc)
				}
			case "ReadFile":
				if _, e := v.ReadFile(file); !commonerrors.Any(e, commonerrors.ErrCondition) {
					r.Fail("closed-serves:ReadFile", "ReadFile answers "+errKind(e)+" instead of 'failed condition' after a Close() that returned nil", sc)
				}
			}
		}
		return
	}
	closedSweep(r, sc, v, file, dir, dh, fh, emit, "NewZipFileSystem/NewTarFileSystem order="+sc.CloseOrder)
	if err := v.Close(); err != nil {
		r.Fail("closed-close-error:"+sc.Archive, "Close() after a successful Close() failed: "+err.Error(), sc)
	}
	if f != nil {
		_ = f.Close()
	}
	// (2) a replica of the constructor (zipfs.go:12-17 / tarfs.go:11-16 + filesystem.go:58-84) with a recording
	//     wrapper between the VFS and the archive back end: after Close() no operation may reach the back end
	b, _ := afero.ReadFile(w.raw, archive)
	var inner afero.Fs
	if sc.Archive == "zip" {
		zr, err := zip.NewReader(bytes.NewReader(b), int64(len(b)))
		if err != nil {
			return
		}
		inner = afero.NewReadOnlyFs(zipfs.New(zr))
	} else {
		inner = afero.NewReadOnlyFs(tarfs.New(tar.NewReader(bytes.NewReader(b))))
	}
	rec := shim.New(inner, nil)
	kind := filesystem.ZipFS
	if sc.Archive == "tar" {
		kind = filesystem.TarFS
	}
	v2 := filesystem.NewCloseableVirtualFileSystem(rec, kind, io.NopCloser(bytes.NewReader(nil)), "replica", filesystem.IdentityPathConverterFunc)
	dh2, _ := v2.GenericOpen(dir)
	fh2, _ := v2.GenericOpen(file)
	_ = v2.Close()
	rec.ResetLog()
	closedSweep(r, sc, v2, file, dir, dh2, fh2, false, "replica with recording back end")
	var reached []string
	for _, op := range rec.Log() {
		if strings.HasPrefix(op.Name, "f.") {
			continue // operations on the two handles opened before Close (LsFromOpenedDirectory-style arguments)
		}
		if op.Name == "ForceRemove" {
			// RemoveWithPrivileges type-asserts fs.vfs.(IForceRemover) without the guard; the recording wrapper implements
			// that interface, afero.ReadOnlyFs (the real archive back end) does not: not reachable on archive file systems
			r.Count("closed:replica-only-ForceRemove")
			continue
		}
		reached = append(reached, op.Name+" "+op.Path)
	}
	r.Count(fmt.Sprintf("closed:backend-ops-after-close=%d", len(reached)))
	if len(reached) > 0 {
		r.Fail("closed-reaches-backend:"+sc.Archive, fmt.Sprintf("%d back-end operations after Close(): %v", len(reached), reached[:min(len(reached), 6)]), sc)
	}
	r.Distinct(fmt.Sprintf("closed|%s|%v", sc.Archive, sc.Tree))
}

// ---------------------------------------------------------------- fault injection (success => faithful)

type discrepancy struct{ sig, what string }

// compareExtraction: is the tree under dest exactly `want`, and does the list name exactly the listed entries?
func compareExtraction(want map[string]nodeSpec, unlisted map[string]bool, got map[string]dumpNode, list []string, dest string) (out []discrepancy) {
	for rel, n := range want {
		g, ok := got[rel]
		switch {
		case !ok:
			out = append(out, discrepancy{"missing", fmt.Sprintf("entry %q is missing", rel)})
		case g.Dir != n.Dir:
			out = append(out, discrepancy{"kind", fmt.Sprintf("entry %q changed kind", rel)})
		case !n.Dir && !bytes.Equal(g.Data, n.content()):
			out = append(out, discrepancy{"content", fmt.Sprintf("content of %q: %s instead of %s", rel, short(g.Data), short(n.content()))})
		case !unlisted[rel] && g.MTime.Unix() != time.Unix(0, n.MTime).Unix():
			out = append(out, discrepancy{"mtime", fmt.Sprintf("mtime of %q: %v instead of %v", rel, g.MTime.UTC(), time.Unix(0, n.MTime).UTC())})
		}
	}
	for rel := range got {
		if _, ok := want[rel]; !ok {
			out = append(out, discrepancy{"extra", fmt.Sprintf("%q is not in the tree", rel)})
		}
	}
	seen := map[string]int{}
	for _, p := range list {
		rel, err := filepath.Rel(dest, p)
		if err != nil {
			rel = p
		}
		seen[filepath.ToSlash(rel)]++
	}
	for rel := range want {
		if !unlisted[rel] && seen[rel] != 1 {
			out = append(out, discrepancy{"list", fmt.Sprintf("the list names %q %d times", rel, seen[rel])})
		}
	}
	return
}

type faultWorld struct {
	world
	mem afero.Fs
	sh  *shim.Fs
}

func newFaultWorld() *faultWorld {
	worldSeq++
	m := afero.NewMemMapFs()
	base := fmt.Sprintf("/f%d", worldSeq)
	_ = m.MkdirAll(base, 0o755)
	sh := shim.New(m, nil)
	return &faultWorld{world: world{fs: filesystem.NewVirtualFileSystem(sh, filesystem.InMemoryFS, filesystem.IdentityPathConverterFunc), raw: m, base: base}, mem: m, sh: sh}
}

var faultOps = map[string][]string{
	"unzip": {"MkdirAll", "OpenFile", "f.Write", "f.Close", "Chtimes", "f.Read", "f.ReadAt", "Stat", "Open"},
	"zip":   {"Create", "f.Write", "f.Close", "Open", "f.Read", "f.Readdirnames", "Lstat", "Stat"},
}

// faultScope: which paths of the operation are subject to the fault
func faultScope(side, op, src, archive, dest string) string {
	if side == "unzip" {
		if op == "f.Read" || op == "f.ReadAt" {
			return archive
		}
		return dest
	}
	switch op {
	case "Create", "f.Write", "f.Close":
		return archive
	}
	return src
}

// runFault: one run with the k-th matching operation failing; returns how many matching operations were seen.
// Oracle: Unzip returned nil => the tree on disk is the archived tree and the list is exact;
//         Zip returned nil   => the archive lists every entry of the tree with its full content.
func runFault(r *h.Run, sc scenario) int {
	r.Eval()
	w := newFaultWorld()
	src, archive, dest := filepath.Join(w.base, "src"), filepath.Join(w.base, "a.zip"), filepath.Join(w.base, "out")
	if err := w.build(src, sc.Tree); err != nil {
		r.Count("skipped:build-error")
		return 0
	}
	scope := faultScope(sc.FaultSide, sc.FaultOp, src, archive, dest)
	seen := 0
	injected := false
	closedOnce := map[string]bool{} // a handle's data is committed by its FIRST Close: later Closes of the same handle are not fault points
	hook := func(op *shim.Op) error {
		switch op.Name {
		case "Create", "OpenFile", "Open":
			closedOnce[op.Path] = false
		case "f.Close":
			if closedOnce[op.Path] {
				return nil
			}
			closedOnce[op.Path] = true
		}
		if op.Name != sc.FaultOp || !(op.Path == scope || strings.HasPrefix(op.Path, scope+"/")) {
			return nil
		}
		if sc.FaultOp == "f.Close" && scope != archive && sc.FaultSide == "zip" {
			return nil
		}
		k := seen
		seen++
		if k != sc.FaultK || sc.FaultK < 0 {
			return nil
		}
		injected = true
		if sc.Lose {
			if fh, err := w.mem.OpenFile(op.Path, os.O_WRONLY|os.O_TRUNC, 0o644); err == nil {
				_ = fh.Close()
			}
		}
		return fmt.Errorf("injected fault on %s %s: no space left on device", op.Name, op.Path)
	}
	if sc.FaultSide == "unzip" {
		if err := w.fs.Zip(src, archive); err != nil {
			r.Fail("roundtrip-zip-error:"+errKind(err), "Zip failed: "+err.Error(), sc)
			return 0
		}
		w.sh.SetHook(hook)
		list, err := w.fs.Unzip(archive, dest)
		w.sh.SetHook(nil)
		r.Count(fmt.Sprintf("fault:unzip:%s:injected=%v:err=%v", sc.FaultOp, injected, err != nil))
		if err == nil {
			got, _ := w.dump(dest)
			want, unlisted := expectedAfter(sc.Tree, false)
			if ds := compareExtraction(want, unlisted, got, list, dest); len(ds) > 0 {
				r.Fail("fault-unzip-silent:"+sc.FaultOp, fmt.Sprintf("the %s #%d of the extraction failed (data lost: %v) but Unzip returned nil, and the tree on disk is not the archived tree: %s (%d discrepancies)",
					sc.FaultOp, sc.FaultK, sc.Lose, ds[0].what, len(ds)), sc)
			}
		}
		return seen
	}
	w.sh.SetHook(hook)
	err := w.fs.Zip(src, archive)
	w.sh.SetHook(nil)
	r.Count(fmt.Sprintf("fault:zip:%s:injected=%v:err=%v", sc.FaultOp, injected, err != nil))
	if err == nil {
		problem := ""
		b, _ := afero.ReadFile(w.mem, archive)
		zr, zerr := zip.NewReader(bytes.NewReader(b), int64(len(b)))
		if zerr != nil {
			problem = "the archive is unreadable: " + zerr.Error()
		} else {
			have := map[string][]byte{}
			for _, zf := range zr.File {
				rc, e := zf.Open()
				if e != nil {
					problem = "entry " + zf.Name + " cannot be opened: " + e.Error()
					break
				}
				data, e := io.ReadAll(rc)
				_ = rc.Close()
				if e != nil {
					problem = "entry " + zf.Name + " cannot be read: " + e.Error()
					break
				}
				have[strings.TrimSuffix(zf.Name, "/")] = data
			}
			for _, n := range sc.Tree {
				data, ok := have[n.Rel]
				if problem == "" && !ok {
					problem = fmt.Sprintf("entry %q is missing from the archive", n.Rel)
				}
				if problem == "" && !n.Dir && !bytes.Equal(data, n.content()) {
					problem = fmt.Sprintf("entry %q holds %s instead of %s", n.Rel, short(data), short(n.content()))
				}
			}
		}
		if problem != "" {
			r.Fail("fault-zip-silent:"+sc.FaultOp, fmt.Sprintf("the %s #%d failed while zipping (data lost: %v) but Zip returned nil and %s", sc.FaultOp, sc.FaultK, sc.Lose, problem), sc)
		}
	}
	return seen
}

// faultSweep: for both sides and every operation kind, fail the first, second, middle and last occurrence
func faultSweep(r *h.Run, tree []nodeSpec, all bool) {
	for _, side := range []string{"unzip", "zip"} {
		for _, op := range faultOps[side] {
			n := runFault(r, scenario{Kind: "fault", Backend: "mem", Tree: tree, FaultSide: side, FaultOp: op, FaultK: -1})
			ks := map[int]bool{}
			if all {
				for k := 0; k < n; k++ {
					ks[k] = true
				}
			} else {
				for _, k := range []int{0, 1, n / 2, n - 2, n - 1} {
					if k >= 0 && k < n {
						ks[k] = true
					}
				}
			}
			keys := make([]int, 0, len(ks))
			for k := range ks {
				keys = append(keys, k)
			}
			sort.Ints(keys)
			for _, k := range keys {
				runFault(r, scenario{Kind: "fault", Backend: "mem", Tree: tree, FaultSide: side, FaultOp: op, FaultK: k})
				if op == "f.Close" || op == "f.Write" {
					runFault(r, scenario{Kind: "fault", Backend: "mem", Tree: tree, FaultSide: side, FaultOp: op, FaultK: k, Lose: true})
				}
			}
		}
	}
	r.Distinct(fmt.Sprintf("fault|%v", tree))
}

// ---------------------------------------------------------------- a back end that announces one size and serves another

type lieInfo struct {
	os.FileInfo
	size int64
}

func (l lieInfo) Size() int64 { return l.size }

// sizeLieFs: Stat of `target` announces `size` bytes; Open serves the bytes that are really there (fewer: the file was cut
// short between the walk and the copy / early EOF; more: it grew).
type sizeLieFs struct {
	afero.Fs
	target string
	size   int64
}

func (l *sizeLieFs) Stat(name string) (os.FileInfo, error) {
	fi, err := l.Fs.Stat(name)
	if err == nil && filepath.Clean(name) == l.target {
		return lieInfo{fi, l.size}, nil
	}
	return fi, err
}

// runSizeLie: Zip of a tree in which one file announces `announced` bytes and serves `served`.
// Oracle: when they differ Zip must not report success (any error kind).
func runSizeLie(r *h.Run, announced, served int) {
	r.Eval()
	worldSeq++
	m := afero.NewMemMapFs()
	base := fmt.Sprintf("/s%d", worldSeq)
	src, archive, target := base+"/src", base+"/a.zip", base+"/src/d/payload.bin"
	tree := []nodeSpec{d("d", t0), nodeSpec{Rel: "d/payload.bin", Size: served, Seed: int64(announced)*7919 + int64(served), MTime: t0 + 1e9}, t("d/other", "other", t0+2e9), t("top", "top", t0+3e9)}
	if served == 0 {
		tree[1] = t("d/payload.bin", "", t0+1e9)
	}
	w := &world{raw: m, base: base}
	if err := w.build(src, tree); err != nil {
		r.Count("skipped:build-error")
		return
	}
	lie := &sizeLieFs{Fs: m, target: target, size: int64(announced)}
	fs := filesystem.NewVirtualFileSystem(lie, filesystem.InMemoryFS, filesystem.IdentityPathConverterFunc)
	err := fs.Zip(src, archive)
	sc := scenario{Kind: "size-lie", Backend: "mem", Announced: announced, Served: served}
	r.Count(fmt.Sprintf("size-lie:%s:err=%v", map[bool]string{true: "same", false: map[bool]string{true: "short", false: "long"}[served < announced]}[announced == served], err != nil))
	r.Case(fmt.Sprintf("(CZipSize %s %s %s)", h.Z(int64(announced)), h.Z(int64(served)), h.Bool(err == nil)), sc)
	switch {
	case announced != served && err == nil:
		dir := "more"
		if served < announced {
			dir = "fewer"
		}
		r.Fail("zip-size-mismatch-accepted:"+dir, fmt.Sprintf("a source file announced %d bytes and served %d (%s bytes than announced, no read error) and Zip returned nil: the archive does not hold what the tree announced", announced, served, dir), sc)
	case announced == served && err != nil:
		r.Fail("roundtrip-zip-error:"+errKind(err), "Zip of a consistent tree through the size wrapper failed: "+err.Error(), sc)
	}
	r.Distinct(fmt.Sprintf("size-lie|%d|%d", announced, served))
}

// ---------------------------------------------------------------- generators

var nameAtoms = []string{
	"a", "b", "file", "dir", "data", "x1", "README", "0", "42", "Z",
	"with space", " lead", "trail ", "two  spaces",
	".hidden", "..double", "...", "....", "a..b", "a...b", "..a", "a..", "a.", ".a.", "x.y.z", "tar.gz", "..x..",
	"é", "ü-ber", "日本語", "ไป ไหน", "😀", "ñandú", "Ω",
	"$HOME", "a;b", "a&b", "a|b", "star*", "q?", "'quoted'", "\"dq\"", "`bt`", "(p)", "{b}", "[s]", "<lt>", "bang!", "hash#", "~tilde", "%p", "a=b", "a,b", "@at", "+plus", "^caret", "-dash", "--opt", "back\\slash",
}

func genName(rg *rand.Rand) string {
	switch rg.Intn(10) {
	case 0, 1, 2, 3, 4:
		return nameAtoms[rg.Intn(len(nameAtoms))]
	case 5, 6:
		return nameAtoms[rg.Intn(len(nameAtoms))] + nameAtoms[rg.Intn(len(nameAtoms))]
	case 7:
		e := filesystem.ZipFileExtensions[rg.Intn(len(filesystem.ZipFileExtensions))] // an archive-like NAME (files and directories)
		if rg.Intn(4) == 0 {
			e = strings.ToUpper(e)
		}
		return nameAtoms[rg.Intn(len(nameAtoms))] + e
	case 8:
		n := 1 + rg.Intn(12)
		alphabet := []rune("abcXYZ019 ._-é日$&;")
		out := make([]rune, n)
		for i := range out {
			out[i] = alphabet[rg.Intn(len(alphabet))]
		}
		s := string(out)
		if s == "." || s == ".." {
			s += "x"
		}
		return s
	default:
		return strings.Repeat("n", 200+rg.Intn(56)) // long names (limit is 255 bytes)
	}
}

func genMTime(rg *rand.Rand) int64 {
	switch rg.Intn(8) {
	case 0:
		return time.Date(2000, 1, 1, 0, 0, 0, 0, time.UTC).UnixNano()
	case 1:
		return time.Date(1999, 12, 31, 23, 59, 59, 999999999, time.UTC).UnixNano()
	case 2:
		return time.Date(1980, 1, 1, 0, 0, 1, 500, time.UTC).UnixNano()
	case 3:
		return time.Date(2037, 6, 15, 12, 30, 31, 123456789, time.UTC).UnixNano() // odd second (DOS time has 2 s steps)
	case 4:
		return time.Date(2099, 12, 31, 23, 59, 59, 1, time.UTC).UnixNano()
	default:
		return time.Date(1985, 1, 1, 0, 0, 0, 0, time.UTC).UnixNano() + rg.Int63n(int64(50*365*24*time.Hour))
	}
}

func genContent(rg *rand.Rand, n *nodeSpec, allowLarge bool) {
	switch x := rg.Intn(20); {
	case x < 4:
		// empty file
	case x < 12:
		b := make([]byte, 1+rg.Intn(40))
		for i := range b {
			b[i] = byte(rg.Intn(256))
		}
		n.Data = b
	case x < 15:
		n.Data = bytes.Repeat([]byte{byte('a' + rg.Intn(3))}, 1+rg.Intn(600)) // compressible
	case x < 17:
		n.Data = []byte("PK\x03\x04 looks like a zip but is not")
	case x < 19 || !allowLarge:
		n.Size, n.Seed, n.Comp = 1000+rg.Intn(60000), rg.Int63(), rg.Intn(2) == 0
	default:
		n.Size, n.Seed, n.Comp = (1+rg.Intn(4))<<20+rg.Intn(1000), rg.Int63(), rg.Intn(2) == 0
	}
}

// genTree: maxEntries entries, depth up to maxDepth below the root
func genTree(rg *rand.Rand, maxEntries, maxDepth int, allowLarge bool, small bool) []nodeSpec {
	n := rg.Intn(maxEntries + 1)
	var tree []nodeSpec
	dirs := []string{""}
	depthOf := map[string]int{"": 0}
	used := map[string]bool{}
	for len(tree) < n {
		parent := dirs[rg.Intn(len(dirs))]
		if rg.Intn(3) == 0 {
			parent = dirs[len(dirs)-1] // grow deep chains
		}
		name := genName(rg)
		rel := name
		if parent != "" {
			rel = parent + "/" + name
		}
		if used[rel] || len(rel) > 900 {
			continue
		}
		used[rel] = true
		nd := nodeSpec{Rel: rel, MTime: genMTime(rg)}
		if depthOf[parent] < maxDepth && rg.Intn(3) == 0 {
			nd.Dir = true
			dirs = append(dirs, rel)
			depthOf[rel] = depthOf[parent] + 1
		} else if small {
			if rg.Intn(4) > 0 {
				b := make([]byte, 1+rg.Intn(12))
				for i := range b {
					b[i] = byte(rg.Intn(256))
				}
				nd.Data = b
			}
		} else if hasArchiveExt(name) && rg.Intn(4) == 0 {
			// an EMPTY file with an archive-like name
		} else if hasArchiveExt(name) && rg.Intn(2) == 0 {
			stem := rel[:len(rel)-len(filepath.Ext(name))]
			if used[stem] {
				continue
			}
			used[stem] = true // the directory a recursive extraction expands it into
			nd.Nested = []nodeSpec{d("in", genMTime(rg)), t("in/a..b", "nested", genMTime(rg)), t("top.gz", "not an archive", genMTime(rg)), d("e.zip", genMTime(rg))}
		} else {
			genContent(rg, &nd, allowLarge)
		}
		tree = append(tree, nd)
	}
	// parents before children, otherwise generation order
	return tree
}

func t(rel string, data string, mt int64) nodeSpec {
	return nodeSpec{Rel: rel, Data: []byte(data), MTime: mt}
}
func d(rel string, mt int64) nodeSpec { return nodeSpec{Rel: rel, Dir: true, MTime: mt} }

const t0 = int64(981173106789000000) // 2001-02-03T04:05:06.789Z

// extTrees: every archive extension isZip knows, on files (ordinary content), on directories (empty and not), in upper
// case; the second tree adds real nested archives under such names.
func extTrees() (fake []nodeSpec, nested []nodeSpec) {
	for i, e := range filesystem.ZipFileExtensions {
		mt := t0 + int64(i)*1e9
		fake = append(fake, t("f"+e, "ordinary content "+e, mt), d("d"+e, mt+3e9), t("d"+e+"/inside"+e, "x", mt+5e9), d("empty"+strings.ToUpper(e), mt+7e9))
	}
	fake = append(fake, t("gzipmagic.gz", "\x1f\x8b\x08\x00not really", t0), d("release-1.0.gz", t0+2e9), d("release-1.0.gz/backup.zip", t0+4e9), t("release-1.0.gz/backup.zip/y.pack", "p", t0+6e9))
	nested = append(nested, fake...)
	for i, e := range []string{".zip", ".jar", ".gz", ".pack", ".ZIP", ".tar.gz"} {
		mt := t0 + int64(i)*2e9
		nested = append(nested, nodeSpec{Rel: fmt.Sprintf("n%d%s", i, e), MTime: mt, Nested: []nodeSpec{
			d("sub", mt+1e9), t("sub/a..b", "deep", mt+2e9), t("plain", "p", mt+3e9), d("dir.gz", mt+4e9), t("fake.zip", "ordinary", mt+5e9)}})
	}
	nested = append(nested, nodeSpec{Rel: "real-zip-without-extension", MTime: t0, Nested: []nodeSpec{t("x", "x", t0)}})
	return
}

// extProduct: every extension of ZipFileExtensions (the library's own list), lower and upper case, x contents
// {empty, 1 byte, text, looks-like-a-zip-but-is-not, a real nested archive}.  plain = the files that are not archives by
// content (they must round-trip as files under every limit setting); fakeZip / nested are kept apart because recursive
// limits treat them differently by design (rejected as invalid / expanded).
func extProduct() (plain, fakeZip, nested []nodeSpec) {
	i := 0
	for _, e0 := range filesystem.ZipFileExtensions {
		for _, e := range []string{e0, strings.ToUpper(e0)} {
			mt := t0 + int64(i)*1e9
			i++
			plain = append(plain,
				t("empty-"+fmt.Sprint(i)+e, "", mt),
				t("app.log."+fmt.Sprint(i)+e, "", mt+1),
				t("one-"+fmt.Sprint(i)+e, "x", mt+2),
				t("text-"+fmt.Sprint(i)+e, "just some text, not an archive\n", mt+3))
			fakeZip = append(fakeZip, t("fake-"+fmt.Sprint(i)+e, "PK\x03\x04 looks like a zip but is not", mt+4))
			nested = append(nested, nodeSpec{Rel: "real-" + fmt.Sprint(i) + e, MTime: mt + 5, Nested: []nodeSpec{d("in", mt), t("in/f", "f", mt+1), t("empty.gz", "", mt+2)}})
		}
	}
	plain = append(plain, d("dir", t0), t("dir/empty.tar.gz", "", t0+7), t("dir/.gz", "", t0+9))
	return
}

func corpusTrees() map[string][]nodeSpec {
	deep := []nodeSpec{}
	p := ""
	for i := 0; i < 6; i++ {
		if p != "" {
			p += "/"
		}
		p += fmt.Sprintf("d%d", i)
		deep = append(deep, d(p, t0+int64(i)*3e9))
	}
	deep = append(deep, t(p+"/leaf", "leaf", t0+1))
	return map[string][]nodeSpec{
		"empty": {},
		"dots": {t("a..b", "x", t0), t("...", "dots", t0+2e9), t("..a", "1", t0), t("a..", "2", t0+1e9), d("..dir..", t0+5e9), t("..dir../..f", "3", t0), d("x", t0),
			d("x/....", t0+7e9), t("x/..../y..z", "4", t0+999999999)},
		"basic": {d("d1", t0+11e9), t("d1/f1", "hello", t0), d("d1/d2", t0+13e9), t("d1/d2/empty", "", t0+3e9), d("emptydir", t0+17e9), t("top", "top-level", t0+1), d("d1/d2/e2", t0+19e9)},
		"deep":  deep,
		"names": {t("with space", "s", t0), d("ü $x;'\"", t0+2e9), t("ü $x;'\"/日本語", "j", t0), t("star*?", "g", t0), t("back\\slash", "b", t0+4e9), t("x.zip", "not a zip", t0), t("-rf", "r", t0), t(" ", "sp", t0)},
	}
}

var rawCorpus = [][]rawEntry{
	{{Name: "../evil", Data: []byte("x"), MTime: 1e9}},
	{{Name: "ok", Data: []byte("1"), MTime: 1e9}, {Name: "a/../../evil", Data: []byte("x"), MTime: 1e9}},
	{{Name: "..", MTime: 1e9}},
	{{Name: "../", MTime: 1e9}},
	{{Name: "/abs/evil", Data: []byte("x"), MTime: 1e9}},
	{{Name: "a/../b", Data: []byte("b"), MTime: 1e9}},
	{{Name: "./x", Data: []byte("x"), MTime: 1e9}, {Name: "a//b", Data: []byte("y"), MTime: 1e9 + 1}, {Name: "a/./c", Data: []byte("z"), MTime: 1e9 + 2}},
	{{Name: "a..b", Data: []byte("x"), MTime: 1e9}, {Name: ".../", MTime: 1e9 + 3}, {Name: ".../..x", Data: []byte("y"), MTime: 1e9 + 5}},
	{{Name: "x/../../out/y", Data: []byte("y"), MTime: 1e9}},
	{{Name: "x/../../outer/y", Data: []byte("y"), MTime: 1e9}},
	{{Name: "deep/er/file", Data: []byte("no directory entries"), MTime: 1e9 + 7}},
	{{Name: "dir/", MTime: 1e9 + 9}, {Name: "dir/f", Data: []byte("1"), MTime: 1e9 + 11}, {Name: "dir/", MTime: 1e9 + 13}},
	{{Name: "f", Data: []byte("first"), MTime: 1e9}, {Name: "f", Data: []byte("2nd"), MTime: 1e9 + 2}},
	{{Name: "./", MTime: 1e9 + 15}, {Name: "f", Data: []byte("1"), MTime: 1e9}},
	{{Name: "a/b/../../c/", MTime: 1e9 + 17}, {Name: "a/b/../../c/f", Data: []byte(""), MTime: 1e9 + 19}},
	{{Name: "..a/..b/..c", Data: []byte("x"), MTime: 1e9}, {Name: "a../b../c..", Data: []byte("y"), MTime: 1e9}},
	{{Name: "dir/", MTime: 1e9}, {Name: "dir/../../evil", Data: []byte("x"), MTime: 1e9}},
	{{Name: "a/", MTime: 1e9 + 2}, {Name: "a/b/", MTime: 1e9 + 4}, {Name: "a/b/c", Data: []byte("ccc"), MTime: 1e9 + 6}, {Name: "a/z", Data: []byte("zz"), MTime: 1e9 + 8}},
}

func genRaw(rg *rand.Rand) []rawEntry {
	comps := []string{"a", "b", "..", ".", "", "c..d", "...", "x y", "é", "..e"}
	var es []rawEntry
	n := 1 + rg.Intn(5)
	for i := 0; i < n; i++ {
		k := 1 + rg.Intn(4)
		var cs []string
		for j := 0; j < k; j++ {
			if rg.Intn(3) == 0 {
				cs = append(cs, comps[rg.Intn(len(comps))])
			} else {
				cs = append(cs, comps[rg.Intn(2)])
			}
		}
		name := strings.Join(cs, "/")
		e := rawEntry{Name: name, MTime: 1e9 + int64(rg.Intn(1000))}
		if rg.Intn(3) == 0 {
			e.Name += "/"
		} else {
			e.Data = []byte(fmt.Sprintf("data%d", rg.Intn(100)))
		}
		es = append(es, e)
	}
	return es
}

// rawConflict: two entries whose cleaned paths are equal or nested (a file used as a directory, an entry repeated, ...)
func rawConflict(es []rawEntry) bool {
	var ps []string
	for _, e := range es {
		ps = append(ps, filepath.Clean("/"+e.Name))
	}
	for i := range ps {
		if ps[i] == "/" && !strings.HasSuffix(es[i].Name, "/") {
			return true // a FILE entry that resolves to the destination itself
		}
		for j := range ps {
			if i != j && (ps[i] == ps[j] || strings.HasPrefix(ps[j], ps[i]+"/")) && !strings.HasSuffix(es[i].Name, "/") {
				return true
			}
		}
	}
	return false
}

func smallEnough(tree []nodeSpec, maxEntries int, maxBytes int64) bool {
	_, total, _, _ := treeStats(tree)
	return len(tree) <= maxEntries && total <= maxBytes
}

var streamDigest = sha256.New()
var streamCount int

func runScenario(r *h.Run, sc scenario, emit bool) {
	if b, err := json.Marshal(sc); err == nil {
		streamDigest.Write(b)
		streamCount++
		if tf := os.Getenv("VERIF_C07_TRACE"); tf != "" {
			if fh, err := os.OpenFile(tf, os.O_APPEND|os.O_CREATE|os.O_WRONLY, 0o644); err == nil {
				sum := sha256.Sum256(b)
				fmt.Fprintf(fh, "%d %s %s %d\n", streamCount, sc.Kind, hex.EncodeToString(sum[:6]), len(sc.Tree))
				if os.Getenv("VERIF_C07_TRACE_FULL") != "" {
					fmt.Fprintf(fh, "  %s\n", b)
				}
				_ = fh.Close()
			}
		}
	}
	switch sc.Kind {
	case "round":
		runRound(r, sc, emit)
	case "raw":
		runRaw(r, sc, emit)
	case "view":
		runView(r, sc, emit)
	case "readonly":
		runReadOnly(r, sc)
	case "closed":
		runClosed(r, sc, emit)
	case "fault":
		runFault(r, sc)
	case "size-lie":
		runSizeLie(r, sc.Announced, sc.Served)
	}
}

func main() {
	r := h.Init("C07")
	r.Imports = []string{"GU.C07.GuardTypes", "GU.C07.Gen", "GU.C07.Model"}
	r.ShardSize = 60
	r.Rule("seeded scenarios: (round) generated trees (depth 0..6, 0..200 entries, names from letters/digits/spaces/dots incl. leading and doubled/unicode/shell metacharacters/long names, contents empty..multi-MB compressible or not, mtimes with sub-second parts and odd seconds) x back end (OS, in-memory) x limits (none, generous, exact fit, one below) zipped and unzipped by the library; " +
		"(raw) hand-made archives with traversal / doubled-dot / duplicate / directory-less names; (view) zip and tar file systems over archives of the same trees, every entry stat'ed, listed and read twice; (readonly) ~45 mutating calls; (closed) every method by reflection on closed zip/tar file systems + a replica with a recording back end. " +
		"non-trivial = more than one entry; distinct by full scenario")
	var err error
	scratch, err = os.MkdirTemp("", "verif-c07-*")
	if err != nil {
		fmt.Fprintln(os.Stderr, err)
		os.Exit(2)
	}
	defer os.RemoveAll(scratch)
	if abs, err := filepath.Abs(r.Out); err == nil {
		r.Out = abs
	}
	if r.ReplayF != "" {
		if abs, err := filepath.Abs(r.ReplayF); err == nil {
			r.ReplayF = abs
		}
	}
	_ = os.Chdir(scratch) // relative destinations are spelled from here
	var sc scenario
	if _, ok := r.ReplayObject(&sc); ok {
		runScenario(r, sc, false)
		r.Finish()
		_ = os.RemoveAll(scratch)
		return
	}
	corpus := corpusTrees()
	// ---- known findings: deterministic replays, run first on every invocation
	runScenario(r, scenario{Kind: "view", Backend: "mem", Archive: "tar", Tree: corpus["basic"]}, true)
	runScenario(r, scenario{Kind: "readonly", Backend: "mem", Archive: "zip", Tree: corpus["basic"]}, false)
	// ---- corpus (D9 and friends first)
	for _, be := range []string{"os", "mem"} {
		for _, name := range []string{"dots", "basic", "empty", "deep", "names"} {
			runScenario(r, scenario{Kind: "round", Backend: be, Tree: corpus[name]}, true)
			runScenario(r, scenario{Kind: "round", Backend: be, Tree: corpus[name], Limits: &limSpec{Rel: true, MaxDepth: 0}}, true)
		}
		runScenario(r, scenario{Kind: "round", Backend: be, Tree: corpus["basic"], Limits: &limSpec{MaxFile: 1 << 30, MaxTotal: 1 << 32, MaxCount: 1 << 20, MaxDepth: -1, Recursive: true}}, false)
		runScenario(r, scenario{Kind: "round", Backend: be, Tree: corpus["names"], Limits: &limSpec{MaxFile: 1 << 30, MaxTotal: 1 << 32, MaxCount: 1 << 20, MaxDepth: -1, Recursive: true}}, false)
		fakeExt, nestedExt := extTrees()
		recLim := &limSpec{MaxFile: 1 << 30, MaxTotal: 1 << 32, MaxCount: 1 << 20, MaxDepth: -1, Recursive: true}
		runScenario(r, scenario{Kind: "round", Backend: be, Tree: fakeExt, Limits: recLim}, true)
		runScenario(r, scenario{Kind: "round", Backend: be, Tree: nestedExt, Limits: recLim}, false)
		// the product extension x content x limits
		plainP, fakeP, nestedP := extProduct()
		nonRec := &limSpec{MaxFile: 1 << 30, MaxTotal: 1 << 32, MaxCount: 1 << 20, MaxDepth: 10}
		for _, lm := range []*limSpec{nil, nonRec, recLim} {
			runScenario(r, scenario{Kind: "round", Backend: be, Tree: plainP, Limits: lm}, true)
			runScenario(r, scenario{Kind: "round", Backend: be, Tree: nestedP, Limits: lm}, false)
			if lm == nil || !lm.Recursive {
				runScenario(r, scenario{Kind: "round", Backend: be, Tree: append(append([]nodeSpec{}, plainP...), fakeP...), Limits: lm}, false)
			}
		}
		// nested archives whose stem is "..", "" or ".": refused (malicious) resp. expanded into the holding directory
		// under recursive limits; ordinary files otherwise
		inner := []nodeSpec{d("nd", t0+1e9), t("nd/leaf", "leaf", t0+2e9), t("solo", "s", t0+3e9)}
		for _, nm := range []string{"...Z", "sub/...zip", ".zip", "sub/..jar", "sub/.GZ"} {
			tr := []nodeSpec{d("sub", t0+9e9), t("sub/keep", "k", t0), {Rel: nm, MTime: t0 + 5e9, Nested: inner}}
			runScenario(r, scenario{Kind: "round", Backend: be, Tree: tr, Limits: recLim}, false)
			runScenario(r, scenario{Kind: "round", Backend: be, Tree: tr}, true)
		}
		runScenario(r, scenario{Kind: "round", Backend: be, Tree: nestedExt}, false)
		runScenario(r, scenario{Kind: "round", Backend: be, Tree: nestedExt, Limits: &limSpec{MaxFile: 1 << 30, MaxTotal: 1 << 32, MaxCount: 1 << 20, MaxDepth: 10}}, false)
		for _, sp := range []string{"trailing", "inner-dot", "double-sep", "dotdot", "dot-trailing", "relative", "rel-dot"} {
			runScenario(r, scenario{Kind: "round", Backend: be, Tree: corpus["dots"], DestSpell: sp}, true)
			runScenario(r, scenario{Kind: "round", Backend: be, Tree: corpus["basic"], DestSpell: sp, Limits: &limSpec{Rel: true}}, true)
		}
		runScenario(r, scenario{Kind: "round", Backend: be, Tree: corpus["basic"], Prepopulate: true}, false)
		runScenario(r, scenario{Kind: "round", Backend: be, Tree: corpus["dots"], ZipLimits: true, Limits: &limSpec{MaxFile: 1 << 30, MaxTotal: 1 << 32, MaxCount: 1 << 20, MaxDepth: 10}}, true)
	}
	for _, ar := range []string{"zip", "tar"} {
		for _, name := range []string{"dots", "basic", "empty", "deep", "names"} {
			runScenario(r, scenario{Kind: "view", Backend: "os", Archive: ar, Tree: corpus[name]}, true)
		}
		runScenario(r, scenario{Kind: "view", Backend: "mem", Archive: ar, Tree: corpus["basic"], Limits: &limSpec{MaxFile: 1 << 30, MaxTotal: 1 << 32, MaxCount: 1 << 20, MaxDepth: -1}}, false)
		for i, vl := range []string{"size-1", "size", "size+1", "huge", "depth0"} {
			runScenario(r, scenario{Kind: "view", Backend: []string{"os", "mem"}[i%2], Archive: ar, Tree: corpus["basic"], ViewLim: vl}, false)
			runScenario(r, scenario{Kind: "view", Backend: []string{"mem", "os"}[i%2], Archive: ar, Tree: corpus["deep"], ViewLim: vl}, false)
		}
		runScenario(r, scenario{Kind: "readonly", Backend: "os", Archive: ar, Tree: corpus["basic"]}, false)
		runScenario(r, scenario{Kind: "readonly", Backend: "mem", Archive: ar, Tree: corpus["dots"]}, false)
		runScenario(r, scenario{Kind: "closed", Backend: "os", Archive: ar, Tree: corpus["basic"]}, true)
		runScenario(r, scenario{Kind: "closed", Backend: "mem", Archive: ar, Tree: corpus["basic"], Limits: &limSpec{MaxFile: 1 << 30, MaxTotal: 1 << 32, MaxCount: 1 << 20, MaxDepth: -1}}, false)
		for _, be := range []string{"os", "mem"} {
			for _, order := range []string{"file-fs", "fs-file", "fs-fs"} {
				runScenario(r, scenario{Kind: "closed", Backend: be, Archive: ar, Tree: corpus["basic"], CloseOrder: order}, false)
			}
		}
	}
	// fault sweeps: a tree with a file large enough for several writes, an empty file, nested and empty directories
	faultTree := append(append([]nodeSpec{}, corpus["basic"]...), nodeSpec{Rel: "d1/payload.bin", Size: 65536 + 17, Seed: 7, MTime: t0 + 23e9}, nodeSpec{Rel: "d1/d2/text.txt", Size: 40000, Seed: 9, Comp: true, MTime: t0 + 29e9})
	faultSweep(r, faultTree, r.Thorough() || r.Deep)
	// announced size vs served bytes: both directions, several sizes and cut points (65536 spans several copy buffers)
	for _, p := range [][2]int{{65536, 65536}, {65536, 1000}, {65536, 0}, {65536, 65535}, {65536, 32768}, {1000, 65536}, {65535, 65536}, {0, 1}, {1, 0}, {1, 1}, {100, 99}, {99, 100}, {40000, 32769}, {32768, 40000}} {
		runSizeLie(r, p[0], p[1])
	}
	for i, es := range rawCorpus {
		runScenario(r, scenario{Kind: "raw", Backend: []string{"os", "mem"}[i%2], Raw: es}, true)
	}
	runScenario(r, scenario{Kind: "raw", Backend: "os", Raw: rawCorpus[len(rawCorpus)-1], Limits: &limSpec{MaxFile: 1 << 20, MaxTotal: 4, MaxCount: 100, MaxDepth: -1}}, true)
	runScenario(r, scenario{Kind: "raw", Backend: "os", Raw: rawCorpus[len(rawCorpus)-1], Limits: &limSpec{MaxFile: 1 << 20, MaxTotal: 5, MaxCount: 100, MaxDepth: -1}}, true)
	runScenario(r, scenario{Kind: "raw", Backend: "mem", Raw: rawCorpus[len(rawCorpus)-1], Limits: &limSpec{MaxFile: 1 << 20, MaxTotal: 100, MaxCount: 3, MaxDepth: -1}}, true)
	runScenario(r, scenario{Kind: "raw", Backend: "mem", Raw: rawCorpus[len(rawCorpus)-1], Limits: &limSpec{MaxFile: 1 << 20, MaxTotal: 100, MaxCount: 4, MaxDepth: 1}}, true)
	runScenario(r, scenario{Kind: "raw", Backend: "os", Raw: rawCorpus[len(rawCorpus)-1], Limits: &limSpec{MaxFile: 1 << 20, MaxTotal: 100, MaxCount: 4, MaxDepth: 2}}, true)
	runScenario(r, scenario{Kind: "raw", Backend: "os", Raw: rawCorpus[len(rawCorpus)-1], Limits: &limSpec{MaxFile: 1 << 20, MaxTotal: 100, MaxCount: 4, MaxDepth: 0}}, true)

	// ---- seeded random
	rg := r.Rng
	nRound := r.N(150, 1500)
	emitted := 0
	for i := 0; i < nRound; i++ {
		be := []string{"os", "mem"}[rg.Intn(2)]
		var tree []nodeSpec
		emit := false
		switch {
		case i%3 == 0: // small trees for the model
			tree = genTree(rg, 14, 4, false, true)
			emit = true
		case i%3 == 1:
			tree = genTree(rg, 60, 6, false, false)
			emit = smallEnough(tree, 30, 1500)
		default:
			tree = genTree(rg, 200, 6, r.Thorough() || r.Deep, false)
		}
		sc := scenario{Kind: "round", Backend: be, Tree: tree, ZipLimits: rg.Intn(4) == 0, Prepopulate: !emit && rg.Intn(6) == 0}
		switch rg.Intn(6) {
		case 0: // exact fit
			sc.Limits = &limSpec{Rel: true}
		case 1: // one below in one dimension
			l := &limSpec{Rel: true}
			switch rg.Intn(4) {
			case 0:
				l.MaxTotal = -1
			case 1:
				l.MaxCount = -1
			case 2:
				l.MaxDepth = -1
			default:
				l.MaxDepth = -2000 // no depth limit
			}
			sc.Limits = l
		case 2:
			sc.Limits = &limSpec{MaxFile: 1 << 30, MaxTotal: 1 << 34, MaxCount: 1 << 20, MaxDepth: 10}
		case 3:
			sc.Limits = &limSpec{MaxFile: 1 << 30, MaxTotal: 1 << 34, MaxCount: 1 << 20, MaxDepth: -1, Recursive: true}
		}
		if !sc.Prepopulate && rg.Intn(3) == 0 {
			sc.DestSpell = []string{"trailing", "inner-dot", "double-sep", "dotdot", "dot-trailing", "relative", "rel-dot"}[rg.Intn(7)]
		}
		if emit && emitted >= r.N(110, 400) {
			emit = false
		}
		if emit {
			emitted++
		}
		runScenario(r, sc, emit)
	}
	nView := r.N(40, 400)
	for i := 0; i < nView; i++ {
		small := i%2 == 0
		var tree []nodeSpec
		if small {
			tree = genTree(rg, 12, 4, false, true)
		} else {
			tree = genTree(rg, 120, 6, false, false)
		}
		ar := []string{"zip", "tar"}[rg.Intn(2)]
		be := []string{"os", "mem"}[rg.Intn(2)]
		runScenario(r, scenario{Kind: "view", Backend: be, Archive: ar, Tree: tree, ViewLim: []string{"", "", "size-1", "size", "size+1", "huge", "depth0"}[rg.Intn(7)]}, small && i < r.N(40, 200))
		if i%5 == 0 {
			runScenario(r, scenario{Kind: "readonly", Backend: be, Archive: ar, Tree: tree}, false)
		}
		if i%10 == 0 {
			runScenario(r, scenario{Kind: "closed", Backend: be, Archive: ar, Tree: tree, CloseOrder: []string{"", "file-fs", "fs-file", "fs-fs"}[rg.Intn(4)]}, false)
		}
	}
	nRaw := r.N(40, 600)
	for i := 0; i < nRaw; i++ {
		es := genRaw(rg)
		be := []string{"os", "mem"}[rg.Intn(2)]
		if rawConflict(es) {
			be = "os" // afero's MemMapFs happily creates a file below a file; only the OS semantics is modelled for such archives
		}
		runScenario(r, scenario{Kind: "raw", Backend: be, Raw: es}, i < r.N(40, 300))
	}
	r.Note(fmt.Sprintf("scenario stream: %d scenarios, sha256 %s (a function of -seed, -tier and -deep only)", streamCount, hex.EncodeToString(streamDigest.Sum(nil))[:16]))
	r.Finish()
	_ = os.RemoveAll(scratch)
}
