// C15 harness: loads the fixed family of nested configuration types (types.go) with config.LoadFromEnvironment under
// generated assignments of the four sources (bound command-line flags, environment, configuration file, supplied
// defaults), prefixes, key spellings and required-field patterns; evaluates the property's oracle directly on the loaded
// structure / returned error (independently of the Coq model) and emits Coq correspondence cases for GU.C15.Model.check_case.
package main

import (
	"encoding/json"
	"errors"
	"fmt"
	"math"
	"os"
	"path/filepath"
	"reflect"
	"sort"
	"strconv"
	"strings"
	"time"

	validation "github.com/go-ozzo/ozzo-validation/v4"
	"github.com/spf13/pflag"
	"github.com/spf13/viper"

	"github.com/ARM-software/golang-utils/utils/commonerrors"
	"github.com/ARM-software/golang-utils/utils/config"

	"verif/harness/internal/h"
)

// ---------- scenario ----------

type value struct {
	S   string `json:"s,omitempty"`
	N   int64  `json:"n,omitempty"`
	Bad bool   `json:"bad,omitempty"` // a text that does not parse (numeric leaves only)
}

// member of a set of flags bound to ONE key with BindFlagsToEnv
type member struct {
	Kind    string `json:"kind"`              // nil (Lookup of an undefined flag) | unset | set
	Default *value `json:"default,omitempty"` // own default (else the binding's Default)
	Val     *value `json:"val,omitempty"`     // kind set: the value given on the command line
}

type flagSrc struct {
	Default value  `json:"default"`
	Set     *value `json:"set,omitempty"` // explicitly set on the command line
	Style   int    `json:"style"`         // spelling of the envVar argument of BindFlagToEnv / BindFlagsToEnv
	// Members, when present, are bound together with BindFlagsToEnv in this order; Default / Set are then DERIVED
	// (effective): Set = the value of the first member that was set, Default = the default of the last defined member
	// (what ValueString yields while nothing changed).
	Members []member `json:"members,omitempty"`
	base    value    // Default as generated (members without a default of their own use it)
	baseSet bool
	anySet  []value // several members set to DIFFERENT values: the code picks one of them through a set (any is accepted)
}

// effective derives Default / Set of a binding from its members (also on replay)
func effective(ty string, f *flagSrc) {
	if len(f.Members) == 0 {
		return
	}
	if !f.baseSet {
		f.base, f.baseSet = f.Default, true
	}
	base := f.base
	f.Set, f.anySet = nil, nil
	for i := range f.Members {
		m := &f.Members[i]
		if m.Kind == "nil" {
			continue
		}
		d := base
		if m.Default != nil {
			d = *m.Default
		}
		f.Default = d
		if m.Kind == "set" && m.Val != nil {
			if f.Set == nil {
				v := *m.Val
				f.Set = &v
			}
			dup := false
			for _, x := range f.anySet {
				if valEq(ty, x, *m.Val) {
					dup = true
				}
			}
			if !dup {
				f.anySet = append(f.anySet, *m.Val)
			}
		}
	}
	if len(f.anySet) < 2 {
		f.anySet = nil
	}
}

type leafSrc struct {
	Def      *value   `json:"def,omitempty"` // nil: the zero value
	File     *value   `json:"file,omitempty"`
	FileCase int      `json:"filecase,omitempty"`
	Env      *value   `json:"env,omitempty"`
	Flag     *flagSrc `json:"flag,omitempty"`
}

type decoy struct {
	Name  string `json:"name"`
	Value string `json:"value"`
}

type scenario struct {
	Shape      string            `json:"shape"`
	Prefix     string            `json:"prefix"`
	Leaves     []leafSrc         `json:"leaves"`
	Required   map[string]uint64 `json:"required,omitempty"`
	ErrStyle   map[string]int    `json:"errstyle,omitempty"` // how each type's Validate reports (types.go: errStyle)
	Decoys     []decoy           `json:"decoys,omitempty"`
	ParentCase int               `json:"parentcase,omitempty"`
	Note       string            `json:"note,omitempty"`
}

// ---------- description of a shape (reflection over the harness's own types) ----------

type leafDesc struct {
	GoPath []string
	Tags   []string
	Ty     string // str int bool float dur
	Parent string
	Field  int
	Index  []int
}

type fieldDesc struct {
	Go, Tag string
	Field   int
	Leaf    int // index into leaves, -1 for a structure
	Node    *nodeDesc
}

type nodeDesc struct {
	TypeName string
	Mode     int
	Fields   []fieldDesc
}

var durType = reflect.TypeOf(time.Duration(0))

func walk(t reflect.Type, goPath, tags []string, idx []int, leaves *[]leafDesc) *nodeDesc {
	n := &nodeDesc{TypeName: t.Name(), Mode: modes[t.Name()]}
	for i := 0; i < t.NumField(); i++ {
		f := t.Field(i)
		tag := f.Tag.Get("mapstructure")
		gp := append(append([]string{}, goPath...), f.Name)
		tg := append(append([]string{}, tags...), tag)
		ix := append(append([]int{}, idx...), i)
		fd := fieldDesc{Go: f.Name, Tag: tag, Field: i, Leaf: -1}
		ty := ""
		switch {
		case f.Type == durType:
			ty = "dur"
		case f.Type.Kind() == reflect.String:
			ty = "str"
		case f.Type.Kind() == reflect.Int:
			ty = "int"
		case f.Type.Kind() == reflect.Bool:
			ty = "bool"
		case f.Type.Kind() == reflect.Float64:
			ty = "float"
		case f.Type.Kind() == reflect.Struct:
			fd.Node = walk(f.Type, gp, tg, ix, leaves)
		default:
			panic("unsupported field type " + f.Type.String())
		}
		if ty != "" {
			fd.Leaf = len(*leaves)
			*leaves = append(*leaves, leafDesc{GoPath: gp, Tags: tg, Ty: ty, Parent: t.Name(), Field: i, Index: ix})
		}
		n.Fields = append(n.Fields, fd)
	}
	return n
}

type shapeDesc struct {
	typ    reflect.Type
	root   *nodeDesc
	leaves []leafDesc
}

var shapeCache = map[string]*shapeDesc{}

func describe(name string) *shapeDesc {
	if d, ok := shapeCache[name]; ok {
		return d
	}
	t, ok := shapeByName(name)
	if !ok {
		return nil
	}
	d := &shapeDesc{typ: t}
	d.root = walk(t, nil, nil, nil, &d.leaves)
	shapeCache[name] = d
	return d
}

// the environment variable of a field as the property states it: PREFIX_PATH_TO_FIELD, upper case
func specEnvName(prefix string, tags []string) string {
	if prefix == "" {
		return strings.ToUpper(strings.Join(tags, "_"))
	}
	return strings.ToUpper(prefix + "_" + strings.Join(tags, "_"))
}

// ---------- rendering of values ----------

func render(ty string, v value) string {
	if v.Bad {
		return "zz-not-a-number"
	}
	switch ty {
	case "str":
		return v.S
	case "int":
		return strconv.FormatInt(v.N, 10)
	case "bool":
		if v.N != 0 {
			return "true"
		}
		return "false"
	case "float":
		return strconv.FormatFloat(float64(v.N)/8, 'g', -1, 64)
	case "dur":
		return (time.Duration(v.N) * time.Millisecond).String()
	}
	panic("ty")
}

func jsonValue(ty string, v value) any {
	if v.Bad {
		return "zz-not-a-number"
	}
	switch ty {
	case "str":
		return v.S
	case "int":
		return v.N
	case "bool":
		return v.N != 0
	case "float":
		return float64(v.N) / 8
	default:
		return render(ty, v)
	}
}

func setLeaf(root reflect.Value, l leafDesc, v value) {
	f := root.Elem().FieldByIndex(l.Index)
	switch l.Ty {
	case "str":
		f.SetString(v.S)
	case "int":
		f.SetInt(v.N)
	case "bool":
		f.SetBool(v.N != 0)
	case "float":
		f.SetFloat(float64(v.N) / 8)
	case "dur":
		f.SetInt(int64(time.Duration(v.N) * time.Millisecond))
	}
}

// getLeaf projects a loaded field back onto the scenario's value domain; ok=false when it is not representable there
func getLeaf(root reflect.Value, l leafDesc) (value, bool) {
	f := root.Elem().FieldByIndex(l.Index)
	switch l.Ty {
	case "str":
		return value{S: f.String()}, true
	case "int":
		return value{N: f.Int()}, true
	case "bool":
		if f.Bool() {
			return value{N: 1}, true
		}
		return value{N: 0}, true
	case "float":
		x := f.Float() * 8
		if x != math.Trunc(x) || math.Abs(x) > 1e15 {
			return value{}, false
		}
		return value{N: int64(x)}, true
	default:
		d := time.Duration(f.Int())
		if d%time.Millisecond != 0 {
			return value{}, false
		}
		return value{N: int64(d / time.Millisecond)}, true
	}
}

func caseSpell(s string, c int) string {
	switch c {
	case 1:
		return strings.ToUpper(s)
	case 2:
		return strings.ToLower(s)
	case 3:
		return strings.Title(strings.ToLower(s)) //nolint
	}
	return s
}

// ---------- running a scenario on the implementation ----------

type observation struct {
	Kind   string   `json:"kind"` // ok | invalid | marshal | other
	Err    string   `json:"err,omitempty"`
	Values []value  `json:"values,omitempty"`
	ValOK  bool     `json:"valok"`
	Tree   []string `json:"tree,omitempty"`
	Reason string   `json:"reason,omitempty"`
	MSPath string   `json:"mspath,omitempty"`
	Names  []string `json:"names"`
	NamesE string   `json:"names_err,omitempty"`
}

var workDir string

func flagArg(sc scenario, l leafDesc, style int) string {
	full := specEnvName(sc.Prefix, l.Tags)
	short := strings.ToUpper(strings.Join(l.Tags, "_"))
	if strings.HasPrefix(strings.ToLower(short), strings.ToLower(sc.Prefix)) && style%5 != 3 {
		// "without the prefix" would be read as "with the prefix" by generateEnvVarConfigKeys: only the full name is unambiguous
		return full
	}
	switch style % 5 {
	case 0:
		return full
	case 1:
		return short
	case 2:
		return strings.ToLower(short)
	case 3:
		return caseSpell(full, 3)
	default:
		return full
	}
}

func execute(sc scenario, d *shapeDesc) observation {
	var o observation
	os.Clearenv()
	for i, ls := range sc.Leaves {
		if ls.Env != nil {
			_ = os.Setenv(specEnvName(sc.Prefix, d.leaves[i].Tags), render(d.leaves[i].Ty, *ls.Env))
		}
	}
	for _, dc := range sc.Decoys {
		_ = os.Setenv(dc.Name, dc.Value)
	}
	required = map[string]uint64{}
	for k, v := range sc.Required {
		required[k] = v
	}
	errStyle = map[string]int{}
	for k, v := range sc.ErrStyle {
		errStyle[k] = v
	}
	defaults := reflect.New(d.typ)
	sample := reflect.New(d.typ)
	for i, ls := range sc.Leaves {
		if ls.Def != nil {
			setLeaf(defaults, d.leaves[i], *ls.Def)
		}
		setLeaf(sample, d.leaves[i], value{S: "x", N: 1})
	}
	// configuration file
	file := ""
	fm := map[string]any{}
	hasFile := false
	for i, ls := range sc.Leaves {
		if ls.File == nil {
			continue
		}
		hasFile = true
		m := fm
		tags := d.leaves[i].Tags
		for _, t := range tags[:len(tags)-1] {
			k := caseSpell(t, sc.ParentCase)
			nm, ok := m[k].(map[string]any)
			if !ok {
				nm = map[string]any{}
				m[k] = nm
			}
			m = nm
		}
		m[caseSpell(tags[len(tags)-1], ls.FileCase)] = jsonValue(d.leaves[i].Ty, *ls.File)
	}
	if hasFile {
		file = filepath.Join(workDir, "config.json")
		bs, _ := json.Marshal(fm)
		_ = os.WriteFile(file, bs, 0o600)
	}
	// flags
	session := viper.New()
	fs := pflag.NewFlagSet("c15", pflag.ContinueOnError)
	for i, ls := range sc.Leaves {
		if ls.Flag == nil {
			continue
		}
		l := d.leaves[i]
		define := func(n string, dv value) *pflag.Flag {
			switch l.Ty {
			case "str":
				fs.String(n, dv.S, "")
			case "int":
				fs.Int(n, int(dv.N), "")
			case "bool":
				fs.Bool(n, dv.N != 0, "")
			case "float":
				fs.Float64(n, float64(dv.N)/8, "")
			case "dur":
				fs.Duration(n, time.Duration(dv.N)*time.Millisecond, "")
			}
			return fs.Lookup(n)
		}
		if len(ls.Flag.Members) > 0 {
			// a set of flags for one key, in the given order; nil members are Lookups of names that were never defined
			var fl []*pflag.Flag
			base := memberBase(ls.Flag)
			for j, m := range ls.Flag.Members {
				if m.Kind == "nil" {
					fl = append(fl, fs.Lookup(fmt.Sprintf("undefined%d_%d", i, j)))
					continue
				}
				dv := base
				if m.Default != nil {
					dv = *m.Default
				}
				fl = append(fl, define(fmt.Sprintf("m%d_%d", i, j), dv))
			}
			if err := config.BindFlagsToEnv(session, sc.Prefix, flagArg(sc, l, ls.Flag.Style), fl...); err != nil {
				o.Kind, o.Err = "other", "bind: "+err.Error()
				return o
			}
			for j, m := range ls.Flag.Members {
				if m.Kind == "set" && m.Val != nil {
					if err := fs.Set(fmt.Sprintf("m%d_%d", i, j), render(l.Ty, *m.Val)); err != nil {
						o.Kind, o.Err = "other", "flag set: "+err.Error()
						return o
					}
				}
			}
			continue
		}
		names := []string{fmt.Sprintf("f%d", i)}
		if ls.Flag.Style%5 == 4 {
			names = append(names, fmt.Sprintf("g%d", i))
		}
		var fl []*pflag.Flag
		for _, n := range names {
			dv := ls.Flag.Default
			switch l.Ty {
			case "str":
				fs.String(n, dv.S, "")
			case "int":
				fs.Int(n, int(dv.N), "")
			case "bool":
				fs.Bool(n, dv.N != 0, "")
			case "float":
				fs.Float64(n, float64(dv.N)/8, "")
			case "dur":
				fs.Duration(n, time.Duration(dv.N)*time.Millisecond, "")
			}
			fl = append(fl, fs.Lookup(n))
		}
		var err error
		if len(fl) == 1 {
			err = config.BindFlagToEnv(session, sc.Prefix, flagArg(sc, l, ls.Flag.Style), fl[0])
		} else {
			err = config.BindFlagsToEnv(session, sc.Prefix, flagArg(sc, l, ls.Flag.Style), fl...)
		}
		if err != nil {
			o.Kind, o.Err = "other", "bind: "+err.Error()
			return o
		}
		if ls.Flag.Set != nil {
			which := names[(ls.Flag.Style/5)%len(names)]
			if err := fs.Set(which, render(l.Ty, *ls.Flag.Set)); err != nil {
				o.Kind, o.Err = "other", "flag set: "+err.Error()
				return o
			}
		}
	}
	target := reflect.New(d.typ)
	tgt, dfl := target.Interface().(config.IServiceConfiguration), defaults.Interface().(config.IServiceConfiguration)
	var err error
	switch {
	case file != "":
		err = config.LoadFromEnvironment(session, sc.Prefix, tgt, dfl, file)
	case anyFlag(sc):
		err = config.LoadFromViper(session, sc.Prefix, tgt, dfl) // the same without a configuration file
	default:
		err = config.Load(sc.Prefix, tgt, dfl) // … and with a fresh viper session
	}
	o.ValOK = true
	for _, l := range d.leaves {
		v, ok := getLeaf(target, l)
		if !ok {
			o.ValOK = false
		}
		o.Values = append(o.Values, v)
	}
	var ve config.IValidationError
	switch {
	case err == nil:
		o.Kind = "ok"
	case commonerrors.Any(err, commonerrors.ErrInvalid) && errors.As(err, &ve):
		o.Kind, o.Err = "invalid", err.Error()
		o.Tree = ve.GetTree()
		o.MSPath = ve.GetMapStructurePath()
		o.Reason = ve.GetReason()
	case commonerrors.Any(err, commonerrors.ErrMarshalling):
		o.Kind, o.Err = "marshal", err.Error()
	default:
		o.Kind, o.Err = "other", err.Error()
	}
	vars, nerr := config.DetermineConfigurationEnvironmentVariables(sc.Prefix, sample.Interface().(config.IServiceConfiguration))
	if nerr != nil {
		o.NamesE = nerr.Error()
	}
	for k := range vars {
		o.Names = append(o.Names, k)
	}
	sort.Strings(o.Names)
	return o
}

func anyFlag(sc scenario) bool {
	for _, l := range sc.Leaves {
		if l.Flag != nil {
			return true
		}
	}
	return false
}

// ---------- the oracle: the property stated on the observations ----------

func valEq(ty string, a, b value) bool {
	if ty == "str" {
		return a.S == b.S
	}
	return a.N == b.N
}

func isZero(ty string, v value) bool {
	if ty == "str" {
		return v.S == ""
	}
	return v.N == 0
}

func emptyish(ty string, v value) bool {
	if ty == "str" {
		return strings.TrimSpace(v.S) == ""
	}
	return v.N == 0
}

type expectation struct {
	src   string // flag | env | file | default
	v     value
	lax   *value // alternative acceptable value (default of an unset bound flag filling an empty value)
	bad   bool
	any   []value // members of one flag set were set to different values: any of them is acceptable
	shado bool    // an environment variable of another FIELD is also the name viper derives for an enclosing structure
}

func expectLeaf(ty string, ls leafSrc) expectation {
	var e expectation
	switch {
	case ls.Flag != nil && ls.Flag.Set != nil:
		e.src, e.v = "flag", *ls.Flag.Set
		e.any = ls.Flag.anySet
	case ls.Env != nil && !(ty == "str" && ls.Env.S == ""): // setEnvOptions: AllowEmptyEnv(false)
		e.src, e.v = "env", *ls.Env
	case ls.File != nil:
		e.src, e.v = "file", *ls.File
	case ls.Def != nil:
		e.src, e.v = "default", *ls.Def
	default:
		e.src, e.v = "default", value{}
	}
	e.bad = e.v.Bad
	if ls.Flag != nil && ls.Flag.Set == nil && e.src != "env" && !e.bad {
		fd := ls.Flag.Default
		nonEmpty := ty == "float" || ty == "dur" || !emptyish(ty, fd)
		if nonEmpty && emptyish(ty, e.v) {
			e.lax = &fd
		}
	}
	return e
}

func sourceOf(ty string, ls leafSrc, got value) string {
	var hits []string
	if ls.Flag != nil && ls.Flag.Set != nil && valEq(ty, *ls.Flag.Set, got) {
		hits = append(hits, "flag")
	}
	if ls.Env != nil && !ls.Env.Bad && valEq(ty, *ls.Env, got) {
		hits = append(hits, "env")
	}
	if ls.File != nil && !ls.File.Bad && valEq(ty, *ls.File, got) {
		hits = append(hits, "file")
	}
	if ls.Def != nil && valEq(ty, *ls.Def, got) {
		hits = append(hits, "default")
	}
	if ls.Flag != nil && ls.Flag.Set == nil && valEq(ty, ls.Flag.Default, got) {
		hits = append(hits, "flagdefault")
	}
	if len(hits) == 1 {
		return hits[0]
	}
	if len(hits) > 1 {
		return "ambiguous"
	}
	if isZero(ty, got) {
		return "zero"
	}
	return "other"
}

// offending fields (acceptable error paths) of the structure holding vals, following how the types validate
func offending(n *nodeDesc, vals []value, leaves []leafDesc, req map[string]uint64) [][]string {
	if n.Mode == vNone {
		return nil
	}
	var out [][]string
	for _, f := range n.Fields {
		if f.Leaf >= 0 {
			if req[n.TypeName]&(1<<uint(f.Field)) != 0 && isZero(leaves[f.Leaf].Ty, vals[f.Leaf]) {
				out = append(out, []string{f.Tag})
			}
		} else if n.Mode != vOwnOnly {
			for _, p := range offending(f.Node, vals, leaves, req) {
				out = append(out, append([]string{f.Go}, p...))
			}
		}
	}
	return out
}

func oracle(r *h.Run, sc scenario, d *shapeDesc, o observation) {
	if o.Kind == "other" {
		r.Fail("unexpected-error", "loading failed with an error that is neither invalid nor marshalling: "+o.Err, sc)
		return
	}
	// (1) reported environment names = PREFIX_PATH_TO_FIELD of every field
	want := map[string]bool{}
	for _, l := range d.leaves {
		want[specEnvName(sc.Prefix, l.Tags)] = true
	}
	namesOK := o.NamesE == "" && len(o.Names) == len(want)
	for _, n := range o.Names {
		if !want[n] {
			namesOK = false
		}
	}
	if !namesOK {
		sig := "env-names:reported-differ"
		if sc.Prefix == "" {
			sig = "env-names:empty-prefix"
		}
		r.Fail(sig, fmt.Sprintf("DetermineConfigurationEnvironmentVariables reports %v, the fields' variables are %v (err %q)", o.Names, keys(want), o.NamesE), sc)
	}
	// which variables set in the environment are also the name of an enclosing structure of some field
	envSet := map[string]bool{}
	for i, ls := range sc.Leaves {
		if ls.Env != nil && render(d.leaves[i].Ty, *ls.Env) != "" {
			envSet[specEnvName(sc.Prefix, d.leaves[i].Tags)] = true
		}
	}
	exps := make([]expectation, len(d.leaves))
	anyBad := false
	for i, l := range d.leaves {
		exps[i] = expectLeaf(l.Ty, sc.Leaves[i])
		for k := 1; k < len(l.Tags); k++ {
			if envSet[specEnvName(sc.Prefix, l.Tags[:k])] && exps[i].src != "flag" && exps[i].src != "env" {
				exps[i].shado = true
			}
		}
		if exps[i].bad {
			anyBad = true
		}
	}
	if anyBad {
		r.Count("oracle:bad-winning-value(correspondence only)")
		return
	}
	if o.Kind == "marshal" {
		r.Fail("spurious-marshalling-error", "every winning value is well formed but loading failed: "+o.Err, sc)
		return
	}
	if !o.ValOK {
		r.Fail("value-drift", "a loaded number is not one of the supplied ones", sc)
		return
	}
	// (2) precedence, field by field
	final := make([]value, len(d.leaves))
	shadowHit, precFail := false, false
	for i, l := range d.leaves {
		e, got := exps[i], o.Values[i]
		final[i] = got
		anyOK := false
		for _, x := range e.any {
			if valEq(l.Ty, x, got) {
				anyOK = true
				r.Count("oracle:one-of-several-set-members")
			}
		}
		if anyOK || valEq(l.Ty, e.v, got) || (e.lax != nil && valEq(l.Ty, *e.lax, got)) {
			if e.lax != nil {
				r.Count("oracle:flag-default-fills-empty")
			}
			continue
		}
		final[i] = e.v
		precFail = true
		sig := fmt.Sprintf("precedence:expected=%s:got=%s", e.src, sourceOf(l.Ty, sc.Leaves[i], got))
		if e.shado {
			sig = "env-shadow:" + e.src + "-value-lost"
			shadowHit = true
		}
		r.Fail(sig, fmt.Sprintf("field %s (%s) must take the value of its %s (%s) but holds %s",
			strings.Join(l.GoPath, "."), specEnvName(sc.Prefix, l.Tags), e.src, render(l.Ty, e.v), render(l.Ty, got)), sc)
	}
	// (3) validation at every level the types validate
	if shadowHit || precFail {
		return // the structure that was validated is not the one the sources describe; already reported
	}
	off := offending(d.root, final, d.leaves, sc.Required)
	switch {
	case len(off) == 0 && o.Kind != "ok":
		r.Fail("validation:spurious", "every required field has a value but loading failed: "+o.Err, sc)
	case len(off) > 0 && o.Kind == "ok":
		r.Fail("validation:missed", fmt.Sprintf("loading succeeded although required fields are empty: %v", off), sc)
	case len(off) > 0:
		// the error must name an offending field: either its tree path ends in the field, or the path leads to the
		// structure and the reason given by Validate carries the field's name (plain / wrapped / commonerrors styles)
		named := false
		for _, p := range off {
			if reflect.DeepEqual(p, o.Tree) ||
				(reflect.DeepEqual(p[:len(p)-1], append([]string{}, o.Tree...)) && strings.Contains(o.Reason, p[len(p)-1]) && strings.Contains(o.Err, p[len(p)-1])) {
				named = true
			}
		}
		if !named {
			r.Fail("validation:field-not-named", fmt.Sprintf("the invalid error names %v (reason %q), the offending fields are %v", o.Tree, o.Reason, off), sc)
		}
	}
}

// nodeAt follows Go field names from the root; nil when the path does not lead to a structure
func nodeAt(n *nodeDesc, path []string) *nodeDesc {
	for _, p := range path {
		var next *nodeDesc
		for _, f := range n.Fields {
			if f.Go == p && f.Node != nil {
				next = f.Node
			}
		}
		if next == nil {
			return nil
		}
		n = next
	}
	return n
}

func genStyles(r *h.Run) map[string]int {
	st := map[string]int{}
	for name, m := range modes {
		if m != vNone {
			st[name] = r.Rng.Intn(5)
		}
	}
	return st
}

// memberBase: the default of members that carry none of their own (the binding's Default as generated, before `effective`)
func memberBase(f *flagSrc) value {
	if f.baseSet {
		return f.base
	}
	return f.Default
}

func keys(m map[string]bool) []string {
	var ks []string
	for k := range m {
		ks = append(ks, k)
	}
	sort.Strings(ks)
	return ks
}

// ---------- Coq terms ----------

var coqTy = map[string]string{"str": "TStr", "int": "TInt", "bool": "TBool", "float": "TFloat", "dur": "TDur"}
var coqMode = []string{"VNone", "VOwnOnly", "VEmbFirst", "VOwnFirst"}

// cs prints a byte string: as a Coq string literal through Model.str_of when printable ASCII (fast to parse), else as a list of Z
func cs(s string) string {
	for i := 0; i < len(s); i++ {
		if s[i] < 32 || s[i] > 126 {
			return h.Str(s)
		}
	}
	if s == "" {
		return "[]"
	}
	return "(str_of \"" + strings.ReplaceAll(s, "\"", "\"\"") + "\")"
}

func coqAval(ty string, v value) string {
	if ty == "str" {
		return "(AStr " + cs(v.S) + ")"
	}
	return "(ANum " + h.Z(v.N) + ")"
}

func coqSchema(n *nodeDesc, sc scenario, d *shapeDesc) string {
	var fsT []string
	for _, f := range n.Fields {
		var sub string
		if f.Leaf >= 0 {
			l := d.leaves[f.Leaf]
			dv := value{}
			if sc.Leaves[f.Leaf].Def != nil {
				dv = *sc.Leaves[f.Leaf].Def
			}
			sub = fmt.Sprintf("(Leaf %s %s %s)", coqTy[l.Ty], coqAval(l.Ty, dv), h.Bool(sc.Required[n.TypeName]&(1<<uint(f.Field)) != 0))
		} else {
			sub = coqSchema(f.Node, sc, d)
		}
		fsT = append(fsT, fmt.Sprintf("(%s, %s, %s)", cs(f.Go), cs(f.Tag), sub))
	}
	return fmt.Sprintf("(Node %s %s)", coqMode[n.Mode], h.List(fsT))
}

// ---- compact schema terms: coq/C15/Shapes.v holds one constructor function per shape (generated by this harness with
// C15_GENSHAPES=<file>); it is used only when the file on disk is byte-identical to what the compiled-in types generate.
func shapeBody(n *nodeDesc, d *shapeDesc) string {
	var fsT []string
	for _, f := range n.Fields {
		var sub string
		if f.Leaf >= 0 {
			sub = fmt.Sprintf("Leaf %s (nth %d ds (ANum 0)) (nth %d rs false)", coqTy[d.leaves[f.Leaf].Ty], f.Leaf, f.Leaf)
		} else {
			sub = shapeBody(f.Node, d)
		}
		fsT = append(fsT, fmt.Sprintf("(%s, %s, %s)", cs(f.Go), cs(f.Tag), sub))
	}
	return fmt.Sprintf("Node %s\n    %s", coqMode[n.Mode], "["+strings.Join(fsT, ";\n     ")+"]")
}

func shapesFile() string {
	var b strings.Builder
	b.WriteString("(* C15 — GENERATED by harness/cmd/c15 (C15_GENSHAPES=<file>) from the configuration types compiled into the harness\n   (harness/cmd/c15/types.go): one schema constructor per shape, applied to the supplied defaults and the\n   required flags of its leaves in declaration order.  Only an abbreviation used by the correspondence cases. *)\n")
	b.WriteString("From Coq Require Import List ZArith Bool String.\nImport ListNotations.\nFrom GU Require Import C15.Model.\n\n")
	for _, sh := range shapes {
		d := describe(sh.name)
		fmt.Fprintf(&b, "Definition sh_%s (ds : list aval) (rs : list bool) : schema :=\n  %s.\n\n", sh.name, shapeBody(d.root, d))
	}
	return b.String()
}

var compactSchemas bool
var namesSeen = map[string]bool{}

func coqSchemaTop(sc scenario, d *shapeDesc) string {
	if !compactSchemas {
		return coqSchema(d.root, sc, d)
	}
	ds := make([]string, len(d.leaves))
	rs := make([]string, len(d.leaves))
	for i, l := range d.leaves {
		dv := value{}
		if sc.Leaves[i].Def != nil {
			dv = *sc.Leaves[i].Def
		}
		ds[i] = coqAval(l.Ty, dv)
		rs[i] = h.Bool(sc.Required[l.Parent]&(1<<uint(l.Field)) != 0)
	}
	return fmt.Sprintf("(sh_%s %s %s)", sc.Shape, h.List(ds), h.List(rs))
}

func coqCase(sc scenario, d *shapeDesc, o observation) string {
	var env, flags, file []string
	for i, ls := range sc.Leaves {
		l := d.leaves[i]
		if ls.Env != nil {
			var v string
			switch {
			case ls.Env.Bad:
				v = "VBad"
			case l.Ty == "str":
				v = "(VStr " + cs(ls.Env.S) + ")"
			default:
				v = "(VText " + h.Z(ls.Env.N) + ")"
			}
			env = append(env, fmt.Sprintf("(%s, %s)", cs(specEnvName(sc.Prefix, l.Tags)), v))
		}
		if ls.Flag != nil {
			mflag := func(d value, s *value) string {
				set := "None"
				if s != nil {
					set = "(Some " + coqAval(l.Ty, *s) + ")"
				}
				return "(MFlag " + coqAval(l.Ty, d) + " " + set + ")"
			}
			var ms []string
			switch {
			case len(ls.Flag.Members) > 0:
				base := memberBase(ls.Flag)
				for _, m := range ls.Flag.Members {
					switch m.Kind {
					case "nil":
						ms = append(ms, "MNil")
					default:
						dv := base
						if m.Default != nil {
							dv = *m.Default
						}
						var sv *value
						if m.Kind == "set" {
							sv = m.Val
						}
						ms = append(ms, mflag(dv, sv))
					}
				}
			case ls.Flag.Style%5 == 4: // two flags with the same default, one of them possibly set
				a, b := mflag(ls.Flag.Default, nil), mflag(ls.Flag.Default, nil)
				if ls.Flag.Set != nil {
					if (ls.Flag.Style/5)%2 == 0 {
						a = mflag(ls.Flag.Default, ls.Flag.Set)
					} else {
						b = mflag(ls.Flag.Default, ls.Flag.Set)
					}
				}
				ms = []string{a, b}
			default:
				ms = []string{mflag(ls.Flag.Default, ls.Flag.Set)}
			}
			flags = append(flags, fmt.Sprintf("(%s, %s, %s)", cs(flagArg(sc, l, ls.Flag.Style)), coqTy[l.Ty], h.List(ms)))
		}
		if ls.File != nil {
			var parts []string
			for _, t := range l.Tags[:len(l.Tags)-1] {
				parts = append(parts, caseSpell(t, sc.ParentCase))
			}
			parts = append(parts, caseSpell(l.Tags[len(l.Tags)-1], ls.FileCase))
			var v string
			switch {
			case ls.File.Bad:
				v = "VBad"
			case l.Ty == "str":
				v = "(VStr " + cs(ls.File.S) + ")"
			case l.Ty == "dur":
				v = "(VText " + h.Z(ls.File.N) + ")"
			default:
				v = "(VNum " + h.Z(ls.File.N) + ")"
			}
			file = append(file, fmt.Sprintf("(%s, %s)", cs(strings.Join(parts, ".")), v))
		}
	}
	for _, dc := range sc.Decoys {
		env = append(env, fmt.Sprintf("(%s, (VStr %s))", cs(dc.Name), cs(dc.Value)))
	}
	world := fmt.Sprintf("(mkW %s %s %s %s)", cs(sc.Prefix), h.List(env), h.List(flags), h.List(file))
	vals := make([]string, len(o.Values))
	for i, v := range o.Values {
		vals[i] = coqAval(d.leaves[i].Ty, v)
	}
	var out string
	switch o.Kind {
	case "ok":
		out = "(Loaded " + h.List(vals) + ")"
	case "invalid":
		// projection "the field the error names": the tree, extended by the field name the reason starts with when the
		// reporting structure's Validate gave a plain-text error (the model knows the ozzo form only)
		tree := append([]string{}, o.Tree...)
		if n := nodeAt(d.root, tree); n != nil {
			for _, f := range n.Fields {
				if f.Leaf >= 0 && strings.HasPrefix(o.Reason, f.Tag+": "+blankText) {
					tree = append(tree, f.Tag)
					break
				}
			}
		}
		tr := make([]string, len(tree))
		for i, t := range tree {
			tr[i] = cs(t)
		}
		out = fmt.Sprintf("(Invalid %s %s %s)", h.List(vals), h.List(tr), cs(o.MSPath))
	default:
		out = "MarshalErr"
	}
	namesT := "None"
	nk := sc.Shape + "|" + sc.Prefix + "|" + strings.Join(o.Names, ",")
	if !namesSeen[nk] {
		namesSeen[nk] = true
		names := make([]string, len(o.Names))
		for i, n := range o.Names {
			names[i] = cs(n)
		}
		namesT = "(Some " + h.List(names) + ")"
	}
	return fmt.Sprintf("(mkCase %s %s %s %s)", world, coqSchemaTop(sc, d), out, namesT)
}

// ---------- generator ----------

// prefixes: plain, upper / mixed case, digits, dashes, the empty one, prefixes of keys of the family, and separators at the
// end / at the start / doubled (the reported and the honoured names must then both carry the doubled separator)
var prefixes = []string{"app", "TEST", "My_App", "x1", "svc-a", "Zeta9", "", "t", "Dummy", "s",
	"APP_", "my_app_", "_lead", "a__b", "Mi-X_9_", "__"}
var words = []string{"alpha", "Bravo", "char lie", " delta", "echo ", "fox=trot", "GOLF", "h0tel", "in-dia", "ju_liet", "k.ilo", "lima,mike"}

func genValue(r *h.Run, ty, src string, zeroP int) value {
	if r.Rng.Intn(100) < zeroP {
		if ty == "str" && r.Rng.Intn(3) == 0 {
			return value{S: "  "}
		}
		return value{}
	}
	switch ty {
	case "str":
		return value{S: src + "-" + words[r.Rng.Intn(len(words))] + strconv.Itoa(r.Rng.Intn(1000))}
	case "int":
		n := int64(r.Rng.Intn(200000) - 1000)
		if n == 0 {
			n = 7
		}
		return value{N: n}
	case "bool":
		return value{N: int64(r.Rng.Intn(2))}
	case "float":
		n := int64(r.Rng.Intn(9000) - 800)
		if n == 0 {
			n = 3
		}
		return value{N: n}
	default:
		n := int64(r.Rng.Intn(10000000) + 1)
		if r.Rng.Intn(8) == 0 {
			n = -n
		}
		return value{N: n}
	}
}

// prefixClash: a key of the structure starts with the (lower-cased) prefix — generateEnvVarConfigKeys then strips it
func prefixClash(prefix string, d *shapeDesc) bool {
	p := strings.ToLower(prefix)
	for _, l := range d.leaves {
		if strings.HasPrefix(strings.ToLower(strings.Join(l.Tags, ".")), p) {
			return true
		}
	}
	return false
}

func pickPrefix(r *h.Run, d *shapeDesc) string {
	p := prefixes[r.Rng.Intn(len(prefixes))]
	if prefixClash(p, d) {
		r.Count("prefix-is-prefix-of-a-key")
	}
	return p
}

// leafWith builds the sources of one leaf from a 4-bit pattern: 1 default, 2 file, 4 env, 8 explicitly set flag
func leafWith(r *h.Run, ty string, pattern int, zeroP int) leafSrc {
	var ls leafSrc
	seen := map[string]bool{}
	fresh := func(src string) *value {
		for k := 0; ; k++ {
			v := genValue(r, ty, src, zeroP)
			key := render(ty, v)
			if !seen[key] || ty == "bool" || k > 20 {
				seen[key] = true
				return &v
			}
		}
	}
	if pattern&1 != 0 {
		ls.Def = fresh("default")
	}
	if pattern&2 != 0 {
		ls.File = fresh("file")
		ls.FileCase = r.Rng.Intn(4)
	}
	if pattern&4 != 0 {
		ls.Env = fresh("env")
		if ty == "str" && ls.Env.S == "" && r.Rng.Intn(3) != 0 {
			// mostly avoid the empty variable; when kept it must count as NOT set (setEnvOptions: AllowEmptyEnv(false))
			ls.Env.S = "env-nonempty"
		}
		if ty == "str" && r.Rng.Intn(25) == 0 {
			ls.Env.S = ""
		}
	}
	if pattern&8 != 0 {
		ls.Flag = &flagSrc{Default: *fresh("flagdefault"), Set: fresh("flag"), Style: r.Rng.Intn(10)}
	} else if r.Rng.Intn(3) == 0 {
		// a bound flag that is NOT set: its default must not outrank any of the four sources
		fd := fresh("flagdefault")
		if r.Rng.Intn(4) == 0 {
			fd = &value{}
		}
		ls.Flag = &flagSrc{Default: *fd, Style: r.Rng.Intn(10)}
	}
	if ls.Flag != nil && r.Rng.Intn(3) == 0 {
		// (templates with members set to DIFFERENT values are left to the deterministic block: their winner is not determined)
		withMembers(r, ty, ls.Flag, r.Rng.Intn(len(memberTemplates)), false, fresh)
	}
	return ls
}

// orders of members of a flag set: n nil, u defined but not set, s set (same value), S set to another value
var memberTemplates = []string{"ns", "us", "nus", "sn", "nnsu", "ss", "unss", "su", "nsn", "uuns", "sS", "nSus", "nu", "un", "nnu", "unu"}

// withMembers turns a binding into a set of flags following a template compatible with it (a set flag needs an s)
func withMembers(r *h.Run, ty string, f *flagSrc, start int, distinct bool, fresh func(string) *value) {
	for k := 0; k < len(memberTemplates); k++ {
		t := memberTemplates[(start+k)%len(memberTemplates)]
		hasSet := strings.ContainsAny(t, "sS")
		if hasSet != (f.Set != nil) || (!distinct && strings.Contains(t, "S")) {
			continue
		}
		f.Members = nil
		for _, c := range t {
			switch c {
			case 'n':
				f.Members = append(f.Members, member{Kind: "nil"})
			case 'u':
				m := member{Kind: "unset"}
				if r.Rng.Intn(2) == 0 {
					m.Default = fresh("memberdefault")
				}
				f.Members = append(f.Members, m)
			case 's':
				v := *f.Set
				f.Members = append(f.Members, member{Kind: "set", Val: &v})
			case 'S':
				f.Members = append(f.Members, member{Kind: "set", Val: fresh("otherflag")})
			}
		}
		return
	}
}

func genRequired(r *h.Run, d *shapeDesc, p int) map[string]uint64 {
	req := map[string]uint64{}
	for _, l := range d.leaves {
		if r.Rng.Intn(100) < p {
			req[l.Parent] |= 1 << uint(l.Field)
		}
	}
	return req
}

func genRandom(r *h.Run) scenario {
	sh := shapes[r.Rng.Intn(len(shapes))]
	d := describe(sh.name)
	sc := scenario{Shape: sh.name, Prefix: pickPrefix(r, d), ParentCase: r.Rng.Intn(3)}
	zeroP := []int{0, 0, 10, 30}[r.Rng.Intn(4)]
	dense := r.Rng.Intn(3)
	for _, l := range d.leaves {
		pattern := r.Rng.Intn(16)
		if dense == 0 && r.Rng.Intn(2) == 0 {
			pattern = 0
		}
		sc.Leaves = append(sc.Leaves, leafWith(r, l.Ty, pattern, zeroP))
	}
	if r.Rng.Intn(2) == 0 {
		sc.Required = genRequired(r, d, []int{10, 30, 100}[r.Rng.Intn(3)])
		if r.Rng.Intn(2) == 0 {
			sc.ErrStyle = genStyles(r)
		}
	}
	// decoys: names that are NOT the variable of any field must not be honoured
	if r.Rng.Intn(3) == 0 {
		l := d.leaves[r.Rng.Intn(len(d.leaves))]
		full := specEnvName(sc.Prefix, l.Tags)
		cands := []string{strings.ToLower(full), strings.ToUpper(strings.Join(l.Tags, "_")), "X" + full, full + "_", strings.ReplaceAll(full, "_", "."),
			strings.ToUpper(sc.Prefix) + "__" + strings.ToUpper(strings.Join(l.Tags, "_"))}
		n := cands[r.Rng.Intn(len(cands))]
		known := map[string]bool{}
		for _, ll := range d.leaves {
			for k := 1; k <= len(ll.Tags); k++ {
				known[specEnvName(sc.Prefix, ll.Tags[:k])] = true
			}
		}
		if !known[n] && !strings.Contains(n, "=") {
			sc.Decoys = append(sc.Decoys, decoy{Name: n, Value: "1"})
		}
	}
	// malformed stream
	if r.Rng.Intn(12) == 0 {
		i := r.Rng.Intn(len(d.leaves))
		if d.leaves[i].Ty != "str" && d.leaves[i].Ty != "bool" {
			if r.Rng.Intn(2) == 0 {
				sc.Leaves[i].Env = &value{Bad: true}
			} else {
				sc.Leaves[i].File = &value{Bad: true}
			}
			sc.Note = "malformed"
		}
	}
	return sc
}

func deterministic(r *h.Run) []scenario {
	var out []scenario
	// KNOWN FINDING (runs first on every invocation): the variable of srv.cfg is also the derived name of the structure srv_cfg
	{
		d := describe("MidC")
		sc := scenario{Shape: "MidC", Prefix: "app", Note: "env-shadow"}
		for range d.leaves {
			sc.Leaves = append(sc.Leaves, leafSrc{})
		}
		sc.Leaves[0].Env = &value{S: "x"}         // APP_SRV_CFG
		sc.Leaves[2].File = &value{S: "fromfile"} // srv_cfg.name
		sc.Leaves[3].File = &value{N: 7}          // srv_cfg.port
		sc.Leaves[5].Def = &value{N: 20}          // srv_cfg.ratio = 2.5 by default
		out = append(out, sc)
	}
	// D23: empty supplied default, value in the file, bound flag not set with a non-empty default — for every leaf type
	{
		d := describe("LeafA")
		sc := scenario{Shape: "LeafA", Prefix: "app", Note: "D23"}
		for i, l := range d.leaves {
			fv := value{S: "fromfile", N: int64(3 + i)}
			if l.Ty == "bool" {
				fv.N = 1
			}
			sc.Leaves = append(sc.Leaves, leafSrc{File: &fv, Flag: &flagSrc{Default: value{S: "flagdefault", N: 1}, Style: i}})
		}
		out = append(out, sc)
	}
	// reported names are honoured: for every prefix, the variable of EVERY field of a shape is set and must be loaded
	for pi, p := range prefixes {
		sh := shapes[pi%len(shapes)]
		d := describe(sh.name)
		sc := scenario{Shape: sh.name, Prefix: p, Note: "every-variable-set"}
		for i, l := range d.leaves {
			ls := leafWith(r, l.Ty, 4|(i%2), 0)
			ls.Flag = nil
			if l.Ty == "str" && ls.Env.S == "" {
				ls.Env.S = "env-set"
			}
			sc.Leaves = append(sc.Leaves, ls)
		}
		out = append(out, sc)
	}
	// BindFlagsToEnv: sets of flags in every order (nil, not set, set, several set) under every combination of the sources
	for ti := range memberTemplates {
		sh := shapes[ti%len(shapes)]
		d := describe(sh.name)
		sc := scenario{Shape: sh.name, Prefix: prefixes[ti%len(prefixes)], Note: "flag-sets:" + memberTemplates[ti]}
		for i, l := range d.leaves {
			pattern := (i % 8) // default / file / env in every combination …
			if strings.ContainsAny(memberTemplates[ti], "sS") {
				pattern |= 8 // … against a set member
			}
			ls := leafWith(r, l.Ty, pattern, 0)
			if ls.Flag == nil {
				ls.Flag = &flagSrc{Default: genValue(r, l.Ty, "flagdefault", 0)}
			}
			ls.Flag.Style = i % 4
			ls.Flag.Members = nil
			seen := map[string]bool{}
			withMembers(r, l.Ty, ls.Flag, ti, true, func(src string) *value {
				for k := 0; ; k++ {
					v := genValue(r, l.Ty, src, 0)
					if !seen[render(l.Ty, v)] || k > 20 {
						seen[render(l.Ty, v)] = true
						return &v
					}
				}
			})
			sc.Leaves = append(sc.Leaves, ls)
		}
		out = append(out, sc)
	}
	// every subset of the four sources on every leaf of every shape, every binding style, every prefix
	for si, sh := range shapes {
		d := describe(sh.name)
		for j := 0; j < 16; j++ {
			p := prefixes[(si+j)%len(prefixes)]
			sc := scenario{Shape: sh.name, Prefix: p, ParentCase: j % 3, Note: "subsets"}
			for i, l := range d.leaves {
				ls := leafWith(r, l.Ty, (i+j)%16, 0)
				if ls.Flag != nil {
					ls.Flag.Style = (i + j) % 10
				}
				sc.Leaves = append(sc.Leaves, ls)
			}
			out = append(out, sc)
		}
		// environment and defaults only (no file, no flag): goes through config.Load and a fresh session
		for j := 0; j < 2; j++ {
			sc := scenario{Shape: sh.name, Prefix: prefixes[(si+3*j)%len(prefixes)], Note: "env-and-defaults-only"}
			for i, l := range d.leaves {
				ls := leafWith(r, l.Ty, []int{4, 5, 1, 0, 5}[(i+j)%5], 0)
				ls.Flag = nil
				sc.Leaves = append(sc.Leaves, ls)
			}
			out = append(out, sc)
		}
		// everything required: nothing supplied / everything supplied / one field at a time left empty
		all := genRequired(r, d, 100)
		empty := scenario{Shape: sh.name, Prefix: "TEST", Required: all, Note: "all-required-nothing-supplied"}
		full := scenario{Shape: sh.name, Prefix: "TEST", Required: all, Note: "all-required-all-supplied"}
		for i, l := range d.leaves {
			empty.Leaves = append(empty.Leaves, leafSrc{})
			ls := leafWith(r, l.Ty, 1<<uint(i%4), 0)
			for _, v := range []*value{ls.Def, ls.File, ls.Env} {
				if v != nil && l.Ty == "bool" {
					v.N = 1
				}
			}
			if ls.Flag != nil {
				ls.Flag.Default.N, ls.Flag.Default.S = 1, "fd"
				if ls.Flag.Set != nil && l.Ty == "bool" {
					ls.Flag.Set.N = 1
				}
			}
			full.Leaves = append(full.Leaves, ls)
		}
		out = append(out, empty, full)
		for i := range d.leaves {
			one := full
			one.Note = "one-required-field-empty"
			one.Leaves = append([]leafSrc{}, full.Leaves...)
			one.Leaves[i] = leafSrc{}
			// every error style, at every depth: the style of all validating types rotates with the field
			one.ErrStyle = map[string]int{}
			for name, m := range modes {
				if m != vNone {
					one.ErrStyle[name] = (i + si) % 5
				}
			}
			out = append(out, one)
		}
	}
	return out
}

// ---------- main ----------

func distinctKey(sc scenario) string {
	var b strings.Builder
	b.WriteString(sc.Shape + "|" + sc.Prefix + "|")
	for _, l := range sc.Leaves {
		p := 0
		if l.Def != nil {
			p |= 1
		}
		if l.File != nil {
			p |= 2
		}
		if l.Env != nil {
			p |= 4
		}
		if l.Flag != nil {
			p |= 8
			if l.Flag.Set != nil {
				p |= 16
			}
		}
		fmt.Fprintf(&b, "%x.", p)
	}
	ks := []string{}
	for k, v := range sc.Required {
		ks = append(ks, fmt.Sprintf("%s=%x", k, v))
	}
	sort.Strings(ks)
	b.WriteString(strings.Join(ks, ","))
	return b.String()
}

func runOne(r *h.Run, sc scenario) {
	d := describe(sc.Shape)
	if d == nil || len(sc.Leaves) != len(d.leaves) {
		r.Note("scenario does not fit shape " + sc.Shape)
		return
	}
	ambiguous := false
	for i := range sc.Leaves {
		if sc.Leaves[i].Flag != nil {
			effective(d.leaves[i].Ty, sc.Leaves[i].Flag)
			if len(sc.Leaves[i].Flag.Members) > 0 {
				r.Count("leaf:flag-set-of-several-members")
			}
			if sc.Leaves[i].Flag.anySet != nil {
				ambiguous = true
			}
		}
	}
	o := execute(sc, d)
	r.Eval()
	r.Count("shape:" + sc.Shape)
	r.Count("outcome:" + o.Kind)
	if o.Kind == "invalid" {
		if n := nodeAt(d.root, o.Tree); n != nil {
			r.Count(fmt.Sprintf("invalid-reported-in-style:%d", sc.ErrStyle[n.TypeName]))
		} else if len(o.Tree) > 0 {
			if n := nodeAt(d.root, o.Tree[:len(o.Tree)-1]); n != nil {
				r.Count(fmt.Sprintf("invalid-reported-in-style:%d", sc.ErrStyle[n.TypeName]))
			}
		}
	}
	r.Count("prefix:" + sc.Prefix)
	nsrc := 0
	for _, l := range sc.Leaves {
		for _, b := range []bool{l.Def != nil, l.File != nil, l.Env != nil, l.Flag != nil && l.Flag.Set != nil} {
			if b {
				nsrc++
			}
		}
		if l.Flag != nil && l.Flag.Set == nil {
			r.Count("leaf:bound-flag-not-set")
		}
	}
	if nsrc > 0 {
		r.Distinct(distinctKey(sc))
	}
	r.CountN("leaf-source-assignments", nsrc)
	oracle(r, sc, d, o)
	if o.Kind != "other" && o.ValOK && !ambiguous { // which of several differently set members wins is not determined
		r.Case(coqCase(sc, d, o), sc)
	}
	r.Sample(map[string]any{"scenario": sc, "observation": o})
}

func main() {
	if p := os.Getenv("C15_GENSHAPES"); p != "" {
		if err := os.WriteFile(p, []byte(shapesFile()), 0o644); err != nil {
			panic(err)
		}
		return
	}
	r := h.Init("C15")
	r.Imports = []string{"GU.C15.Model"}
	shapesPath := filepath.Join("..", "coq", "C15", "Shapes.v")
	if root := os.Getenv("VERIF_ROOT"); root != "" {
		shapesPath = filepath.Join(root, "coq", "C15", "Shapes.v")
	}
	if bs, err := os.ReadFile(shapesPath); err == nil && string(bs) == shapesFile() {
		compactSchemas = true
		r.Imports = append(r.Imports, "GU.C15.Shapes")
	} else {
		r.Note("coq/C15/Shapes.v missing or not in sync with the compiled-in types: schemas are written out in full")
	}
	r.ShardSize = 100
	r.Rule("a scenario counts as distinct non-trivial when at least one source is assigned and its (shape, prefix, per-leaf source subset incl. bound/unset flag, required pattern) differs from every earlier one")
	validation.ErrorTag = "mapstructure"
	var err error
	workDir, err = os.MkdirTemp("", "verif-c15-*")
	if err != nil {
		panic(err)
	}
	defer os.RemoveAll(workDir)
	r.Out, _ = filepath.Abs(r.Out)
	if r.ReplayF != "" {
		r.ReplayF, _ = filepath.Abs(r.ReplayF)
	}
	_ = os.Chdir(workDir)

	var sc scenario
	if _, ok := r.ReplayObject(&sc); ok {
		runOne(r, sc)
		r.Finish()
		return
	}
	for _, s := range deterministic(r) {
		runOne(r, s)
	}
	n := r.N(300, 3000)
	for i := 0; i < n; i++ {
		runOne(r, genRandom(r))
	}
	r.Finish()
}
