// The fixed family of nested configuration types the C15 harness loads into.  Shapes: depth 1..3, every leaf type
// (string, int, bool, float64, time.Duration), tag spellings (lower case, camel case, upper case, underscores, dashes, digits),
// Validate methods of the four kinds the model knows (none / own fields only / embedded first / own fields first).
// WHICH leaves a type's Validate marks validation.Required is decided at run time through `required` (a bit per field).
package main

import (
	"errors"
	"fmt"
	"reflect"
	"sort"
	"time"

	validation "github.com/go-ozzo/ozzo-validation/v4"

	"github.com/ARM-software/golang-utils/utils/commonerrors"
	"github.com/ARM-software/golang-utils/utils/config"
)

// required[type name] has bit i set when field i of that type (a leaf) is validation.Required.
var required = map[string]uint64{}

// errStyle[type name] decides HOW that type's Validate reports an empty required field:
//
//	0  ozzo: validation.ValidateStruct with validation.Field(&cfg.X, validation.Required) (the repository's tests)
//	1  a plain error "tag: cannot be blank" (errors.New)
//	2  a wrapped plain error (fmt.Errorf("%w …"))
//	3  a commonerrors error of another kind (ErrUndefined) with the same text
//	4  hand-made ozzo validation.Errors whose value for the field is itself a validation.Errors (nested map)
//
// In every style the text names the field; styles 1..3 report the failing field with the smallest tag, like the ozzo conversion.
var errStyle = map[string]int{}

const blankText = "cannot be blank"

// own validates the leaf fields of *cfg that are marked required.
func own(cfg any) error {
	rv := reflect.ValueOf(cfg).Elem()
	mask := required[rv.Type().Name()]
	style := errStyle[rv.Type().Name()]
	var rules []*validation.FieldRules
	var failing []string
	for i := 0; i < rv.NumField(); i++ {
		if mask&(1<<uint(i)) != 0 && rv.Field(i).Kind() != reflect.Struct {
			rules = append(rules, validation.Field(rv.Field(i).Addr().Interface(), validation.Required))
			if rv.Field(i).IsZero() {
				failing = append(failing, rv.Type().Field(i).Tag.Get("mapstructure"))
			}
		}
	}
	if style == 0 {
		return validation.ValidateStruct(cfg, rules...)
	}
	if len(failing) == 0 {
		return nil
	}
	sort.Strings(failing)
	switch style {
	case 1:
		return errors.New(failing[0] + ": " + blankText)
	case 2:
		return fmt.Errorf("%w (while validating %s)", errors.New(failing[0]+": "+blankText), rv.Type().Name())
	case 3:
		return commonerrors.Newf(commonerrors.ErrUndefined, "%s: %s", failing[0], blankText)
	default:
		es := validation.Errors{}
		for _, f := range failing {
			es[f] = validation.Errors{"value": errors.New(blankText)}
		}
		return es
	}
}

const (
	vNone = iota
	vOwnOnly
	vEmbFirst
	vOwnFirst
)

// ---- depth 1 ----

type LeafA struct {
	Name    string        `mapstructure:"name"`
	Port    int           `mapstructure:"port"`
	Enabled bool          `mapstructure:"enabled"`
	Ratio   float64       `mapstructure:"ratio"`
	Period  time.Duration `mapstructure:"period"`
}

func (c *LeafA) Validate() error { return own(c) }

type LeafB struct {
	Host    string        `mapstructure:"dummy_host"`
	MaxSize int           `mapstructure:"MaxSize"`
	Retry   int           `mapstructure:"retry-count"`
	URL     string        `mapstructure:"URL"`
	V2      bool          `mapstructure:"v2_key"`
	Timeout time.Duration `mapstructure:"time_out"`
	Weight  float64       `mapstructure:"Weight_Factor"`
}

func (c *LeafB) Validate() error { return own(c) }

// LeafC has no Validate method: ValidateEmbedded skips it.
type LeafC struct {
	DB   string `mapstructure:"db"`
	User string `mapstructure:"user"`
	Size int    `mapstructure:"size"`
}

type LeafSrv struct {
	Cfg  string `mapstructure:"cfg"`
	Addr string `mapstructure:"addr"`
}

func (c *LeafSrv) Validate() error { return own(c) }

// ---- depth 2 ----

type MidA struct {
	Title  string `mapstructure:"title"`
	First  LeafA  `mapstructure:"dummyconfig"`
	Second LeafA  `mapstructure:"dummy_config"`
	Limit  int    `mapstructure:"limit"`
}

func (c *MidA) Validate() error {
	if err := config.ValidateEmbedded(c); err != nil {
		return err
	}
	return own(c)
}

type MidB struct {
	Spelled LeafB   `mapstructure:"Sub-Section"`
	Count   int     `mapstructure:"count"`
	Plain   LeafC   `mapstructure:"plain"`
	Flag    bool    `mapstructure:"flag"`
	Scale   float64 `mapstructure:"Scale"`
}

func (c *MidB) Validate() error {
	if err := own(c); err != nil {
		return err
	}
	return config.ValidateEmbedded(c)
}

// MidC: the environment variable of srv.cfg (P_SRV_CFG) is also the name viper derives for the structure srv_cfg.
type MidC struct {
	Srv    LeafSrv `mapstructure:"srv"`
	SrvCfg LeafA   `mapstructure:"srv_cfg"`
	Mode   string  `mapstructure:"mode"`
}

func (c *MidC) Validate() error {
	if err := config.ValidateEmbedded(c); err != nil {
		return err
	}
	return own(c)
}

// MidD validates its own fields only: the embedded structures are not validated through it.
type MidD struct {
	Label string        `mapstructure:"label"`
	Inner LeafA         `mapstructure:"inner"`
	Wait  time.Duration `mapstructure:"wait"`
}

func (c *MidD) Validate() error { return own(c) }

// PlainMid has no Validate method although it contains sections that do: ValidateEmbedded must skip it (and go on).
type PlainMid struct {
	Note  string `mapstructure:"note"`
	Inner LeafA  `mapstructure:"inner"`
	Raw   LeafC  `mapstructure:"raw"`
}

// Stamp is a plain value structure (time.Time-like: no Validate, no nested section).
type Stamp struct {
	Sec  int `mapstructure:"sec"`
	Nsec int `mapstructure:"nsec"`
}

// MidE: structure fields WITHOUT Validate before, between and after the validated sections.
type MidE struct {
	Meta   LeafC   `mapstructure:"meta"`
	DB     LeafSrv `mapstructure:"db"`
	At     Stamp   `mapstructure:"at"`
	Cache  LeafA   `mapstructure:"cache"`
	Extra  LeafC   `mapstructure:"extra_info"`
	Strict bool    `mapstructure:"strict"`
}

func (c *MidE) Validate() error {
	if err := config.ValidateEmbedded(c); err != nil {
		return err
	}
	return own(c)
}

// MidF: own fields first, a section without Validate first and last, one validated section in the middle.
type MidF struct {
	Created Stamp   `mapstructure:"created"`
	Queue   LeafSrv `mapstructure:"queue"`
	Depth   int     `mapstructure:"depth"`
	Updated Stamp   `mapstructure:"Updated"`
}

func (c *MidF) Validate() error {
	if err := own(c); err != nil {
		return err
	}
	return config.ValidateEmbedded(c)
}

// ---- depth 3 ----

// TopC: at depth 3, sections without Validate (a leaf-only one and one that itself contains sections) precede, separate
// and follow the validated ones.
type TopC struct {
	Born   Stamp    `mapstructure:"born"`
	Plain  PlainMid `mapstructure:"plain_mid"`
	First  MidE     `mapstructure:"first"`
	Gap    LeafC    `mapstructure:"gap"`
	Second MidF     `mapstructure:"second-part"`
	ID     string   `mapstructure:"id"`
	Last   Stamp    `mapstructure:"last"`
}

func (c *TopC) Validate() error {
	if err := config.ValidateEmbedded(c); err != nil {
		return err
	}
	return own(c)
}

// TopA ends with a structure (a ValidateEmbedded loop that stops one field early would miss it).
type TopA struct {
	AppName string        `mapstructure:"app_name"`
	Deep    MidA          `mapstructure:"deep_config"`
	Grace   time.Duration `mapstructure:"grace"`
	Other   LeafB         `mapstructure:"other"`
}

func (c *TopA) Validate() error {
	if err := config.ValidateEmbedded(c); err != nil {
		return err
	}
	return own(c)
}

type TopB struct {
	Mid    MidB   `mapstructure:"mid"`
	Second MidA   `mapstructure:"Second_Mid"`
	Own    MidD   `mapstructure:"own-only"`
	Level  int    `mapstructure:"LEVEL"`
	Tag    string `mapstructure:"tag"`
}

func (c *TopB) Validate() error {
	if err := own(c); err != nil {
		return err
	}
	return config.ValidateEmbedded(c)
}

type shapeInfo struct {
	name string
	typ  reflect.Type
}

var shapes = []shapeInfo{
	{"LeafA", reflect.TypeOf(LeafA{})},
	{"LeafB", reflect.TypeOf(LeafB{})},
	{"MidA", reflect.TypeOf(MidA{})},
	{"MidB", reflect.TypeOf(MidB{})},
	{"MidC", reflect.TypeOf(MidC{})},
	{"MidD", reflect.TypeOf(MidD{})},
	{"MidE", reflect.TypeOf(MidE{})},
	{"MidF", reflect.TypeOf(MidF{})},
	{"TopC", reflect.TypeOf(TopC{})},
	{"TopA", reflect.TypeOf(TopA{})},
	{"TopB", reflect.TypeOf(TopB{})},
}

// how each type's Validate is written (must agree with the methods above)
var modes = map[string]int{
	"LeafA": vOwnOnly, "LeafB": vOwnOnly, "LeafC": vNone, "LeafSrv": vOwnOnly,
	"MidA": vEmbFirst, "MidB": vOwnFirst, "MidC": vEmbFirst, "MidD": vOwnOnly,
	"TopA": vEmbFirst, "TopB": vOwnFirst,
	"PlainMid": vNone, "Stamp": vNone, "MidE": vEmbFirst, "MidF": vOwnFirst, "TopC": vEmbFirst,
}

func shapeByName(n string) (reflect.Type, bool) {
	for _, s := range shapes {
		if s.name == n {
			return s.typ, true
		}
	}
	return nil, false
}
