// C08 harness: trees over a small name alphabet (plus dotted names, regex metacharacters and names related to the root /
// destination / archive base names) x 0..3 anchor-free regular expressions (generated as syntax trees
// and printed in Go syntax) x the nine exclusion-aware operations, on the in-memory and the OS back ends.
// Oracle (independent of the Coq model, patterns evaluated with Go's regexp directly):
//
//	sound    — an entry with a path component matched IN FULL by a pattern is never reported/copied/archived/deleted;
//	complete — an entry none of whose components CONTAINS a match is processed (root path without a match);
//	invalid  — an uncompilable pattern gives the 'invalid' kind and leaves the file system as it was.
//
// Correspondence: every run is also emitted as a Coq case (model output must equal the observation), together with
// matcher cases (Coq derivative matcher vs regexp) and IsPathExcludedFromPatterns cases.
package main

import (
	"archive/zip"
	"bytes"
	"context"
	"fmt"
	"os"
	"path/filepath"
	"regexp"
	"sort"
	"strings"

	"github.com/spf13/afero"

	"github.com/ARM-software/golang-utils/utils/commonerrors"
	"github.com/ARM-software/golang-utils/utils/filesystem"

	"verif/harness/internal/h"
)

// ---------- regular expressions as syntax trees ----------

type Re struct {
	K   string   `json:"k"` // eps chr any cls cat alt star plus opt
	C   int      `json:"c,omitempty"`
	Neg bool     `json:"neg,omitempty"`
	Rs  [][2]int `json:"rs,omitempty"`
	A   *Re      `json:"a,omitempty"`
	B   *Re      `json:"b,omitempty"`
}

func isAtom(r *Re) bool { return r.K == "chr" || r.K == "any" || r.K == "cls" || r.K == "eps" }

func lit(c int) string { return regexp.QuoteMeta(string(rune(c))) }

// text prints a pattern in Go syntax: top-level alternatives without brackets, nested ones bracketed (this is the
// convention the Coq model's [wrap] assumes).
func (r *Re) text(top bool) string {
	switch r.K {
	case "eps":
		return "(?:)"
	case "chr":
		return lit(r.C)
	case "any":
		return "."
	case "cls":
		s := "["
		if r.Neg {
			s += "^"
		}
		for _, x := range r.Rs {
			if x[0] == x[1] {
				s += lit(x[0])
			} else {
				s += lit(x[0]) + "-" + lit(x[1])
			}
		}
		return s + "]"
	case "cat":
		return r.A.inCat() + r.B.inCat()
	case "alt":
		s := r.A.text(true) + "|" + r.B.text(true)
		if top {
			return s
		}
		return "(?:" + s + ")"
	case "star", "plus", "opt":
		op := map[string]string{"star": "*", "plus": "+", "opt": "?"}[r.K]
		if isAtom(r.A) && r.A.K != "eps" {
			return r.A.text(false) + op
		}
		return "(?:" + r.A.text(true) + ")" + op
	}
	panic("re kind " + r.K)
}

func (r *Re) inCat() string { return r.text(false) }

func (r *Re) coq() string {
	switch r.K {
	case "eps":
		return "Eps"
	case "chr":
		return fmt.Sprintf("(Chr %d)", r.C)
	case "any":
		return "Any"
	case "cls":
		ts := make([]string, len(r.Rs))
		for i, x := range r.Rs {
			ts[i] = fmt.Sprintf("(%d,%d)", x[0], x[1])
		}
		return fmt.Sprintf("(Cls %s %s)", h.Bool(r.Neg), h.List(ts))
	case "cat":
		return "(Cat " + r.A.coq() + " " + r.B.coq() + ")"
	case "alt":
		return "(Alt " + r.A.coq() + " " + r.B.coq() + ")"
	case "star":
		return "(Star " + r.A.coq() + ")"
	case "plus":
		return "(Plus " + r.A.coq() + ")"
	case "opt":
		return "(Opt " + r.A.coq() + ")"
	}
	panic("re kind")
}

// separator-free in the sense of the Coq model: cannot match '/'
func (r *Re) sepFree() bool {
	switch r.K {
	case "eps":
		return true
	case "chr":
		return r.C != '/'
	case "any":
		return false
	case "cls":
		in := false
		for _, x := range r.Rs {
			if x[0] <= '/' && '/' <= x[1] {
				in = true
			}
		}
		return in == r.Neg
	case "cat", "alt":
		return r.A.sepFree() && r.B.sepFree()
	default:
		return r.A.sepFree()
	}
}

const alphabet = "abdx"

// literal characters a pattern may also name: the dot of hidden / suffixed names, letters of the operation's other
// arguments (root "t", destination "o", archive "out.zip"), a regex metacharacter (printed escaped)
const extraPatChars = ".otz+ \t . \t"

func chr(c byte) *Re   { return &Re{K: "chr", C: int(c)} }
func cat(a, b *Re) *Re { return &Re{K: "cat", A: a, B: b} }
func alt(a, b *Re) *Re { return &Re{K: "alt", A: a, B: b} }
func star(a *Re) *Re   { return &Re{K: "star", A: a} }
func word(s string) *Re {
	r := chr(s[0])
	for i := 1; i < len(s); i++ {
		r = cat(r, chr(s[i]))
	}
	return r
}

var anyRe = &Re{K: "any"}

func genRe(r *h.Run, depth int) *Re {
	k := r.Rng.Intn(100)
	if depth <= 0 || k < 38 {
		switch j := r.Rng.Intn(20); {
		case j < 13:
			if r.Rng.Intn(9) == 0 {
				return chr(extraPatChars[r.Rng.Intn(len(extraPatChars))])
			}
			return chr(alphabet[r.Rng.Intn(len(alphabet))])
		case j < 15:
			return &Re{K: "any"}
		case j < 19:
			lo := r.Rng.Intn(len(alphabet))
			hi := lo + r.Rng.Intn(len(alphabet)-lo)
			rs := [][2]int{{int(alphabet[lo]), int(alphabet[hi])}}
			if r.Rng.Intn(3) == 0 {
				c := int(alphabet[r.Rng.Intn(len(alphabet))])
				rs = append(rs, [2]int{c, c})
			}
			return &Re{K: "cls", Neg: r.Rng.Intn(4) == 0, Rs: rs}
		default:
			return &Re{K: "eps"}
		}
	}
	switch {
	case k < 68:
		return cat(genRe(r, depth-1), genRe(r, depth-1))
	case k < 80:
		return alt(genRe(r, depth-1), genRe(r, depth-1))
	case k < 87:
		return star(genRe(r, depth-1))
	case k < 94:
		return &Re{K: "plus", A: genRe(r, depth-1)}
	default:
		return &Re{K: "opt", A: genRe(r, depth-1)}
	}
}

// ---------- patterns as handed to the library ----------

type Pat struct {
	Kind string `json:"kind"` // good | bad | blank
	Text string `json:"text"`
	AST  *Re    `json:"ast,omitempty"`
}

// good: the pattern handed to the library is the printed text AS IS (blanks included); a text of blanks only is what
// the library calls an empty pattern and skips
func good(r *Re) Pat {
	t := r.text(true)
	if strings.TrimSpace(t) == "" {
		return Pat{Kind: "blank", Text: t}
	}
	return Pat{Kind: "good", Text: t, AST: r}
}

var badTexts = []string{"[", "(", ")", "a(", "*a", "a**", "+", "?", "[a", "a{2,1}", "\\", "(?P<x", "[b-a]", "a{1001}", "(?z)", "x[", "a|*"}
var blankTexts = []string{"", " ", "\t ", "  ", "\t", " \n", "\r\n"}

func (p Pat) coq() string {
	switch p.Kind {
	case "bad":
		return "Bad"
	case "blank":
		return "Blank"
	}
	return "(Good " + p.AST.coq() + ")"
}

func texts(ps []Pat) []string {
	out := make([]string, len(ps))
	for i, p := range ps {
		out[i] = p.Text
	}
	return out
}

func coqPats(ps []Pat) string {
	ts := make([]string, len(ps))
	for i, p := range ps {
		ts[i] = p.coq()
	}
	return h.List(ts)
}

// ---------- trees ----------

type Node struct {
	Name string  `json:"name"`
	Dir  bool    `json:"dir"`
	Kids []*Node `json:"kids,omitempty"`
}

func (n *Node) coq() string {
	if !n.Dir {
		return "File"
	}
	ts := make([]string, len(n.Kids))
	for i, k := range n.Kids {
		ts[i] = "(" + h.Str(k.Name) + ", " + k.coq() + ")"
	}
	return "(Dir " + h.List(ts) + ")"
}

type ent struct {
	rel []string
	dir bool
}

func key(rel []string, dir bool) string {
	s := strings.Join(rel, "/")
	if dir {
		return s + "/"
	}
	return s
}

// entries of the tree below (and including) the root
func (n *Node) entries(rel []string, out *[]ent) {
	*out = append(*out, ent{append([]string{}, rel...), n.Dir})
	for _, k := range n.Kids {
		k.entries(append(rel, k.Name), out)
	}
}

func (n *Node) find(rel []string) *Node {
	if len(rel) == 0 {
		return n
	}
	for _, k := range n.Kids {
		if k.Name == rel[0] {
			return k.find(rel[1:])
		}
	}
	return nil
}

func genName(r *h.Run) string {
	l := 1 + r.Rng.Intn(3)
	if r.Rng.Intn(3) == 0 {
		l = 1
	}
	b := make([]byte, l)
	for i := range b {
		b[i] = alphabet[r.Rng.Intn(len(alphabet))]
	}
	return string(b)
}

// names with dots in every position and with regex metacharacters (all legal on Linux and in a zip archive)
var oddNames = []string{".a", ".b", "a.", ".a.b", "a..b", "..a", ".b.a", "...", ".x.", "d.", "a+b", "a(b", "[a]", "a$", "^a", "a*b", "a?b", "a|b", "a b", "{a}", "x.d", "b.a",
	" a", "a ", " a ", "a  b", "\ta", "a\t", "a\tb", " ", "  ", "b ", " b", "d ", " ab", "ab "}

// namePool: names equal to / containing / contained in the names of the operation's other arguments, plus the odd names
func namePool(r *h.Run, args ...string) []string {
	pool := append([]string{}, oddNames...)
	for _, x := range args {
		pool = append(pool, x, x, "b"+x, x+".d", "ab"+x+".d", x+".sha256", "."+x, x+".", x+" ", " "+x, x+"\t")
		if len(x) > 1 {
			pool = append(pool, x[1:], x[:len(x)-1])
		}
	}
	return pool
}

func genNameP(r *h.Run, pool []string) string {
	if len(pool) > 0 && r.Rng.Intn(10) < 3 {
		nm := pool[r.Rng.Intn(len(pool))]
		if nm != "" && nm != "." && nm != ".." {
			return nm
		}
	}
	return genName(r)
}

func genTree(r *h.Run, depth int, budget *int, pool []string) *Node {
	n := &Node{Dir: true}
	nk := r.Rng.Intn(5)
	if depth == 0 {
		nk = 1 + r.Rng.Intn(4)
	}
	seen := map[string]bool{}
	for i := 0; i < nk && *budget > 0; i++ {
		nm := genNameP(r, pool)
		if seen[nm] {
			continue
		}
		seen[nm] = true
		*budget--
		if depth < 3 && r.Rng.Intn(5) < 2 {
			k := genTree(r, depth+1, budget, pool)
			k.Name = nm
			n.Kids = append(n.Kids, k)
		} else {
			n.Kids = append(n.Kids, &Node{Name: nm})
		}
	}
	return n
}

func dir(name string, kids ...*Node) *Node { return &Node{Name: name, Dir: true, Kids: kids} }
func file(name string) *Node               { return &Node{Name: name} }

// ---------- scenarios ----------

type Scenario struct {
	Op       string   `json:"op"`   // walk ls lsrec listtree subdirs copy zip remove clean
	Flag     bool     `json:"flag"` // lsrec: includeDirectories; copy: destination exists
	Backend  string   `json:"backend"`
	RootName string   `json:"root_name"`
	DestName string   `json:"dest_name"`
	ZipName  string   `json:"zip_name,omitempty"` // base name of the archive (default out.zip), written beside the root
	Call     string   `json:"call,omitempty"`     // "ExcludeAll": a call without a tree (Names, Pats, Via)
	Names    []string `json:"names,omitempty"`
	Via      string   `json:"via,omitempty"` // "" = the method of the file system; otherwise the package-level function called (OS back end for the global file system)
	Tree     *Node    `json:"tree"`
	Pats     []Pat    `json:"pats"`
}

var ops = []struct {
	op   string
	flag bool
}{{"walk", false}, {"ls", false}, {"lsrec", false}, {"lsrec", true}, {"listtree", false}, {"subdirs", false},
	{"copy", false}, {"copy", true}, {"zip", false}, {"remove", false}, {"clean", false}}

func (sc *Scenario) coqOp() string {
	switch sc.Op {
	case "walk":
		return "OWalk"
	case "ls":
		return "OLs"
	case "lsrec":
		return "(OLsRec " + h.Bool(sc.Flag) + ")"
	case "listtree":
		return "OListTree"
	case "subdirs":
		return "OSubDirs"
	case "copy":
		return "(OCopy " + h.Bool(sc.Flag) + ")"
	case "zip":
		return "OZip"
	case "remove":
		return "ORemove"
	case "clean":
		return "OClean"
	}
	panic("op " + sc.Op)
}

type env struct {
	tmp   string // OS scratch directory
	count int
}

type world struct {
	fs   filesystem.FS
	raw  afero.Fs
	base string
}

func (e *env) newWorld(backend string) (*world, error) {
	e.count++
	if backend == "os" {
		base := filepath.Join(e.tmp, fmt.Sprintf("s%d", e.count))
		if err := os.MkdirAll(base, 0o755); err != nil {
			return nil, err
		}
		return &world{fs: filesystem.NewStandardFileSystem(), raw: afero.NewOsFs(), base: base}, nil
	}
	mem := afero.NewMemMapFs()
	if err := mem.MkdirAll("/w", 0o755); err != nil {
		return nil, err
	}
	return &world{fs: filesystem.NewVirtualFileSystem(mem, filesystem.InMemoryFS, filesystem.IdentityPathConverterFunc), raw: mem, base: "/w"}, nil
}

func (w *world) build(p string, n *Node) error {
	if !n.Dir {
		return afero.WriteFile(w.raw, p, []byte("content of "+n.Name), 0o644)
	}
	if err := w.raw.MkdirAll(p, 0o755); err != nil {
		return err
	}
	for _, k := range n.Kids {
		if err := w.build(filepath.Join(p, k.Name), k); err != nil {
			return err
		}
	}
	return nil
}

// snapshot of everything below (and including) p, as keys relative to p; nil map if p does not exist
func (w *world) snapshot(p string) map[string]bool {
	if _, err := w.raw.Stat(p); err != nil {
		return nil
	}
	out := map[string]bool{}
	_ = afero.Walk(w.raw, p, func(q string, info os.FileInfo, err error) error {
		if err != nil || info == nil {
			return nil
		}
		rel := strings.TrimPrefix(strings.TrimPrefix(q, p), "/")
		out[key(splitRel(rel), info.IsDir())] = true
		return nil
	})
	return out
}

func splitRel(rel string) []string {
	if rel == "" || rel == "." {
		return nil
	}
	return strings.Split(rel, "/")
}

func relTo(root, p string) ([]string, bool) {
	if p == root {
		return nil, true
	}
	if !strings.HasPrefix(p, root+"/") {
		return nil, false
	}
	return splitRel(strings.TrimPrefix(p, root+"/")), true
}

func sameSnap(a, b map[string]bool) bool {
	if (a == nil) != (b == nil) || len(a) != len(b) {
		return false
	}
	for k := range a {
		if !b[k] {
			return false
		}
	}
	return true
}

type compiled struct {
	full, search *regexp.Regexp
}

func isInvalid(err error) bool { return err != nil && commonerrors.Any(err, commonerrors.ErrInvalid) }

func coqEntries(keys []string) string {
	ts := make([]string, len(keys))
	for i, k := range keys {
		d := strings.HasSuffix(k, "/")
		rel := splitRel(strings.TrimSuffix(k, "/"))
		cs := make([]string, len(rel))
		for j, c := range rel {
			cs[j] = h.Str(c)
		}
		ts[i] = "(" + h.List(cs) + ", " + h.Bool(d) + ")"
	}
	return h.List(ts)
}

// runScenario drives one operation on a fresh file system, applies the oracle and emits the correspondence case.
func runScenario(r *h.Run, e *env, sc Scenario, emit bool) {
	r.Eval()
	w, err := e.newWorld(sc.Backend)
	if err != nil {
		r.Note("cannot create world: " + err.Error())
		return
	}
	if sc.Backend == "os" {
		defer os.RemoveAll(w.base)
	}
	root := filepath.Join(w.base, sc.RootName)
	dest := filepath.Join(w.base, sc.DestName)
	if sc.ZipName == "" {
		sc.ZipName = "out.zip"
	}
	zipPath := filepath.Join(w.base, sc.ZipName)
	if err := w.build(root, sc.Tree); err != nil {
		r.Note("cannot build tree: " + err.Error())
		return
	}
	if sc.Op == "copy" && sc.Flag {
		_ = w.raw.MkdirAll(dest, 0o755)
	}
	before := w.snapshot(w.base)
	pats := texts(sc.Pats)
	ctx := context.Background()

	// ---- the call ----
	var outKeys []string // observation, as keys (relative path, trailing '/' when known to be a directory)
	dup := false
	add := func(rel []string, d bool) { outKeys = append(outKeys, key(rel, d)) }
	addPath := func(p string, d bool) {
		rel, ok := relTo(root, p)
		if !ok {
			r.Fail(sc.Op+":path-outside-root", fmt.Sprintf("%s reported %q which is not under the root %q", sc.Op, p, root), sc)
			return
		}
		add(rel, d)
	}
	var opErr error
	switch sc.Op {
	case "walk":
		opErr = w.fs.WalkWithContextAndExclusionPatterns(ctx, root, func(p string, info os.FileInfo, err error) error {
			if err != nil {
				return err
			}
			addPath(p, info.IsDir())
			return nil
		}, pats...)
	case "ls":
		var names []string
		names, opErr = w.fs.LsWithExclusionPatterns(root, pats...)
		for _, n := range names {
			add([]string{n}, false)
		}
	case "lsrec":
		var files []string
		if sc.Via == "LsRecursiveWithExclusionPatterns" { // package-level convenience function: the global (OS) file system
			files, opErr = filesystem.LsRecursiveWithExclusionPatterns(ctx, root, sc.Flag, pats...)
		} else {
			files, opErr = w.fs.LsRecursiveWithExclusionPatterns(ctx, root, sc.Flag, pats...)
		}
		for _, p := range files {
			addPath(p, false)
		}
	case "listtree":
		var list []string
		opErr = w.fs.ListDirTreeWithContextAndExclusionPatterns(ctx, root, &list, pats...)
		for _, p := range list {
			addPath(p, false)
		}
	case "subdirs":
		var names []string
		names, opErr = w.fs.SubDirectoriesWithContextAndExclusionPatterns(ctx, root, pats...)
		for _, n := range names {
			add([]string{n}, false)
		}
	case "copy":
		if sc.Via == "CopyBetweenFSWithExclusionPatterns" { // package-level function between two file systems (here the same one)
			opErr = filesystem.CopyBetweenFSWithExclusionPatterns(ctx, w.fs, root, w.fs, dest, pats...)
		} else {
			opErr = w.fs.CopyWithContextAndExclusionPatterns(ctx, root, dest, pats...)
		}
	case "zip":
		opErr = w.fs.ZipWithContextAndLimitsAndExclusionPatterns(ctx, root, zipPath, filesystem.NoLimits(), pats...)
	case "remove":
		opErr = w.fs.RemoveWithContextAndExclusionPatterns(ctx, root, pats...)
	case "clean":
		opErr = w.fs.CleanDirWithContextAndExclusionPatterns(ctx, root, pats...)
	}
	after := w.snapshot(w.base)
	r.Count("op=" + sc.Op)
	r.Count("backend=" + sc.Backend)
	r.Count(fmt.Sprintf("patterns=%d", len(sc.Pats)))

	// ---- invalid patterns ----
	hasBad := false
	for _, p := range sc.Pats {
		if p.Kind == "bad" {
			hasBad = true
		}
	}
	if hasBad {
		r.Count("invalid-pattern-runs")
		if !isInvalid(opErr) {
			r.Fail("invalid-pattern-not-rejected:"+sc.Op, fmt.Sprintf("%s with an uncompilable pattern %q returned %v instead of an error of kind 'invalid'", sc.Op, pats, opErr), sc)
		}
		if !sameSnap(before, after) {
			r.Fail("invalid-pattern-touched:"+sc.Op, fmt.Sprintf("%s with an uncompilable pattern %q changed the file system", sc.Op, pats), sc)
		}
		if len(outKeys) > 0 {
			r.Fail("invalid-pattern-reported:"+sc.Op, fmt.Sprintf("%s with an uncompilable pattern reported entries", sc.Op), sc)
		}
		if emit {
			r.Case(wrapCase(sc.Via, "(COp %s %s %s %s %s %s %s [])", sc.coqOp(), coqPats(sc.Pats), h.Str(root), h.Str(dest), h.Str(sc.RootName), sc.Tree.coq(),
				h.Bool(isInvalid(opErr) && sameSnap(before, after))), sc)
		}
		return
	}
	if opErr != nil {
		r.Fail("unexpected-error:"+sc.Op, fmt.Sprintf("%s failed on a plain tree with valid patterns %q: %v", sc.Op, pats, opErr), sc)
		return
	}

	// ---- observation from snapshots ----
	switch sc.Op {
	case "copy":
		for k := range w.snapshot(dest) {
			if sc.Flag && k == "/" { // the destination directory existed before the call
				continue
			}
			outKeys = append(outKeys, k)
		}
		// the source must be untouched
		if !sameSnap(w.snapshot(root), subSnap(before, sc.RootName)) {
			r.Fail("copy:source-changed", "copy changed the source tree", sc)
		}
	case "zip":
		bs, err := afero.ReadFile(w.raw, zipPath)
		if err != nil {
			r.Fail("zip:no-archive", "zip returned no error but the archive cannot be read: "+err.Error(), sc)
			return
		}
		zr, err := zip.NewReader(bytes.NewReader(bs), int64(len(bs)))
		if err != nil {
			r.Fail("zip:bad-archive", "archive unreadable: "+err.Error(), sc)
			return
		}
		for _, f := range zr.File {
			outKeys = append(outKeys, key(splitRel(strings.TrimSuffix(f.Name, "/")), strings.HasSuffix(f.Name, "/")))
		}
	case "remove", "clean":
		for k := range w.snapshot(root) {
			outKeys = append(outKeys, k)
		}
	}
	sort.Strings(outKeys)
	out := map[string]int{}
	for _, k := range outKeys {
		out[k]++
		if out[k] > 1 {
			dup = true
		}
	}
	if dup {
		r.Fail(sc.Op+":duplicate", "an entry was reported twice", sc)
	}

	// ---- oracle ----
	var cs []compiled
	allSepFree := true
	for _, p := range sc.Pats {
		if strings.TrimSpace(p.Text) == "" {
			continue // a pattern of blanks only is the library's "no pattern": it names nothing
		}
		cs = append(cs, compiled{regexp.MustCompile("^(?:" + p.Text + ")$"), regexp.MustCompile(p.Text)})
		if p.AST != nil && !p.AST.sepFree() {
			allSepFree = false
		}
	}
	fullHit := func(s string) bool {
		for _, c := range cs {
			if c.full.MatchString(s) {
				return true
			}
		}
		return false
	}
	hit := func(s string) bool {
		for _, c := range cs {
			if c.search.MatchString(s) {
				return true
			}
		}
		return false
	}
	blocked := func(rel []string) bool {
		for _, c := range rel {
			if fullHit(c) {
				return true
			}
		}
		return false
	}
	clear := func(rel []string) bool {
		for _, c := range rel {
			if hit(c) {
				return false
			}
		}
		return true
	}
	rootHit := hit(root)
	destBase := dest
	if sc.Op == "copy" && sc.Flag {
		destBase = filepath.Join(dest, sc.RootName)
	}
	destHit := sc.Op == "copy" && (hit(dest) || hit(destBase))
	if rootHit {
		r.Count("root-path-has-match")
	}
	var entries []ent
	sc.Tree.entries(nil, &entries)
	// which entries of the tree the operation is about, and how they show in the observation
	inScope := func(en ent) (string, bool) {
		showDir := en.dir
		switch sc.Op {
		case "ls":
			return key(en.rel, false), len(en.rel) == 1
		case "subdirs":
			return key(en.rel, false), len(en.rel) == 1 && en.dir
		case "lsrec":
			return key(en.rel, false), sc.Flag || !en.dir
		case "listtree":
			return key(en.rel, false), len(en.rel) > 0
		case "zip":
			return key(en.rel, showDir), len(en.rel) > 0
		case "copy":
			if sc.Flag {
				return key(append([]string{sc.RootName}, en.rel...), showDir), true
			}
			return key(en.rel, showDir), true
		}
		return key(en.rel, showDir), true
	}
	spans := func(rel []string) bool { // a pattern matches the joined path although no component contains a match
		return hit(filepath.Join(append([]string{root}, rel...)...)) ||
			(sc.Op == "copy" && hit(filepath.Join(append([]string{destBase}, rel...)...)))
	}
	expected := map[string]bool{}
	nBlocked, nClear := 0, 0
	removing := sc.Op == "remove" || sc.Op == "clean"
	for _, en := range entries {
		k, ok := inScope(en)
		if !ok {
			continue
		}
		expected[k] = true
		if blocked(en.rel) {
			nBlocked++
			if !removing && out[k] > 0 {
				r.Fail(sc.Op+":excluded-entry-processed", fmt.Sprintf("%s processed %q although a component of it is matched in full by one of %q", sc.Op, k, pats), sc)
			}
			if removing && out[k] == 0 {
				r.Fail(sc.Op+":excluded-entry-deleted", fmt.Sprintf("%s deleted %q although a component of it is matched in full by one of %q", sc.Op, k, pats), sc)
			}
			continue
		}
		if !clear(en.rel) || rootHit || destHit {
			continue
		}
		nClear++
		if !removing && out[k] == 0 {
			if spans(en.rel) {
				r.Fail("separator-spanning-match:"+sc.Op, fmt.Sprintf("%s skipped %q: no component contains a match of %q but the joined path does", sc.Op, k, pats), sc)
			} else {
				r.Fail(sc.Op+":clear-entry-not-processed", fmt.Sprintf("%s did not process %q although none of its components contains a match of %q", sc.Op, k, pats), sc)
			}
		}
		if removing && !(sc.Op == "clean" && len(en.rel) == 0) && out[k] > 0 {
			// must be gone unless something beneath it is allowed to survive
			sub := sc.Tree.find(en.rel)
			var below []ent
			sub.entries(en.rel, &below)
			allClear, anySpan := true, false
			for _, b := range below {
				if !clear(b.rel) {
					allClear = false
				}
				if spans(b.rel) {
					anySpan = true
				}
			}
			if allClear {
				if anySpan {
					r.Fail("separator-spanning-match:"+sc.Op, fmt.Sprintf("%s kept %q: no component at or below it contains a match of %q but a joined path does", sc.Op, k, pats), sc)
				} else {
					r.Fail(sc.Op+":clear-entry-not-deleted", fmt.Sprintf("%s kept %q although nothing at or below it contains a match of %q", sc.Op, k, pats), sc)
				}
			}
		}
	}
	for k := range out {
		if !expected[k] {
			r.Fail(sc.Op+":spurious-entry", fmt.Sprintf("%s produced %q which is not an entry (of that kind) of the tree", sc.Op, k), sc)
		}
	}
	if sc.Op == "clean" && out[key(nil, true)] == 0 {
		r.Fail("clean:directory-removed", "CleanDir removed the directory itself", sc)
	}
	_ = allSepFree
	if nBlocked > 0 {
		r.Count("runs-with-fully-matched-entries")
	}
	if nClear > 0 {
		r.Count("runs-with-clear-entries")
	}
	if nBlocked > 0 && nClear > 0 && len(entries) > 2 {
		r.Distinct(fmt.Sprintf("%s|%v|%s|%s|%q", sc.Op, sc.Flag, sc.Backend, sc.Tree.coq(), pats))
	}
	r.Sample(map[string]any{"op": sc.Op, "flag": sc.Flag, "backend": sc.Backend, "patterns": pats, "tree_entries": len(entries),
		"fully_matched": nBlocked, "clear": nClear, "observed": outKeys})

	if emit {
		r.Case(wrapCase(sc.Via, "(COp %s %s %s %s %s %s false %s)", sc.coqOp(), coqPats(sc.Pats), h.Str(root), h.Str(dest), h.Str(sc.RootName), sc.Tree.coq(), coqEntries(outKeys)), sc)
	}
}

func subSnap(s map[string]bool, name string) map[string]bool {
	out := map[string]bool{}
	for k := range s {
		if k == name+"/" {
			out["/"] = true
		} else if strings.HasPrefix(k, name+"/") {
			out[strings.TrimPrefix(k, name+"/")] = true
		}
	}
	if len(out) == 0 {
		if s[name] {
			return map[string]bool{"": true}
		}
		return nil
	}
	return out
}

// every operation on one (tree, patterns) pair
func allOps(r *h.Run, e *env, backend, rootName, destName string, tree *Node, pats []Pat, emit bool) {
	allOpsZ(r, e, backend, rootName, destName, "out.zip", tree, pats, emit)
}

func allOpsZ(r *h.Run, e *env, backend, rootName, destName, zipName string, tree *Node, pats []Pat, emit bool) {
	for _, o := range ops {
		if !tree.Dir && o.op != "remove" && o.op != "walk" && o.op != "lsrec" && !(o.op == "copy" && !o.flag) {
			continue
		}
		sc := Scenario{Op: o.op, Flag: o.flag, Backend: backend, RootName: rootName, DestName: destName, ZipName: zipName, Tree: tree, Pats: pats}
		runScenario(r, e, sc, emit)
		// the same call through the package-level functions, next to the method
		if o.op == "lsrec" && backend == "os" {
			sc.Via = "LsRecursiveWithExclusionPatterns"
			runScenario(r, e, sc, emit)
		}
		if o.op == "copy" && (backend == "os" || e.count%3 == 0) {
			sc.Via = "CopyBetweenFSWithExclusionPatterns"
			runScenario(r, e, sc, emit)
		}
	}
}

func wrapCase(via, format string, a ...any) string {
	c := fmt.Sprintf(format, a...)
	if via == "" {
		return c
	}
	return fmt.Sprintf("(CWrap %q%%string %s)", via, c)
}

// ---------- ExcludeAll: method and package-level function ----------

func excludeAllCases(r *h.Run, n int) {
	mem := filesystem.NewInMemoryFileSystem()
	std := filesystem.NewStandardFileSystem()
	pool := namePool(r, "t", "o", "out.zip")
	for i := 0; i < n; i++ {
		var ps []Pat
		switch i % 8 {
		case 0: // no pattern
		case 1:
			ps = []Pat{{Kind: "bad", Text: badTexts[r.Rng.Intn(len(badTexts))]}}
		case 2:
			ps = append(genPats(r, pool), Pat{Kind: "bad", Text: badTexts[r.Rng.Intn(len(badTexts))]})
		case 3:
			ps = []Pat{good(word("zzz"))} // matches nothing
		default:
			ps = genPats(r, pool)
		}
		var names []string
		for j, k := 0, r.Rng.Intn(7); j < k; j++ {
			names = append(names, genNameP(r, pool))
		}
		for _, via := range []string{"", "mem", "ExcludeAll"} {
			runExcludeAll(r, std, mem, via, names, ps, true)
		}
	}
}

// runExcludeAll: one ExcludeAll call — via "" the method of the OS file system, "mem" of the in-memory one,
// "ExcludeAll" the package-level function
func runExcludeAll(r *h.Run, std, mem filesystem.FS, via string, names []string, ps []Pat, emit bool) {
	hasBad := false
	for _, p := range ps {
		hasBad = hasBad || p.Kind == "bad"
	}
	{
		{
			var out []string
			var err error
			switch via {
			case "":
				out, err = std.ExcludeAll(names, texts(ps)...)
			case "mem":
				out, err = mem.ExcludeAll(names, texts(ps)...)
			default:
				out, err = filesystem.ExcludeAll(names, texts(ps)...)
			}
			r.Eval()
			r.Count("excludeall-cases")
			replay := Scenario{Call: "ExcludeAll", Via: via, Names: names, Pats: ps}
			if hasBad {
				if !isInvalid(err) || len(out) > 0 {
					r.Fail("invalid-pattern-not-rejected:excludeall", fmt.Sprintf("ExcludeAll (via %q) with an uncompilable pattern %q returned %v, %v", via, texts(ps), out, err), replay)
				}
			} else if err != nil {
				r.Fail("unexpected-error:excludeall", fmt.Sprintf("ExcludeAll (via %q) failed with valid patterns %q: %v", via, texts(ps), err), replay)
				return
			} else {
				kept := map[string]int{}
				for _, x := range out {
					kept[x]++
				}
				for _, nm := range names {
					full, part := false, false
					for _, p := range ps {
						if strings.TrimSpace(p.Text) == "" {
							continue
						}
						full = full || regexp.MustCompile("^(?:"+p.Text+")$").MatchString(nm)
						part = part || regexp.MustCompile(p.Text).MatchString(nm)
					}
					if full && kept[nm] > 0 {
						r.Fail("excludeall:excluded-entry-processed", fmt.Sprintf("ExcludeAll (via %q) kept %q although it is matched in full by one of %q", via, nm, texts(ps)), replay)
					}
					if !part && kept[nm] == 0 {
						r.Fail("excludeall:clear-entry-not-processed", fmt.Sprintf("ExcludeAll (via %q) dropped %q although it contains no match of %q", via, nm, texts(ps)), replay)
					}
				}
			}
			ts := make([]string, len(names))
			for j, x := range names {
				ts[j] = h.Str(x)
			}
			os_ := make([]string, len(out))
			for j, x := range out {
				os_[j] = h.Str(x)
			}
			wv := via
			if wv == "mem" {
				wv = ""
			}
			if !emit {
				return
			}
			r.Case(wrapCase(wv, "(CExcludeAll %s %s %s %s)", coqPats(ps), h.List(ts), h.Bool(hasBad && isInvalid(err)), h.List(os_)), replay)
		}
	}
}

// ---------- the forwarding functions enumerated by the translator ----------

// how each function with an exclusion-pattern parameter is exercised by this harness
var driven = map[string]string{
	"IsPathExcludedFromPatterns":                        "exclCases",
	"NewExclusionRegexList":                             "exclCases",
	"ExcludeAll":                                        "excludeAllCases (package-level function, global file system)",
	"VFS.ExcludeAll":                                    "excludeAllCases",
	"LsRecursiveWithExclusionPatterns":                  "lsrec via the package-level function on the OS back end",
	"CopyBetweenFSWithExclusionPatterns":                "copy via the package-level function",
	"VFS.WalkWithContextAndExclusionPatterns":           "walk",
	"VFS.CleanDirWithContextAndExclusionPatterns":       "clean",
	"VFS.removeFileWithContext":                         "clean / remove (called by CleanDir)",
	"VFS.RemoveWithContextAndExclusionPatterns":         "remove",
	"VFS.removeWithExclusionPatterns":                   "remove (called by Remove)",
	"VFS.LsWithExclusionPatterns":                       "ls",
	"VFS.LsRecursiveWithExclusionPatterns":              "lsrec",
	"VFS.LsRecursiveWithExclusionPatternsAndLimits":     "lsrec (called by LsRecursiveWithExclusionPatterns)",
	"VFS.CopyWithContextAndExclusionPatterns":           "copy",
	"VFS.SubDirectoriesWithContextAndExclusionPatterns": "subdirs",
	"VFS.ListDirTreeWithContextAndExclusionPatterns":    "listtree",
	"VFS.ZipWithContextAndLimitsAndExclusionPatterns":   "zip",
}

// checkWrappersDriven reads the list the translator wrote into coq/C08/Gen.v and fails for every function with an
// exclusion-pattern parameter that this harness does not exercise.
func checkWrappersDriven(r *h.Run) {
	root := os.Getenv("VERIF_ROOT")
	if root == "" {
		root = "/verif"
	}
	bs, err := os.ReadFile(filepath.Join(root, "coq", "C08", "Gen.v"))
	if err != nil {
		r.Fail("wrapper-list-unreadable", "cannot read the generated list of forwarding functions: "+err.Error(), nil)
		return
	}
	ms := regexp.MustCompile(`mkW "([^"]+)" (true|false) (true|false) (true|false)`).FindAllStringSubmatch(string(bs), -1)
	if len(ms) == 0 {
		r.Note("no forwarding function listed in Gen.v (translator failed?)")
	}
	for _, m := range ms {
		if m[3] != "true" {
			continue
		}
		r.Count("pattern-functions-enumerated")
		if _, ok := driven[m[1]]; !ok {
			r.Fail("wrapper-not-driven", "the function "+m[1]+" has an exclusion-pattern parameter but this harness does not exercise it", map[string]any{"function": m[1]})
		}
	}
}

// ---------- matcher / IsPathExcludedFromPatterns correspondence ----------

func matcherCases(r *h.Run, n int) {
	chars := alphabet + "/.ot+ \t"
	for i := 0; i < n; i++ {
		re := genRe(r, 3)
		l := r.Rng.Intn(7)
		b := make([]byte, l)
		for j := range b {
			b[j] = chars[r.Rng.Intn(len(chars))]
			if r.Rng.Intn(40) == 0 {
				b[j] = '\n'
			}
		}
		s := string(b)
		t := re.text(true)
		full, err1 := regexp.Compile("^(?:" + t + ")$")
		search, err2 := regexp.Compile(t)
		if err1 != nil || err2 != nil {
			r.Fail("generator:pattern-does-not-compile", "generated pattern "+t+" rejected by regexp", t)
			continue
		}
		r.Eval()
		r.Count("matcher-cases")
		// (?s) is NOT set: '.' does not match a newline, as in the model
		r.Case(fmt.Sprintf("(CMatch %s %s %s %s)", re.coq(), h.Str(s), h.Bool(full.MatchString(s)), h.Bool(search.MatchString(s))), map[string]any{"pattern": t, "s": s})
	}
}

func exclCases(r *h.Run, n int) {
	chars := alphabet + "/47.o \t"
	for i := 0; i < n; i++ {
		np := r.Rng.Intn(3) + 1
		var ps []Pat
		for j := 0; j < np; j++ {
			switch r.Rng.Intn(12) {
			case 0:
				ps = append(ps, Pat{Kind: "blank", Text: blankTexts[r.Rng.Intn(len(blankTexts))]})
			case 1:
				ps = append(ps, Pat{Kind: "bad", Text: badTexts[r.Rng.Intn(len(badTexts))]})
			default:
				ps = append(ps, good(genRe(r, 2)))
			}
		}
		l := 1 + r.Rng.Intn(9)
		b := make([]byte, l)
		for j := range b {
			b[j] = chars[r.Rng.Intn(len(chars))]
		}
		s := string(b)
		r.Eval()
		r.Count("excl-cases")
		obs := filesystem.IsPathExcludedFromPatterns(s, '/', texts(ps)...)
		bad := false
		for _, p := range ps {
			bad = bad || p.Kind == "bad"
		}
		if _, err := filesystem.NewExclusionRegexList('/', texts(ps)...); bad != isInvalid(err) {
			r.Fail("invalid-pattern-not-rejected:regex-list", fmt.Sprintf("NewExclusionRegexList(%q) returned %v", texts(ps), err), nil)
		}
		r.Case(fmt.Sprintf("(CExcl %s %s %s)", coqPats(ps), h.Str(s), h.Bool(obs)), map[string]any{"patterns": texts(ps), "s": s})
	}
}

func genPats(r *h.Run, pool []string) []Pat {
	var ps []Pat
	n := r.Rng.Intn(4)
	for i := 0; i < n; i++ {
		switch k := r.Rng.Intn(20); {
		case k == 0:
			ps = append(ps, Pat{Kind: "blank", Text: blankTexts[r.Rng.Intn(len(blankTexts))]})
		case k < 3:
			ps = append(ps, good(word(genNameP(r, pool)))) // often a literal odd name, metacharacters escaped
		case k < 5: // a name with a blank or a tab at one edge, as left by splitting "a , b"
			nm := genNameP(r, pool)
			ps = append(ps, good(word([]string{nm + " ", " " + nm, nm + "\t", "\t" + nm, " " + nm + " "}[r.Rng.Intn(5)])))
		case k < 8:
			ps = append(ps, good(word(genName(r))))
		default:
			ps = append(ps, good(genRe(r, 2+r.Rng.Intn(2))))
		}
	}
	return ps
}

func main() {
	r := h.Init("C08")
	r.Imports = []string{"GU.C08.Regex", "GU.C08.Model", "GU.C08.Gen"}
	r.CheckFn = "check_case_gen" // the model instantiated with the facts the translator read from the source
	r.Rule("trees (depth <= 4, names of 1..3 letters over {a,b,d,x}; every other tree also draws names with leading/trailing/doubled dots, regex metacharacters, and names equal to / containing / contained in the root, destination and archive base names) " +
		"x 0..3 anchor-free regexes handed over AS PRINTED (literals incl. blanks and tabs at the edges and inside, escaped '.', '+' and letters of the other arguments, classes, '.', * + ?, alternation, empty; every fifth tree with NO pattern) " +
		"x 11 calls (walk, ls, lsrec with/without directories, listtree, subdirs, copy to a fresh / into an existing destination, zip, remove, clean) " +
		"on the in-memory back end and (every fourth tree) the OS back end; plus an invalid/blank-pattern stream. " +
		"non-trivial = the tree has both an entry with a fully matched component and an entry without any match; distinct by (op, backend, tree, patterns).")
	for _, t := range badTexts {
		if _, err := regexp.Compile(t); err == nil {
			r.Note("harness: bad pattern text " + t + " compiles; dropped")
		}
	}
	tmp, err := os.MkdirTemp("", "verif-c08-*")
	if err != nil {
		r.Note("cannot create temp dir: " + err.Error())
		r.Finish()
		os.Exit(2)
	}
	defer os.RemoveAll(tmp)
	e := &env{tmp: tmp}

	var sc Scenario
	if _, ok := r.ReplayObject(&sc); ok {
		if sc.Call == "ExcludeAll" {
			runExcludeAll(r, filesystem.NewStandardFileSystem(), filesystem.NewInMemoryFileSystem(), sc.Via, sc.Names, sc.Pats, false)
			r.Finish()
			return
		}
		if sc.Op == "" {
			checkWrappersDriven(r)
			r.Finish()
			return
		}
		runScenario(r, e, sc, false)
		r.Finish()
		return
	}

	checkWrappersDriven(r)

	// ---- deterministic corpus (runs first on every invocation) ----
	// D11: a pattern naming an entry below the first level must protect it in remove / clean
	d11 := dir("", dir("a", file("b"), file("d")), file("x"))
	// D29: a pattern that can match across the separator (finding)
	d29 := dir("", dir("a", file("b")), file("x"))
	for _, be := range []string{"mem", "os"} {
		allOps(r, e, be, "t", "o", d11, []Pat{good(word("b"))}, true)
		allOps(r, e, be, "t", "o", d29, []Pat{good(cat(chr('a'), cat(anyRe, chr('b'))))}, true)
	}
	deep := dir("", dir("ab", file("x"), dir("d", file("a"))), dir("xab", file("x"), file("ab")), dir("d", dir("ab", file("d")), file("a"), dir("x")), file("ba"), file("b"))
	corpus := []struct {
		root, dest string
		tree       *Node
		pats       []Pat
	}{
		{"t", "o", deep, nil},
		{"t", "o", deep, []Pat{good(word("ab"))}},
		{"t", "o", deep, []Pat{good(alt(word("ab"), chr('d')))}},
		{"t", "o", deep, []Pat{good(word("x")), good(word("a"))}},
		{"t", "o", deep, []Pat{good(&Re{K: "plus", A: &Re{K: "cls", Rs: [][2]int{{'a', 'b'}}}})}},
		{"t", "o", deep, []Pat{good(&Re{K: "eps"})}},
		{"t", "o", deep, []Pat{good(anyRe)}},
		{"t", "o", deep, []Pat{good(&Re{K: "cls", Neg: true, Rs: [][2]int{{'a', 'a'}}})}},
		{"t", "o", deep, []Pat{{Kind: "blank", Text: ""}, good(word("d"))}},
		{"t", "o", deep, []Pat{{Kind: "blank", Text: " "}}},
		{"ab", "o", deep, []Pat{good(word("ab"))}},                                // the root's own path contains a match
		{"t", "ab", deep, []Pat{good(word("ab"))}},                                // the destination's path contains a match
		{"t", "o", dir(""), []Pat{good(word("a"))}},                               // empty directory
		{"t", "o", file(""), []Pat{good(word("a"))}},                              // the root is a file
		{"a", "o", file(""), []Pat{good(word("a"))}},                              // ... whose path is excluded
		{"t", "o", dir("", dir("a"), dir("b", dir("a"))), []Pat{good(word("a"))}}, // empty excluded directories
		{"t", "o", dir("", dir("d", dir("d", dir("d", file("a"), file("b"))))), []Pat{good(word("a"))}},
		// the root's / the destination's own path contains a match (outside the property's premise: model and code must still agree)
		{"xab", "o", deep, []Pat{good(word("ab"))}},
		{"a", "o", deep, []Pat{good(alt(chr('a'), chr('d')))}},
		{"ab", "o", dir(""), []Pat{good(word("ab"))}},
		{"ab", "o", dir("", file("x"), dir("d", file("x"))), []Pat{good(word("ab"))}},
		{"t", "xd", dir("", file("x"), dir("d", file("x"))), []Pat{good(chr('d'))}},
		{"b", "a", dir("", file("x"), dir("d", file("x"))), []Pat{good(cat(chr('a'), cat(anyRe, chr('b'))))}}, // dest/base spans a.b
		{"b", "a", dir("", file("x"), dir("d", file("x"))), []Pat{good(cat(chr('b'), cat(anyRe, chr('d'))))}}, // root/child spans b.d
		{"t", "a", dir("", file("x"), dir("b", file("x"))), []Pat{good(cat(chr('a'), cat(anyRe, chr('b'))))}}, // dest/child spans a.b
	}
	for _, c := range corpus {
		allOps(r, e, "mem", c.root, c.dest, c.tree, c.pats, true)
	}
	allOps(r, e, "os", "t", "o", deep, []Pat{good(word("ab"))}, true)
	// names with dots in every position, regex metacharacters, and names equal to / containing / contained in the names
	// of the operation's other arguments (root t, destination o, archive out.zip): with NO pattern every operation must
	// process all of them; with patterns exactly those the patterns name are left out
	rich := dir("", dir(".a", file("x"), file(".b")), dir(".b.a", file("a")), dir("a", file("a."), file("out.zip")),
		dir("b", file("out.zip"), file("out.zip.sha256"), dir("o", file("t")), dir("t", file("o"))),
		dir("about.zip.d", file("x")), dir("out.zip", file("ut.zi")), file("a..b"), file("..a"), file("..."), file("t"), file("o"), file("out"), file("zip"),
		file("a+b"), dir("[a]", file("a$")), file("a(b"), file("^a"), file("a b"), file("a*b"), file("a|b"), file("a?b"))
	richPats := [][]Pat{nil, {good(word("b"))}, {good(chr('.'))}, {good(word("out.zip"))}, {good(word(".a"))}, {good(&Re{K: "plus", A: chr('a')})},
		{good(word("a+b")), good(word("a$"))}, {good(alt(chr('t'), chr('o')))}}
	for i, ps := range richPats {
		allOps(r, e, "mem", "t", "o", rich, ps, true)
		if i < 2 {
			allOps(r, e, "os", "t", "o", rich, ps, true)
		}
	}
	// blanks and tabs at the edges of and inside names and patterns: a pattern is used AS GIVEN (a blank is a character to
	// match), patterns of blanks only are skipped, patterns differing only by such blanks are different patterns
	blanks := dir("", file("a"), file("ab"), file("ab "), file(" a"), file("a b"), file("b\t"), dir("d", file("a"), file("a "), dir("ab", file(" a"))),
		dir("a ", file("x"), file("a")), dir("b", file(" b"), file("b"), file("\tb")), dir(" ", file("a")))
	blankPats := [][]Pat{{good(word("a "))}, {good(word(" a"))}, {good(word("a")), good(word("a "))}, {good(word(" b")), {Kind: "blank", Text: " "}}, {good(word("b\t"))}, {good(word("\tb"))},
		{good(word("a b"))}, {good(word("d "))}, {good(word(" ab ")), good(word("ab "))}, {{Kind: "blank", Text: "  "}, {Kind: "blank", Text: "\t"}}, {good(cat(word("a"), star(chr(' '))))}, {good(word(" a ")), good(word("x "))}, nil}
	for i, ps := range blankPats {
		allOps(r, e, "mem", "t", "o", blanks, ps, true)
		if i%4 == 0 {
			allOps(r, e, "os", "t", "o", blanks, ps, true)
		}
	}
	// OS back end = the global file system: every call is also made through the package-level functions, with an
	// effective, a non-matching, no and an invalid pattern
	for _, ps := range [][]Pat{{good(word("ab"))}, {good(word("zzz"))}, nil, {{Kind: "bad", Text: "("}}, {good(word("d")), {Kind: "bad", Text: "a("}}, {good(chr('a')), good(word("x"))}} {
		allOps(r, e, "os", "t", "o", deep, ps, true)
	}
	// the archive / destination / root carry other names
	allOpsZ(r, e, "mem", ".t", ".o", "ab.zip", dir("", file("ab.zip"), dir("xab.zip.d", file("ab")), dir(".o", file(".t")), file("b.zi")), nil, true)
	allOpsZ(r, e, "mem", "t.d", "o.d", ".x.zip", dir("", dir(".x.zip", file("t.d")), file("x.zip"), dir("o.d", file("d"))), []Pat{good(word("d"))}, true)
	// invalid patterns: every operation, bad pattern first / last / alone, on empty and non-empty roots
	for i, t := range []string{"[", "a(", "a**", "(?P<x"} {
		bad := Pat{Kind: "bad", Text: t}
		sets := [][]Pat{{bad}, {good(word("a")), bad}, {bad, good(word("ab"))}, {{Kind: "blank", Text: " "}, bad}}
		trees := []*Node{deep, dir(""), file(""), dir("", file("a"))}
		be := "mem"
		if i == 0 {
			be = "os"
		}
		allOps(r, e, be, "t", "o", trees[i], sets[i], true)
		allOps(r, e, "mem", "t", "o", deep, sets[(i+1)%4], true)
		allOps(r, e, "mem", "t", "o", dir(""), sets[(i+2)%4], true)
		allOps(r, e, "mem", "t", "o", file(""), sets[(i+3)%4], true)
	}

	// ---- seeded random ----
	nTrees := r.N(70, 900)
	for i := 0; i < nTrees; i++ {
		budget := 4 + r.Rng.Intn(14)
		rootName, destName, zipName := "t", "o", "out.zip"
		switch r.Rng.Intn(6) {
		case 0:
			zipName = genName(r) + ".zip"
		case 1:
			zipName = "." + genName(r)
		}
		var pool []string
		if i%2 == 1 {
			pool = namePool(r, "t", "o", zipName)
		}
		tree := genTree(r, 0, &budget, pool)
		pats := genPats(r, pool)
		if i%5 == 4 {
			pats = nil // zero-pattern run of every operation
		}
		switch r.Rng.Intn(8) {
		case 0:
			rootName = genName(r)
			if r.Rng.Intn(2) == 0 {
				pats = append(pats, good(word(rootName[r.Rng.Intn(len(rootName)):])))
			}
		case 1:
			destName = genName(r)
			if r.Rng.Intn(2) == 0 {
				pats = append(pats, good(word(destName[:1+r.Rng.Intn(len(destName))])))
			}
		case 2:
			rootName, destName = genName(r), genName(r)
		}
		if destName == rootName {
			destName = "o"
		}
		if zipName == rootName || zipName == destName {
			zipName = "out.zip"
		}
		if len(pats) > 3 {
			pats = pats[len(pats)-3:]
		}
		if r.Rng.Intn(14) == 0 {
			pats = append(pats, Pat{Kind: "bad", Text: badTexts[r.Rng.Intn(len(badTexts))]})
			r.Rng.Shuffle(len(pats), func(a, b int) { pats[a], pats[b] = pats[b], pats[a] })
		}
		be := "mem"
		if i%4 == 3 {
			be = "os"
		}
		allOpsZ(r, e, be, rootName, destName, zipName, tree, pats, r.NCases() < r.N(1150, 5000))
	}
	matcherCases(r, r.N(200, 2000))
	exclCases(r, r.N(120, 1000))
	excludeAllCases(r, r.N(48, 400))
	r.Finish()
}
