// C19 harness: drives the real static / dynamic / stream paginators with harness-side pages,
// records one observation per call, evaluates the property's oracle (independent of the Coq model)
// and emits Coq correspondence cases for GU.C19.Model.check_case.
package main

import (
	"context"
	"errors"
	"fmt"
	"io"
	"strings"
	"time"

	"github.com/ARM-software/golang-utils/utils/collection/pagination"
	"github.com/ARM-software/golang-utils/utils/commonerrors"

	"verif/harness/internal/h"
)

const (
	kPage = iota
	kFetchFail
	kIterFail
	kNilPage // futures only: the future-page fetcher answers (nil, nil) once ("nothing published yet")
)

type pageSpec struct {
	Kind  int     `json:"kind"`
	Items []int64 `json:"items"`
	// StopOnFetch: fetching this page (through a next link) succeeds, but the paginator is stopped while the fetch is in
	// flight (oracle-only scenarios: the model has no transition inside a fetch)
	StopOnFetch bool `json:"stop_on_fetch,omitempty"`
}

type scenario struct {
	Paginator string       `json:"paginator"` // static | dynamic | static-stream | dynamic-stream
	Elapsed   bool         `json:"elapsed"`   // stream: run-out timeout 0 (true) or one hour (false)
	Pages     []pageSpec   `json:"pages"`
	Futures   [][]pageSpec `json:"futures"`
	Ops       []string     `json:"ops"`
	// NilItems: the collection holds nil-valued items — every item whose number is a multiple of 3 is handed out by the
	// page's iterator as a nil interface value (with a nil error); a nil item is an item like any other
	NilItems bool `json:"nil_items,omitempty"`
	// FailWithPage: what a FAILING page fetch returns next to its error — 0: a nil page; 1: a non-nil junk page (items
	// -100, -101: a partial / stale answer); 2: a typed-nil page inside a non-nil interface. The error decides: a
	// failed fetch is a failed fetch whatever came with it.
	FailWithPage int `json:"fail_with_page,omitempty"`
	// FailErr: the error value failing page fetches (first, next, future) return — index into fetchErrs: an opaque error
	// or one of the library's own kinds (not found, empty, cancelled, timeout, …). A failed fetch is a failed fetch
	// whatever the kind of its error: "an empty collection" is a first page without items, not an error.
	FailErr int `json:"fail_err,omitempty"`
}

var fetchErrs = []error{
	errors.New("harness: page fetch failure"),
	commonerrors.ErrNotFound,
	commonerrors.ErrEmpty,
	fmt.Errorf("%w: no such page", commonerrors.ErrNotFound),
	commonerrors.New(commonerrors.ErrEmpty, "nothing there"),
	io.EOF,
	commonerrors.ErrCancelled,
	commonerrors.ErrTimeout,
	commonerrors.ErrUnexpected,
}

func (w *world) fetchErr() error { return fetchErrs[w.failErr%len(fetchErrs)] }

type world struct {
	futures        []*pg
	nextFuture     int
	fetches        int
	stop           func() // stops the paginator (set once it exists)
	stoppedBy      int    // number of fetches that stopped the paginator
	nilItems       bool   // see scenario.NilItems
	failWith       int    // see scenario.FailWithPage
	failErr        int    // see scenario.FailErr
	fetchAfterStop string // first call after Stop / Close during which a page was fetched ("" none)
	lastNil        int64  // the number of the item most recently handed out as nil
}

type pg struct {
	spec pageSpec
	next *pg
	w    *world
}

type iter struct {
	items []int64
	i     int
	w     *world
}

func (it *iter) HasNext() bool { return it.i < len(it.items) }
func (it *iter) GetNext() (interface{}, error) {
	if it.i >= len(it.items) {
		return nil, commonerrors.New(commonerrors.ErrNotFound, "no more items")
	}
	v := it.items[it.i]
	it.i++
	if it.w != nil && it.w.nilItems && v%3 == 0 {
		it.w.lastNil = v
		return nil, nil
	}
	return v, nil
}

func (p *pg) HasNext() bool { return p.next != nil }
func (p *pg) GetItemIterator() (pagination.IIterator, error) {
	if p.spec.Kind == kIterFail {
		return nil, errors.New("harness: iterator failure")
	}
	return &iter{items: p.spec.Items, w: p.w}, nil
}
func (p *pg) GetItemCount() (int64, error) { return int64(len(p.spec.Items)), nil }
func (p *pg) fetchNext() (*pg, error) {
	p.w.fetches++
	if p.next == nil {
		return nil, errors.New("harness: no next page")
	}
	if p.next.spec.Kind == kFetchFail {
		return p.w.failedPage(), p.w.fetchErr()
	}
	if p.next.spec.StopOnFetch && p.w.stop != nil {
		p.w.stop()
		p.w.stoppedBy++
	}
	return p.next, nil
}
func (p *pg) GetNext(ctx context.Context) (pagination.IPage, error) {
	if e := ctx.Err(); e != nil {
		return nil, e // a real fetcher honours the context it is given: nothing is fetched once it has ended
	}
	n, err := p.fetchNext()
	if err != nil {
		if p.w.failWith == 0 {
			return nil, err
		}
		return n, err // a junk page, or a typed nil, next to the error
	}
	return n, nil
}

// failedPage: the page value a failing fetch hands back together with its error
func (w *world) failedPage() *pg {
	if w.failWith == 1 {
		return &pg{spec: pageSpec{Items: []int64{-100, -101}}, w: w}
	}
	return nil
}

// HasFuture is page-specific: the future link is carried by the pages at which the traversal of the current chain can
// come to rest (the last page, a page whose next page cannot be fetched, a page without iterator) — NOT by the pages
// it merely passes through, so that consulting a page the paginator has already left gives a different answer.
func (p *pg) HasFuture() bool {
	if p.w.nextFuture >= len(p.w.futures) {
		return false
	}
	return p.next == nil || p.next.spec.Kind == kFetchFail || p.spec.Kind == kIterFail
}
func (p *pg) fetchFuture() (*pg, error) {
	p.w.fetches++
	if p.w.nextFuture >= len(p.w.futures) {
		return nil, errors.New("harness: no future")
	}
	f := p.w.futures[p.w.nextFuture]
	if f == nil { // nil page, no error
		p.w.nextFuture++
		return nil, nil
	}
	if f.spec.Kind == kFetchFail {
		return p.w.failedPage(), p.w.fetchErr()
	}
	p.w.nextFuture++
	return f, nil
}
func (p *pg) GetFuture(ctx context.Context) (pagination.IStream, error) {
	if e := ctx.Err(); e != nil {
		return nil, e
	}
	n, err := p.fetchFuture()
	if err != nil && p.w.failWith != 0 {
		return n, err // a junk page, or a typed nil, next to the error
	}
	if err != nil || n == nil {
		return nil, err
	}
	return n, nil
}

func chain(w *world, specs []pageSpec) *pg {
	var first, prev *pg
	for _, s := range specs {
		p := &pg{spec: s, w: w}
		if first == nil {
			first = p
		} else {
			prev.next = p
		}
		prev = p
	}
	return first
}

type genericPaginator interface {
	HasNext() bool
	GetNext() (interface{}, error)
	Stop() context.CancelFunc
	Close() error
}

func errKind(err error) string {
	switch {
	case err == nil:
		return "nil"
	case commonerrors.Any(err, commonerrors.ErrNotFound):
		return "notfound"
	case commonerrors.Any(err, commonerrors.ErrCancelled, commonerrors.ErrTimeout):
		return "cancelled"
	default:
		return "other"
	}
}

// execute runs the scenario on the real paginator; outs has one entry per op.
func execute(sc scenario) (ctorOK bool, ctorNilNil bool, outs []string, stopAt int) {
	stopAt = -1
	lastFetchAfterStop = ""
	w := &world{nilItems: sc.NilItems, failWith: sc.FailWithPage, failErr: sc.FailErr}
	first := chain(w, sc.Pages)
	for _, f := range sc.Futures {
		if len(f) == 1 && f[0].Kind == kNilPage {
			w.futures = append(w.futures, nil)
			continue
		}
		w.futures = append(w.futures, chain(w, f))
	}
	ctx, cancelParent := context.WithCancel(context.Background()) // op "X" cancels the context given to the constructor
	defer cancelParent()
	timeout := time.Hour
	if sc.Elapsed {
		timeout = 0
	}
	fetchFirstErr := func() error {
		if first == nil || first.spec.Kind == kFetchFail {
			return w.fetchErr()
		}
		return nil
	}
	staticNext := func(fctx context.Context, cur pagination.IStaticPage) (pagination.IStaticPage, error) {
		if e := fctx.Err(); e != nil {
			return nil, e
		}
		n, err := cur.(*pg).fetchNext()
		if err != nil {
			if w.failWith == 0 {
				return nil, err
			}
			return n, err
		}
		return n, nil
	}
	staticFuture := func(fctx context.Context, cur pagination.IStaticPageStream) (pagination.IStaticPageStream, error) {
		if e := fctx.Err(); e != nil {
			return nil, e
		}
		n, err := cur.(*pg).fetchFuture()
		if err != nil && w.failWith != 0 {
			return n, err
		}
		if err != nil || n == nil {
			return nil, err
		}
		return n, nil
	}
	var p genericPaginator
	var dry func() error
	var err error
	isNil := true
	switch sc.Paginator {
	case "static":
		var pp pagination.IPaginatorAndPageFetcher
		pp, err = pagination.NewStaticPagePaginator(ctx, func(context.Context) (pagination.IStaticPage, error) {
			if e := fetchFirstErr(); e != nil {
				return nil, e
			}
			return first, nil
		}, staticNext)
		if pp != nil {
			p, isNil = pp, false
		}
	case "dynamic":
		var pp pagination.IPaginator
		pp, err = pagination.NewCollectionPaginator(ctx, func(context.Context) (pagination.IPage, error) {
			if e := fetchFirstErr(); e != nil {
				return nil, e
			}
			return first, nil
		})
		if pp != nil {
			p, isNil = pp, false
		}
	case "static-stream":
		var pp pagination.IStreamPaginatorAndPageFetcher
		pp, err = pagination.NewStaticPageStreamPaginator(ctx, timeout, 0, func(context.Context) (pagination.IStaticPageStream, error) {
			if e := fetchFirstErr(); e != nil {
				return nil, e
			}
			return first, nil
		}, staticNext, staticFuture)
		if pp != nil {
			p, isNil, dry = pp, false, pp.DryUp
		}
	case "dynamic-stream":
		var pp pagination.IStreamPaginator
		pp, err = pagination.NewStreamPaginator(ctx, timeout, 0, func(context.Context) (pagination.IStream, error) {
			if e := fetchFirstErr(); e != nil {
				return nil, e
			}
			return first, nil
		})
		if pp != nil {
			p, isNil, dry = pp, false, pp.DryUp
		}
	}
	if err != nil || isNil {
		return false, err == nil && isNil, nil, -1
	}
	w.stop = func() { p.Stop()() }
	stoppedAt := -1 // index of the first Stop / Close made by the caller
	for i, o := range sc.Ops {
		before := w.stoppedBy
		fetchesBefore := w.fetches
		switch o {
		case "H":
			outs = append(outs, fmt.Sprintf("b:%v", p.HasNext()))
		case "G":
			it, e := p.GetNext()
			if e == nil && it == nil && sc.NilItems {
				outs = append(outs, fmt.Sprintf("i:%d", w.lastNil)) // the nil-valued item
			} else if e == nil {
				outs = append(outs, fmt.Sprintf("i:%d", it.(int64)))
			} else {
				outs = append(outs, "e:"+errKind(e))
			}
		case "S":
			p.Stop()()
			outs = append(outs, "u")
		case "C":
			_ = p.Close()
			outs = append(outs, "u")
		case "X":
			cancelParent()
			outs = append(outs, "u")
		case "D":
			if dry != nil {
				_ = dry()
			}
			outs = append(outs, "u")
		}
		if stopAt < 0 && w.stoppedBy > before {
			stopAt = i // the paginator was stopped by a page fetch made during this call
		}
		if stoppedAt >= 0 && i > stoppedAt && w.fetches > fetchesBefore && w.fetchAfterStop == "" {
			w.fetchAfterStop = fmt.Sprintf("op %d (%s) fetched %d page(s) although the paginator had been stopped at op %d", i, o, w.fetches-fetchesBefore, stoppedAt)
		}
		if stoppedAt < 0 && (o == "S" || o == "C") {
			stoppedAt = i
		}
	}
	lastFetchAfterStop = w.fetchAfterStop
	return true, false, outs, stopAt
}

// lastFetchAfterStop: set by execute (read by runScenario once the scenario's goroutine has handed over its result)
var lastFetchAfterStop string

func coqPage(p pageSpec) string {
	switch p.Kind {
	case kFetchFail:
		return "FetchFail"
	case kIterFail:
		return "IterFail"
	}
	return "(Page " + h.ZList(p.Items) + ")"
}

func coqPages(ps []pageSpec) string {
	if len(ps) == 1 && ps[0].Kind == kNilPage {
		return "[]" // the fetcher answers (nil, nil): the empty segment of the model
	}
	ts := make([]string, len(ps))
	for i, p := range ps {
		ts[i] = coqPage(p)
	}
	return h.List(ts)
}

func coqCase(sc scenario, ctorOK bool, outs []string) string {
	futs := make([]string, len(sc.Futures))
	for i, f := range sc.Futures {
		futs[i] = coqPages(f)
	}
	ops := make([]string, len(sc.Ops))
	for i, o := range sc.Ops {
		ops[i] = map[string]string{"H": "HasNext", "G": "GetNext", "S": "Stop", "C": "Close", "D": "DryUp", "X": "Stop"}[o] // X = cancellation of the parent context: the same transition as Stop in the model
	}
	os := make([]string, len(outs))
	for i, o := range outs {
		switch {
		case o == "u":
			os[i] = "OUnit"
		case strings.HasPrefix(o, "b:"):
			os[i] = "(OBool " + o[2:] + ")"
		case strings.HasPrefix(o, "i:"):
			var v int64
			fmt.Sscan(o[2:], &v)
			os[i] = "(OItem " + h.Z(v) + ")"
		case o == "e:notfound":
			os[i] = "(OErr ENotFound)"
		case o == "e:cancelled":
			os[i] = "(OErr ECancelled)"
		default:
			os[i] = "(OErr EOther)"
		}
	}
	stream := strings.HasSuffix(sc.Paginator, "stream")
	return fmt.Sprintf("(mkCase %s %s %s %s %s %s %s)", h.Bool(stream), h.Bool(sc.Elapsed), coqPages(sc.Pages),
		h.List(futs), h.List(ops), h.Bool(ctorOK), h.List(os))
}

// goodPrefix: items of the pages before the first failing page of a segment
func goodPrefix(ps []pageSpec) (items []int64, allGood bool) {
	for _, p := range ps {
		if p.Kind != kPage {
			return items, false
		}
		items = append(items, p.Items...)
	}
	return items, true
}

// oracle states the property directly on the observations (it does not use the Coq model).
func oracle(r *h.Run, sc scenario, ctorOK, nilNil bool, outs []string, stopAt int) {
	stream := strings.HasSuffix(sc.Paginator, "stream")
	firstBad := len(sc.Pages) == 0 || sc.Pages[0].Kind != kPage
	if nilNil {
		r.Fail("ctor-nil-nil:"+sc.Paginator, "constructor returned (nil, nil) although building the paginator failed (first page's iterator/fetch fails)", sc)
		return
	}
	if firstBad {
		if ctorOK {
			r.Fail("ctor-no-error:"+sc.Paginator, "constructor reported no error although the first page could not be set up", sc)
		}
		return
	}
	if !ctorOK {
		r.Fail("ctor-spurious-error:"+sc.Paginator, "constructor failed on a valid first page", sc)
		return
	}
	// expected universe of items in order
	all, segGood := goodPrefix(sc.Pages)
	complete := segGood // whether draining must yield everything in `all`
	if stream {
		for _, f := range sc.Futures {
			if len(f) == 1 && f[0].Kind == kNilPage {
				continue // "nothing published yet": costs one poll, loses nothing
			}
			it, g := goodPrefix(f)
			if len(f) > 0 && f[0].Kind == kFetchFail {
				break
			}
			all = append(all, it...)
			_ = g
		}
	}
	// items that every drain must deliver: pages before the first failing page, and for a stream (not dried up with an
	// elapsed grace period) those of the future segments before the first segment that cannot be fetched
	hasNilPage := false // a future fetch answering (nil, nil) makes ONE HasNext/GetNext fail legitimately: exact behaviour is left to the correspondence
	mustAll, pagesGood := goodPrefix(sc.Pages)
	if stream && pagesGood {
		for _, f := range sc.Futures {
			if len(f) == 1 && f[0].Kind == kNilPage {
				hasNilPage = true
				continue
			}
			if len(f) == 0 || f[0].Kind != kPage {
				break
			}
			it, g := goodPrefix(f)
			mustAll = append(mustAll, it...)
			if !g {
				break
			}
		}
	}
	// once a stream has been told it dries up and the grace period has elapsed, only future pages are given up: the items
	// of the current page and of the pages reachable through next-links must still all be yielded
	mustPages, _ := goodPrefix(sc.Pages)
	mustNow := func(driedAndElapsed bool) []int64 {
		if driedAndElapsed {
			return mustPages
		}
		return mustAll
	}
	var yielded []int64
	stopped := false
	driedUp := false
	hasNextTrueSince := false // a HasNext()==true not yet followed by a GetNext
	for i, o := range sc.Ops {
		out := outs[i]
		if i == stopAt {
			stopped = true // stopped from inside a page fetch made during this very call: nothing may be yielded any more
		}
		switch o {
		case "S", "C", "X":
			stopped = true
		case "D":
			driedUp = true
		case "H":
			if stopped && out == "b:true" {
				r.Fail("hasnext-after-stop:"+sc.Paginator, "HasNext() returned true after Stop/Close", sc)
			}
			if !stopped && !hasNilPage && out == "b:false" && len(yielded) < len(mustNow(stream && driedUp && sc.Elapsed)) {
				// the canonical loop  for HasNext { GetNext }  would stop here and lose the remaining items
				r.Fail("hasnext-false-with-items-left:"+sc.Paginator, fmt.Sprintf("HasNext() answered false after %d of %d reachable items", len(yielded), len(mustNow(stream && driedUp && sc.Elapsed))), sc)
			}
			hasNextTrueSince = out == "b:true"
		case "G":
			if strings.HasPrefix(out, "i:") {
				var v int64
				fmt.Sscan(out[2:], &v)
				if stopped {
					r.Fail("yield-after-stop:"+sc.Paginator, "GetNext() yielded an item after Stop/Close", sc)
				}
				yielded = append(yielded, v)
			} else if hasNextTrueSince && !stopped {
				r.Fail("getnext-fails-after-hasnext:"+sc.Paginator, "HasNext() said true but the following GetNext() failed with "+out, sc)
			} else if !stopped && !hasNilPage && len(yielded) < len(mustNow(stream && driedUp && sc.Elapsed)) {
				// "GetNext without HasNext works": items that must still come cannot be answered by an error
				r.Fail("getnext-error-with-items-left:"+sc.Paginator, fmt.Sprintf("GetNext() failed with %s after %d of %d reachable items", out, len(yielded), len(mustAll)), sc)
			}
			hasNextTrueSince = false
		}
	}
	// yielded must be a prefix of all
	if len(yielded) > len(all) {
		r.Fail("yield-extra:"+sc.Paginator, fmt.Sprintf("yielded %d items, collection has %d", len(yielded), len(all)), sc)
		return
	}
	for i := range yielded {
		if yielded[i] != all[i] {
			r.Fail("yield-order:"+sc.Paginator, fmt.Sprintf("item %d is %d, expected %d (not the in-order prefix of the pages)", i, yielded[i], all[i]), sc)
			return
		}
	}
	// completeness: the op list ends with a canonical drain (H G)* H when marked so
	drained := len(sc.Ops) > 0 && sc.Ops[len(sc.Ops)-1] == "H" && outs[len(outs)-1] == "b:false"
	if drained && !stopped {
		must := all
		if !stream {
			if !complete {
				must, _ = goodPrefix(sc.Pages)
			}
		} else if driedUp && sc.Elapsed {
			// what is reachable without waiting for futures is still guaranteed: the pages chained by next-links
			must = mustPages
		} else {
			// stream not dry (or grace not elapsed): every future segment's items before a failure must come
			must = nil
			seg, good := goodPrefix(sc.Pages)
			must = append(must, seg...)
			_ = good
			for _, f := range sc.Futures {
				if len(f) == 1 && f[0].Kind == kNilPage {
					continue
				}
				if len(f) > 0 && f[0].Kind == kFetchFail {
					break
				}
				it, _ := goodPrefix(f)
				must = append(must, it...)
			}
		}
		if len(yielded) < len(must) {
			r.Fail("lost-items:"+sc.Paginator, fmt.Sprintf("drained paginator yielded %d of %d items", len(yielded), len(must)), sc)
		}
	}
}

func genPages(r *h.Run, n int, failures bool, base *int64) []pageSpec {
	ps := make([]pageSpec, 0, n)
	for i := 0; i < n; i++ {
		k := kPage
		if failures && i > 0 && r.Rng.Intn(8) == 0 {
			k = kFetchFail + r.Rng.Intn(2)
		}
		var items []int64
		if k == kPage {
			m := 0
			switch r.Rng.Intn(4) {
			case 0:
				m = 0
			case 1:
				m = 1
			default:
				m = r.Rng.Intn(11)
			}
			for j := 0; j < m; j++ {
				*base++
				items = append(items, *base)
			}
		}
		ps = append(ps, pageSpec{Kind: k, Items: items})
	}
	return ps
}

func genOps(r *h.Run, stream bool, total int) []string {
	var ops []string
	mode := r.Rng.Intn(5)
	switch mode {
	case 0: // canonical drain
		for i := 0; i <= total; i++ {
			ops = append(ops, "H", "G")
		}
	case 1: // GetNext only
		for i := 0; i <= total+1; i++ {
			ops = append(ops, "G")
		}
	default: // random mix, possibly with stop / dry-up
		n := r.Rng.Intn(2*total + 6)
		for i := 0; i < n; i++ {
			x := r.Rng.Intn(100)
			switch {
			case x < 40:
				ops = append(ops, "H")
			case x < 90:
				ops = append(ops, "G")
			case x < 93 && mode == 4:
				ops = append(ops, "S")
			case x < 95 && mode == 4:
				ops = append(ops, "C")
			case x < 96 && mode >= 3:
				ops = append(ops, "X")
			case x < 98 && stream:
				ops = append(ops, "D")
			default:
				ops = append(ops, "H", "H")
			}
		}
		// finish with a canonical drain
		for i := 0; i <= total; i++ {
			ops = append(ops, "H", "G")
		}
	}
	ops = append(ops, "H")
	return ops
}

// hung counts the scenarios whose execution did not come back (their goroutines are still spinning): after a few of them
// the remaining scenarios would only measure the load they cause.
var hung int

// executeGuarded runs one scenario under a watchdog: no scenario of this harness ever blocks (back-off 0, no real waiting
// outside the timed scenarios), so a call that has not returned after 5 s never will; a panic inside the library is a
// failure of the scenario, not of the harness.
func executeGuarded(r *h.Run, sc scenario) (ctorOK bool, nilNil bool, outs []string, stopAt int, ok bool) {
	type res struct {
		ctorOK, nilNil bool
		outs           []string
		stopAt         int
		panicked       any
	}
	ch := make(chan res, 1)
	go func() {
		var x res
		defer func() {
			if p := recover(); p != nil {
				x.panicked = p
			}
			ch <- x
		}()
		x.ctorOK, x.nilNil, x.outs, x.stopAt = execute(sc)
	}()
	select {
	case x := <-ch:
		if x.panicked != nil {
			r.Fail("panic:"+sc.Paginator, fmt.Sprintf("the paginator panicked: %v", x.panicked), sc)
			return false, false, nil, -1, false
		}
		return x.ctorOK, x.nilNil, x.outs, x.stopAt, true
	case <-time.After(5 * time.Second):
		hung++
		r.Fail("no-return:"+sc.Paginator, "a call on the paginator did not return within 5 s (no scenario of this harness waits for anything): HasNext / GetNext must terminate", sc)
		return false, false, nil, -1, false
	}
}

func runScenario(r *h.Run, sc scenario, emit bool) {
	if hung >= 3 {
		return
	}
	ctorOK, nilNil, outs, stopAt, ok := executeGuarded(r, sc)
	r.Eval()
	if !ok {
		return
	}
	if lastFetchAfterStop != "" {
		// "Stop / Close end the iteration": the page fetchers are handed a context that Stop and Close cancel, and a
		// stopped paginator asks them for nothing any more (with a never-ending stream the call would not even return)
		r.Fail("page-fetched-after-stop:"+sc.Paginator, lastFetchAfterStop, sc)
	}
	oracle(r, sc, ctorOK, nilNil, outs, stopAt)
	for _, ps := range append([][]pageSpec{sc.Pages}, sc.Futures...) {
		for _, p := range ps {
			if p.StopOnFetch {
				emit = false // oracle only: the model has no transition inside a fetch
			}
		}
	}
	if emit {
		r.Case("(CPlain "+coqCase(sc, ctorOK && !nilNil, outs)+")", sc)
	}
	key := fmt.Sprintf("%s|%v|%v|%v|%v", sc.Paginator, sc.Elapsed, sc.Pages, sc.Futures, sc.Ops)
	nItems := 0
	for _, p := range sc.Pages {
		nItems += len(p.Items)
	}
	if nItems > 0 && len(sc.Pages) > 1 {
		r.Distinct(key)
	}
	r.Count("paginator=" + sc.Paginator)
	r.Count(fmt.Sprintf("pages=%d", min(len(sc.Pages), 20)/5*5))
	if !ctorOK {
		r.Count("constructor-failure")
	}
	if len(sc.Futures) > 0 {
		r.Count("with-futures")
	}
	r.Sample(map[string]any{"scenario": sc, "ctor_ok": ctorOK, "outs": outs})
}

// ---- timed scenarios: the stream grace period on the real clock ------------------------------------------------
// The harness imposes a schedule: HasNext is called right after construction and polls (back-off 10 ms) a stream whose
// future pages are empty until `avail`; another goroutine calls DryUp at `idle`.  Scenario "within": the item becomes
// available `delta` after DryUp with delta well inside the grace period T — it must be yielded (property: "keeps yielding
// items of future pages until it has been told the stream is drying up and the grace period has elapsed").  Scenario
// "expired": the item would come long after DryUp+T — correspondence only (the model predicts expiry).
// The model is evaluated on the nominal readings of this schedule (one every back-off); margins are >= 400 ms.
type timedScenario struct {
	Paginator string `json:"paginator"` // static-stream | dynamic-stream
	Name      string `json:"name"`      // within | expired
	TMs       int64  `json:"grace_ms"`
	IdleMs    int64  `json:"idle_ms"`  // DryUp instant
	AvailMs   int64  `json:"avail_ms"` // instant at which the future page with the item appears
	// RedryMs > 0: DryUp is called again every RedryMs after the first call (telling the stream twice that it is drying
	// up tells it nothing new: the grace period counts from the last LIVE poll, not from the last DryUp)
	RedryMs int64 `json:"redry_ms,omitempty"`
}

type tworld struct {
	start  time.Time
	avail  time.Duration
	served bool
}

type tpg struct {
	w     *tworld
	items []int64
	last  bool
}

func (p *tpg) HasNext() bool { return false }
func (p *tpg) GetItemIterator() (pagination.IIterator, error) {
	return &iter{items: p.items}, nil
}
func (p *tpg) GetItemCount() (int64, error) { return int64(len(p.items)), nil }
func (p *tpg) GetNext(ctx context.Context) (pagination.IPage, error) {
	return nil, errors.New("harness: no next page")
}
func (p *tpg) HasFuture() bool { return !p.last }
func (p *tpg) future() *tpg {
	if time.Since(p.w.start) >= p.w.avail && !p.w.served {
		p.w.served = true
		return &tpg{w: p.w, items: []int64{7}, last: true}
	}
	return &tpg{w: p.w}
}
func (p *tpg) GetFuture(ctx context.Context) (pagination.IStream, error) { return p.future(), nil }

func executeTimed(ts timedScenario) []string {
	w := &tworld{avail: time.Duration(ts.AvailMs) * time.Millisecond}
	first := &tpg{w: w}
	ctx, cancel := context.WithTimeout(context.Background(), time.Duration(ts.IdleMs+ts.AvailMs+10*ts.TMs+5000)*time.Millisecond)
	defer cancel()
	T := time.Duration(ts.TMs) * time.Millisecond
	backoff := 10 * time.Millisecond
	var p genericPaginator
	var dry func() error
	w.start = time.Now()
	if ts.Paginator == "static-stream" {
		pp, err := pagination.NewStaticPageStreamPaginator(ctx, T, backoff, func(context.Context) (pagination.IStaticPageStream, error) { return first, nil },
			func(context.Context, pagination.IStaticPage) (pagination.IStaticPage, error) {
				return nil, errors.New("harness: no next page")
			},
			func(_ context.Context, cur pagination.IStaticPageStream) (pagination.IStaticPageStream, error) {
				return cur.(*tpg).future(), nil
			})
		if err != nil {
			return []string{"ctor-error"}
		}
		p, dry = pp, pp.DryUp
	} else {
		pp, err := pagination.NewStreamPaginator(ctx, T, backoff, func(context.Context) (pagination.IStream, error) { return first, nil })
		if err != nil {
			return []string{"ctor-error"}
		}
		p, dry = pp, pp.DryUp
	}
	redryDone := make(chan struct{})
	defer close(redryDone)
	go func() {
		time.Sleep(time.Until(w.start.Add(time.Duration(ts.IdleMs) * time.Millisecond)))
		_ = dry()
		for ts.RedryMs > 0 {
			select {
			case <-redryDone:
				return
			case <-time.After(time.Duration(ts.RedryMs) * time.Millisecond):
				_ = dry()
			}
		}
	}()
	var outs []string
	outs = append(outs, fmt.Sprintf("b:%v", p.HasNext()))
	it, e := p.GetNext()
	if e == nil {
		outs = append(outs, fmt.Sprintf("i:%d", it.(int64)))
	} else {
		outs = append(outs, "e:"+errKind(e))
	}
	outs = append(outs, fmt.Sprintf("b:%v", p.HasNext()))
	p.Stop()()
	return outs
}

func coqTimedCase(ts timedScenario, outs []string) string {
	const backoff = 10
	nEmpty := int((ts.AvailMs + backoff - 1) / backoff)
	segs := make([]string, 0, nEmpty+1)
	for i := 0; i < nEmpty; i++ {
		segs = append(segs, "[Page []]")
	}
	segs = append(segs, "[Page [7]]")
	nRead := nEmpty + 2*int(ts.TMs/backoff) + 8
	env := make([]string, nRead)
	for k := 0; k < nRead; k++ {
		t := int64(k) * backoff
		env[k] = fmt.Sprintf("(%d, %s)", t, h.Bool(t >= ts.IdleMs))
	}
	os := make([]string, len(outs))
	for i, o := range outs {
		switch {
		case strings.HasPrefix(o, "b:"):
			os[i] = "(OBool " + o[2:] + ")"
		case strings.HasPrefix(o, "i:"):
			os[i] = "(OItem " + o[2:] + ")"
		case o == "e:notfound":
			os[i] = "(OErr ENotFound)"
		case o == "e:cancelled":
			os[i] = "(OErr ECancelled)"
		default:
			os[i] = "(OErr EOther)"
		}
	}
	return fmt.Sprintf("(CTimed (mkTCase %d 0 [] %s %s [HasNext; GetNext; HasNext] %s))", ts.TMs, h.List(segs), h.List(env), h.List(os))
}

// timedBuf separates the execution of a timed scenario (goroutine) from its recording (h.Run is not goroutine-safe).
type timedBuf struct {
	outs       []string
	deviations int
}

func (b *timedBuf) exec(ts timedScenario) {
	expected := []string{"b:true", "i:7", "b:false"}
	if strings.HasPrefix(ts.Name, "expired") {
		expected = []string{"b:false", "e:notfound", "b:false"}
	}
	for attempt := 0; attempt < 3; attempt++ { // a deviation from the schedule's nominal outcome must be confirmed 3 times out of 3
		b.outs = executeTimed(ts)
		if strings.Join(b.outs, ",") == strings.Join(expected, ",") {
			break
		}
		b.deviations++
	}
}

func (b *timedBuf) record(r *h.Run, ts timedScenario, emit bool) {
	outs := b.outs
	r.Eval()
	r.Count("timed:" + ts.Name + ":" + ts.Paginator)
	r.Distinct(fmt.Sprintf("timed|%v", ts))
	if b.deviations == 3 && ts.Name == "within" && (len(outs) < 2 || outs[1] != "i:7") {
		r.Fail("stream-grace-cut-short:"+ts.Paginator, fmt.Sprintf("a future page's item available %d ms after DryUp (grace period %d ms, stream polled live until DryUp) was not yielded: %v", ts.AvailMs-ts.IdleMs, ts.TMs, outs), ts)
	}
	if b.deviations == 3 && strings.HasPrefix(ts.Name, "expired") && len(outs) > 0 && outs[0] == "b:true" {
		r.Fail("stream-grace-never-ends:"+ts.Paginator, fmt.Sprintf("the stream was told at %d ms that it is drying up (again every %d ms), grace period %d ms, nothing published until %d ms: HasNext must have given up long before, but it waited for that item: %v", ts.IdleMs, ts.RedryMs, ts.TMs, ts.AvailMs, outs), ts)
	}
	if emit {
		r.Case(coqTimedCase(ts, outs), ts)
	}
	r.Sample(map[string]any{"timed_scenario": ts, "outs": outs, "attempts_deviating": b.deviations})
}

func runTimed(r *h.Run, ts timedScenario, emit bool) {
	b := &timedBuf{}
	b.exec(ts)
	b.record(r, ts, emit)
}

func timedScenarios() []timedScenario {
	var l []timedScenario
	for _, k := range []string{"static-stream", "dynamic-stream"} {
		l = append(l, timedScenario{Paginator: k, Name: "within", TMs: 600, IdleMs: 900, AvailMs: 1000})
		l = append(l, timedScenario{Paginator: k, Name: "expired", TMs: 200, IdleMs: 300, AvailMs: 1300})
		l = append(l, timedScenario{Paginator: k, Name: "expired-redry", TMs: 200, IdleMs: 300, AvailMs: 1500, RedryMs: 40})
	}
	return l
}

func main() {
	r := h.Init("C19")
	r.Imports = []string{"GU.C19.Model"}
	r.CaseType, r.CheckFn = "anycase", "check_any"
	r.Rule("seeded scenarios: paginator kind x page lists (0..20 pages of 0..10 items, failing pages) x future segments x call mixes " +
		"(canonical drain, GetNext only, random HasNext/GetNext/Stop/Close/DryUp mixes ending with a drain); non-trivial = >1 page and >0 items; distinct by full scenario")
	var sc scenario
	if sig, ok := r.ReplayObject(&sc); ok {
		if strings.HasPrefix(sig, "stream-grace") {
			var ts timedScenario
			r.ReplayObject(&ts)
			runTimed(r, ts, false)
		} else {
			runScenario(r, sc, false)
		}
		r.Finish()
		return
	}
	// timed scenarios run concurrently with the rest (they mostly sleep); their results are recorded at the end
	timedDone := make(chan func(), 8)
	tss := timedScenarios()
	for _, ts := range tss {
		ts := ts
		go func() {
			rr := &timedBuf{}
			rr.exec(ts)
			timedDone <- func() { rr.record(r, ts, true) }
		}()
	}
	kinds := []string{"static", "dynamic", "static-stream", "dynamic-stream"}
	// corpus: deterministic scenarios that run first
	for _, k := range kinds {
		// constructor failures (D2)
		runScenario(r, scenario{Paginator: k, Pages: []pageSpec{{Kind: kIterFail}}, Ops: []string{"H"}}, true)
		runScenario(r, scenario{Paginator: k, Pages: []pageSpec{{Kind: kFetchFail}}, Ops: []string{"H"}}, true)
		// empty collection, empty pages anywhere
		runScenario(r, scenario{Paginator: k, Pages: []pageSpec{{}}, Ops: []string{"H", "G", "H"}}, true)
		// stopped from inside a page fetch: the fetched page must not be served (oracle only)
		runScenario(r, scenario{Paginator: k, Pages: []pageSpec{{Items: []int64{1, 2}}, {Items: []int64{3, 4}, StopOnFetch: true}, {Items: []int64{5}}}, Ops: []string{"G", "G", "G", "H", "G", "H"}}, false)
		runScenario(r, scenario{Paginator: k, Pages: []pageSpec{{Items: []int64{1}}, {}, {Items: []int64{2}, StopOnFetch: true}}, Ops: []string{"H", "G", "H", "G", "H"}}, false)
		if strings.HasSuffix(k, "stream") {
			// next-links and future links mixed: the next chain ends in an EMPTY page that carries the future link
			runScenario(r, scenario{Paginator: k, Pages: []pageSpec{{Items: []int64{1, 2}}, {}}, Futures: [][]pageSpec{{{Items: []int64{3, 4}}}, {{}, {Items: []int64{5}}, {}}},
				Ops: []string{"H", "G", "H", "G", "H", "G", "H", "G", "H", "G", "H"}}, true)
			runScenario(r, scenario{Paginator: k, Pages: []pageSpec{{Items: []int64{1}}, {}, {}}, Futures: [][]pageSpec{{{}, {Items: []int64{2}}}},
				Ops: []string{"G", "G", "G", "H"}}, true)
			// the future fetcher answers (nil, nil) once, then real pages follow: nothing is lost
			runScenario(r, scenario{Paginator: k, Pages: []pageSpec{{Items: []int64{1, 2}}}, Futures: [][]pageSpec{{{Kind: kNilPage}}, {{Items: []int64{3, 4}}}, {{Kind: kNilPage}}, {{Kind: kNilPage}}, {{Items: []int64{5}}}},
				Ops: []string{"H", "G", "H", "G", "H", "G", "H", "G", "H", "G", "H", "G", "H", "G", "H", "G", "H", "G", "H"}}, true)
			runScenario(r, scenario{Paginator: k, Pages: []pageSpec{{Items: []int64{1}}}, Futures: [][]pageSpec{{{Kind: kNilPage}}, {{Items: []int64{2}}}},
				Ops: []string{"G", "G", "G", "G", "H"}}, true)
		}
		// cancellation through the context given to the constructor (not Stop/Close), items still left
		runScenario(r, scenario{Paginator: k, Pages: []pageSpec{{Items: []int64{1, 2, 3}}, {Items: []int64{4}}}, Ops: []string{"G", "X", "H", "G", "G", "H"}}, true)
		runScenario(r, scenario{Paginator: k, Pages: []pageSpec{{Items: []int64{1}}, {Items: []int64{2, 3}}}, Ops: []string{"X", "G", "H"}}, true)
		runScenario(r, scenario{Paginator: k, Pages: []pageSpec{{}, {}, {Items: []int64{1, 2}}, {}, {Items: []int64{3}}, {}},
			Ops: []string{"G", "H", "H", "G", "G", "G", "H"}}, true)
	}
	n := r.N(600, 20000)
	// the first page cannot be fetched: the constructor fails whatever the kind of the fetcher's error
	for _, k := range kinds {
		for e := range fetchErrs {
			for _, kind := range []int{kFetchFail, kIterFail} {
				if kind == kIterFail && e > 0 {
					continue
				}
				runScenario(r, scenario{Paginator: k, FailErr: e, Pages: []pageSpec{{Kind: kind}, {Items: []int64{1}}}, Ops: []string{"H", "G", "H"}}, true)
			}
		}
	}
	// a failing next-page / future-page fetch that hands back a page value next to its error (junk page, typed nil)
	for _, k := range kinds {
		for fw := 1; fw <= 2; fw++ {
			sc := scenario{Paginator: k, FailWithPage: fw, Pages: []pageSpec{{Items: []int64{1, 2}}, {Kind: kFetchFail}, {Items: []int64{3}}},
				Ops: []string{"G", "G", "H", "G", "H", "G", "H"}}
			runScenario(r, sc, true)
			if strings.HasSuffix(k, "stream") {
				sc = scenario{Paginator: k, FailWithPage: fw, Elapsed: true, Pages: []pageSpec{{Items: []int64{1}}},
					Futures: [][]pageSpec{{{Items: []int64{2}}}, {{Kind: kFetchFail}}}, Ops: []string{"G", "H", "G", "H", "G", "H", "D", "H", "G", "H"}}
				runScenario(r, sc, true)
			}
		}
	}
	// collections with nil-valued items (a nil item is an item): every paginator kind, items on first, next and future pages
	for _, k := range kinds {
		sc := scenario{Paginator: k, NilItems: true, Pages: []pageSpec{{Items: []int64{3, 1, 6}}, {}, {Items: []int64{9, 2}}, {Items: []int64{12}}},
			Ops: []string{"H", "G", "G", "H", "G", "H", "G", "G", "H", "G", "H", "G", "H"}}
		if strings.HasSuffix(k, "stream") {
			sc.Futures = [][]pageSpec{{{Items: []int64{15, 4, 18}}}, {{}, {Items: []int64{21}}}}
			sc.Ops = append(sc.Ops, "H", "G", "G", "H", "G", "H", "G", "D", "H", "G", "H")
			sc.Elapsed = true
		}
		runScenario(r, sc, true)
	}
	for i := 0; i < n; i++ {
		k := kinds[r.Rng.Intn(4)]
		stream := strings.HasSuffix(k, "stream")
		var base int64
		np := 1 + r.Rng.Intn(20)
		if r.Rng.Intn(6) == 0 {
			np = 1
		}
		failures := r.Rng.Intn(4) == 0
		nilPages := 0
		sc := scenario{Paginator: k, Pages: genPages(r, np, failures, &base)}
		if failures && r.Rng.Intn(10) == 0 {
			sc.Pages[0].Kind = kFetchFail + r.Rng.Intn(2)
			sc.Pages[0].Items = nil
		}
		if stream {
			sc.Elapsed = r.Rng.Intn(2) == 0
			nf := r.Rng.Intn(4)
			for j := 0; j < nf; j++ {
				f := genPages(r, 1+r.Rng.Intn(4), failures, &base)
				if failures && r.Rng.Intn(6) == 0 {
					f[0] = pageSpec{Kind: kFetchFail + r.Rng.Intn(2)}
				}
				if r.Rng.Intn(12) == 0 {
					sc.Futures = append(sc.Futures, []pageSpec{{Kind: kNilPage}})
					nilPages++
				}
				sc.Futures = append(sc.Futures, f)
			}
		}
		stopOnFetch := false
		if !failures && len(sc.Pages) > 1 && r.Rng.Intn(10) == 0 {
			sc.Pages[1+r.Rng.Intn(len(sc.Pages)-1)].StopOnFetch = true
			stopOnFetch = true
		}
		_ = stopOnFetch
		sc.Ops = genOps(r, stream, int(base)+2*nilPages)
		sc.NilItems = r.Rng.Intn(4) == 0
		if failures {
			sc.FailWithPage = r.Rng.Intn(3)
			sc.FailErr = r.Rng.Intn(len(fetchErrs))
			r.Count(fmt.Sprintf("failed-fetch-returns=%d", sc.FailWithPage))
		}
		if sc.NilItems {
			r.Count("nil-valued-items")
		}
		runScenario(r, sc, i < r.N(600, 4000))
	}
	for range tss {
		(<-timedDone)()
	}
	r.Finish()
}
