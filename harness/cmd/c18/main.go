// C18 harness: subprocess results are faithful.
//
// Two ties to the real code:
//   - adapter cases: chunk lists are fed straight into the real stream-to-logger adapter (hook
//     subprocess.VerifNewLogStreamer, build tag verif), one observation per Write and one after the flush;
//   - real children: this binary re-executes itself as the child (`c18-child <script>`): the script says which bytes
//     to write with which write(2) calls on which stream, with which pauses, and how to end (exit status 0..255; death
//     by a signal goes through a `sh` wrapper which kills itself). A few cases use sh/printf/head/tr/dd directly.
//
// The oracle (function oracle) states the property directly on what the recording logger and the caller observed; it
// does not use the Coq model. The same observations are emitted as Coq cases for GU.C18.Model.check_case.
package main

import (
	"context"
	"crypto/sha256"
	"encoding/json"
	"errors"
	"fmt"
	"os"
	"os/exec"
	"path/filepath"
	"sort"
	"strings"
	"sync"
	"syscall"
	"time"

	"github.com/ARM-software/golang-utils/utils/commonerrors"
	"github.com/ARM-software/golang-utils/utils/subprocess"
	commandUtils "github.com/ARM-software/golang-utils/utils/subprocess/command"

	"verif/harness/internal/h"
)

const (
	mStartP = "@@C18-START-"
	mOKP    = "@@C18-OK-"
	mFailP  = "@@C18-FAIL-"
)

// ---------------------------------------------------------------------------------------------------------------------
// scenarios

// seg is a run-length encoded piece of a byte string: T (text) or B (raw bytes, base64 in JSON), repeated N times.
type seg struct {
	T string `json:"t,omitempty"`
	B []byte `json:"b,omitempty"`
	N int    `json:"n,omitempty"`
}

func (s seg) bytes() []byte {
	unit := []byte(s.T)
	if len(s.B) > 0 {
		unit = s.B
	}
	n := s.N
	if n <= 0 {
		n = 1
	}
	out := make([]byte, 0, len(unit)*n)
	for i := 0; i < n; i++ {
		out = append(out, unit...)
	}
	return out
}

func segsBytes(ss []seg) []byte {
	var out []byte
	for _, s := range ss {
		out = append(out, s.bytes()...)
	}
	return out
}

func printable(b []byte) bool {
	for _, c := range b {
		if c == '\n' || c == '\t' || c == '\r' {
			continue
		}
		if c < 0x20 || c > 0x7e {
			return false
		}
	}
	return true
}

// toSegs run-length encodes a byte string (runs of >= 32 equal bytes become one seg).
func toSegs(b []byte) []seg {
	var out []seg
	flushLit := func(lit []byte) {
		if len(lit) == 0 {
			return
		}
		if printable(lit) {
			out = append(out, seg{T: string(lit)})
		} else {
			out = append(out, seg{B: append([]byte(nil), lit...)})
		}
	}
	start := 0
	i := 0
	for i < len(b) {
		j := i
		for j < len(b) && b[j] == b[i] {
			j++
		}
		if j-i >= 32 {
			flushLit(b[start:i])
			if printable(b[i : i+1]) {
				out = append(out, seg{T: string(b[i : i+1]), N: j - i})
			} else {
				out = append(out, seg{B: []byte{b[i]}, N: j - i})
			}
			start = j
		}
		i = j
	}
	flushLit(b[start:])
	return out
}

// op is one write(2) of the child.
type op struct {
	S     int    `json:"s"`               // 1 = standard output, 2 = standard error
	D     []seg  `json:"d,omitempty"`     // the bytes
	Env   string `json:"env,omitempty"`   // instead of D: the value of this environment variable and a newline
	Pause int    `json:"pause,omitempty"` // milliseconds to sleep after the write
}

type scenario struct {
	Kind string `json:"kind"` // adapter | exec | output
	// adapter
	Stderr bool    `json:"stderr,omitempty"`
	Chunks [][]seg `json:"chunks,omitempty"`
	// children
	Ops        []op      `json:"ops,omitempty"`
	Exit       int       `json:"exit,omitempty"`
	Signal     int       `json:"signal,omitempty"` // die by this signal after the writes
	Env        []string  `json:"env,omitempty"`    // additional environment ("K=V")
	Msgs       bool      `json:"msgs,omitempty"`   // custom start/success/failure messages (false: the defaults)
	Sh         string    `json:"sh,omitempty"`     // `sh -c` script instead of the self child ...
	ShOut      []seg     `json:"sh_out,omitempty"` // ... and the bytes it writes
	ShErr      []seg     `json:"sh_err,omitempty"`
	Cancel     string    `json:"cancel,omitempty"`       // ctx | deadline | method | pre: interrupt the child (it hangs after its writes)
	NotFound   string    `json:"notfound,omitempty"`     // run this (non-existent) command instead
	LogDelayUs int       `json:"log_delay_us,omitempty"` // the recording logger takes this long for every message
	StallAt    int       `json:"stall_at,omitempty"`     // ... and stalls once, at its n-th message (1-based),
	StallMs    int       `json:"stall_ms,omitempty"`     // for this long
	Runs       []runSpec `json:"runs,omitempty"`         // kind "reuse": the same Subprocess object run several times back to back
	ID         string    `json:"id,omitempty"`           // makes the custom messages unique to the case
	Entry      string    `json:"entry,omitempty"`        // public entry point of the package to go through (see entryPoints); "" = by Func / Env
	As         string    `json:"as,omitempty"`           // command translator of the ...As... entry points: "" = command.Me(), "env" = NewCommandAsDifferentUser("env")
	Func       bool      `json:"func,omitempty"`         // use the package-level functions (Execute / Output) instead of New + (*Subprocess).Execute / OutputWithEnvironment
}

// runSpec is one run of a reuse history.
type runSpec struct {
	Step  string `json:"step"`            // execute: (*Subprocess).Execute | startstop: Start, wait until the child has written everything, Stop
	Setup bool   `json:"setup,omitempty"` // before the run, Setup() the object again with messages unique to this run
	Ops   []op   `json:"ops,omitempty"`
	Exit  int    `json:"exit,omitempty"`
}

// childScript is what the self child reads.
type childScript struct {
	Ops    []op   `json:"ops"`
	Exit   int    `json:"exit"`
	Ready  string `json:"ready,omitempty"` // file created once all writes are done
	HangMs int    `json:"hang_ms,omitempty"`
}

func childMain(path string) {
	bs, err := os.ReadFile(path)
	if err != nil {
		os.Exit(250)
	}
	var cs childScript
	if json.Unmarshal(bs, &cs) != nil {
		os.Exit(251)
	}
	for _, o := range cs.Ops {
		var data []byte
		if o.Env != "" {
			data = []byte(os.Getenv(o.Env) + "\n")
		} else {
			data = segsBytes(o.D)
		}
		fd := 1
		if o.S == 2 {
			fd = 2
		}
		for len(data) > 0 {
			n, err := syscall.Write(fd, data)
			if err == syscall.EINTR || err == syscall.EAGAIN {
				continue
			}
			if err != nil {
				os.Exit(252)
			}
			data = data[n:]
		}
		if o.Pause > 0 {
			time.Sleep(time.Duration(o.Pause) * time.Millisecond)
		}
	}
	if cs.Ready != "" {
		_ = os.WriteFile(cs.Ready, []byte("1"), 0o600)
	}
	if cs.HangMs > 0 {
		time.Sleep(time.Duration(cs.HangMs) * time.Millisecond)
		_, _ = syscall.Write(1, []byte("late-line-after-hang\n"))
	}
	os.Exit(cs.Exit)
}

// ---------------------------------------------------------------------------------------------------------------------
// recording logger

type logEntry struct {
	Ch    string // "o" = Log, "e" = LogError
	Msg   string
	NArgs int
}

type rec struct {
	mu      sync.Mutex
	msgs    []logEntry
	delay   time.Duration // per message (a slow logger: the child may have exited long before its output is consumed)
	stallAt int
	stall   time.Duration
	seen    int
}

func (r *rec) Close() error                 { return nil }
func (r *rec) Check() error                 { return nil }
func (r *rec) SetLogSource(string) error    { return nil }
func (r *rec) SetLoggerSource(string) error { return nil }
func (r *rec) Log(a ...interface{})         { r.add("o", a) }
func (r *rec) LogError(a ...interface{})    { r.add("e", a) }
func (r *rec) add(ch string, a []interface{}) {
	msg := ""
	if len(a) > 0 {
		if s, ok := a[0].(string); ok {
			msg = s
		} else {
			msg = fmt.Sprint(a[0])
		}
	}
	r.mu.Lock()
	r.seen++
	n := r.seen
	r.mu.Unlock()
	if r.delay > 0 {
		time.Sleep(r.delay)
	}
	if r.stallAt > 0 && n == r.stallAt {
		time.Sleep(r.stall)
	}
	r.mu.Lock()
	r.msgs = append(r.msgs, logEntry{Ch: ch, Msg: msg, NArgs: len(a)})
	r.mu.Unlock()
}
func (r *rec) snapshot() []logEntry {
	r.mu.Lock()
	defer r.mu.Unlock()
	return append([]logEntry(nil), r.msgs...)
}

// ---------------------------------------------------------------------------------------------------------------------
// running

type observation struct {
	Log     []logEntry
	ErrKind string // nil | exit:N | signal:N | processdone | cancelled | timeout | notfound | other
	ErrText string
	Text    string
	Late    []logEntry // messages which reached the logger AFTER Execute / Output had returned (re-inspected after a settle delay)
	rec     *rec
	// adapter
	PerWrite [][]logEntry
	Flushed  []logEntry
	HasFlush bool
	WriteErr string
}

func errKind(err error) string {
	var ee *exec.ExitError
	switch {
	case err == nil:
		return "nil"
	case commonerrors.Any(err, commonerrors.ErrCancelled):
		return "cancelled"
	case commonerrors.Any(err, commonerrors.ErrTimeout):
		return "timeout"
	case errors.Is(err, os.ErrProcessDone):
		return "processdone"
	case commonerrors.Any(err, commonerrors.ErrNotFound):
		return "notfound"
	case errors.As(err, &ee):
		if ws, ok := ee.Sys().(syscall.WaitStatus); ok {
			if ws.Signaled() {
				return fmt.Sprintf("signal:%d", int(ws.Signal()))
			}
			if ws.Exited() {
				return fmt.Sprintf("exit:%d", ws.ExitStatus())
			}
		}
		return "other"
	default:
		return "other"
	}
}

var (
	sudoState string // absent | works | broken (found but unusable here): decided once at start-up
	selfPath  string
	scratch   string
	fileSeq   int
	fileMu    sync.Mutex
)

func tmpName(prefix string) string {
	fileMu.Lock()
	defer fileMu.Unlock()
	fileSeq++
	return filepath.Join(scratch, fmt.Sprintf("%s-%d", prefix, fileSeq))
}

func runAdapter(sc scenario) observation {
	var o observation
	r := &rec{}
	w := subprocess.VerifNewLogStreamer(context.Background(), sc.Stderr, r)
	seen := 0
	for _, c := range sc.Chunks {
		b := segsBytes(c)
		n, err := w.Write(b)
		if err != nil || n != len(b) {
			o.WriteErr = fmt.Sprintf("Write returned (%d, %v) for a chunk of %d bytes", n, err, len(b))
		}
		all := r.snapshot()
		o.PerWrite = append(o.PerWrite, all[seen:])
		seen = len(all)
	}
	if f, ok := w.(interface{ Flush() }); ok {
		o.HasFlush = true
		f.Flush()
		all := r.snapshot()
		o.Flushed = all[seen:]
	}
	o.Log = r.snapshot()
	return o
}

func (sc scenario) withMsgs() bool { return sc.Kind == "exec" }

func (sc scenario) command() (cmd string, args []string, ready string) {
	if sc.NotFound != "" {
		return sc.NotFound, nil, ""
	}
	if sc.Sh != "" {
		return "sh", []string{"-c", sc.Sh}, ""
	}
	cs := childScript{Ops: sc.Ops, Exit: sc.Exit}
	if sc.Cancel != "" && sc.Cancel != "pre" {
		cs.Ready = tmpName("ready")
		cs.HangMs = 20000
	}
	script := tmpName("script")
	bs, _ := json.Marshal(cs)
	_ = os.WriteFile(script, bs, 0o600)
	if sc.Signal > 0 {
		return "sh", []string{"-c", fmt.Sprintf(`ulimit -c 0; "$0" c18-child "$1"; kill -%d $$; sleep 20`, sc.Signal), selfPath, script}, cs.Ready
	}
	return selfPath, []string{"c18-child", script}, cs.Ready
}

func waitFor(path string, max time.Duration) bool {
	deadline := time.Now().Add(max)
	for time.Now().Before(deadline) {
		if _, err := os.Stat(path); err == nil {
			return true
		}
		time.Sleep(2 * time.Millisecond)
	}
	return false
}

// runChild runs one child scenario on the real library. attempt (0..2) only stretches the waits of interrupted runs.
func runChild(sc scenario, attempt int) observation {
	var o observation
	r := &rec{delay: time.Duration(sc.LogDelayUs) * time.Microsecond, stallAt: sc.StallAt, stall: time.Duration(sc.StallMs) * time.Millisecond}
	o.rec = r
	cmd, args, ready := sc.command()
	settle := []time.Duration{150 * time.Millisecond, 600 * time.Millisecond, 2 * time.Second}[attempt]
	ctx := context.Background()
	var cancel context.CancelFunc = func() {}
	switch sc.Cancel {
	case "ctx", "method":
		ctx, cancel = context.WithCancel(ctx)
	case "pre":
		ctx, cancel = context.WithCancel(ctx)
		cancel()
	case "deadline":
		ctx, cancel = context.WithTimeout(ctx, []time.Duration{500 * time.Millisecond, 2 * time.Second, 6 * time.Second}[attempt])
	}
	defer cancel()
	start, okm, failm := "", "", ""
	if sc.Msgs {
		start, okm, failm = sc.mStart(), sc.mOK(), sc.mFail()
	}
	interrupt := func(how func()) {
		if ready != "" && (sc.Cancel == "ctx" || sc.Cancel == "method") {
			go func() {
				waitFor(ready, 15*time.Second)
				time.Sleep(settle) // let the copying goroutines deliver what is in the pipes
				how()
			}()
		}
	}
	as := commandUtils.Me()
	if sc.As == "env" {
		as = commandUtils.NewCommandAsDifferentUser("env")
	}
	entry := sc.entry()
	ep, known := entryPoints[entry]
	if !known || ep.kind != sc.Kind || (len(sc.Env) > 0 && !ep.env) || (sc.Cancel == "method" && !ep.object) {
		o.ErrKind = "setup:other"
		o.ErrText = "harness: scenario not runnable through entry point " + entry
		return o
	}
	finish := func(err error) observation {
		o.ErrKind = errKind(err)
		if err != nil {
			o.ErrText = err.Error()
		}
		o.Log = r.snapshot()
		return o
	}
	var err error
	switch entry {
	// ---- Output...: run and return the text
	case "Output":
		o.Text, err = subprocess.Output(ctx, r, cmd, args...)
		return finish(err)
	case "OutputWithEnvironment":
		o.Text, err = subprocess.OutputWithEnvironment(ctx, r, sc.Env, cmd, args...)
		return finish(err)
	case "OutputAs":
		o.Text, err = subprocess.OutputAs(ctx, r, as, cmd, args...)
		return finish(err)
	case "OutputAsWithEnvironment":
		o.Text, err = subprocess.OutputAsWithEnvironment(ctx, r, sc.Env, as, cmd, args...)
		return finish(err)
	// ---- Execute...: run
	case "Execute":
		interrupt(cancel)
		return finish(subprocess.Execute(ctx, r, start, okm, failm, cmd, args...))
	case "ExecuteWithEnvironment":
		interrupt(cancel)
		return finish(subprocess.ExecuteWithEnvironment(ctx, r, sc.Env, start, okm, failm, cmd, args...))
	case "ExecuteAs":
		interrupt(cancel)
		return finish(subprocess.ExecuteAs(ctx, r, start, okm, failm, as, cmd, args...))
	case "ExecuteAsWithEnvironment":
		interrupt(cancel)
		return finish(subprocess.ExecuteAsWithEnvironment(ctx, r, sc.Env, start, okm, failm, as, cmd, args...))
	case "ExecuteWithSudo":
		interrupt(cancel)
		return finish(subprocess.ExecuteWithSudo(ctx, r, start, okm, failm, cmd, args...))
	}
	// ---- constructors / Setup...: an object, then (*Subprocess).Execute
	var p *subprocess.Subprocess
	switch entry {
	case "New":
		p, err = subprocess.New(ctx, r, start, okm, failm, cmd, args...)
	case "NewWithEnvironment":
		p, err = subprocess.NewWithEnvironment(ctx, r, sc.Env, start, okm, failm, cmd, args...)
	case "Subprocess.Setup":
		p = new(subprocess.Subprocess)
		err = p.Setup(ctx, r, start, okm, failm, cmd, args...)
	case "Subprocess.SetupWithEnvironment":
		p = new(subprocess.Subprocess)
		err = p.SetupWithEnvironment(ctx, r, sc.Env, start, okm, failm, cmd, args...)
	case "Subprocess.SetupAs":
		p = new(subprocess.Subprocess)
		err = p.SetupAs(ctx, r, start, okm, failm, as, cmd, args...)
	case "Subprocess.SetupAsWithEnvironment":
		p = new(subprocess.Subprocess)
		err = p.SetupAsWithEnvironment(ctx, r, sc.Env, start, okm, failm, as, cmd, args...)
	default:
		panic("entryPoints and runChild disagree on " + entry)
	}
	if err != nil {
		o.ErrKind = "setup:" + errKind(err)
		o.ErrText = err.Error()
		return o
	}
	if sc.Cancel == "method" {
		interrupt(p.Cancel)
	} else {
		interrupt(cancel)
	}
	return finish(p.Execute())
}

// entryPoints: every public function / method of package subprocess which takes the loggers (and with them the start /
// success / failure messages, or produces the end message), and how the harness can drive it. The list is compared on
// every run with the one translator-c18 extracts from the source (gen_facts.json): an entry point of the package which
// is missing here is a failure of the check (fail closed), see checkEntryPoints.
type entryPoint struct {
	kind   string // exec | output
	env    bool   // takes additional environment variables
	as     bool   // takes a command translator
	object bool   // yields a *Subprocess (Cancel() can be called)
}

var entryPoints = map[string]entryPoint{
	"New": {"exec", false, false, true}, "NewWithEnvironment": {"exec", true, false, true},
	"Subprocess.Setup": {"exec", false, false, true}, "Subprocess.SetupWithEnvironment": {"exec", true, false, true},
	"Subprocess.SetupAs": {"exec", false, true, true}, "Subprocess.SetupAsWithEnvironment": {"exec", true, true, true},
	"Execute": {"exec", false, false, false}, "ExecuteWithEnvironment": {"exec", true, false, false},
	"ExecuteAs": {"exec", false, true, false}, "ExecuteAsWithEnvironment": {"exec", true, true, false},
	"ExecuteWithSudo": {"exec", false, false, false},
	"Output":          {"output", false, false, false}, "OutputWithEnvironment": {"output", true, false, false},
	"OutputAs": {"output", false, true, false}, "OutputAsWithEnvironment": {"output", true, true, false},
}

func entryNames(kind string) []string {
	var out []string
	for n, e := range entryPoints {
		if e.kind == kind && n != "ExecuteWithSudo" {
			out = append(out, n)
		}
	}
	sort.Strings(out)
	return out
}

// entry: the entry point of a scenario (scenarios of earlier replays name none: Func / Env decide as they used to).
func (sc scenario) entry() string {
	if sc.Entry != "" {
		return sc.Entry
	}
	switch {
	case sc.Kind == "output" && sc.Func && len(sc.Env) == 0:
		return "Output"
	case sc.Kind == "output":
		return "OutputWithEnvironment"
	case sc.Func && sc.Cancel != "method" && len(sc.Env) == 0:
		return "Execute"
	case sc.Func && sc.Cancel != "method":
		return "ExecuteWithEnvironment"
	case len(sc.Env) == 0:
		return "New"
	}
	return "NewWithEnvironment"
}

// pickEntry chooses, deterministically from n, an entry point able to run the scenario.
func (sc *scenario) pickEntry(n int) {
	var ok []string
	for _, name := range entryNames(sc.Kind) {
		e := entryPoints[name]
		if (len(sc.Env) > 0 && !e.env) || (sc.Cancel == "method" && !e.object) {
			continue
		}
		ok = append(ok, name)
	}
	sc.Entry = ok[n%len(ok)]
	if entryPoints[sc.Entry].as && (n/len(ok))%2 == 1 && sc.NotFound == "" { // `env` would start, and fail itself

		sc.As = "env"
	}
}

// checkEntryPoints: the public entry points found in the source by the translator must all be driven by this harness.
func checkEntryPoints(r *h.Run) {
	root := os.Getenv("VERIF_ROOT")
	if root == "" {
		root = "/verif"
	}
	var g struct {
		EntryPoints []string `json:"entry_points"`
	}
	bs, err := os.ReadFile(filepath.Join(root, "coq", "C18", "gen_facts.json"))
	if err == nil {
		err = json.Unmarshal(bs, &g)
	}
	if err != nil || len(g.EntryPoints) == 0 {
		r.Fail("entry-point-list-missing", fmt.Sprintf("the list of public entry points extracted from the source cannot be read (%v)", err), nil)
		return
	}
	for _, n := range g.EntryPoints {
		if _, ok := entryPoints[n]; !ok {
			r.Fail("entry-point-not-driven", "package subprocess has the public entry point "+n+" which takes the loggers / messages and which this harness does not drive", map[string]string{"entry_point": n})
		}
	}
	r.Note(fmt.Sprintf("%d public entry points found in the source, all driven", len(g.EntryPoints)))
}

// settleDelay: how long after Execute / Output returned the recording logger is inspected again. Anything the library
// logs on behalf of a run after that run has returned (e.g. a second end message from the monitoring goroutine's Stop)
// shows up a few milliseconds later; the delay is >= 50x that.
const settleDelay = 300 * time.Millisecond

// collectLate must be called at least settleDelay after the run returned.
func (o *observation) collectLate() {
	if o.rec == nil {
		return
	}
	all := o.rec.snapshot()
	if len(all) > len(o.Log) {
		o.Late = all[len(o.Log):]
	}
}

// ---------------------------------------------------------------------------------------------------------------------
// the oracle: the property, stated on the observations

func nonEmptyLines(b []byte) []string {
	var out []string
	for _, l := range strings.Split(string(b), "\n") {
		if l != "" {
			out = append(out, l)
		}
	}
	return out
}

func (sc scenario) envValue(name string) string {
	v := ""
	for _, kv := range sc.Env {
		if strings.HasPrefix(kv, name+"=") {
			v = kv[len(name)+1:]
		}
	}
	return v
}

// expectedBytes: what the child writes on each stream before it ends (or before it hangs, for interrupted runs).
func (sc scenario) expectedBytes() (out, errb []byte) {
	if sc.NotFound != "" || sc.Cancel == "pre" || sc.viaAbsentSudo() {
		return nil, nil
	}
	if sc.Sh != "" {
		return segsBytes(sc.ShOut), segsBytes(sc.ShErr)
	}
	for _, o := range sc.Ops {
		var d []byte
		if o.Env != "" {
			d = []byte(sc.envValue(o.Env) + "\n")
		} else {
			d = segsBytes(o.D)
		}
		if o.S == 2 {
			errb = append(errb, d...)
		} else {
			out = append(out, d...)
		}
	}
	return
}

// viaAbsentSudo: ExecuteWithSudo where there is no sudo: the command cannot be started (exec.ErrNotFound for "sudo").
func (sc scenario) viaAbsentSudo() bool {
	return sc.entry() == "ExecuteWithSudo" && sudoState == "absent"
}

func (sc scenario) expectSuccess() bool {
	return !sc.viaAbsentSudo() && sc.Exit == 0 && sc.Signal == 0 && sc.Cancel == "" && sc.NotFound == ""
}

// custom start / success / failure messages: distinct, non-empty and unique to the case (ID), so that the oracle sees
// WHICH text reached WHICH logger.
func (sc scenario) mStart() string { return mStartP + sc.ID + "@@" }
func (sc scenario) mOK() string    { return mOKP + sc.ID + "@@" }
func (sc scenario) mFail() string  { return mFailP + sc.ID + "@@" }

func (sc scenario) cmdPath() string {
	if sc.NotFound != "" {
		return sc.NotFound
	}
	if sc.Sh != "" || sc.Signal > 0 {
		return "sh"
	}
	return selfPath
}

// framework message (start / end) as opposed to a line of the child. Custom messages are markers the child never
// writes; the default messages all quote the command path between backticks, which the child never writes either.
func (sc scenario) isFramework(e logEntry) bool {
	if !sc.withMsgs() {
		return false
	}
	if sc.Msgs {
		return strings.HasPrefix(e.Msg, mStartP) || strings.HasPrefix(e.Msg, mOKP) || strings.HasPrefix(e.Msg, mFailP) // any case's marker
	}
	return strings.Contains(e.Msg, "`"+sc.cmdPath()+"`")
}

type verdict struct{ sig, what string }

func compareLines(stream string, got, want []string) *verdict {
	if len(got) == len(want) {
		same := true
		for i := range got {
			if got[i] != want[i] {
				same = false
				break
			}
		}
		if same {
			return nil
		}
	}
	for _, g := range got {
		if g == "" {
			return &verdict{"empty-line-logged:" + stream, fmt.Sprintf("an empty line was sent to the logger (%s: %d messages for %d non-empty lines)", stream, len(got), len(want))}
		}
	}
	gj, wj := strings.Join(got, ""), strings.Join(want, "")
	desc := fmt.Sprintf("%s: %d messages logged for %d non-empty lines written", stream, len(got), len(want))
	for i := 0; i < len(got) && i < len(want); i++ {
		if got[i] != want[i] {
			desc += fmt.Sprintf("; first difference at line %d: logged %d bytes %q, written %d bytes %q", i, len(got[i]), clip(got[i]), len(want[i]), clip(want[i]))
			break
		}
	}
	if gj == wj {
		return &verdict{"line-split:" + stream, "a line of the child reached the logger in fragments (or lines were merged): " + desc}
	}
	if len(gj) < len(wj) {
		return &verdict{"output-lost:" + stream, "part of the child's output never reached the logger: " + desc}
	}
	return &verdict{"output-altered:" + stream, "the logger received something the child did not write / out of order: " + desc}
}

func clip(s string) string {
	if len(s) > 40 {
		return s[:20] + "..." + s[len(s)-10:]
	}
	return s
}

// isInterleaving: text lines are an order-preserving interleaving of a and b.
func isInterleaving(lines, a, b []string) bool {
	if len(lines) != len(a)+len(b) {
		return false
	}
	// reachable[j] = after i lines, j of them were taken from a
	reach := map[int]bool{0: true}
	for i, l := range lines {
		next := map[int]bool{}
		for j := range reach {
			k := i - j
			if j < len(a) && a[j] == l {
				next[j+1] = true
			}
			if k < len(b) && b[k] == l {
				next[j] = true
			}
		}
		if len(next) == 0 {
			return false
		}
		reach = next
	}
	return reach[len(a)]
}

func oracleAdapter(sc scenario, o observation) []verdict {
	var vs []verdict
	if o.WriteErr != "" {
		vs = append(vs, verdict{"adapter-short-write", o.WriteErr})
	}
	var stream []byte
	for _, c := range sc.Chunks {
		stream = append(stream, segsBytes(c)...)
	}
	wantCh := "o"
	name := "stdout"
	if sc.Stderr {
		wantCh, name = "e", "stderr"
	}
	var got []string
	for _, e := range o.Log {
		if e.Ch != wantCh {
			vs = append(vs, verdict{"wrong-logger:" + name, fmt.Sprintf("a line of %s was sent to the other logger", name)})
			break
		}
		got = append(got, e.Msg)
	}
	if v := compareLines(name, got, nonEmptyLines(stream)); v != nil {
		v.sig = "adapter-" + v.sig
		vs = append(vs, *v)
	}
	return vs
}

func oracleChild(sc scenario, o observation) []verdict {
	var vs []verdict
	add := func(sig, what string) { vs = append(vs, verdict{sig, what}) }
	if strings.HasPrefix(o.ErrKind, "setup:") {
		add("setup-failed", "the subprocess could not be set up: "+o.ErrText)
		return vs
	}
	// --- returned error
	switch {
	case sc.expectSuccess() && o.ErrKind != "nil":
		add("error-on-success", fmt.Sprintf("the child exited with status 0 but an error was returned (%s: %s)", o.ErrKind, o.ErrText))
	case !sc.expectSuccess() && o.ErrKind == "nil":
		add("nil-on-failure", fmt.Sprintf("nil returned although the child did not exit with status 0 (exit=%d signal=%d cancel=%q notfound=%q)", sc.Exit, sc.Signal, sc.Cancel, sc.NotFound))
	case (sc.Cancel == "ctx" || sc.Cancel == "method" || sc.Cancel == "pre") && o.ErrKind != "cancelled":
		add("cancel-not-context-kind", fmt.Sprintf("the run was cancelled (%s) but the error is not of kind cancelled: %s (%s)", sc.Cancel, o.ErrKind, o.ErrText))
	case sc.Cancel == "deadline" && o.ErrKind != "timeout":
		add("cancel-not-context-kind", fmt.Sprintf("the context deadline expired but the error is not of kind timeout: %s (%s)", o.ErrKind, o.ErrText))
	}
	// --- messages
	entries := o.Log
	if sc.withMsgs() {
		nfw := 0
		for _, e := range entries {
			if sc.isFramework(e) {
				nfw++
			}
		}
		okFirst := len(entries) > 0 && sc.isFramework(entries[0]) && entries[0].Ch == "o" && (!sc.Msgs || entries[0].Msg == sc.mStart())
		if !okFirst {
			add("start-not-first", "the start message is not the first message logged (through Log)")
		}
		if len(entries) < 2 || !sc.isFramework(entries[len(entries)-1]) {
			add("end-not-last", "the last message logged is not a success / failure message")
		} else {
			last := entries[len(entries)-1]
			isOK := last.Ch == "o" && (!sc.Msgs || last.Msg == sc.mOK())
			isFail := last.Ch == "e" && (!sc.Msgs || last.Msg == sc.mFail())
			switch {
			case !isOK && !isFail:
				add("end-wrong-kind", fmt.Sprintf("the end message is neither the success message on the output logger nor the failure message on the error logger (%s %q)", last.Ch, clip(last.Msg)))
			case sc.expectSuccess() && !isOK:
				add("end-wrong-kind", "the child exited with status 0 but the failure message was logged")
			case !sc.expectSuccess() && !isFail:
				add("end-wrong-kind", "the child did not exit with status 0 but the success message was logged")
			}
		}
		if nfw != 2 {
			add("end-count", fmt.Sprintf("%d start/end messages logged, expected the start message and exactly one end message", nfw))
		}
		// the child's lines: everything between
		var mid []logEntry
		for i, e := range entries {
			if (i == 0 || i == len(entries)-1) && sc.isFramework(e) {
				continue
			}
			mid = append(mid, e)
		}
		entries = mid
	}
	var gotOut, gotErr []string
	for _, e := range entries {
		if sc.isFramework(e) {
			continue // already counted
		}
		if e.Ch == "o" {
			gotOut = append(gotOut, e.Msg)
		} else {
			gotErr = append(gotErr, e.Msg)
		}
	}
	wantOutB, wantErrB := sc.expectedBytes()
	wantOut, wantErr := nonEmptyLines(wantOutB), nonEmptyLines(wantErrB)
	if v := compareLines("stdout", gotOut, wantOut); v != nil {
		vs = append(vs, *v)
	}
	if v := compareLines("stderr", gotErr, wantErr); v != nil {
		vs = append(vs, *v)
	}
	// --- nothing is logged on behalf of the run once it has returned: exactly one end message, and it is the last
	if len(o.Late) > 0 {
		nfw := 0
		desc := ""
		for i, e := range o.Late {
			if sc.isFramework(e) {
				nfw++
			}
			if i < 4 {
				desc += fmt.Sprintf(" [%s %q]", e.Ch, clip(e.Msg))
			}
		}
		if nfw > 0 {
			add("end-message-after-return", fmt.Sprintf("%d message(s) were logged after the run had returned, %d of them start/end messages: a second success / failure message follows the one logged by Execute:%s", len(o.Late), nfw, desc))
		} else {
			add("message-after-return", fmt.Sprintf("%d message(s) were logged after the run had returned (after its end message):%s", len(o.Late), desc))
		}
	}
	// --- Output()
	if sc.Kind == "output" {
		text := o.Text
		ok := text == "" || strings.HasSuffix(text, "\n")
		var lines []string
		if text != "" {
			lines = strings.Split(strings.TrimSuffix(text, "\n"), "\n")
		}
		if !ok || !isInterleaving(lines, wantOut, wantErr) {
			add("output-text-differs", fmt.Sprintf("Output() returned %d bytes / %d lines which are not the %d+%d non-empty lines the child wrote (each followed by a newline, order kept within each stream)", len(text), len(lines), len(wantOut), len(wantErr)))
		}
	}
	return vs
}

// ---------------------------------------------------------------------------------------------------------------------
// Coq terms

func coqBytes(b []byte) string {
	if len(b) == 0 {
		return "[]"
	}
	var parts []string
	var lit []string
	flush := func() {
		if len(lit) > 0 {
			parts = append(parts, "["+strings.Join(lit, ";")+"]")
			lit = nil
		}
	}
	i := 0
	for i < len(b) {
		j := i
		for j < len(b) && b[j] == b[i] {
			j++
		}
		if j-i >= 16 {
			flush()
			parts = append(parts, fmt.Sprintf("rep %d %d", b[i], j-i))
		} else {
			for k := i; k < j; k++ {
				lit = append(lit, fmt.Sprint(int(b[k])))
			}
		}
		i = j
	}
	flush()
	if len(parts) == 1 {
		if strings.HasPrefix(parts[0], "rep") {
			return "(" + parts[0] + ")"
		}
		return parts[0]
	}
	return "(" + strings.Join(parts, " ++ ") + ")"
}

func (sc scenario) coqEntry(e logEntry, framework bool) string {
	if framework {
		switch {
		case e.Ch == "o" && sc.Msgs && e.Msg == sc.mStart():
			return "EStart"
		case e.Ch == "o" && sc.Msgs && e.Msg == sc.mOK():
			return "EEndOk"
		case e.Ch == "e" && sc.Msgs && e.Msg == sc.mFail() && e.NArgs == 2:
			return "EEndFail"
		}
	}
	st := "SOut"
	if e.Ch == "e" {
		st = "SErr"
	}
	return "(ELine " + st + " " + coqBytes([]byte(e.Msg)) + ")"
}

// coqLog: with default messages the first framework message on the output logger is the start message, a later one the
// success message, one on the error logger (with the error as second argument) the failure message.
func (sc scenario) coqLog(log []logEntry) string {
	ts := make([]string, len(log))
	for i, e := range log {
		fw := sc.isFramework(e)
		if fw && !sc.Msgs {
			switch {
			case e.Ch == "o" && i == 0:
				ts[i] = "EStart"
			case e.Ch == "o":
				ts[i] = "EEndOk"
			case e.NArgs == 2:
				ts[i] = "EEndFail"
			default:
				ts[i] = sc.coqEntry(e, false)
			}
			continue
		}
		ts[i] = sc.coqEntry(e, fw)
	}
	return h.List(ts)
}

func coqErrk(k string) string {
	var n int
	switch {
	case k == "nil":
		return "ENil"
	case k == "processdone":
		return "EProcessDone"
	case k == "cancelled":
		return "ECancelled"
	case k == "timeout":
		return "ETimeout"
	case k == "notfound":
		return "ENotFound"
	}
	if _, err := fmt.Sscanf(k, "exit:%d", &n); err == nil {
		return fmt.Sprintf("(EExit %d)", n)
	}
	if _, err := fmt.Sscanf(k, "signal:%d", &n); err == nil {
		return fmt.Sprintf("(ESignal %d)", n)
	}
	return "EOther"
}

// coqOutcome: state of the process context and of the caller's context when Run returns, and how the command ended.
func (sc scenario) coqOutcome() (ctx, pctx, outcome string) {
	ctx, pctx = "None", "None"
	switch sc.Cancel {
	case "ctx":
		return "(Some CtxCancelled)", "(Some CtxCancelled)", "(Signaled 9)"
	case "method": // Cancel() cancels the process context only
		return "(Some CtxCancelled)", "None", "(Signaled 9)"
	case "deadline":
		return "(Some CtxDeadline)", "(Some CtxDeadline)", "(Signaled 9)"
	case "pre":
		return "(Some CtxCancelled)", "(Some CtxCancelled)", "(StartCtx CtxCancelled)"
	}
	switch {
	case sc.viaAbsentSudo():
		outcome = "StartNotFound"
	case sc.NotFound != "" && strings.Contains(sc.NotFound, "/"):
		outcome = "StartFailed" // no $PATH lookup: exec reports the error of the file system, not exec.ErrNotFound
	case sc.NotFound != "":
		outcome = "StartNotFound"
	case sc.Signal > 0:
		outcome = fmt.Sprintf("(Signaled %d)", sc.Signal)
	default:
		outcome = fmt.Sprintf("(Exited %d)", sc.Exit)
	}
	return
}

func (sc scenario) coqCase(o observation) string {
	if sc.Kind == "adapter" {
		pw := make([]string, len(o.PerWrite))
		for i, w := range o.PerWrite {
			pw[i] = sc.coqLog(w)
		}
		chunks := make([]string, len(sc.Chunks))
		for i, c := range sc.Chunks {
			chunks[i] = coqBytes(segsBytes(c))
		}
		fl := "None"
		if o.HasFlush {
			fl = "(Some " + sc.coqLog(o.Flushed) + ")"
		}
		return fmt.Sprintf("CAdapter %s %s %s %s", h.Bool(sc.Stderr), h.List(chunks), h.List(pw), fl)
	}
	ob, eb := sc.expectedBytes()
	ctx, pctx, outcome := sc.coqOutcome()
	full := append(append([]logEntry(nil), o.Log...), o.Late...) // everything the logger ever received for this run
	if sc.Kind == "output" {
		return fmt.Sprintf("COutput %s %s %s %s %s %s", outcome, coqBytes(ob), coqBytes(eb), sc.coqLog(full), coqBytes([]byte(o.Text)), coqErrk(o.ErrKind))
	}
	return fmt.Sprintf("CExec true %s %s %s %s %s %s %s", ctx, pctx, outcome, coqBytes(ob), coqBytes(eb), sc.coqLog(full), coqErrk(o.ErrKind))
}

// ---------------------------------------------------------------------------------------------------------------------
// generators

var alphabet = []byte("abcdefghijklmnopqrstuvwxyzABCDEFGHIJKLMNOPQRSTUVWXYZ0123456789 \t\r.,;:-_=+/\\\"'()[]{}<>!?#$%^&*|~")

func genLine(r *h.Run, n int) []byte {
	b := make([]byte, n)
	switch r.Rng.Intn(4) {
	case 0: // a few long runs (compact in the case files)
		i := 0
		for i < n {
			c := alphabet[r.Rng.Intn(len(alphabet))]
			l := 1 + r.Rng.Intn(n)
			for ; l > 0 && i < n; l-- {
				b[i] = c
				i++
			}
		}
	case 1: // arbitrary bytes except the separator, '@' and '`'
		for i := range b {
			c := byte(r.Rng.Intn(256))
			for c == '\n' || c == '@' || c == '`' {
				c = byte(r.Rng.Intn(256))
			}
			b[i] = c
		}
	default:
		for i := range b {
			b[i] = alphabet[r.Rng.Intn(len(alphabet))]
		}
	}
	return b
}

var lineLens = []int{0, 0, 1, 1, 2, 3, 7, 20, 79, 80, 200}
var bigLens = []int{4095, 4096, 4097, 8191, 8192, 8193, 32767, 32768, 32769, 65535, 65536, 65537, 100000}

// genText: a stream of lines; big = allow long lines / volume.
func genText(r *h.Run, maxBytes int, big bool) []byte {
	var out []byte
	nl := r.Rng.Intn(12)
	if r.Rng.Intn(6) == 0 {
		nl = 0
	}
	for i := 0; i < nl && len(out) < maxBytes; i++ {
		n := lineLens[r.Rng.Intn(len(lineLens))]
		if big && r.Rng.Intn(4) == 0 {
			n = bigLens[r.Rng.Intn(len(bigLens))]
			if r.Rng.Intn(2) == 0 {
				n = 1 + r.Rng.Intn(100000)
			}
		}
		if len(out)+n > maxBytes {
			n = maxBytes - len(out)
		}
		out = append(out, genLine(r, n)...)
		out = append(out, '\n')
	}
	switch r.Rng.Intn(3) {
	case 0: // unterminated last line
		if len(out) > 0 && out[len(out)-1] == '\n' {
			out = out[:len(out)-1]
		}
	case 1:
		out = append(out, genLine(r, 1+r.Rng.Intn(5))...)
	}
	return out
}

// cut splits b at k random offsets (biased towards positions next to a separator); withEmpty adds empty chunks.
func cut(r *h.Run, b []byte, k int, withEmpty bool) [][]byte {
	pos := map[int]bool{}
	var nls []int
	for i, c := range b {
		if c == '\n' {
			nls = append(nls, i)
		}
	}
	for i := 0; i < k && len(b) > 0; i++ {
		p := r.Rng.Intn(len(b) + 1)
		if len(nls) > 0 && r.Rng.Intn(3) == 0 {
			p = nls[r.Rng.Intn(len(nls))] + r.Rng.Intn(2)
		}
		pos[p] = true
	}
	var out [][]byte
	prev := 0
	for p := 0; p <= len(b); p++ {
		if pos[p] && (p > prev || withEmpty) {
			out = append(out, b[prev:p])
			prev = p
			if withEmpty && r.Rng.Intn(4) == 0 {
				out = append(out, nil)
			}
		}
	}
	if prev < len(b) || len(out) == 0 {
		out = append(out, b[prev:])
	}
	return out
}

func fixed(b []byte, size int) [][]byte {
	var out [][]byte
	for len(b) > size {
		out = append(out, b[:size])
		b = b[size:]
	}
	return append(out, b)
}

func adapterSc(stderr bool, chunks [][]byte) scenario {
	sc := scenario{Kind: "adapter", Stderr: stderr}
	for _, c := range chunks {
		sc.Chunks = append(sc.Chunks, toSegs(c))
	}
	return sc
}

func strs(ss ...string) [][]byte {
	out := make([][]byte, len(ss))
	for i, s := range ss {
		out[i] = []byte(s)
	}
	return out
}

func rep(c byte, n int) []byte { return []byte(strings.Repeat(string(c), n)) }

func deterministicAdapter() []scenario {
	var scs []scenario
	scs = append(scs, adapterSc(false, strs("ab", "c\n"))) // the witness of DESIGN.md (D16)
	scs = append(scs, adapterSc(true, strs("ab", "c\n")))
	for _, cs := range [][][]byte{
		nil, strs(""), strs("\n"), strs("\n\n\n"), strs("a"), strs("a", "", "\n"), strs("a\r", "\nb\r\n"), strs("", "", "x"),
		strs("a\n", "\n", "b"), strs("a", "\n", "\n", "b", "\n"), strs("line1\nline2\n"), strs("line1\nli", "ne2\nline3"), strs("x\n", "y\n", "z\n"),
		strs("\n", "a"), strs("a\n\n", "\nb"), strs("é\n", "\xff\x00\x7f\n"), strs("\xc3", "\xa9\n"),
	} {
		scs = append(scs, adapterSc(false, cs), adapterSc(true, cs))
	}
	// every single and double cut of two small texts; one byte per chunk
	for _, t := range []string{"a\n\nbc\nd", "ab\ncd\n"} {
		b := []byte(t)
		for i := 0; i <= len(b); i++ {
			scs = append(scs, adapterSc(i%2 == 1, [][]byte{b[:i], b[i:]}))
			for j := i; j <= len(b); j++ {
				scs = append(scs, adapterSc(j%2 == 1, [][]byte{b[:i], b[i:j], b[j:]}))
			}
		}
		scs = append(scs, adapterSc(false, fixed(b, 1)))
	}
	// long lines cut like the reads of a pipe
	long := append(append(rep('x', 100000), '\n'), rep('y', 70000)...)
	for _, size := range []int{8192, 32768, 65536, 99999} {
		scs = append(scs, adapterSc(false, fixed(long, size)), adapterSc(true, fixed(append(long, '\n'), size)))
	}
	return scs
}

func childSc(kind string, msgs bool, exit, signal int, ops ...op) scenario {
	return scenario{Kind: kind, Msgs: msgs, Exit: exit, Signal: signal, Ops: ops}
}

func w(s int, data string, pause int) op  { return op{S: s, D: toSegs([]byte(data)), Pause: pause} }
func wb(s int, data []byte, pause int) op { return op{S: s, D: toSegs(data), Pause: pause} }

func deterministicChildren(r *h.Run) []scenario {
	var scs []scenario
	// D16 on a real child: a line written in two steps; a line longer than one read of the pipe
	scs = append(scs, childSc("exec", true, 0, 0, w(1, "ab", 40), w(1, "c\n", 0)))
	scs = append(scs, childSc("exec", true, 0, 0, w(2, "ab", 40), w(2, "c\n", 0)))
	scs = append(scs, childSc("exec", true, 0, 0, wb(1, append(rep('x', 100000), '\n'), 0)))
	scs = append(scs, childSc("output", false, 0, 0, w(1, "ab", 40), w(1, "c\n", 0), w(2, "de", 40), w(2, "f\n", 0)))
	scs = append(scs, childSc("output", false, 0, 0, wb(2, append(rep('y', 100000), '\n'), 0)))
	// every exit status, with a line on each stream; the last line is unterminated for odd statuses
	for code := 0; code <= 255; code++ {
		tail := "\n"
		if code%2 == 1 {
			tail = ""
		}
		kind := "exec"
		if code%8 == 5 {
			kind = "output"
		}
		sc := childSc(kind, code%3 != 0, code, 0, w(1, fmt.Sprintf("out of %d\nlast out%s", code, tail), 0), w(2, fmt.Sprintf("\nerr of %d\n\nlast err%s", code, tail), 0))
		sc.Func = code%5 < 2
		scs = append(scs, sc)
	}
	// death by signal (unterminated last lines must still be delivered)
	for _, sig := range []int{1, 2, 3, 6, 9, 10, 13, 14, 15} {
		scs = append(scs, childSc("exec", true, 0, sig, w(1, "before signal\nout tail", 0), w(2, "err tail", 0)))
		scs = append(scs, childSc("output", false, 0, sig, w(2, "e1\n", 0), w(1, "o1\no2", 0)))
	}
	// nothing at all; only separators; default messages
	scs = append(scs, childSc("exec", true, 0, 0), childSc("exec", false, 0, 0), childSc("exec", false, 7, 0), childSc("output", false, 0, 0))
	scs = append(scs, childSc("exec", false, 0, 0, w(1, "\n\n\n", 0), w(2, "\n", 0)), childSc("exec", false, 1, 0, w(1, "x\n", 0), w(2, "y", 0)))
	// boundary line lengths around the buffer sizes of io.Copy and of the pipe, written in one piece
	for i, n := range []int{32767, 32768, 32769, 65535, 65536, 65537} {
		s := 1 + i%2
		scs = append(scs, childSc("exec", true, i%2, 0, wb(s, append(rep('a'+byte(i), n), '\n'), 0), wb(s, rep('z', n), 0)))
	}
	// volume: 10^6 bytes per stream, both streams at once (lines of 99 bytes + separator); and without separators at all
	var vol []byte
	for i := 0; i < 10000; i++ {
		vol = append(vol, rep('0'+byte(i%10), 99)...)
		vol = append(vol, '\n')
	}
	big := childSc("exec", true, 3, 0)
	for i := 0; i < 10; i++ {
		big.Ops = append(big.Ops, wb(1, vol[i*100000:(i+1)*100000], 0), wb(2, vol[i*100000+50:(i+1)*100000+50-100*(i/9)], 0))
	}
	scs = append(scs, big)
	scs = append(scs, childSc("output", false, 0, 0, wb(1, vol[:500000], 0), wb(2, vol[:300000], 0)))
	scs = append(scs, childSc("exec", true, 0, 0, wb(1, rep('q', 1000000), 0)))
	// lines with leading / trailing blanks, tabs, carriage returns: unmodified
	scs = append(scs, childSc("exec", true, 0, 0, w(1, "  padded \t\r\n\t\n \n", 0), w(2, " \r\n\r\n x ", 0)), childSc("output", false, 4, 0, w(1, " a \n  \n", 0), w(2, "\tb\t", 0)))
	// environment
	env := scenario{Kind: "exec", Msgs: true, Env: []string{"C18_VAR=value with spaces", "C18_OTHER=x=y"}, Ops: []op{{S: 1, Env: "C18_VAR"}, {S: 2, Env: "C18_OTHER"}, {S: 1, Env: "C18_UNSET"}}}
	scs = append(scs, env)
	env.Kind = "output"
	scs = append(scs, env)
	env.Func = true
	scs = append(scs, env)
	env.Kind = "exec"
	scs = append(scs, env)
	// plain shell children
	scs = append(scs,
		scenario{Kind: "exec", Msgs: true, Sh: `printf ab; sleep 0.05; printf 'c\n'`, ShOut: toSegs([]byte("abc\n"))},
		scenario{Kind: "exec", Msgs: true, Sh: `head -c 100000 /dev/zero | tr '\0' x; echo`, ShOut: toSegs(append(rep('x', 100000), '\n'))},
		scenario{Kind: "exec", Msgs: true, Exit: 3, Sh: `echo out; echo err >&2; exit 3`, ShOut: toSegs([]byte("out\n")), ShErr: toSegs([]byte("err\n"))},
		scenario{Kind: "output", Sh: `dd if=/dev/zero bs=1000 count=100 2>/dev/null | tr '\0' y >&2; printf 'a\n\nb'`, ShOut: toSegs([]byte("a\n\nb")), ShErr: toSegs(rep('y', 100000))},
		scenario{Kind: "exec", Msgs: false, Exit: 127, Sh: `c18-no-such-command-in-sh 2>/dev/null`},
	)
	// commands which cannot be started
	scs = append(scs, scenario{Kind: "exec", Msgs: true, NotFound: "/nonexistent/c18-binary"}, scenario{Kind: "exec", Msgs: false, NotFound: "c18-no-such-command-xyz"},
		scenario{Kind: "output", NotFound: "c18-no-such-command-xyz"})
	// interrupted runs: the child has written its lines and hangs
	for i, how := range []string{"ctx", "deadline", "method", "pre", "ctx", "method"} {
		sc := childSc("exec", i != 4, 0, 0, w(1, "a\nb\n", 0), w(2, "e\n", 0))
		if i >= 3 {
			sc.Ops = []op{w(1, "a\nunterminated", 0), w(2, "e-unterminated", 0)}
		}
		sc.Cancel = how
		scs = append(scs, sc)
		if i < 4 && how != "method" {
			sc.Func = true
			scs = append(scs, sc)
		}
	}
	return scs
}

// slowLoggers: loggers of different speeds x bursts smaller / larger than one read of the pipe x exit status 0 / non-zero.
// The child writes its burst at once and exits; most of the output is consumed after it has gone.
func slowLoggers(r *h.Run) []scenario {
	burst := func(n int, tag byte) []byte {
		var b []byte
		for i := 0; i < n; i++ {
			b = append(b, []byte(fmt.Sprintf("%c%06d ", tag, i))...)
			b = append(b, rep('a'+byte(i%26), 31)...)
			b = append(b, '\n')
		}
		return b
	}
	type speed struct{ delayUs, stallAt, stallMs int }
	var scs []scenario
	i := 0
	for _, lines := range []int{120, r.N(2500, 12000)} { // 4.8 kB: one read; >= 100 kB: several reads of 32 KiB, more than the pipe holds
		for _, sp := range []speed{{0, 0, 0}, {200, 0, 0}, {1000, 0, 0}, {0, lines / 2, 1500}, {0, lines / 3, 3000}} {
			for _, exit := range []int{0, 3} {
				kind := "exec"
				if i%5 == 4 {
					kind = "output"
				}
				sc := childSc(kind, i%3 != 0, exit, 0, wb(1, burst(lines, 'o'), 0))
				if i%2 == 1 { // also on the error stream, unterminated last line
					e := burst(lines/2, 'e')
					sc.Ops = append(sc.Ops, wb(2, e[:len(e)-1], 0))
				}
				sc.LogDelayUs, sc.StallAt, sc.StallMs = sp.delayUs, sp.stallAt, sp.stallMs
				sc.Func = i%4 < 2
				scs = append(scs, sc)
				i++
			}
		}
	}
	return scs
}

// everyEntryPoint: each public entry point with custom (distinct, unique) messages and with the default ones, for exit
// status 0 and non-zero, the ...As... ones through both command translators.
func everyEntryPoint() []scenario {
	var scs []scenario
	names := append(append(entryNames("exec"), entryNames("output")...), "ExecuteWithSudo")
	for _, name := range names {
		e := entryPoints[name]
		if name == "ExecuteWithSudo" && sudoState == "broken" {
			continue
		}
		translators := []string{""}
		if e.as {
			translators = []string{"", "env"}
		}
		for _, as := range translators {
			for _, exit := range []int{0, 3} {
				for _, msgs := range []bool{true, false} {
					if e.kind == "output" && !msgs {
						continue
					}
					sc := childSc(e.kind, msgs && e.kind == "exec", exit, 0, w(1, "out of "+name+"\nunterminated", 0), w(2, "err of "+name+"\n", 0))
					sc.Entry, sc.As = name, as
					if e.env {
						sc.Env = []string{"C18_VAR=through " + name}
						sc.Ops = append(sc.Ops, op{S: 1, Env: "C18_VAR"})
					}
					scs = append(scs, sc)
				}
			}
		}
	}
	return scs
}

func slow(sc scenario) bool { return sc.LogDelayUs > 0 || sc.StallMs > 0 }

func randomAdapter(r *h.Run) scenario {
	big := r.Rng.Intn(8) == 0
	max := 2000
	if big {
		max = 300000
	}
	text := genText(r, max, big)
	var chunks [][]byte
	switch r.Rng.Intn(5) {
	case 0:
		chunks = [][]byte{text}
	case 1:
		chunks = fixed(text, []int{1, 2, 3, 7, 64, 4096, 8192, 32768}[r.Rng.Intn(8)])
		if len(chunks) > 600 {
			chunks = cut(r, text, 40, false)
		}
	default:
		chunks = cut(r, text, 1+r.Rng.Intn(12), true)
	}
	return adapterSc(r.Rng.Intn(2) == 0, chunks)
}

func randomChild(r *h.Run) scenario {
	sc := scenario{Kind: "exec", Msgs: r.Rng.Intn(5) != 0}
	if r.Rng.Intn(4) == 0 {
		sc.Kind = "output"
	}
	big := r.Rng.Intn(6) == 0
	max := 3000
	if big {
		max = 250000
	}
	streams := [][]byte{genText(r, max, big), genText(r, max, big)}
	if r.Rng.Intn(5) == 0 {
		streams[r.Rng.Intn(2)] = nil
	}
	var parts [2][][]byte
	for s := 0; s < 2; s++ {
		parts[s] = cut(r, streams[s], r.Rng.Intn(6), false)
	}
	// interleave the writes of the two streams, order kept within each
	pauses := r.Rng.Intn(2) == 0
	budget := 60 // ms of pauses per scenario
	for len(parts[0]) > 0 || len(parts[1]) > 0 {
		s := r.Rng.Intn(2)
		if len(parts[s]) == 0 {
			s = 1 - s
		}
		o := op{S: s + 1, D: toSegs(parts[s][0])}
		parts[s] = parts[s][1:]
		if len(segsBytes(o.D)) == 0 {
			continue
		}
		if pauses && budget > 0 && r.Rng.Intn(2) == 0 {
			o.Pause = 1 + r.Rng.Intn(15)
			budget -= o.Pause
		}
		sc.Ops = append(sc.Ops, o)
	}
	if r.Rng.Intn(4) == 0 {
		sc.Env = []string{fmt.Sprintf("C18_VAR=v%d", r.Rng.Intn(1000))}
		sc.Ops = append(sc.Ops, op{S: 1 + r.Rng.Intn(2), Env: "C18_VAR"})
	}
	sc.Func = r.Rng.Intn(2) == 0
	switch x := r.Rng.Intn(10); {
	case x < 4:
	case x < 9:
		sc.Exit = 1 + r.Rng.Intn(255)
	default:
		sc.Signal = []int{1, 2, 9, 15, 10, 14}[r.Rng.Intn(6)]
	}
	// some children are interrupted while they are still running (they hang after their writes)
	if sc.Kind == "exec" && sc.Exit == 0 && sc.Signal == 0 && r.Rng.Intn(10) == 0 {
		sc.Cancel = []string{"ctx", "method", "deadline"}[r.Rng.Intn(3)]
	}
	return sc
}

// ---------------------------------------------------------------------------------------------------------------------

// ---------------------------------------------------------------------------------------------------------------------
// reuse histories: one Subprocess object, several runs back to back; the property holds PER RUN

// runScenario: run i of a history as an ordinary scenario (what the usual oracle and the Coq case are evaluated on).
func (sc scenario) runScenario(i int, id string) scenario {
	return scenario{Kind: "exec", Msgs: sc.Msgs, ID: id, Entry: "New", Ops: sc.Runs[i].Ops, Exit: sc.Runs[i].Exit}
}

type runResult struct {
	sc scenario
	o  observation
	vs []verdict
}

func runReuse(sc scenario) []runResult {
	r := &rec{}
	script := tmpName("script")
	ready := tmpName("ready")
	write := func(rs runSpec) {
		cs := childScript{Ops: rs.Ops, Exit: rs.Exit}
		if rs.Step == "startstop" {
			cs.Ready, cs.HangMs = ready, 20000
		}
		bs, _ := json.Marshal(cs)
		_ = os.WriteFile(script, bs, 0o600)
		_ = os.Remove(ready)
	}
	msgs := func(id string) (string, string, string) {
		if !sc.Msgs {
			return "", "", ""
		}
		x := scenario{ID: id}
		return x.mStart(), x.mOK(), x.mFail()
	}
	ctx := context.Background()
	id := sc.ID + "-r0"
	var p *subprocess.Subprocess
	var out []runResult
	for i, rs := range sc.Runs {
		write(rs)
		var err error
		if i == 0 {
			a, b, c := msgs(id)
			p, err = subprocess.New(ctx, r, a, b, c, selfPath, "c18-child", script)
		} else if rs.Setup {
			id = fmt.Sprintf("%s-r%d", sc.ID, i)
			a, b, c := msgs(id)
			err = p.Setup(ctx, r, a, b, c, selfPath, "c18-child", script)
		}
		rsc := sc.runScenario(i, id)
		var o observation
		mark := len(r.snapshot())
		if err != nil {
			o.ErrKind, o.ErrText = "setup:"+errKind(err), err.Error()
			out = append(out, runResult{sc: rsc, o: o, vs: []verdict{{"setup-failed", "the subprocess could not be set up: " + err.Error()}}})
			return out
		}
		res := runResult{sc: rsc}
		if rs.Step == "startstop" {
			err = p.Start()
			okReady := err == nil && waitFor(ready, 15*time.Second)
			time.Sleep(150 * time.Millisecond) // let the copying goroutines deliver what is in the pipes
			stopErr := p.Stop()
			o.Log = r.snapshot()[mark:]
			o.ErrKind = errKind(err)
			// only the lines are judged here (the property is about Execute / Output)
			if err != nil || stopErr != nil {
				res.vs = append(res.vs, verdict{"start-stop-error", fmt.Sprintf("Start / Stop returned an error: %v / %v", err, stopErr)})
			} else if okReady {
				var gotOut, gotErr []string
				for _, e := range o.Log {
					if rsc.isFramework(e) || strings.HasPrefix(e.Msg, "Started process [") || strings.HasPrefix(e.Msg, "Stopping process [") {
						continue
					}
					if e.Ch == "o" {
						gotOut = append(gotOut, e.Msg)
					} else {
						gotErr = append(gotErr, e.Msg)
					}
				}
				wo, we := rsc.expectedBytes()
				if v := compareLines("stdout", gotOut, nonEmptyLines(wo)); v != nil {
					res.vs = append(res.vs, *v)
				}
				if v := compareLines("stderr", gotErr, nonEmptyLines(we)); v != nil {
					res.vs = append(res.vs, *v)
				}
			}
			res.sc.Kind = "startstop" // no Coq case
		} else {
			err = p.Execute()
			o.ErrKind = errKind(err)
			if err != nil {
				o.ErrText = err.Error()
			}
			o.Log = r.snapshot()[mark:]
			if i == len(sc.Runs)-1 {
				time.Sleep(settleDelay)
				if all := r.snapshot(); len(all) > mark+len(o.Log) {
					o.Late = all[mark+len(o.Log):]
				}
			}
			res.vs = oracleChild(rsc, o)
		}
		res.o = o
		out = append(out, res)
	}
	return out
}

func failed(rr []runResult) bool {
	for _, x := range rr {
		if len(x.vs) > 0 {
			return true
		}
	}
	return false
}

func ex(exit int, text string) runSpec {
	return runSpec{Step: "execute", Exit: exit, Ops: []op{w(1, text+" out\n"+text+" unterminated", 0), w(2, text+" err\n", 0)}}
}

func ss(text string) runSpec {
	return runSpec{Step: "startstop", Ops: []op{w(1, text+" out\n", 0), w(2, text+" err", 0)}}
}

func reuseHistories(r *h.Run) []scenario {
	mk := func(msgs bool, runs ...runSpec) scenario {
		for i := range runs { // the child output is unique to the run
			for j := range runs[i].Ops {
				runs[i].Ops[j].D = append([]seg{{T: fmt.Sprintf("[run %d] ", i)}}, runs[i].Ops[j].D...)
			}
		}
		return scenario{Kind: "reuse", Msgs: msgs, Runs: runs}
	}
	setup := func(rs runSpec) runSpec { rs.Setup = true; return rs }
	scs := []scenario{
		mk(true, ex(0, "a"), ex(0, "b")),
		mk(true, ex(0, "a"), ex(0, "b"), ex(0, "c"), ex(0, "d"), ex(0, "e"), ex(0, "f")),
		mk(false, ex(0, "a"), ex(0, "b"), ex(0, "c"), ex(0, "d")),
		mk(true, ex(0, "a"), ex(3, "fails"), ex(0, "c"), ex(0, "d")),
		mk(true, ex(0, "a"), setup(ex(0, "b")), ex(0, "c"), setup(ex(2, "fails")), ex(0, "e")),
		mk(true, ss("s1"), ex(0, "b"), ss("s2"), ex(0, "d"), ex(0, "e")),
		mk(true, ex(0, "a"), ss("s1"), ss("s2"), ex(0, "d")),
	}
	for n := 0; n < r.N(8, 60); n++ {
		var runs []runSpec
		for i, k := 0, 2+r.Rng.Intn(5); i < k; i++ {
			var rs runSpec
			switch x := r.Rng.Intn(10); {
			case x < 6:
				rs = ex(0, fmt.Sprintf("h%d", n))
			case x < 8:
				rs = ex(1+r.Rng.Intn(255), fmt.Sprintf("h%d fails", n))
			default:
				rs = ss(fmt.Sprintf("h%d", n))
			}
			if i > 0 && r.Rng.Intn(5) == 0 {
				rs.Setup = true
			}
			runs = append(runs, rs)
		}
		scs = append(scs, mk(r.Rng.Intn(4) != 0, runs...))
	}
	return scs
}

// judgeReuse runs a history; a failing history is run again (the windows are timing dependent, both ways): it is
// reported when at least 2 of up to 5 attempts fail.
func judgeReuse(sc scenario) (last []runResult, failing int, attempts int) {
	for attempts < 5 {
		attempts++
		rr := runReuse(sc)
		if failed(rr) {
			failing++
			last = rr
		} else if last == nil {
			last = rr
		}
		if attempts == 1 && failing == 0 {
			break // nothing seen: one attempt is all a passing history gets
		}
		if failing >= 2 {
			break
		}
	}
	if failing < 2 && failed(last) {
		last = nil // a single failing attempt out of 5: not reported (noted by the caller)
	}
	return
}

func key(sc scenario) string {
	sc.ID = ""
	bs, _ := json.Marshal(sc)
	return fmt.Sprintf("%x", sha256.Sum256(bs))[:16]
}

func execute(sc scenario, attempt int) (observation, []verdict) {
	if sc.Kind == "adapter" {
		o := runAdapter(sc)
		return o, oracleAdapter(sc, o)
	}
	o := runChild(sc, attempt)
	if attempt > 0 { // isolated re-run: settle here (first attempts settle together, see main)
		time.Sleep(settleDelay)
		o.collectLate()
		return o, oracleChild(sc, o)
	}
	return o, nil // judged by main after the common settle delay
}

type result struct {
	o  observation
	vs []verdict
}

func timingDependent(sc scenario) bool { return sc.Cancel != "" && sc.Cancel != "pre" }

func main() {
	if len(os.Args) >= 3 && os.Args[1] == "c18-child" {
		childMain(os.Args[2])
		return
	}
	r := h.Init("C18")
	r.ShardSize = 110                                   // the case files are evaluated in parallel: the few large cases are spread over ~8 files
	r.Imports = []string{"GU.C18.Model", "GU.C18.Inst"} // Inst: check_case of the model instantiated with the generated facts
	var err error
	selfPath, err = os.Executable()
	if err != nil {
		fmt.Fprintln(os.Stderr, "cannot find own executable:", err)
		os.Exit(2)
	}
	scratch, err = os.MkdirTemp("", "verif-c18-*")
	if err != nil {
		fmt.Fprintln(os.Stderr, err)
		os.Exit(2)
	}
	defer os.RemoveAll(scratch)
	if _, err := exec.LookPath("sudo"); err != nil {
		sudoState = "absent"
	} else if exec.Command("sudo", "-n", "true").Run() == nil {
		sudoState = "works"
	} else {
		sudoState = "broken"
	}
	r.Rule("a scenario counts as distinct and non-trivial when its content (chunk list, or the child's write script with streams, cuts, pauses, ending, environment, entry point) differs from every other scenario of the run and it makes the child / the chunks carry at least one byte or end other than by exit status 0")

	var scs []scenario
	var one scenario
	var reuse []scenario
	if _, ok := r.ReplayObject(&one); ok {
		if one.Kind == "reuse" {
			reuse = []scenario{one}
		} else {
			scs = []scenario{one}
		}
	} else {
		reuse = reuseHistories(r)
		scs = append(scs, deterministicAdapter()...)
		scs = append(scs, deterministicChildren(r)...)
		scs = append(scs, slowLoggers(r)...)
		scs = append(scs, everyEntryPoint()...)
		for i := 0; i < r.N(300, 3000); i++ {
			scs = append(scs, randomAdapter(r))
		}
		for i := 0; i < r.N(160, 1500); i++ {
			scs = append(scs, randomChild(r))
		}
	}

	// the reuse histories run beside everything else, each in its own goroutine
	type reuseOut struct {
		rr                []runResult
		failing, attempts int
	}
	reuseRes := make([]reuseOut, len(reuse))
	var rwg sync.WaitGroup
	for i := range reuse {
		if reuse[i].ID == "" {
			reuse[i].ID = fmt.Sprintf("%d-h%d", r.Seed, i)
		}
		rwg.Add(1)
		go func(i int) {
			defer rwg.Done()
			rr, f, a := judgeReuse(reuse[i])
			reuseRes[i] = reuseOut{rr, f, a}
		}(i)
	}
	for i := range scs {
		if scs[i].Kind == "adapter" {
			continue
		}
		if scs[i].ID == "" {
			scs[i].ID = fmt.Sprintf("%d-%d", r.Seed, i)
		}
		if scs[i].Entry == "" && r.ReplayF == "" {
			scs[i].pickEntry(i) // spread all other scenarios over the entry points able to run them
		}
	}
	if r.ReplayF == "" {
		checkEntryPoints(r)
	}

	// run: adapter cases inline, children on a small pool (results are kept by index: the run is deterministic in -seed)
	results := make([]result, len(scs))
	var wg sync.WaitGroup
	sem := make(chan struct{}, 6)
	for i := range scs {
		if scs[i].Kind == "adapter" {
			o, vs := execute(scs[i], 0)
			results[i] = result{o, vs}
			continue
		}
		wg.Add(1)
		if slow(scs[i]) { // mostly sleeping: all of them at once, beside the pool
			go func(i int) {
				defer wg.Done()
				o, vs := execute(scs[i], 0)
				results[i] = result{o, vs}
			}(i)
			continue
		}
		sem <- struct{}{}
		go func(i int) {
			defer wg.Done()
			defer func() { <-sem }()
			o, vs := execute(scs[i], 0)
			results[i] = result{o, vs}
		}(i)
	}
	wg.Wait()
	// every run has returned: wait once for all of them, look at the recording loggers again, then judge
	time.Sleep(settleDelay)
	for i := range scs {
		if scs[i].Kind != "adapter" {
			results[i].o.collectLate()
			results[i].vs = oracleChild(scs[i], results[i].o)
		}
	}
	// a failure of a run which depends on timing (interrupting a child) is confirmed in isolation, with longer waits
	reruns := 0 // bounded: when the code is broken for every run, confirming a dozen of them is enough
	for i := range scs {
		if len(results[i].vs) > 0 && timingDependent(scs[i]) && reruns < 12 {
			reruns++
			for attempt := 1; attempt <= 2 && len(results[i].vs) > 0; attempt++ {
				r.Count("timing-dependent failure re-run")
				o, vs := execute(scs[i], attempt)
				results[i] = result{o, vs}
			}
		}
	}

	emittedChars := 0
	for i, sc := range scs {
		res := results[i]
		r.Eval()
		r.Count("kind:" + sc.Kind)
		nbytes := 0
		if sc.Kind == "adapter" {
			for _, c := range sc.Chunks {
				nbytes += len(segsBytes(c))
			}
			r.Count(fmt.Sprintf("adapter chunks:%s", bucket(len(sc.Chunks))))
		} else {
			ob, eb := sc.expectedBytes()
			nbytes = len(ob) + len(eb)
			switch {
			case sc.Cancel != "":
				r.Count("ending:interrupted-" + sc.Cancel)
			case sc.NotFound != "":
				r.Count("ending:cannot-start")
			case sc.Signal > 0:
				r.Count(fmt.Sprintf("ending:signal-%d", sc.Signal))
			case sc.Exit == 0:
				r.Count("ending:exit-0")
			default:
				r.Count("ending:exit-nonzero")
			}
			if len(sc.Env) > 0 {
				r.Count("with extra environment")
			}
			switch {
			case sc.StallMs > 0:
				r.Count(fmt.Sprintf("logger: stalls %d ms", sc.StallMs))
			case sc.LogDelayUs > 0:
				r.Count(fmt.Sprintf("logger: %d us per message", sc.LogDelayUs))
			default:
				r.Count("logger: instant")
			}
			r.Count("entry:" + sc.entry())
			if sc.As != "" {
				r.Count("command translator:" + sc.As)
			}
			if !sc.Msgs && sc.Kind == "exec" {
				r.Count("default messages")
			}
			for _, o := range sc.Ops {
				if o.Pause > 0 {
					r.Count("writes followed by a pause")
				}
			}
			r.CountN("child writes", len(sc.Ops))
			if len(ob) > 0 && len(eb) > 0 {
				r.Count("both streams")
			}
			r.Count("result:" + res.o.ErrKind)
		}
		r.Count("bytes:" + bucket(nbytes))
		if nbytes > 0 || !sc.expectSuccess() {
			r.Distinct(key(sc))
		}
		if i%97 == 0 {
			r.Sample(map[string]any{"scenario": sc, "error": res.o.ErrKind, "messages": len(res.o.Log)})
		}
		for _, v := range res.vs {
			r.Fail(v.sig, v.what, sc)
		}
		// correspondence case (bounded size: the model is evaluated inside Coq and a long literal list overflows coqc's
		// stack; long runs of one byte are written `rep c n` and stay small)
		if strings.HasPrefix(res.o.ErrKind, "setup:") {
			continue
		}
		term := ""
		if nbytes <= 400000 {
			term = sc.coqCase(res.o)
		}
		if term != "" && len(term) <= 60000 && emittedChars+len(term) <= 5000000 {
			emittedChars += len(term)
			r.Case(term, map[string]any{"scenario": sc, "error": res.o.ErrKind})
		} else {
			r.Count("too large for a Coq case (oracle only)")
		}
	}
	rwg.Wait()
	for i, sc := range reuse {
		res := reuseRes[i]
		r.Count("kind:reuse history")
		r.Count(fmt.Sprintf("reuse history of %d runs", len(sc.Runs)))
		r.Distinct(key(sc))
		if res.failing == 1 && res.attempts > 1 {
			r.Count("reuse history: 1 failing attempt of 5 (not reported)")
		}
		for k, x := range res.rr {
			r.Eval()
			r.Count("reuse step:" + sc.Runs[k].Step)
			for _, v := range x.vs {
				r.Fail("reuse:"+v.sig, fmt.Sprintf("run %d of %d on the same Subprocess object (%d of %d attempts of this history failed): %s", k+1, len(sc.Runs), res.failing, res.attempts, v.what), sc)
			}
			if x.sc.Kind == "exec" && !strings.HasPrefix(x.o.ErrKind, "setup:") {
				r.Case(x.sc.coqCase(x.o), map[string]any{"scenario": sc, "run": k, "error": x.o.ErrKind})
			}
		}
	}
	r.Note("children are this binary re-executed with a write script (one write(2) per op, optional pauses); death by signal through `sh -c '...; kill -N $$'`; interrupted children have written everything and hang before the run is cancelled (re-run up to 3 times with longer waits before a failure is reported)")
	r.Finish()
}

func bucket(n int) string {
	switch {
	case n == 0:
		return "0"
	case n <= 10:
		return "1-10"
	case n <= 100:
		return "11-100"
	case n <= 1000:
		return "101-1e3"
	case n <= 10000:
		return "1e3-1e4"
	case n <= 100000:
		return "1e4-1e5"
	default:
		return ">1e5"
	}
}
