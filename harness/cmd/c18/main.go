package main

import (
	"context"
	"errors"
	"fmt"
	"os"
	"strings"
	"sync"
	"time"

	"github.com/ARM-software/golang-utils/utils/commonerrors"
	"github.com/ARM-software/golang-utils/utils/subprocess"
)

type rec struct {
	mu   sync.Mutex
	msgs [][2]string
}

func (r *rec) Close() error                  { return nil }
func (r *rec) Check() error                  { return nil }
func (r *rec) SetLogSource(string) error     { return nil }
func (r *rec) SetLoggerSource(string) error  { return nil }
func (r *rec) Log(a ...interface{})          { r.add("o", a) }
func (r *rec) LogError(a ...interface{})     { r.add("e", a) }
func (r *rec) add(s string, a []interface{}) {
	r.mu.Lock()
	defer r.mu.Unlock()
	r.msgs = append(r.msgs, [2]string{s, strings.TrimSuffix(fmt.Sprintln(a...), "\n")})
}

func show(r *rec) {
	for _, m := range r.msgs {
		s := m[1]
		if len(s) > 60 {
			s = fmt.Sprintf("%s...(%d)", s[:20], len(s))
		}
		fmt.Printf("   %s %q\n", m[0], s)
	}
}

func run(name string, ctx context.Context, script string) {
	r := &rec{}
	err := subprocess.Execute(ctx, r, "START", "OK", "FAIL", "sh", "-c", script)
	fmt.Printf("== %s: err=%v (%T) cancelled=%v timeout=%v procdone=%v\n", name, err, err, commonerrors.Any(err, commonerrors.ErrCancelled), commonerrors.Any(err, commonerrors.ErrTimeout), errors.Is(err, os.ErrProcessDone))
	show(r)
}

func main() {
	ctx := context.Background()
	run("split", ctx, "printf ab; sleep 0.2; printf 'c\\n'")
	run("long", ctx, "head -c 100000 /dev/zero | tr '\\0' x; echo")
	run("crlf", ctx, "printf 'a\\r\\nb\\r\\n'")
	run("nonl", ctx, "printf 'a\\nb'")
	run("exit3", ctx, "echo x; echo y >&2; exit 3")
	run("kill9", ctx, "echo x; kill -9 $$")
	run("kill15", ctx, "echo x; kill -15 $$")
	run("kill2", ctx, "echo x; kill -2 $$")
	run("127", ctx, "nonexistentcmd")
	c2, cancel := context.WithCancel(ctx)
	go func() { time.Sleep(300 * time.Millisecond); cancel() }()
	t := time.Now()
	run("cancel", c2, "echo x; sleep 5; echo y")
	fmt.Println(time.Since(t))
	c3, cancel3 := context.WithTimeout(ctx, 300*time.Millisecond)
	defer cancel3()
	t = time.Now()
	run("timeout", c3, "echo x; exec sleep 5")
	fmt.Println(time.Since(t))
	c4, cancel4 := context.WithCancel(ctx)
	cancel4()
	run("precancel", c4, "echo x")
	r := &rec{}
	out, err := subprocess.Output(ctx, r, "sh", "-c", "echo a; echo b >&2; printf c")
	fmt.Printf("output %q %v\n", out, err)
	show(r)
	r = &rec{}
	err = subprocess.Execute(ctx, r, "", "", "", "/nonexistent/bin")
	fmt.Printf("nobin %v\n", err)
	show(r)
}
