package main

// Seeded generator of archive specifications and limits, and the deterministic corpus that runs first.

import (
	"fmt"
	"math"

	"verif/harness/internal/h"
)

var (
	zipLikeExts  = []string{".zip", ".zip", ".zip", ".ZIP", ".jar", ".gz", ".tar.gz", ".7z"}
	plainExts    = []string{".txt", ".txt", ".bin", ".dat", ".zipp", ".c"}
	hugeFile     = []int64{1 << 40, math.MaxInt64}
	hugeTotal    = []uint64{1 << 50, math.MaxUint64}
	hugeCount    = []int64{1 << 20, math.MaxInt64}
	dirNames     = []string{"d0", "d1", "d2"}
	nestingTable = []int{0, 0, 0, 0, 0, 0, 1, 1, 1, 1, 2, 2, 2, 3, 3, 4, 5, 6}
)

func u64(v uint64) *uint64 { return &v }

type genCtx struct {
	r         *h.Run
	serial    int
	tightFile bool // choose the per-file limit just above the archive's own size (below the entry that hides behind a wrapped size)
}

func (g *genCtx) dirPath() string {
	k := 0
	switch x := g.r.Rng.Intn(20); {
	case x < 8:
		k = 0
	case x < 14:
		k = 1
	case x < 17:
		k = 2
	case x < 19:
		k = 3
	default:
		k = 4
	}
	p := ""
	for i := 0; i < k; i++ {
		p += dirNames[g.r.Rng.Intn(len(dirNames))] + "/"
	}
	return p
}

func (g *genCtx) dataLen() int {
	switch x := g.r.Rng.Intn(20); {
	case x == 0:
		return 0
	case x == 1:
		return 1
	case x < 14:
		return 2 + g.r.Rng.Intn(120)
	case x < 18:
		return 200 + g.r.Rng.Intn(800)
	default:
		return 1500 + g.r.Rng.Intn(1500)
	}
}

// archive generates an archive with `nesting` further levels below it.
func (g *genCtx) archive(nesting int, top bool) archiveSpec {
	rng := g.r.Rng
	var a archiveSpec
	n := rng.Intn(9)
	if top && rng.Intn(5) == 0 {
		n = 8 + rng.Intn(5)
	}
	if !top {
		n = rng.Intn(4)
	}
	nz := 0
	if nesting > 0 {
		nz = 1
		if x := rng.Intn(10); x >= 8 {
			nz = 3
		} else if x >= 5 {
			nz = 2
		}
		if nesting >= 4 && nz > 2 {
			nz = 2
		}
	}
	kinds := make([]int, 0, n+nz) // 0 file, 1 dir, 2 nested archive
	for i := 0; i < n; i++ {
		if rng.Intn(5) == 0 {
			kinds = append(kinds, 1)
		} else {
			kinds = append(kinds, 0)
		}
	}
	for i := 0; i < nz; i++ {
		kinds = append(kinds, 2)
	}
	rng.Shuffle(len(kinds), func(i, j int) { kinds[i], kinds[j] = kinds[j], kinds[i] })
	for _, k := range kinds {
		g.serial++
		dir := g.dirPath()
		switch k {
		case 1:
			if dir == "" {
				dir = dirNames[rng.Intn(len(dirNames))] + "/"
			}
			a.Entries = append(a.Entries, entrySpec{Name: fmt.Sprintf("%se%d/", dir, g.serial), Dir: true})
		case 0:
			e := entrySpec{Len: g.dataLen(), Random: rng.Intn(4) == 0}
			if rng.Intn(5) < 3 {
				e.Method = 8
			}
			ext := plainExts[rng.Intn(len(plainExts))]
			switch x := rng.Intn(20); {
			case x < 3: // a non-zip carrying a zip extension
				ext = zipLikeExts[rng.Intn(len(zipLikeExts))]
			case x == 3: // looks like a zip to the sniffer, is none
				e.FakeZip = true
				if rng.Intn(4) > 0 {
					ext = zipLikeExts[rng.Intn(len(zipLikeExts))]
				}
			}
			e.Name = fmt.Sprintf("%sf%d%s", dir, g.serial, ext)
			a.Entries = append(a.Entries, e)
		case 2:
			sub := g.archive(nesting-1, false)
			if rng.Intn(40) == 0 {
				sub.Garbage = true
			}
			e := entrySpec{Nested: &sub}
			if rng.Intn(2) == 0 {
				e.Method = 8
			}
			ext := zipLikeExts[rng.Intn(len(zipLikeExts))]
			if rng.Intn(8) == 0 {
				ext = plainExts[rng.Intn(len(plainExts))] // a zip without a zip name
			}
			e.Name = fmt.Sprintf("%sf%d%s", dir, g.serial, ext)
			a.Entries = append(a.Entries, e)
		}
	}
	return a
}

// collect the file entries of the whole specification tree
func fileEntries(a *archiveSpec, out []*entrySpec) []*entrySpec {
	for i := range a.Entries {
		e := &a.Entries[i]
		if e.Dir {
			continue
		}
		out = append(out, e)
		if e.Nested != nil {
			out = fileEntries(e.Nested, out)
		}
	}
	return out
}

// addLie makes the header of one entry contradict its stream
func (g *genCtx) addLie(a *archiveSpec) string {
	rng := g.r.Rng
	fes := fileEntries(a, nil)
	if len(fes) == 0 {
		return ""
	}
	e := fes[rng.Intn(len(fes))]
	tmp := archiveSpec{Entries: []entrySpec{*e}}
	actual := uint64(build(&tmp).entries[0].actual)
	switch x := rng.Intn(12); {
	case x < 3 && actual > 0: // stream longer than declared
		ds := []uint64{0, actual - 1, actual / 2, 1}
		d := ds[rng.Intn(len(ds))]
		if d >= actual {
			d = actual - 1
		}
		e.Declared = u64(d)
		return "declared-smaller"
	case x < 6: // stream shorter than declared
		ds := []uint64{actual + 1, 2*actual + 10, 1 << 40, 1<<32 + 5}
		e.Declared = u64(ds[rng.Intn(len(ds))])
		return "declared-larger"
	case x < 8: // sizes that wrap negative as int64
		ds := []uint64{1 << 63, math.MaxUint64, 1<<63 + actual}
		e.Declared = u64(ds[rng.Intn(len(ds))])
		if e.Nested == nil && !e.FakeZip && rng.Intn(3) > 0 {
			// a bomb behind the wrapped size: much more data than the per-file limit will allow, in an archive that is smaller than it
			e.Len, e.Random, e.Method = 3000+rng.Intn(40000), false, 8
			g.tightFile = true
		}
		return "declared-2^63"
	case x < 10:
		e.BadCRC = true
		return "bad-crc"
	case x == 10:
		e.Method = 99
		return "unsupported-method"
	default:
		if actual > 8 {
			e.Method = 8
			e.Corrupt = true
			return "damaged-stream"
		}
		e.BadCRC = true
		return "bad-crc"
	}
}

func pick(rng interface{ Intn(int) int }, xs []int64, def int64) int64 {
	if len(xs) == 0 {
		return def
	}
	return xs[rng.Intn(len(xs))]
}

func (g *genCtx) limits(a *archiveSpec) limitsSpec {
	rng := g.r.Rng
	l := limitsSpec{Recursive: rng.Intn(3) > 0}
	fp := footprintOf(build(a), l.Recursive)
	jitter := func() int64 { return int64(rng.Intn(3)) - 1 }
	tightDims := 0
	switch x := rng.Intn(10); {
	case x < 3:
		tightDims = 0
	case x < 8:
		tightDims = 1
	default:
		tightDims = 2
	}
	tight := map[int]bool{}
	for len(tight) < tightDims {
		tight[rng.Intn(4)] = true
	}
	// per-file size
	l.MaxFile = hugeFile[rng.Intn(2)]
	if tight[0] {
		switch x := rng.Intn(10); {
		case x == 0:
			l.MaxFile = int64(rng.Intn(2))
		case x < 5:
			l.MaxFile = pick(rng, fp.ArchSizes, 22) + jitter()
		default:
			l.MaxFile = pick(rng, fp.Sizes, 0) + jitter()
			if rng.Intn(2) == 0 {
				l.MaxFile = fp.MaxFile + jitter()
			}
		}
	}
	if g.tightFile {
		l.MaxFile = fp.ArchSizes[0] + int64(rng.Intn(60))
	}
	// total size
	l.MaxTotal = hugeTotal[rng.Intn(2)]
	if tight[1] {
		var v int64
		switch x := rng.Intn(10); {
		case x == 0:
			v = int64(rng.Intn(2))
		case x < 6:
			v = int64(fp.Total) + jitter()
		default:
			v = pick(rng, fp.Totals, 0) + jitter()
		}
		if v < 0 {
			v = 0
		}
		l.MaxTotal = uint64(v)
	}
	// count
	l.MaxCount = hugeCount[rng.Intn(2)]
	if tight[2] {
		switch x := rng.Intn(10); {
		case x == 0:
			l.MaxCount = int64(rng.Intn(2))
		case x < 4:
			l.MaxCount = fp.Files + jitter()
		case x < 7:
			l.MaxCount = fp.Entries + jitter()
		default:
			l.MaxCount = pick(rng, fp.Counts, 0) + jitter()
		}
	}
	// depth
	switch x := rng.Intn(10); {
	case tight[3] && x < 5:
		l.MaxDepth = fp.MaxDepth + jitter()
	case tight[3]:
		l.MaxDepth = pick(rng, fp.Depths, 0) + jitter()
	case x < 4:
		l.MaxDepth = -1 - int64(rng.Intn(2))*5
	case x < 6:
		l.MaxDepth = 0
		if fp.MaxDepth > 0 {
			l.MaxDepth = fp.MaxDepth + int64(rng.Intn(3))
		}
	default:
		l.MaxDepth = 1000
	}
	if l.MaxDepth < -1 && tight[3] {
		l.MaxDepth = -1
	}
	// a negative size or count limit is not a configuration the property speaks about
	if l.MaxFile < 0 {
		l.MaxFile = 0
	}
	if l.MaxCount < 0 {
		l.MaxCount = 0
	}
	return l
}

func genScenario(r *h.Run) scenario {
	g := &genCtx{r: r}
	nesting := nestingTable[r.Rng.Intn(len(nestingTable))]
	a := g.archive(nesting, true)
	note := fmt.Sprintf("nesting=%d", nesting)
	if r.Rng.Intn(100) == 0 {
		a.Garbage = true
		note += " top-level-non-zip"
	}
	if r.Rng.Intn(25) == 0 { // two file entries of the same archive share a name: the second overwrites the first
		var idx []int
		for i, e := range a.Entries {
			if !e.Dir {
				idx = append(idx, i)
			}
		}
		if len(idx) >= 2 {
			i, j := idx[r.Rng.Intn(len(idx))], idx[r.Rng.Intn(len(idx))]
			if i != j && a.Entries[i].Nested == nil && a.Entries[j].Nested == nil {
				a.Entries[j].Name = a.Entries[i].Name
				note += " overwrite"
			}
		}
	}
	if r.Rng.Intn(4) == 0 {
		if k := g.addLie(&a); k != "" {
			note += " lie=" + k
			r.Count("lie=" + k)
		}
	}
	return scenario{Archive: a, Limits: g.limits(&a), Note: note}
}

// ---- deterministic corpus ----

func file(name string, n int, method uint16) entrySpec {
	return entrySpec{Name: name, Len: n, Method: method}
}

func noLimit(recursive bool, depth int64) limitsSpec {
	return limitsSpec{MaxFile: 1 << 40, MaxTotal: 1 << 50, MaxCount: 1 << 20, MaxDepth: depth, Recursive: recursive}
}

// bomb builds an archive nested `levels` deep with `fan` archives per level and a payload at the bottom.
func bomb(levels, fan, payload int) archiveSpec {
	if levels == 0 {
		return archiveSpec{Entries: []entrySpec{file("payload.bin", payload, 8), file("sub/readme.txt", 7, 0)}}
	}
	var a archiveSpec
	for i := 0; i < fan; i++ {
		sub := bomb(levels-1, fan, payload)
		a.Entries = append(a.Entries, entrySpec{Name: fmt.Sprintf("l%d_%d.zip", levels, i), Nested: &sub, Method: uint16(8 * (i % 2))})
	}
	a.Entries = append(a.Entries, file("note.txt", 3, 0))
	return a
}

func corpus() []scenario {
	var cs []scenario
	add := func(note string, a archiveSpec, l limitsSpec) {
		cs = append(cs, scenario{Archive: a, Limits: l, Note: note})
	}
	// D13: lying headers (the refutation witnesses of the unfixed code)
	for _, rec := range []bool{false, true} {
		add("D13 declared 5 B, stored stream 20 B", archiveSpec{Entries: []entrySpec{{Name: "liar.txt", Len: 20, Declared: u64(5)}}}, noLimit(rec, -1))
		add("D13 declared 5 B, deflated stream 20 B", archiveSpec{Entries: []entrySpec{{Name: "liar.txt", Len: 20, Method: 8, Declared: u64(5)}}}, noLimit(rec, -1))
		add("D13 bad checksum, equal sizes, stored", archiveSpec{Entries: []entrySpec{{Name: "crc.txt", Len: 20, BadCRC: true}}}, noLimit(rec, -1))
		add("D13 bad checksum, equal sizes, deflated", archiveSpec{Entries: []entrySpec{{Name: "crc.txt", Len: 200, Method: 8, BadCRC: true}}}, noLimit(rec, -1))
		add("declared 0 B, stream 9 B", archiveSpec{Entries: []entrySpec{file("ok.txt", 4, 0), {Name: "zero.txt", Len: 9, Declared: u64(0)}}}, noLimit(rec, -1))
		add("declared larger than the stream", archiveSpec{Entries: []entrySpec{{Name: "short.txt", Len: 9, Declared: u64(10)}}}, noLimit(rec, -1))
		add("declared 2^63 (negative as int64)", archiveSpec{Entries: []entrySpec{{Name: "wrap.txt", Len: 9, Declared: u64(1 << 63)}}}, noLimit(rec, -1))
		add("declared 2^64-1, empty stream", archiveSpec{Entries: []entrySpec{{Name: "wrap0.txt", Len: 0, Declared: u64(math.MaxUint64)}}}, noLimit(rec, -1))
		add("zip bomb hidden behind a small declared size", archiveSpec{Entries: []entrySpec{{Name: "bomb.bin", Len: 100000, Method: 8, Declared: u64(10)}}},
			limitsSpec{MaxFile: 1000, MaxTotal: 1000, MaxCount: 10, MaxDepth: -1, Recursive: rec})
		for _, decl := range []uint64{1 << 63, math.MaxUint64} {
			wrapped := archiveSpec{Entries: []entrySpec{file("ok.txt", 4, 0), {Name: "wrapbomb.bin", Len: 100000, Method: 8, Declared: u64(decl)}}}
			add("100 kB behind a declared size >= 2^63 (negative as int64), per-file limit 1000 B", wrapped,
				limitsSpec{MaxFile: 1000, MaxTotal: 1 << 50, MaxCount: 10, MaxDepth: -1, Recursive: rec})
			add("100 kB behind a declared size >= 2^63, inside a nested archive, per-file limit 1000 B",
				archiveSpec{Entries: []entrySpec{{Name: "d0/in.zip", Nested: &wrapped}}}, limitsSpec{MaxFile: 1000, MaxTotal: 1 << 50, MaxCount: 10, MaxDepth: 5, Recursive: rec})
		}
		inner := archiveSpec{Entries: []entrySpec{file("a.txt", 3, 0), {Name: "liar.txt", Len: 30, Method: 8, Declared: u64(7)}}}
		add("lying header inside a nested archive", archiveSpec{Entries: []entrySpec{{Name: "in.zip", Nested: &inner}}}, noLimit(rec, -1))
	}
	// directories are counted but the count is only checked after regular files (observation, not a violation)
	var dirs archiveSpec
	for i := 0; i < 10; i++ {
		dirs.Entries = append(dirs.Entries, entrySpec{Name: fmt.Sprintf("dir%d/", i), Dir: true})
	}
	add("ten directory entries, file count limit 3", dirs, limitsSpec{MaxFile: 1 << 40, MaxTotal: 1 << 50, MaxCount: 3, MaxDepth: -1})
	// classic bomb: 1 MB of one byte
	big := archiveSpec{Entries: []entrySpec{file("zeros.bin", 1<<20, 8), file("small.txt", 10, 0)}}
	add("1 MiB deflated to ~1 KiB, per-file limit 64 KiB", big, limitsSpec{MaxFile: 1 << 16, MaxTotal: 1 << 50, MaxCount: 100, MaxDepth: -1, Recursive: true})
	add("1 MiB deflated to ~1 KiB, total limit 1 MiB", big, limitsSpec{MaxFile: 1 << 40, MaxTotal: 1 << 20, MaxCount: 100, MaxDepth: -1, Recursive: true})
	add("1 MiB deflated to ~1 KiB, total limit 1 MiB + 10", big, limitsSpec{MaxFile: 1 << 40, MaxTotal: 1<<20 + 10, MaxCount: 100, MaxDepth: -1, Recursive: true})
	// nested bombs
	for _, lv := range []int{1, 3, 6} {
		b := bomb(lv, 2, 5000)
		fp := footprintOf(build(&b), true)
		for _, dlt := range []int64{-1, 0, 1} {
			add(fmt.Sprintf("nested bomb depth %d fan-out 2, total limit footprint%+d", lv, dlt), b,
				limitsSpec{MaxFile: 1 << 40, MaxTotal: uint64(int64(fp.Total) + dlt), MaxCount: 1 << 20, MaxDepth: -1, Recursive: true})
			add(fmt.Sprintf("nested bomb depth %d fan-out 2, count limit files%+d", lv, dlt), b,
				limitsSpec{MaxFile: 1 << 40, MaxTotal: 1 << 50, MaxCount: fp.Files + dlt, MaxDepth: -1, Recursive: true})
			add(fmt.Sprintf("nested bomb depth %d fan-out 2, depth limit footprint%+d", lv, dlt), b,
				limitsSpec{MaxFile: 1 << 40, MaxTotal: 1 << 50, MaxCount: 1 << 20, MaxDepth: fp.MaxDepth + dlt, Recursive: true})
			add(fmt.Sprintf("nested bomb depth %d fan-out 2, per-file limit payload%+d", lv, dlt), b,
				limitsSpec{MaxFile: fp.MaxFile + dlt, MaxTotal: 1 << 50, MaxCount: 1 << 20, MaxDepth: -1, Recursive: true})
		}
		add(fmt.Sprintf("nested bomb depth %d, not recursive", lv), b, noLimit(false, 0))
	}
	// non-zips with zip names, zips without, in both modes; boundaries on a flat archive
	mixed := archiveSpec{Entries: []entrySpec{
		file("a/b/c/deep.txt", 40, 8), {Name: "a/", Dir: true}, file("fake.zip", 25, 0), {Name: "sniffed.zip", Len: 30, FakeZip: true},
		{Name: "x/real.dat", Nested: &archiveSpec{Entries: []entrySpec{file("in.txt", 11, 0)}}},
		{Name: "x/empty.zip", Nested: &archiveSpec{}}, {Name: "x/garbage.jar", Nested: &archiveSpec{Garbage: true}},
		{Name: "x/real.JAR", Nested: &archiveSpec{Entries: []entrySpec{file("q/in2.txt", 12, 8), {Name: "q/r/", Dir: true}}}},
	}}
	for _, rec := range []bool{false, true} {
		add("mixed names", mixed, noLimit(rec, -1))
		flat := archiveSpec{Entries: mixed.Entries[:3]}
		fp := footprintOf(build(&flat), rec)
		for _, dlt := range []int64{-1, 0, 1} {
			add("flat total", flat, limitsSpec{MaxFile: 1 << 40, MaxTotal: uint64(int64(fp.Total) + dlt), MaxCount: 1 << 20, MaxDepth: -1, Recursive: rec})
			add("flat count", flat, limitsSpec{MaxFile: 1 << 40, MaxTotal: 1 << 50, MaxCount: fp.Entries + dlt, MaxDepth: -1, Recursive: rec})
			add("flat depth", flat, limitsSpec{MaxFile: 1 << 40, MaxTotal: 1 << 50, MaxCount: 1 << 20, MaxDepth: fp.MaxDepth + dlt, Recursive: rec})
			add("flat archive size", flat, limitsSpec{MaxFile: fp.ArchSizes[0] + dlt, MaxTotal: 1 << 50, MaxCount: 1 << 20, MaxDepth: 5, Recursive: rec})
			add("flat depth zero-ish", flat, limitsSpec{MaxFile: 1 << 40, MaxTotal: 1 << 50, MaxCount: 1 << 20, MaxDepth: dlt, Recursive: rec})
		}
	}
	// the back end refuses to remove an unzipped nested archive: it is in neither the total nor the count, so success would leave more than the limits allow
	for _, lv := range []int{1, 2} {
		b := bomb(lv, 1, 500)
		fpb := footprintOf(build(&b), true)
		for _, p := range nestedArchivePaths(build(&b), true) {
			cs = append(cs, scenario{Archive: b, Note: "removal of an unzipped nested archive refused, limits exactly what the content needs",
				Limits: limitsSpec{MaxFile: 1 << 40, MaxTotal: fpb.Total, MaxCount: fpb.Entries, MaxDepth: -1, Recursive: true},
				Fault:  &faultSpec{Op: "Remove", K: 1, Persistent: true, Path: p}})
		}
		cs = append(cs, scenario{Archive: b, Note: "every removal refused", Limits: limitsSpec{MaxFile: 1 << 40, MaxTotal: fpb.Total, MaxCount: fpb.Entries, MaxDepth: -1, Recursive: true},
			Fault: &faultSpec{Op: "Remove", K: 1, Persistent: true}})
		cs = append(cs, scenario{Archive: b, Note: "removal fault, not recursive (nothing is removed)", Limits: noLimit(false, -1), Fault: &faultSpec{Op: "Remove", K: 1, Persistent: true}})
	}
	add("empty archive", archiveSpec{}, limitsSpec{MaxFile: 22, MaxTotal: 0, MaxCount: 0, MaxDepth: 0, Recursive: true})
	add("empty archive, per-file limit below the archive size", archiveSpec{}, limitsSpec{MaxFile: 21, MaxTotal: 0, MaxCount: 0, MaxDepth: 0, Recursive: true})
	add("top-level non-zip", archiveSpec{Garbage: true}, noLimit(true, -1))
	add("unsupported method", archiveSpec{Entries: []entrySpec{file("m.txt", 12, 99)}}, noLimit(true, -1))
	return cs
}

var faultOps = []string{"Remove", "Remove", "MkdirAll", "OpenFile", "Open", "f.Write", "f.Read", "f.Close", "f.Close", "Chtimes"}

// snug limits: exactly (or one above) what a complete extraction of the archive needs
func snugLimits(r *h.Run, a *archiveSpec, recursive bool) limitsSpec {
	fp := footprintOf(build(a), recursive)
	l := limitsSpec{Recursive: recursive, MaxDepth: -1}
	for _, s := range append(append([]int64{22}, fp.Sizes...), fp.ArchSizes...) {
		if s > l.MaxFile {
			l.MaxFile = s
		}
	}
	l.MaxTotal = fp.Total + uint64(r.Rng.Intn(2))
	l.MaxCount = fp.Entries + int64(r.Rng.Intn(2))
	if r.Rng.Intn(2) == 0 && fp.MaxDepth >= 0 {
		l.MaxDepth = fp.MaxDepth
	}
	return l
}

func genFaultScenario(r *h.Run) scenario {
	g := &genCtx{r: r}
	nesting := nestingTable[6+r.Rng.Intn(len(nestingTable)-6)] // at least one level most of the time
	if r.Rng.Intn(4) == 0 {
		nesting = 0
	}
	a := g.archive(nesting, true)
	recursive := r.Rng.Intn(4) > 0
	sc := scenario{Archive: a, Limits: snugLimits(r, &a, recursive), Note: fmt.Sprintf("fault nesting=%d", nesting)}
	ba := build(&sc.Archive)
	if paths := nestedArchivePaths(ba, recursive); len(paths) > 0 && r.Rng.Intn(5) < 2 {
		sc.Fault = &faultSpec{Op: "Remove", K: 1, Persistent: true, Path: paths[r.Rng.Intn(len(paths))]}
		return sc
	}
	dry := execute(&sc, ba) // how many operations of each kind the extraction performs
	op := faultOps[r.Rng.Intn(len(faultOps))]
	n := dry.OpCount[op]
	if n == 0 {
		op, n = "OpenFile", max(dry.OpCount["OpenFile"], 1)
	}
	sc.Fault = &faultSpec{Op: op, K: 1 + r.Rng.Intn(n), Persistent: r.Rng.Intn(2) == 0}
	return sc
}
