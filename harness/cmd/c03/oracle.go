package main

// The property's oracle, evaluated on what the implementation did (never on the Coq model), and the independent
// "footprint" of an archive specification: what a complete, honest extraction would leave on disk.

import (
	"encoding/json"
	"fmt"
	"path"
	"strings"

	"verif/harness/internal/h"
)

type footprint struct {
	Total     uint64  // bytes of regular files left on disk
	Files     int64   // regular files left on disk
	Entries   int64   // entries the extraction walks through (directories included; unzipped nested archives excluded)
	MaxFile   int64   // largest file ever written (nested archives included: they are written before being unzipped)
	MaxDepth  int64   // deepest node (file or directory) relative to the destination; -1 if nothing
	Clean     bool    // nothing lies, everything can be opened, every archive that will be opened is an archive
	Lying     bool    // some entry the extraction must reach has a header contradicting its stream
	Nesting   int     // depth of archive nesting that the extraction follows
	Sizes     []int64 // every file size written, in order (candidates for limits)
	Totals    []int64 // running total after each regular file
	Counts    []int64 // running entry count after each regular file
	Depths    []int64 // every node depth
	ArchSizes []int64 // sizes of the archives opened
}

func stem(name string) string { return strings.TrimSuffix(path.Base(name), path.Ext(name)) }

func (fp *footprint) walk(a *builtArchive, recursive bool, base int64, nesting int) {
	if nesting > fp.Nesting {
		fp.Nesting = nesting
	}
	fp.ArchSizes = append(fp.ArchSizes, int64(len(a.bytes)))
	if !a.readable {
		fp.Clean = false
		return
	}
	for _, e := range a.entries {
		d := base + int64(e.depth)
		fp.Depths = append(fp.Depths, d)
		if d > fp.MaxDepth {
			fp.MaxDepth = d
		}
		if e.spec.Dir {
			fp.Entries++
			continue
		}
		if e.lies() {
			fp.Lying = true
			fp.Clean = false
		}
		if !e.openable {
			fp.Clean = false
		}
		sz := int64(e.actual)
		fp.Sizes = append(fp.Sizes, sz)
		if sz > fp.MaxFile {
			fp.MaxFile = sz
		}
		if e.recursed(recursive) {
			if e.body != "goodzip" {
				fp.Clean = false
				continue
			}
			fp.walk(e.nested, recursive, d+1, nesting+1)
		} else {
			fp.Files++
			fp.Entries++
			fp.Total += uint64(sz)
		}
		fp.Totals = append(fp.Totals, int64(fp.Total))
		fp.Counts = append(fp.Counts, fp.Entries)
	}
}

func footprintOf(a *builtArchive, recursive bool) *footprint {
	fp := &footprint{Clean: !a.dup, MaxDepth: -1} // with overwriting entries "would exceed" is a matter of reading: not judged
	fp.walk(a, recursive, 0, 0)
	return fp
}

// declaredByPath maps every path (relative to the destination) the extraction may create to the sizes its headers declare, in entry order.
func declaredByPath(a *builtArchive, recursive bool) map[string][]uint64 {
	m := map[string][]uint64{}
	var walk func(a *builtArchive, prefix string)
	walk = func(a *builtArchive, prefix string) {
		for _, e := range a.entries {
			if e.spec.Dir {
				continue
			}
			p := path.Join(prefix, e.spec.Name)
			m[p] = append(m[p], e.declared)
			if e.recursed(recursive) && e.body == "goodzip" {
				walk(e.nested, path.Join(path.Dir(p), stem(p)))
			}
		}
	}
	walk(a, "")
	return m
}

func oracle(r *h.Run, sc *scenario, ba *builtArchive, fp *footprint, declared map[string][]uint64, o observation, tag string) {
	l := sc.Limits
	mode := "flat"
	if l.Recursive {
		mode = "recursive"
	}
	mode += tag // which entry point was driven ("" = the method on the in-memory back end)
	// (1) at no moment is a single file larger than the per-file limit, or longer than the size its header declares, written
	seen := map[string]int{}
	for _, w := range o.Writes {
		i := seen[w.Path]
		seen[w.Path]++
		if w.Written > l.MaxFile {
			r.Fail("write-beyond-file-limit:"+mode, fmt.Sprintf("%d B were written to %q although the per-file limit is %d B", w.Written, w.Path, l.MaxFile), sc)
		}
		ds := declared[w.Path]
		if i < len(ds) && ds[i] < uint64(w.Written) {
			r.Fail("write-beyond-declared-size:"+mode, fmt.Sprintf("%d B were written to %q although its header declares %d B", w.Written, w.Path, ds[i]), sc)
		}
	}
	// (2) an extraction that reports success has left on disk no more than the limits allow
	if o.Kind == "ok" {
		var total uint64
		for _, f := range o.Files {
			total += uint64(f.Size)
			if f.Size > l.MaxFile {
				r.Fail("success-file-size-exceeded:"+mode, fmt.Sprintf("success, but %q has %d B on disk (per-file limit %d B)", f.Path, f.Size, l.MaxFile), sc)
			}
			if l.MaxDepth >= 0 && int64(f.Depth) > l.MaxDepth {
				r.Fail("success-depth-exceeded:"+mode, fmt.Sprintf("success, but %q is at depth %d (limit %d)", f.Path, f.Depth, l.MaxDepth), sc)
			}
		}
		if l.MaxDepth >= 0 && int64(o.DirDepth) > l.MaxDepth {
			r.Fail("success-depth-exceeded:"+mode, fmt.Sprintf("success, but a directory is at depth %d (limit %d)", o.DirDepth, l.MaxDepth), sc)
		}
		if total > l.MaxTotal {
			r.Fail("success-total-size-exceeded:"+mode, fmt.Sprintf("success, but %d B are on disk (total limit %d B)", total, l.MaxTotal), sc)
		}
		if int64(len(o.Files)) > l.MaxCount {
			r.Fail("success-file-count-exceeded:"+mode, fmt.Sprintf("success, but %d files are on disk (limit %d)", len(o.Files), l.MaxCount), sc)
		}
		// (3) an archive whose headers contradict its data is refused with an error
		if fp.Lying {
			r.Fail("lying-header-accepted:"+mode, "success although an extracted entry's header contradicts its data (size or checksum): "+describeLie(ba, l.Recursive), sc)
		}
		if int64(o.Listed) > l.MaxCount && int64(len(o.Files)) <= l.MaxCount {
			r.Count("observation:success-with-more-listed-entries-than-max-file-count(directories are counted but not checked)")
		}
	}
	// (5) ... and only such an archive: an honest archive that stays within every limit (counting as the code documents it:
	// every recorded entry, directories included; the archives themselves are files too) is not refused as 'too large'
	if fp.Clean && o.Kind == "toolarge" {
		fits := fp.Total <= l.MaxTotal && fp.Entries <= l.MaxCount && (l.MaxDepth < 0 || fp.MaxDepth <= l.MaxDepth)
		for _, s := range append(append([]int64{}, fp.Sizes...), fp.ArchSizes...) {
			fits = fits && s <= l.MaxFile
		}
		if fits {
			r.Fail("refused-although-within-limits:"+mode, fmt.Sprintf("honest archive within every limit (total %d B <= %d, %d entries <= %d, largest file/archive <= %d B, depth %d vs %d) was refused as 'too large': %s",
				fp.Total, l.MaxTotal, fp.Entries, l.MaxCount, l.MaxFile, fp.MaxDepth, l.MaxDepth, o.Err), sc)
		}
	}
	// (4) an archive that would exceed a limit is refused with the 'too large' kind
	if fp.Clean {
		var why []string
		if fp.Total > l.MaxTotal {
			why = append(why, fmt.Sprintf("total %d B > %d B", fp.Total, l.MaxTotal))
		}
		if fp.Files > l.MaxCount {
			why = append(why, fmt.Sprintf("%d files > %d", fp.Files, l.MaxCount))
		}
		if fp.MaxFile > l.MaxFile {
			why = append(why, fmt.Sprintf("a file of %d B > %d B", fp.MaxFile, l.MaxFile))
		}
		if l.MaxDepth >= 0 && fp.MaxDepth > l.MaxDepth {
			why = append(why, fmt.Sprintf("depth %d > %d", fp.MaxDepth, l.MaxDepth))
		}
		if len(why) > 0 {
			switch o.Kind {
			case "ok":
				r.Fail("limit-exceeded-not-refused:"+mode, "honest archive exceeding a limit ("+strings.Join(why, ", ")+") was extracted with success", sc)
			case "other":
				r.Fail("refusal-wrong-kind:"+mode, "honest archive exceeding a limit ("+strings.Join(why, ", ")+") was refused, but not with the 'too large' kind: "+o.Err, sc)
			}
		}
	}
}

func describeLie(a *builtArchive, recursive bool) string {
	for _, e := range a.entries {
		if e.spec.Dir {
			continue
		}
		if e.lies() {
			return fmt.Sprintf("%q declares %d B, stream has %d B, checksum ok=%v, damaged=%v", e.spec.Name, e.declared, e.actual, e.crcOK, e.spec.Corrupt)
		}
		if e.recursed(recursive) && e.body == "goodzip" {
			if s := describeLie(e.nested, recursive); s != "" {
				return e.spec.Name + " > " + s
			}
		}
	}
	return ""
}

func near(v int64, cands []int64) bool {
	for _, c := range cands {
		if v-c >= -1 && v-c <= 1 {
			return true
		}
	}
	return false
}

func account(r *h.Run, sc *scenario, ba *builtArchive, fp *footprint, o observation) {
	l := sc.Limits
	if f := sc.Fault; f != nil {
		k := "fault=" + f.Op
		if f.Path != "" {
			k += "(nested archive)"
		}
		if o.Faulted == 0 {
			k += ":not-reached"
		} else {
			k += ":" + o.Kind
		}
		r.Count(k)
	}
	r.Count("result=" + o.Kind)
	if l.Recursive {
		r.Count("mode=recursive")
	} else {
		r.Count("mode=flat")
	}
	r.Count(fmt.Sprintf("nesting-followed=%d", fp.Nesting))
	r.Count(fmt.Sprintf("entries-top=%d", min(len(ba.entries), 12)/3*3))
	if fp.Lying {
		r.Count("lying-header")
	}
	if !fp.Clean && !fp.Lying && !ba.dup {
		r.Count("unopenable-or-non-zip")
	}
	if ba.dup {
		r.Count("overwriting-entries(oracle only)")
	}
	if l.MaxDepth < 0 {
		r.Count("depth-limit-disabled")
	}
	tight := false
	if near(l.MaxFile, fp.Sizes) || near(l.MaxFile, fp.ArchSizes) {
		r.Count("tight:max-file-size")
		tight = true
	}
	if l.MaxTotal < 1<<62 && near(int64(l.MaxTotal), fp.Totals) {
		r.Count("tight:max-total-size")
		tight = true
	}
	if near(l.MaxCount, fp.Counts) || near(l.MaxCount, []int64{fp.Files}) {
		r.Count("tight:max-file-count")
		tight = true
	}
	if l.MaxDepth >= 0 && near(l.MaxDepth, fp.Depths) {
		r.Count("tight:max-depth")
		tight = true
	}
	if (len(ba.entries) >= 2 && (tight || fp.Lying || fp.Nesting > 0)) || (sc.Fault != nil && o.Faulted > 0) {
		k, _ := json.Marshal(sc)
		r.Distinct(string(k))
	}
	r.Sample(map[string]any{"scenario": sc, "observed": o})
}
