package main

// Every public entry point of utils/filesystem through which an extraction (or the opening of an archive) can be requested
// — the list is extracted from the source by translator-c03 (coq/C03/entrypoints.json) — is driven on the OS back end
// (the global file system), in a private temporary directory, with the same physical oracle.  An entry point the
// harness has no driver for is a failure (entry-point-not-driven).

import (
	"context"
	"encoding/json"
	"fmt"
	"os"
	"path/filepath"
	"sort"
	"strings"

	"github.com/ARM-software/golang-utils/utils/filesystem"

	"verif/harness/internal/h"
)

type entryDriver struct {
	tag    string // short name used in signatures
	limits bool   // the caller's limits are supposed to govern the extraction
	zipfs  bool   // opens the archive as a file system instead of extracting it
	unzip  func(ctx context.Context, src, dst string, lim filesystem.ILimits) ([]string, error)
	open   func(src string, lim filesystem.ILimits) (filesystem.ICloseableFS, filesystem.File, error)
}

var drivers = map[string]entryDriver{
	"func UnzipWithContextAndLimits(context.Context,string,string,ILimits)": {tag: "func-UnzipWithContextAndLimits", limits: true,
		unzip: func(ctx context.Context, src, dst string, lim filesystem.ILimits) ([]string, error) {
			return filesystem.UnzipWithContextAndLimits(ctx, src, dst, lim)
		}},
	"method VFS.UnzipWithContextAndLimits(context.Context,string,string,ILimits)": {tag: "os-VFS.UnzipWithContextAndLimits", limits: true,
		unzip: func(ctx context.Context, src, dst string, lim filesystem.ILimits) ([]string, error) {
			return filesystem.GetGlobalFileSystem().UnzipWithContextAndLimits(ctx, src, dst, lim)
		}},
	"func Unzip(string,string)": {tag: "func-Unzip",
		unzip: func(_ context.Context, src, dst string, _ filesystem.ILimits) ([]string, error) {
			return filesystem.Unzip(src, dst)
		}},
	"method VFS.Unzip(string,string)": {tag: "os-VFS.Unzip",
		unzip: func(_ context.Context, src, dst string, _ filesystem.ILimits) ([]string, error) {
			return filesystem.GetGlobalFileSystem().Unzip(src, dst)
		}},
	"method VFS.UnzipWithContext(context.Context,string,string)": {tag: "os-VFS.UnzipWithContext",
		unzip: func(ctx context.Context, src, dst string, _ filesystem.ILimits) ([]string, error) {
			return filesystem.GetGlobalFileSystem().UnzipWithContext(ctx, src, dst)
		}},
	"func NewZipFileSystem(FS,string,ILimits)": {tag: "func-NewZipFileSystem", limits: true, zipfs: true,
		open: func(src string, lim filesystem.ILimits) (filesystem.ICloseableFS, filesystem.File, error) {
			return filesystem.NewZipFileSystem(filesystem.GetGlobalFileSystem(), src, lim)
		}},
	"func NewZipFileSystemFromStandardFileSystem(string,ILimits)": {tag: "func-NewZipFileSystemFromStandardFileSystem", limits: true, zipfs: true,
		open: func(src string, lim filesystem.ILimits) (filesystem.ICloseableFS, filesystem.File, error) {
			return filesystem.NewZipFileSystemFromStandardFileSystem(src, lim)
		}},
}

// entryPoints: what the translator found in the source; every one must have a driver.
func entryPoints(r *h.Run) []string {
	root := os.Getenv("VERIF_ROOT")
	if root == "" {
		root = "/verif"
	}
	var doc struct {
		EntryPoints []string `json:"entry_points"`
	}
	bs, err := os.ReadFile(filepath.Join(root, "coq", "C03", "entrypoints.json"))
	if err != nil || json.Unmarshal(bs, &doc) != nil || len(doc.EntryPoints) == 0 {
		r.Note("coq/C03/entrypoints.json missing (translator failed?): driving the entry points the harness knows")
		for k := range drivers {
			doc.EntryPoints = append(doc.EntryPoints, k)
		}
	}
	sort.Strings(doc.EntryPoints)
	var known []string
	for _, e := range doc.EntryPoints {
		if _, ok := drivers[e]; !ok {
			r.Fail("entry-point-not-driven", "utils/filesystem has a public entry point that reaches the extraction code and that this harness does not drive: "+e,
				scenario{Entry: e, Note: "entry point without a driver"})
			continue
		}
		known = append(known, e)
	}
	return known
}

// executeOS runs the scenario through the given entry point on the OS back end and walks the result with os/filepath only.
func executeOS(sc *scenario, ba *builtArchive, d entryDriver) observation {
	root, err := os.MkdirTemp("", "verif-c03-*")
	if err != nil {
		return observation{Kind: "other", Err: "harness: " + err.Error(), DirDepth: -1}
	}
	defer func() { _ = os.RemoveAll(root) }()
	src := filepath.Join(root, "src", "archive.zip")
	dst := filepath.Join(root, "out", "x")
	_ = os.MkdirAll(filepath.Dir(src), 0o755)
	_ = os.MkdirAll(filepath.Dir(dst), 0o755)
	_ = os.WriteFile(src, ba.bytes, 0o644)
	lim := filesystem.NewLimits(sc.Limits.MaxFile, sc.Limits.MaxTotal, sc.Limits.MaxCount, sc.Limits.MaxDepth, sc.Limits.Recursive)
	o := observation{DirDepth: -1}
	if d.zipfs {
		zfs, zf, err := d.open(src, lim)
		o.Kind = errKind(err)
		if err != nil {
			o.Err = err.Error()
		}
		if zfs != nil {
			_ = zfs.Close()
		}
		if zf != nil {
			_ = zf.Close()
		}
		return o
	}
	list, err := d.unzip(context.Background(), src, dst, lim)
	o.Kind, o.Listed = errKind(err), len(list)
	if err != nil {
		o.Err = err.Error()
		if len(o.Err) > 300 {
			o.Err = o.Err[:300]
		}
	}
	_ = filepath.Walk(dst, func(p string, info os.FileInfo, werr error) error {
		if werr != nil || p == dst {
			return nil
		}
		rel := filepath.ToSlash(strings.TrimPrefix(p, dst+string(filepath.Separator)))
		if info.IsDir() {
			if dp := depthOf(rel); dp > o.DirDepth {
				o.DirDepth = dp
			}
			return nil
		}
		o.Files = append(o.Files, fileObs{Path: rel, Depth: depthOf(rel), Size: info.Size()})
		return nil
	})
	return o
}

// runEntryScenario: one scenario through one entry point on the OS back end.
func runEntryScenario(r *h.Run, sc scenario) observation {
	d := drivers[sc.Entry]
	ba := build(&sc.Archive)
	o := executeOS(&sc, ba, d)
	r.Eval()
	r.Count("entry=" + d.tag + ":" + o.Kind)
	switch {
	case d.zipfs:
		// the archive itself is a file: one larger than the per-file limit is not opened
		if ba.readable && int64(len(ba.bytes)) > sc.Limits.MaxFile && o.Kind != "toolarge" {
			r.Fail("archive-size-limit-ignored@"+d.tag, fmt.Sprintf("an archive of %d B was opened (result: %s %s) although the per-file limit is %d B", len(ba.bytes), o.Kind, o.Err, sc.Limits.MaxFile), sc)
		}
		if ba.readable && int64(len(ba.bytes)) <= sc.Limits.MaxFile && o.Kind == "toolarge" {
			r.Fail("refused-although-within-limits@"+d.tag, fmt.Sprintf("an archive of %d B was refused as 'too large' although the per-file limit is %d B: %s", len(ba.bytes), sc.Limits.MaxFile, o.Err), sc)
		}
	case d.limits:
		fp := footprintOf(ba, sc.Limits.Recursive)
		oracle(r, &sc, ba, fp, map[string][]uint64{}, o, "@"+d.tag)
		if len(ba.entries) >= 2 {
			k, _ := json.Marshal(sc)
			r.Distinct(string(k))
		}
	default:
		// no limits were requested: the entry point is driven, nothing of C03 is demanded of it
	}
	return o
}

// driveEntryPoints: the deterministic corpus and a seeded stream through every entry point.
func driveEntryPoints(r *h.Run) {
	eps := entryPoints(r)
	var base []scenario
	for _, c := range corpus() {
		if c.Fault == nil {
			base = append(base, c)
		}
	}
	n := r.N(120, 1500)
	for i := 0; i < n; i++ {
		base = append(base, genScenario(r))
	}
	for _, e := range eps {
		d := drivers[e]
		list := base
		if !d.limits {
			list = base[:min(len(base), 40)]
		}
		for _, sc := range list {
			sc.Entry = e
			runEntryScenario(r, sc)
		}
	}
}
