// C03 harness: unzip resource limits (zip bombs, nested bombs, lying headers).
//
// Archives are described by a small specification tree (entries, nested archives, lies) and serialised by a RAW zip
// writer (rawzip.go) that can declare sizes / checksums which contradict the stored stream, sizes >= 2^63 (zip64),
// unsupported methods, damaged streams and non-zips carrying a zip extension.  Each scenario is extracted by the REAL
// (*filesystem.VFS).UnzipWithContextAndLimits on an in-memory afero back end wrapped by the recording shim.
// Observed: error kind, length of the returned list, an independent walk of the tree on disk, every Write reaching the
// back end (per-file high-water marks).  The oracle (oracle.go) states the property on these observations and never
// consults the Coq model; the correspondence cases feed the same observations to GU.C03.Model.check_case.
package main

import (
	"context"
	"fmt"
	"math/big"
	"os"
	"sort"
	"strings"
	"syscall"

	"github.com/spf13/afero"

	"github.com/ARM-software/golang-utils/utils/commonerrors"
	"github.com/ARM-software/golang-utils/utils/filesystem"

	"verif/harness/internal/h"
	"verif/harness/internal/shim"
)

const (
	srcPath = "/src/archive.zip"
	dstPath = "/out/x"
)

type limitsSpec struct {
	MaxFile   int64  `json:"max_file"`
	MaxTotal  uint64 `json:"max_total"`
	MaxCount  int64  `json:"max_count"`
	MaxDepth  int64  `json:"max_depth"`
	Recursive bool   `json:"recursive"`
}

// faultSpec: one of the extraction's OWN back-end operations fails (EPERM), once or from then on.
type faultSpec struct {
	Op         string `json:"op"`             // Remove | MkdirAll | OpenFile | Open | f.Write | f.Read | f.Close | Chtimes
	K          int    `json:"k"`              // the k-th such operation at or below the destination (1-based)
	Persistent bool   `json:"persistent"`     // ... and every later one
	Path       string `json:"path,omitempty"` // only operations on this path (relative to the destination)
}

type scenario struct {
	Archive archiveSpec `json:"archive"`
	Limits  limitsSpec  `json:"limits"`
	Fault   *faultSpec  `json:"fault,omitempty"`
	Entry   string      `json:"entry,omitempty"` // entry point driven on the OS back end ("" = VFS method on the in-memory back end)
	Note    string      `json:"note,omitempty"`
}

type fileObs struct {
	Path  string `json:"path"`
	Depth int    `json:"depth"`
	Size  int64  `json:"size"`
}

type writeObs struct {
	Path    string `json:"path"`
	Written int64  `json:"written"` // high-water mark of the bytes written since the truncating open
}

type observation struct {
	Kind     string         `json:"kind"` // ok | toolarge | other
	Err      string         `json:"err,omitempty"`
	Listed   int            `json:"listed"`
	Files    []fileObs      `json:"files"`
	DirDepth int            `json:"max_dir_depth"` // deepest directory below the destination, -1 if none
	Writes   []writeObs     `json:"writes"`        // one per truncating open, in order
	Handles  int64          `json:"open_handles"`
	Faulted  int            `json:"faulted_ops"` // how many operations the fault made fail
	OpCount  map[string]int `json:"-"`           // operations of each kind at or below the destination
}

func errKind(err error) string {
	switch {
	case err == nil:
		return "ok"
	case commonerrors.Any(err, commonerrors.ErrTooLarge):
		return "toolarge"
	default:
		return "other"
	}
}

func depthOf(rel string) int { return strings.Count(rel, "/") }

// execute runs one scenario on the real implementation.
func execute(sc *scenario, ba *builtArchive) observation {
	inner := afero.NewMemMapFs()
	sh := shim.New(inner, nil)
	fs := filesystem.NewVirtualFileSystem(sh, filesystem.InMemoryFS, filesystem.IdentityPathConverterFunc)
	_ = inner.MkdirAll("/src", 0o755)
	_ = inner.MkdirAll("/out", 0o755)
	_ = afero.WriteFile(inner, srcPath, ba.bytes, 0o644)
	sh.ResetLog()
	opCount := map[string]int{}
	faulted := 0
	sh.SetHook(func(op *shim.Op) error {
		if op.Path != dstPath && !strings.HasPrefix(op.Path, dstPath+"/") {
			return nil
		}
		opCount[op.Name]++
		f := sc.Fault
		if f == nil || op.Name != f.Op || (f.Path != "" && op.Path != dstPath+"/"+f.Path) {
			return nil
		}
		n := opCount[op.Name]
		if f.Path != "" {
			opCount["@"+op.Name]++
			n = opCount["@"+op.Name]
		}
		if n == f.K || (f.Persistent && n >= f.K) {
			faulted++
			return &os.PathError{Op: strings.ToLower(op.Name), Path: op.Path, Err: syscall.EPERM}
		}
		return nil
	})
	lim := filesystem.NewLimits(sc.Limits.MaxFile, sc.Limits.MaxTotal, sc.Limits.MaxCount, sc.Limits.MaxDepth, sc.Limits.Recursive)
	list, err := fs.UnzipWithContextAndLimits(context.Background(), srcPath, dstPath, lim)
	sh.SetHook(nil)
	o := observation{Kind: errKind(err), Listed: len(list), DirDepth: -1, Handles: sh.OpenHandles(), Faulted: faulted, OpCount: opCount}
	if err != nil {
		o.Err = err.Error()
		if len(o.Err) > 300 {
			o.Err = o.Err[:300]
		}
	}
	// independent walk of the back end (not through the library, not through the shim)
	_ = afero.Walk(inner, dstPath, func(p string, info os.FileInfo, werr error) error {
		if werr != nil || p == dstPath {
			return nil
		}
		rel := strings.TrimPrefix(p, dstPath+"/")
		if info.IsDir() {
			if d := depthOf(rel); d > o.DirDepth {
				o.DirDepth = d
			}
			return nil
		}
		o.Files = append(o.Files, fileObs{Path: rel, Depth: depthOf(rel), Size: info.Size()})
		return nil
	})
	// write high-water marks per truncating open
	cur := map[string]int{}
	for _, op := range sh.Log() {
		if !strings.HasPrefix(op.Path, dstPath+"/") {
			continue
		}
		rel := strings.TrimPrefix(op.Path, dstPath+"/")
		switch op.Name {
		case "OpenFile", "Create":
			if op.Flag&os.O_TRUNC != 0 && op.Err == nil {
				o.Writes = append(o.Writes, writeObs{Path: rel})
				cur[rel] = len(o.Writes) - 1
			}
		case "f.Write", "f.WriteAt":
			if i, ok := cur[rel]; ok && op.Err == nil {
				o.Writes[i].Written += int64(op.N)
			}
		}
	}
	return o
}

// ---- Coq terms ----

func coqEntries(es []*builtEntry) string {
	ts := make([]string, len(es))
	for i, e := range es {
		if e.spec.Dir {
			ts[i] = fmt.Sprintf("(EDir %d)", e.depth)
			continue
		}
		body := map[string]string{"plain": "Plain", "badzip": "BadZip", "goodzip": "GoodZip"}[e.body]
		nested := "[]"
		if e.nested != nil && e.body == "goodzip" {
			nested = coqEntries(e.nested.entries)
		}
		ts[i] = fmt.Sprintf("(EFile %d %s %s %d %s %s %s %s %s)", e.depth, h.Bool(e.zipname), new(big.Int).SetUint64(e.declared).String(),
			e.actual, h.Bool(e.crcOK), h.Bool(e.openable), body, h.Bool(!e.rmFails), nested)
	}
	return h.List(ts)
}

func coqLimits(l limitsSpec) string {
	return fmt.Sprintf("(mkLim %s %s %s %s %s)", h.Z(l.MaxFile), new(big.Int).SetUint64(l.MaxTotal).String(), h.Z(l.MaxCount), h.Z(l.MaxDepth), h.Bool(l.Recursive))
}

func sortedBig(xs []*big.Int) string {
	sort.Slice(xs, func(i, j int) bool { return xs[i].Cmp(xs[j]) < 0 })
	ts := make([]string, len(xs))
	for i, x := range xs {
		ts[i] = x.String()
	}
	return h.List(ts)
}

func coqCase(sc *scenario, ba *builtArchive, o observation, declared map[string][]uint64) string {
	kind := map[string]string{"ok": "None", "toolarge": "(Some TooLarge)", "other": "(Some Other)"}[o.Kind]
	var fk []*big.Int
	for _, f := range o.Files {
		k := new(big.Int).Lsh(big.NewInt(int64(f.Depth)), 32)
		fk = append(fk, k.Add(k, big.NewInt(f.Size)))
	}
	var wk []*big.Int
	seen := map[string]int{}
	for _, w := range o.Writes {
		ds := declared[w.Path]
		i := seen[w.Path]
		seen[w.Path]++
		var d uint64
		if i < len(ds) {
			d = ds[i]
		}
		k := new(big.Int).Lsh(big.NewInt(w.Written), 64)
		wk = append(wk, k.Add(k, new(big.Int).SetUint64(d)))
	}
	return fmt.Sprintf("(mkCase %s %d %s %s %s %d %s %s %s)", coqLimits(sc.Limits), len(ba.bytes), h.Bool(ba.readable),
		coqEntries(ba.entries), kind, o.Listed, sortedBig(fk), h.Z(int64(o.DirDepth)), sortedBig(wk))
}

func runScenario(r *h.Run, sc scenario, emit bool) observation {
	if sc.Entry != "" {
		if _, ok := drivers[sc.Entry]; !ok {
			r.Fail("entry-point-not-driven", "no driver for "+sc.Entry, sc)
			return observation{}
		}
		return runEntryScenario(r, sc)
	}
	ba := build(&sc.Archive)
	o := execute(&sc, ba)
	r.Eval()
	fp := footprintOf(ba, sc.Limits.Recursive)
	declared := declaredByPath(ba, sc.Limits.Recursive)
	modelled := true
	if f := sc.Fault; f != nil {
		// on a reported error nothing is demanded but the high-water marks; "would exceed => refused as too large" is not judged
		fp.Clean = false
		// the model knows one kind of fault: the removal of an unzipped nested archive is refused
		modelled = f.Op == "Remove" && f.Path != "" && f.K == 1 && markRemovalFault(ba, sc.Limits.Recursive, f.Path)
	}
	oracle(r, &sc, ba, fp, declared, o, "")
	if emit && modelled && ba.modelExact(sc.Limits.Recursive) {
		r.Case(coqCase(&sc, ba, o, declared), map[string]any{"scenario": sc, "observed": o})
	}
	account(r, &sc, ba, fp, o)
	return o
}

func main() {
	r := h.Init("C03")
	r.Imports = []string{"GU.C03.Model", "GU.C03.Gen"}
	r.CheckFn = "(check_caseF generated)" // the model instantiated with the facts extracted from the source on this run
	r.Rule("seeded archive specifications (0..12 entries per archive, directories to depth 4, stored and deflated data of 0..3000 B with ratios up to ~1000:1, " +
		"headers lying about size (smaller, larger, >= 2^63) or checksum, unsupported methods, damaged streams, archives nested to depth 0..6 with fan-out 1..3, " +
		"non-zips with zip extensions, zips without) x limits drawn independently per dimension from {tiny, exact, exact-1, exact+1, huge, negative depth} relative to the " +
		"archive's own footprint x recursive or not; non-trivial = at least 2 entries and at least one limit within +-1 of a footprint value or a lying/nested entry; " +
		"distinct by (specification, limits)")
	var sc scenario
	if _, ok := r.ReplayObject(&sc); ok {
		o := runScenario(r, sc, false)
		r.Sample(map[string]any{"scenario": sc, "observed": o})
		r.Finish()
		return
	}
	for _, c := range corpus() {
		runScenario(r, c, true)
	}
	r.Note("observation (not a violation: the property speaks of files): directory entries are added to the counter but the counter is only compared with MaxFileCount after a regular file; the corpus case 'ten directory entries, file count limit 3' succeeds (Coq: unzip_success_entry_count_refuted)")
	r.Note("archive/zip itself refuses to deliver more bytes than the header declares (checksumReader), which is why io.Copy instead of the bounded copy would still not over-write; the correspondence notices such a change, the oracle rightly does not")
	n := r.N(900, 12000)
	emitN := r.N(900, 3000)
	for i := 0; i < n; i++ {
		sc := genScenario(r)
		runScenario(r, sc, i < emitN)
	}
	// every public entry point, on the OS back end
	driveEntryPoints(r)
	// fault injection on the extraction's own back-end operations, limits close to what the content needs
	nf := r.N(400, 4000)
	for i := 0; i < nf; i++ {
		sc := genFaultScenario(r)
		runScenario(r, sc, i < r.N(400, 1000))
	}
	r.Finish()
}
