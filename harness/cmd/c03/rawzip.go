package main

// Raw zip writer: local headers, central directory, end record and zip64 extra fields are laid out by hand so that
// the central directory (the part archive/zip trusts) can declare sizes and checksums that contradict the stored stream.

import (
	"bytes"
	"compress/flate"
	"encoding/binary"
	"hash/crc32"
	"io"
	"path"
	"strings"
)

type entrySpec struct {
	Name     string       `json:"name"` // '/'-separated, relative; directories end with '/'
	Dir      bool         `json:"dir,omitempty"`
	Len      int          `json:"len,omitempty"`      // length of the generated content
	Random   bool         `json:"random,omitempty"`   // incompressible content instead of a repeated byte
	Method   uint16       `json:"method"`             // 0 store, 8 deflate, anything else: unsupported by archive/zip
	Declared *uint64      `json:"declared,omitempty"` // uncompressed size announced by the header when it lies
	BadCRC   bool         `json:"bad_crc,omitempty"`  // header checksum differs from the content's
	Corrupt  bool         `json:"corrupt,omitempty"`  // damage the compressed stream after building it
	FakeZip  bool         `json:"fake_zip,omitempty"` // content starts with the zip signature but is no archive
	Nested   *archiveSpec `json:"nested,omitempty"`   // content is this archive
}

type archiveSpec struct {
	Entries []entrySpec `json:"entries"`
	Garbage bool        `json:"garbage,omitempty"` // the bytes are not a zip archive at all
}

type builtEntry struct {
	spec     *entrySpec
	data     []byte // content before compression
	stored   []byte // bytes stored in the archive
	declared uint64
	actual   int  // bytes the (undamaged) stream decodes to
	crcOK    bool // archive/zip will accept the checksum (matching, or header checksum 0 = "not set")
	openable bool
	zipname  bool
	body     string // plain | badzip | goodzip (what the extracted content looks like to the recursive mode)
	depth    int
	nested   *builtArchive
	rmFails  bool // fault injection: the back end refuses to remove this nested archive after it was unzipped
	// for damaged streams: what an independent decoder makes of the stored bytes
	decodeErr bool
	decodeLen int
	decodeCRC uint32
	hdrCRC    uint32
}

type builtArchive struct {
	bytes    []byte
	entries  []*builtEntry
	readable bool
	dup      bool // two entries (here or below) share a name: the later one overwrites the earlier one
}

// extensions the library treats as "zip" (filesystem.ZipFileExtensions), compared case-insensitively on filepath.Ext
var zipExts = map[string]bool{".zip": true, ".zipx": true, ".7z": true, ".s7z": true, ".gz": true, ".tgz": true, ".xz": true, ".lz": true,
	".lzma": true, ".rz": true, ".pack": true, ".z": true, ".jar": true}

func hasZipName(name string) bool {
	if strings.HasSuffix(name, "/") {
		return false
	}
	return zipExts[strings.ToLower(path.Ext(name))]
}

var zipSig = []byte{'P', 'K', 3, 4}

func content(e *entrySpec, salt int) []byte {
	b := make([]byte, e.Len)
	if e.Random {
		x := uint32(2463534242) ^ uint32(salt*7919+e.Len)
		for i := range b {
			x ^= x << 13
			x ^= x >> 17
			x ^= x << 5
			b[i] = byte(x >> 11)
		}
		if len(b) > 0 && b[0] == 'P' {
			b[0] = 'Q'
		}
	} else {
		c := byte('a' + salt%26)
		for i := range b {
			b[i] = c
		}
	}
	if e.FakeZip {
		b = append(append([]byte{}, zipSig...), b...)
	}
	return b
}

func deflate(data []byte) []byte {
	var buf bytes.Buffer
	w, _ := flate.NewWriter(&buf, flate.BestCompression)
	_, _ = w.Write(data)
	_ = w.Close()
	return buf.Bytes()
}

func build(a *archiveSpec) *builtArchive {
	ba := &builtArchive{readable: !a.Garbage}
	names := map[string]bool{}
	for i := range a.Entries {
		e := &a.Entries[i]
		if names[e.Name] {
			ba.dup = true
		}
		names[e.Name] = true
		be := &builtEntry{spec: e, openable: true, crcOK: true}
		clean := strings.TrimSuffix(e.Name, "/")
		be.depth = strings.Count(clean, "/")
		if !e.Dir {
			switch {
			case e.Nested != nil:
				be.nested = build(e.Nested)
				be.data = be.nested.bytes
				ba.dup = ba.dup || be.nested.dup
			default:
				be.data = content(e, i+len(e.Name))
			}
			be.zipname = hasZipName(e.Name)
			be.actual = len(be.data)
			be.declared = uint64(len(be.data))
			if e.Declared != nil {
				be.declared = *e.Declared
			}
			switch e.Method {
			case 0:
				be.stored = be.data
			case 8:
				be.stored = deflate(be.data)
			default:
				be.stored = be.data
				be.openable = false
			}
			be.hdrCRC = crc32.ChecksumIEEE(be.data)
			if e.BadCRC {
				be.hdrCRC ^= 0x5a5a5a5a
				if be.hdrCRC == 0 {
					be.hdrCRC = 1
				}
				be.crcOK = false
			}
			if e.Corrupt && len(be.stored) > 0 {
				s := append([]byte{}, be.stored...)
				s[len(s)/2] ^= 0x55
				if len(s) > 3 {
					s[len(s)/3] ^= 0xa1
				}
				be.stored = s
				be.decodeLen, be.decodeCRC, be.decodeErr = decode(e.Method, s)
			}
			switch {
			case !bytes.HasPrefix(be.data, zipSig):
				be.body = "plain"
			case be.nested != nil && be.nested.readable:
				be.body = "goodzip"
			default:
				be.body = "badzip"
			}
		}
		ba.entries = append(ba.entries, be)
	}
	if a.Garbage {
		ba.bytes = []byte("this is not a zip archive, whatever its name says; it is long enough to be sniffed as text\n")
		return ba
	}
	ba.bytes = serialise(ba.entries)
	return ba
}

// decode is an independent decoder (compress/flate + crc32, no archive/zip) used only to decide what a damaged stream contains.
func decode(method uint16, stored []byte) (n int, crc uint32, failed bool) {
	if method != 8 {
		return len(stored), crc32.ChecksumIEEE(stored), false
	}
	fr := flate.NewReader(bytes.NewReader(stored))
	out, err := io.ReadAll(fr)
	return len(out), crc32.ChecksumIEEE(out), err != nil
}

func serialise(es []*builtEntry) []byte {
	var out bytes.Buffer
	le := binary.LittleEndian
	w16 := func(b *bytes.Buffer, v uint16) { _ = binary.Write(b, le, v) }
	w32 := func(b *bytes.Buffer, v uint32) { _ = binary.Write(b, le, v) }
	w64 := func(b *bytes.Buffer, v uint64) { _ = binary.Write(b, le, v) }
	type cdrec struct {
		e      *builtEntry
		offset uint32
	}
	var recs []cdrec
	for _, e := range es {
		recs = append(recs, cdrec{e, uint32(out.Len())})
		usize32 := uint32(e.declared)
		var extra bytes.Buffer
		if e.declared >= 0xffffffff {
			usize32 = 0xffffffff
			w16(&extra, 1)
			w16(&extra, 8)
			w64(&extra, e.declared)
		}
		w32(&out, 0x04034b50)
		w16(&out, 45)
		w16(&out, 0)
		w16(&out, e.spec.Method)
		w16(&out, 0x6000) // time
		w16(&out, 0x5821) // date
		w32(&out, e.hdrCRC)
		w32(&out, uint32(len(e.stored)))
		w32(&out, usize32)
		w16(&out, uint16(len(e.spec.Name)))
		w16(&out, uint16(extra.Len()))
		out.WriteString(e.spec.Name)
		out.Write(extra.Bytes())
		out.Write(e.stored)
	}
	cdStart := out.Len()
	for _, r := range recs {
		e := r.e
		usize32 := uint32(e.declared)
		var extra bytes.Buffer
		if e.declared >= 0xffffffff {
			usize32 = 0xffffffff
			w16(&extra, 1)
			w16(&extra, 8)
			w64(&extra, e.declared)
		}
		w32(&out, 0x02014b50)
		w16(&out, 45) // creator: FAT, spec 4.5
		w16(&out, 45)
		w16(&out, 0)
		w16(&out, e.spec.Method)
		w16(&out, 0x6000)
		w16(&out, 0x5821)
		w32(&out, e.hdrCRC)
		w32(&out, uint32(len(e.stored)))
		w32(&out, usize32)
		w16(&out, uint16(len(e.spec.Name)))
		w16(&out, uint16(extra.Len()))
		w16(&out, 0) // comment
		w16(&out, 0) // disk
		w16(&out, 0) // internal attrs
		if e.spec.Dir {
			w32(&out, 0x10)
		} else {
			w32(&out, 0)
		}
		w32(&out, r.offset)
		out.WriteString(e.spec.Name)
		out.Write(extra.Bytes())
	}
	cdSize := out.Len() - cdStart
	w32(&out, 0x06054b50)
	w16(&out, 0)
	w16(&out, 0)
	w16(&out, uint16(len(recs)))
	w16(&out, uint16(len(recs)))
	w32(&out, uint32(cdSize))
	w32(&out, uint32(cdStart))
	w16(&out, 0)
	return out.Bytes()
}

// lies reports whether the header of the entry contradicts its stream (as far as archive/zip can tell).
func (e *builtEntry) lies() bool {
	if e.spec.Dir {
		return false
	}
	if e.spec.Corrupt && len(e.stored) > 0 {
		return e.decodeErr || uint64(e.decodeLen) != e.declared || e.decodeCRC != e.hdrCRC
	}
	return e.declared != uint64(e.actual) || !e.crcOK
}

// reachable nested archive: the recursive mode will try to open this entry as an archive
func (e *builtEntry) recursed(recursive bool) bool {
	return recursive && !e.spec.Dir && e.zipname && e.body != "plain"
}

// modelExact: the Coq model predicts the exact number of bytes written only for undamaged streams, and, when the stream is
// shorter than declared, only for stored data (archive/zip drops the final chunk of a deflated stream that ends early).
func (a *builtArchive) modelExact(recursive bool) bool {
	if a.dup { // the model's disk is a list of distinct paths
		return false
	}
	for _, e := range a.entries {
		if e.spec.Dir {
			continue
		}
		if e.spec.Corrupt {
			return false
		}
		if e.spec.Method == 8 && uint64(e.actual) < e.declared && e.declared < 1<<63 {
			return false
		}
		if e.nested != nil && e.recursed(recursive) && e.body == "goodzip" && !e.nested.modelExact(recursive) {
			return false
		}
	}
	return true
}

// markRemovalFault finds the nested archive that the recursive mode extracts to `p` (relative to the destination) and unzips,
// and records that its removal will be refused.
func markRemovalFault(a *builtArchive, recursive bool, p string) bool {
	var walk func(a *builtArchive, prefix string) bool
	walk = func(a *builtArchive, prefix string) bool {
		for _, e := range a.entries {
			if e.spec.Dir || !(e.recursed(recursive) && e.body == "goodzip") {
				continue
			}
			q := path.Join(prefix, e.spec.Name)
			if q == p {
				e.rmFails = true
				return true
			}
			if walk(e.nested, path.Join(path.Dir(q), stem(q))) {
				return true
			}
		}
		return false
	}
	return walk(a, "")
}

// nestedArchivePaths lists the paths (relative to the destination) of the nested archives the recursive mode will unzip.
func nestedArchivePaths(a *builtArchive, recursive bool) []string {
	var out []string
	var walk func(a *builtArchive, prefix string)
	walk = func(a *builtArchive, prefix string) {
		for _, e := range a.entries {
			if e.spec.Dir || !(e.recursed(recursive) && e.body == "goodzip") {
				continue
			}
			q := path.Join(prefix, e.spec.Name)
			out = append(out, q)
			walk(e.nested, path.Join(path.Dir(q), stem(q)))
		}
	}
	walk(a, "")
	return out
}
