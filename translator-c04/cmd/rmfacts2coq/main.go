// rmfacts2coq regenerates coq/C04/Gen.v from utils/filesystem/files.go and utils/platform/deletion*.go of $VERIF_REPO:
// the facts (GU.C04.Facts: rm_facts, gc_facts, priv_facts) the removal model is parameterised by.
//
// Every statement of the anchored functions is printed without white space and must be one of a CLOSED list of known
// statements (each mapped to a token); if-statements with a known header are descended into.  Anything else is an
// error: the translator fails closed and the check reports a broken tie.  The facts are then read off the ORDER and
// PRESENCE of the tokens (which test comes first, which variable is tested, which helper is called).
package main

import (
	"bytes"
	"fmt"
	"go/ast"
	"go/parser"
	"go/printer"
	"go/token"
	"os"
	"path/filepath"
	"strings"
)

func die(f string, a ...any) {
	fmt.Fprintf(os.Stderr, "rmfacts2coq: "+f+"\n", a...)
	os.Exit(1)
}

var fset = token.NewFileSet()

func norm(n ast.Node) string {
	var b bytes.Buffer
	_ = printer.Fprint(&b, fset, n)
	return strings.Join(strings.Fields(b.String()), "")
}

func sq(s string) string { return strings.Join(strings.Fields(s), "") }

func findFunc(f *ast.File, recv, name string) *ast.FuncDecl {
	for _, d := range f.Decls {
		fd, ok := d.(*ast.FuncDecl)
		if !ok || fd.Name.Name != name {
			continue
		}
		if recv == "" {
			if fd.Recv == nil {
				return fd
			}
			continue
		}
		if fd.Recv == nil || len(fd.Recv.List) != 1 {
			continue
		}
		t := fd.Recv.List[0].Type
		if s, ok := t.(*ast.StarExpr); ok {
			t = s.X
		}
		if id, ok := t.(*ast.Ident); ok && id.Name == recv {
			return fd
		}
	}
	die("function %s.%s not found", recv, name)
	return nil
}

// table of whole statements and of if-headers ("init;cond") per function
type shapes struct {
	stmt map[string]string
	ifh  map[string]string
}

func mk(stmts, ifs [][2]string) shapes {
	s := shapes{map[string]string{}, map[string]string{}}
	for _, p := range stmts {
		s.stmt[sq(p[0])] = p[1]
	}
	for _, p := range ifs {
		s.ifh[sq(p[0])] = p[1]
	}
	return s
}

func tokens(fn string, list []ast.Stmt, sh shapes) []string {
	var out []string
	for _, st := range list {
		txt := norm(st)
		if t, ok := sh.stmt[txt]; ok {
			out = append(out, t)
			continue
		}
		if is, ok := st.(*ast.IfStmt); ok && is.Else == nil {
			h := norm(is.Cond)
			if is.Init != nil {
				h = norm(is.Init) + ";" + h
			}
			if t, ok := sh.ifh[h]; ok {
				out = append(out, t+"{")
				out = append(out, tokens(fn, is.Body.List, sh)...)
				out = append(out, "}"+t)
				continue
			}
		}
		die("%s: statement of unknown shape at %s:\n%s", fn, fset.Position(st.Pos()), txt)
	}
	return out
}

func idx(ts []string, t string) int {
	for i, x := range ts {
		if x == t {
			return i
		}
	}
	return -1
}
func has(ts []string, t string) bool { return idx(ts, t) >= 0 }

// sub returns the tokens between "t{" and "}t"
func sub(ts []string, t string) []string {
	a, b := idx(ts, t+"{"), idx(ts, "}"+t)
	if a < 0 || b < a {
		return nil
	}
	return ts[a+1 : b]
}

// follows: token b comes right after token a somewhere
func follows(ts []string, a, b string) bool {
	for i := 0; i+1 < len(ts); i++ {
		if ts[i] == a && ts[i+1] == b {
			return true
		}
	}
	return false
}
func before(ts []string, a, b string) bool {
	i, j := idx(ts, a), idx(ts, b)
	return i >= 0 && (j < 0 || i < j)
}

func b(v bool) string {
	if v {
		return "true"
	}
	return "false"
}

var common = [][2]string{
	{`err = fs.checkWhetherUnderlyingResourceIsClosed()`, "Closed"},
	{`if err != nil { return }`, "RetErr"},
	{`err = parallelisation.DetermineContextError(ctx)`, "Ctx"},
	{`_, err = NewExclusionRegexList(fs.PathSeparator(), exclusionPatterns...)`, "Validate"},
	{`return`, "Ret"},
}

func main() {
	repo := os.Getenv("VERIF_REPO")
	if repo == "" {
		repo = "/repo"
	}
	out := "coq/C04/Gen.v"
	if len(os.Args) > 1 {
		out = os.Args[1]
	}
	ff, err := parser.ParseFile(fset, filepath.Join(repo, "utils/filesystem/files.go"), nil, 0)
	if err != nil {
		die("%v", err)
	}
	pp, err := parser.ParseFile(fset, filepath.Join(repo, "utils/platform/deletion_posix.go"), nil, 0)
	if err != nil {
		die("%v", err)
	}
	pd, err := parser.ParseFile(fset, filepath.Join(repo, "utils/platform/deletion.go"), nil, 0)
	if err != nil {
		die("%v", err)
	}

	// ---- RemoveWithContextAndExclusionPatterns must delegate with (dir, dir)
	top := findFunc(ff, "VFS", "RemoveWithContextAndExclusionPatterns")
	if len(top.Body.List) != 1 || norm(top.Body.List[0]) != sq(`return fs.removeWithExclusionPatterns(ctx, dir, dir, exclusionPatterns...)`) {
		die("RemoveWithContextAndExclusionPatterns does not delegate to removeWithExclusionPatterns(ctx, dir, dir, patterns...)")
	}
	for _, w := range [][2]string{{"RemoveWithContext", `return fs.RemoveWithContextAndExclusionPatterns(ctx, dir)`}, {"Rm", `return fs.RemoveWithContext(context.Background(), dir)`},
		{"CleanDir", `return fs.CleanDirWithContext(context.Background(), dir)`}, {"CleanDirWithContext", `return fs.CleanDirWithContextAndExclusionPatterns(ctx, dir)`}} {
		fd := findFunc(ff, "VFS", w[0])
		if len(fd.Body.List) != 1 || norm(fd.Body.List[0]) != sq(w[1]) {
			die("%s is not the expected one-line wrapper", w[0])
		}
	}

	// ---- removeWithExclusionPatterns
	rmSh := mk(append([][2]string{
		{`if dir == "" { return }`, "EmptyRet"},
		{`if !fs.Exists(dir) { return }`, "ExistsRet"},
		{`isDir, err := fs.IsDir(dir)`, "IsDir"},
		{`isEmpty, err := fs.IsEmpty(dir)`, "IsEmpty1"},
		{`if isDir && !isEmpty { err = fs.CleanDirWithContextAndExclusionPatterns(ctx, dir, exclusionPatterns...) }`, "CleanPat"},
		{`if isDir && !isEmpty { err = fs.CleanDirWithContextAndExclusionPatterns(ctx, dir) }`, "CleanNoPat"},
		{`if isDir && !isEmpty { err = fs.CleanDirWithContext(ctx, dir) }`, "CleanNoPat"},
		{`isEmpty, err = fs.IsEmpty(dir)`, "IsEmpty2"},
		{`if isDir && !isEmpty { return }`, "StopNonEmpty"},
		{`if IsPathExcludedFromPatterns(tested, fs.PathSeparator(), exclusionPatterns...) { return }`, "ExclTested"},
		{`if IsPathExcludedFromPatterns(dir, fs.PathSeparator(), exclusionPatterns...) { return }`, "ExclDir"},
		{`err = ConvertFileSystemError(fs.vfs.Remove(dir))`, "RemoveDir"},
		{`dir = filepath.Clean(dir)`, "CleanPath"},
		{`dir = strings.TrimRight(dir, string(fs.PathSeparator()))`, "TrimPath"},
		{`info, lErr := fs.Lstat(dir)`, "LstatDir"},
		{`err = lErr`, "SetLErr"},
	}, common...), [][2]string{
		{`lErr != nil && !IsPathNotExist(lErr) && !commonerrors.Any(lErr, commonerrors.ErrNotFound, commonerrors.ErrNotImplemented)`, "LstatUnknown"},
		{`lErr == nil && IsSymLink(info)`, "Link"},
		{`info, subErr := fs.Lstat(dir); subErr == nil && IsSymLink(info)`, "Link"},
		{`info, subErr := fs.Lstat(filepath.Clean(dir)); subErr == nil && IsSymLink(info)`, "LinkOnCleanOnly"},
		{`info, subErr := fs.Stat(dir); subErr == nil && IsSymLink(info)`, "LinkByStat"},
		{`info, subErr := fs.Lstat(tested); subErr == nil && IsSymLink(info)`, "LinkOnTested"},
	})
	rm := tokens("removeWithExclusionPatterns", findFunc(ff, "VFS", "removeWithExclusionPatterns").Body.List, rmSh)
	link := sub(rm, "Link")
	var rest []string // the Stat-based part: everything after the link branch (or after EmptyRet)
	if i := idx(rm, "}Link"); i >= 0 {
		rest = rm[i+1:]
	} else {
		rest = rm
	}
	exclArg := func(ts []string, upto string) string {
		switch {
		case before(ts, "ExclTested", upto) && has(ts, "ExclTested"):
			return "TTested"
		case before(ts, "ExclDir", upto) && has(ts, "ExclDir"):
			return "TDir"
		}
		return "TNone"
	}
	// the link test is either `if info, subErr := fs.Lstat(dir); subErr == nil && IsSymLink(info)` or the three-statement form
	// Lstat(dir); unknown error => return it; lErr == nil && IsSymLink(info)
	rmFailClosed := follows(rm, "LstatDir", "LstatUnknown{") && follows(rm, "}LstatUnknown", "Link{") && strings.Join(sub(rm, "LstatUnknown"), " ") == "SetLErr Ret"
	if has(rm, "LstatDir") != rmFailClosed || has(rm, "LstatUnknown{") != rmFailClosed {
		die("removeWithExclusionPatterns: the Lstat test has an unknown shape: %v", rm)
	}
	rmLinkFirst := has(rm, "Link{") && before(rm, "Link{", "ExistsRet") && before(rm, "Link{", "IsDir") && before(rm, "Link{", "IsEmpty1") && before(rm, "Link{", "RemoveDir")
	// the path is cleaned after the empty-path test (Clean("") is ".") and before anything looks at it
	rmCleaned := has(rm, "CleanPath") && before(rm, "EmptyRet", "CleanPath") && before(rm, "CleanPath", "Link{") && before(rm, "CleanPath", "ExistsRet") && before(rm, "CleanPath", "RemoveDir")
	rmLinkCtx := follows(link, "Ctx", "RetErr") && before(link, "Ctx", "RemoveDir")
	rmLinkExcl := exclArg(link, "RemoveDir")
	rmLinkReturns := len(link) >= 2 && link[len(link)-2] == "RemoveDir" && link[len(link)-1] == "Ret"
	cleanTok := "CleanPat"
	if !has(rest, "CleanPat") {
		cleanTok = "CleanNoPat"
	}
	rmCleanErrFirst := follows(rest, cleanTok, "RetErr") && before(rest, cleanTok, "IsEmpty2")
	rmCleanPatterns := has(rest, "CleanPat")
	rmStop := follows(rest, "IsEmpty2", "RetErr") && before(rest, "IsEmpty2", "StopNonEmpty") && before(rest, "StopNonEmpty", "RemoveDir")
	afterStop := rest
	if i := idx(rest, "StopNonEmpty"); i >= 0 {
		afterStop = rest[i+1:]
	}
	rmFinalCtx := follows(afterStop, "Ctx", "RetErr") && before(afterStop, "Ctx", "RemoveDir")
	rmFinalExcl := exclArg(afterStop, "RemoveDir")
	if !has(rm, "ExistsRet") || !before(rm, "ExistsRet", "IsDir") || !has(rest, "IsDir") || !has(rest, "RemoveDir") || !has(rm, "EmptyRet") {
		die("removeWithExclusionPatterns: the Stat-based part has lost Exists / IsDir / Remove: %v", rm)
	}

	// ---- CleanDirWithContextAndExclusionPatterns
	clSh := mk(append([][2]string{
		{`if dir == "" || !fs.Exists(dir) { return }`, "ExistsRet"},
		{`empty, err := fs.IsEmpty(dir)`, "IsEmpty"},
		{`if empty || err != nil { return }`, "EmptyRet"},
		{`files, err := fs.LsWithExclusionPatterns(dir, exclusionPatterns...)`, "LsFiltered"},
		{`files, err := fs.Ls(dir)`, "LsAll"},
		{`for i := range files { subErr := fs.removeFileWithContext(ctx, dir, files[i], exclusionPatterns...) if subErr != nil { err = subErr return } }`, "LoopStopPat"},
		{`for i := range files { subErr := fs.removeFileWithContext(ctx, dir, files[i]) if subErr != nil { err = subErr return } }`, "LoopStopNoPat"},
		{`for i := range files { subErr := fs.removeFileWithContext(ctx, dir, files[i], exclusionPatterns...) if subErr != nil { err = subErr } }`, "LoopGoOnPat"},
	}, common...), nil)
	cl := tokens("CleanDirWithContextAndExclusionPatterns", findFunc(ff, "VFS", "CleanDirWithContextAndExclusionPatterns").Body.List, clSh)
	clLs := has(cl, "LsFiltered") && follows(cl, "LsFiltered", "RetErr")
	clStop := has(cl, "LoopStopPat") || has(cl, "LoopStopNoPat")
	clPat := has(cl, "LoopStopPat") || has(cl, "LoopGoOnPat")
	if !(has(cl, "LsFiltered") || has(cl, "LsAll")) || !(clStop || has(cl, "LoopGoOnPat")) || !before(cl, "ExistsRet", "IsEmpty") {
		die("CleanDirWithContextAndExclusionPatterns: listing or loop missing: %v", cl)
	}

	// ---- removeFileWithContext
	nfSh := mk(append([][2]string{
		{`err = fs.removeWithExclusionPatterns(ctx, filepath.Join(dir, f), f, exclusionPatterns...)`, "NestedNamePat"},
		{`err = fs.removeWithExclusionPatterns(ctx, filepath.Join(dir, f), filepath.Join(dir, f), exclusionPatterns...)`, "NestedPathPat"},
		{`err = fs.RemoveWithContextAndExclusionPatterns(ctx, filepath.Join(dir, f), exclusionPatterns...)`, "NestedPathPat"},
		{`err = fs.removeWithExclusionPatterns(ctx, filepath.Join(dir, f), f)`, "NestedNameNoPat"},
		{`err = fs.RemoveWithContext(ctx, filepath.Join(dir, f))`, "NestedPathNoPat"},
	}, common...), nil)
	nf := tokens("removeFileWithContext", findFunc(ff, "VFS", "removeFileWithContext").Body.List, nfSh)
	nested := "NName"
	if has(nf, "NestedPathPat") || has(nf, "NestedPathNoPat") {
		nested = "NPath"
	}
	nestedPat := has(nf, "NestedNamePat") || has(nf, "NestedPathPat")
	if !(nestedPat || has(nf, "NestedNameNoPat") || has(nf, "NestedPathNoPat")) {
		die("removeFileWithContext: no recursive removal: %v", nf)
	}

	// ---- garbageCollect
	gcSh := mk(append([][2]string{
		{`if !fs.Exists(path) { return }`, "ExistsRet"},
		{`return fs.garbageCollectFile(ctx, durationSinceLastAccess, path)`, "RetFile"},
		{`_ = fs.garbageCollectFile(ctx, durationSinceLastAccess, path)`, "FileNoRet"},
		{`err = fs.garbageCollectFile(ctx, durationSinceLastAccess, path)`, "FileNoRet"},
		{`return fs.garbageCollectDir(ctx, durationSinceLastAccess, path, deletePath)`, "RetDir"},
		{`info, lErr := fs.Lstat(path)`, "LstatPath"},
		{`return lErr`, "RetLErr"},
	}, common...), [][2]string{
		{`lErr != nil && !IsPathNotExist(lErr) && !commonerrors.Any(lErr, commonerrors.ErrNotFound, commonerrors.ErrNotImplemented)`, "LstatUnknown"},
		{`lErr == nil && IsSymLink(info)`, "Link"},
		{`deletePath`, "UnderDelete"},
		{`info, subErr := fs.Lstat(path); subErr == nil && IsSymLink(info)`, "Link"},
		{`info, subErr := fs.Stat(path); subErr == nil && IsSymLink(info)`, "LinkByStat"},
		{`isDir, _ := fs.IsDir(path); isDir`, "IsDir"},
	})
	g := tokens("garbageCollect", findFunc(ff, "VFS", "garbageCollect").Body.List, gcSh)
	gl := sub(g, "Link")
	gcFailClosed := follows(g, "LstatPath", "LstatUnknown{") && follows(g, "}LstatUnknown", "Link{") && strings.Join(sub(g, "LstatUnknown"), " ") == "RetLErr" &&
		before(g, "UnderDelete{", "LstatPath") && before(g, "Link{", "}UnderDelete")
	if has(g, "LstatPath") != gcFailClosed || has(g, "LstatUnknown{") != gcFailClosed {
		die("garbageCollect: the Lstat test has an unknown shape: %v", g)
	}
	gcLinkFirst := has(g, "Link{") && before(g, "UnderDelete{", "Link{") && before(g, "}Link", "}UnderDelete") && before(g, "}UnderDelete", "IsDir{") &&
		len(gl) == 1 && gl[0] == "RetFile"
	gcExistsFirst := before(g, "ExistsRet", "UnderDelete{") && before(g, "ExistsRet", "IsDir{") && has(g, "ExistsRet")
	if d := sub(g, "IsDir"); len(d) != 1 || d[0] != "RetDir" || g[len(g)-1] != "RetFile" {
		die("garbageCollect: the directory / file dispatch has changed: %v", g)
	}

	// ---- VFS.RemoveWithPrivileges
	pvSh := mk([][2]string{
		{`err = fs.RemoveWithContext(ctx, dir)`, "Pass"},
		{`currentUser, subErr := user.Current()`, "Me"},
		{`if subErr != nil { err = fmt.Errorf("%w: cannot retrieve information about current user: %v", commonerrors.ErrUnexpected, subErr.Error()) return }`, "MeErr"},
		{`subErr = fs.ChangeOwnership(dir, currentUser)`, "Chown"},
		{`subErr = fs.ChangeOwnershipRecursively(ctx, dir, currentUser)`, "ChownRec"},
		{`err = ConvertFileSystemError(correctobj.ForceRemoveIfPossible(dir))`, "Force"},
		{`dir = filepath.Clean(dir)`, "CleanPath"},
		{`return`, "Ret"},
	}, [][2]string{
		{`dir != ""`, "NonEmpty"},
		{`commonerrors.Any(err, nil, commonerrors.ErrTimeout, commonerrors.ErrCancelled)`, "Final"},
		{`info, lErr := fs.Lstat(dir); lErr != nil || !IsSymLink(info)`, "Guard"},
		{`info, lErr := fs.Lstat(dir); lErr == nil && !IsSymLink(info)`, "GuardClosed"},
		{`subErr == nil`, "IfChowned"},
		{`correctobj, ok := fs.vfs.(IForceRemover); ok`, "IfForcer"},
	})
	pv := tokens("RemoveWithPrivileges", findFunc(ff, "VFS", "RemoveWithPrivileges").Body.List, pvSh)
	pvFailClosed := has(pv, "GuardClosed{")
	if pvFailClosed {
		for i := range pv {
			pv[i] = strings.Replace(pv[i], "GuardClosed", "Guard", 1)
		}
	}
	guard := sub(pv, "Guard")
	chownGuarded := len(guard) == 1 && (guard[0] == "Chown" || guard[0] == "ChownRec")
	chownOutside := false
	depth := 0
	for _, t := range pv {
		switch {
		case strings.HasSuffix(t, "{"):
			depth++
		case strings.HasPrefix(t, "}"):
			depth--
		case t == "CleanPath" && depth == 0:
			die("RemoveWithPrivileges: the path is cleaned without the empty-path guard (Clean(\"\") is \".\")")
		case (t == "Chown" || t == "ChownRec") && depth == 0:
			chownOutside = true
		}
	}
	if !has(pv, "Chown") && !has(pv, "ChownRec") || !has(pv, "Force") || !follows(pv, "Pass", "Final{") {
		die("RemoveWithPrivileges: ownership change / forced removal / first attempt missing: %v", pv)
	}
	ne := sub(pv, "NonEmpty")
	pvCleaned := len(ne) == 1 && ne[0] == "CleanPath" && before(pv, "}NonEmpty", "Pass")
	pvGuard := chownGuarded && !chownOutside
	pvRec := has(pv, "ChownRec")

	// ---- platform: forced removal
	passes := func(name, want, without string) bool {
		fd := findFunc(pp, "", name)
		if len(fd.Body.List) != 1 {
			die("%s: unexpected body", name)
		}
		switch norm(fd.Body.List[0]) {
		case sq(want):
			return true
		case sq(without):
			return false
		}
		die("%s: statement of unknown shape: %s", name, norm(fd.Body.List[0]))
		return false
	}
	forcePath := passes("removeFileAs", `return executeCommandAs(ctx, as, "rm", "-f", "--", path)`, `return executeCommandAs(ctx, as, "rm", "-f")`) &&
		passes("removeDirAs", `return executeCommandAs(ctx, as, "rm", "-r", "-f", "--", path)`, `return executeCommandAs(ctx, as, "rm", "-r", "-f")`)
	pr := findFunc(pd, "", "RemoveWithPrivileges")
	prText := norm(pr.Body)
	wantPr := sq(`{ fi, err := os.Stat(path)
		if err != nil { err = fmt.Errorf("%w: could not find path [%v]: %v", commonerrors.ErrNotFound, path, err.Error()); return }
		if fi.IsDir() { err = removeDirAs(ctx, WithPrivileges(command.Me()), path) } else { err = removeFileAs(ctx, WithPrivileges(command.Me()), path) }
		if err != nil { err = fmt.Errorf("%w: could not remove the path [%v]: %v", commonerrors.ErrUnexpected, path, err.Error()) }
		return }`)
	resolves := false
	switch {
	case strings.ReplaceAll(prText, ";", "") == strings.ReplaceAll(wantPr, ";", ""):
	case strings.Contains(prText, "EvalSymlinks") || strings.Contains(prText, "Readlink"):
		resolves = true
	default:
		die("platform.RemoveWithPrivileges: body of unknown shape:\n%s", prText)
	}

	// ---- exclusion.go: the patterns of each call are compiled afresh
	ef, err := parser.ParseFile(fset, filepath.Join(repo, "utils/filesystem/exclusion.go"), nil, 0)
	if err != nil {
		die("%v", err)
	}
	pkgVars := 0
	for _, d := range ef.Decls {
		if gd, ok := d.(*ast.GenDecl); ok && gd.Tok == token.VAR {
			pkgVars++
		}
	}
	wantNew := sq(`{ var regexes []*regexp.Regexp
		var patternsExtendedList []string
		for i := range exclusionPatterns { pattern := exclusionPatterns[i]
			if !reflection.IsEmpty(pattern) { patternsExtendedList = append(patternsExtendedList, pattern, fmt.Sprintf(".*/%v/.*", pattern), fmt.Sprintf(".*%v%v%v.*", pathSeparator, pattern, pathSeparator)) } }
		for i := range patternsExtendedList { r, err := regexp.Compile(patternsExtendedList[i])
			if err != nil { return nil, commonerrors.WrapErrorf(commonerrors.ErrInvalid, err, "could not compile pattern [%v]", patternsExtendedList[i]) }
			regexes = append(regexes, r) }
		return regexes, nil }`)
	wantIs := sq(`{ regexes, err := NewExclusionRegexList(pathSeparator, exclusionPatterns...)
		if err != nil { return false }
		return IsPathExcluded(path, regexes...) }`)
	strip := func(x string) string { return strings.ReplaceAll(x, ";", "") }
	newOK := strip(norm(findFunc(ef, "", "NewExclusionRegexList").Body)) == strip(wantNew)
	isOK := strip(norm(findFunc(ef, "", "IsPathExcludedFromPatterns").Body)) == strip(wantIs)
	exStateless := pkgVars == 0 && newOK && isOK
	exNote := fmt.Sprintf("%d package-level var declarations; NewExclusionRegexList as expected: %v; IsPathExcludedFromPatterns as expected: %v", pkgVars, newOK, isOK)
	if !exStateless && pkgVars == 0 {
		die("exclusion.go: NewExclusionRegexList / IsPathExcludedFromPatterns have an unknown shape")
	}

	// ---- listing: one Readdirnames(-1), its error kept
	lsBody := findFunc(ff, "VFS", "LsFromOpenedDirectory").Body
	hasLoop := false
	ast.Inspect(lsBody, func(n ast.Node) bool {
		switch n.(type) {
		case *ast.ForStmt, *ast.RangeStmt:
			hasLoop = true
		}
		return true
	})
	lsText := norm(lsBody)
	lsOneRead := !hasLoop && len(lsBody.List) > 0 && norm(lsBody.List[len(lsBody.List)-1]) == sq(`return dir.Readdirnames(-1)`) && strings.Count(lsText, "Readdir") == 1
	if !lsOneRead && !strings.Contains(lsText, "Readdir") {
		die("LsFromOpenedDirectory: no directory read found:\n%s", lsText)
	}
	lwText := strip(norm(findFunc(ff, "", "LsWithExclusionPatterns").Body))
	wantLw := strip(sq(`{ if isDir, subErr := fs.IsDir(dir); !isDir || subErr != nil { err = fmt.Errorf("path [%v] is not a directory: %w", dir, commonerrors.ErrInvalid); return }
		f, err := fs.GenericOpen(dir)
		if err != nil { return }
		defer func() { _ = f.Close() }()
		AllNames, err := fs.LsFromOpenedDirectory(f)
		_ = f.Close()
		if err != nil { return }
		names, err = ExcludeFiles(AllNames, regexes)
		return }`))
	lsErrKept := lwText == wantLw
	if !lsErrKept && !strings.Contains(lwText, "AllNames,err:=fs.LsFromOpenedDirectory(f)err=f.Close()") {
		die("LsWithExclusionPatterns: body of unknown shape:\n%s", lwText)
	}

	var o strings.Builder
	o.WriteString("(* GENERATED by translator-c04/cmd/rmfacts2coq from utils/filesystem/files.go and utils/platform/deletion*.go of the\n   repository's working tree — DO NOT EDIT; regenerated on every run of ./check C04. *)\nFrom GU Require Import C04.Facts.\n\n")
	fmt.Fprintf(&o, "(* removeWithExclusionPatterns: %s\n   CleanDirWithContextAndExclusionPatterns: %s\n   removeFileWithContext: %s *)\n", strings.Join(rm, " "), strings.Join(cl, " "), strings.Join(nf, " "))
	fmt.Fprintf(&o, "Definition rm : rm_facts := mkRm %s %s %s %s %s %s %s %s %s %s %s %s %s %s %s %s.\n\n", b(rmLinkFirst), b(rmLinkCtx), rmLinkExcl, b(rmLinkReturns),
		b(rmCleanErrFirst), b(rmCleanPatterns), b(rmStop), b(rmFinalCtx), rmFinalExcl, b(clLs), b(clStop), b(clPat), nested, b(nestedPat), b(rmCleaned), b(rmFailClosed))
	fmt.Fprintf(&o, "(* garbageCollect: %s *)\nDefinition gc : gc_facts := mkGc %s %s %s.\n\n", strings.Join(g, " "), b(gcLinkFirst), b(gcExistsFirst), b(gcFailClosed))
	fmt.Fprintf(&o, "(* VFS.RemoveWithPrivileges: %s *)\nDefinition priv : priv_facts := mkPriv %s %s %s %s %s %s.\n\n", strings.Join(pv, " "), b(pvGuard), b(pvRec), b(forcePath), b(resolves), b(pvCleaned), b(pvFailClosed))
	fmt.Fprintf(&o, "(* exclusion.go: %s *)\nDefinition ex : ex_facts := mkEx %s.\n\n", exNote, b(exStateless))
	fmt.Fprintf(&o, "(* LsFromOpenedDirectory / LsWithExclusionPatterns *)\nDefinition ls : ls_facts := mkLs %s %s.\n", b(lsOneRead), b(lsErrKept))
	old, _ := os.ReadFile(out)
	if string(old) != o.String() {
		if err := os.WriteFile(out, []byte(o.String()), 0o644); err != nil {
			die("%v", err)
		}
	}
}
