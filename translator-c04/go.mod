module verif/translator-c04

go 1.23
