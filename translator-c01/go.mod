module verif/translatorc01

go 1.24.1
