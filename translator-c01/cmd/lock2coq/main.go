// lock2coq reads utils/filesystem/lockfile.go of $VERIF_REPO (default /repo) with go/ast, matches the functions the C01
// model mirrors statement by statement against a closed list of shapes and writes the FACTS it finds as a Coq record
// (coq/C01/Gen.v, type lockfacts of coq/C01/Facts.v), only when the content changes.  Any statement that is not one of
// the listed shapes is an error (exit 1): the tie between model and source breaks rather than guesses.
//
// Functions read: NewGenericRemoteLockFile (periods), heartBeat (loop body), IsStale, areHeartBeatFilesAllStale, isStale
// (guards, which period, comparison), ReleaseIfStale, TryLock (mkdir call, which error means "held", the nested
// stale / override branches and what they call and return, where the heartbeat is started and with which context),
// heartBeatFile, Lock (retry condition), LockWithTimeout (what happens on timeout), Unlock (cancel first, Rm, Exists
// re-check, number of attempts).
package main

import (
	"bytes"
	"fmt"
	"go/ast"
	"go/parser"
	"go/printer"
	"go/token"
	"os"
	"path/filepath"
	"regexp"
	"strconv"
	"strings"
)

var fset = token.NewFileSet()

func die(n ast.Node, format string, a ...any) {
	where := ""
	if n != nil && n.Pos().IsValid() {
		p := fset.Position(n.Pos())
		where = fmt.Sprintf("%s:%d: ", filepath.Base(p.Filename), p.Line)
	}
	fmt.Fprintf(os.Stderr, "lock2coq: %sunsupported shape: %s\n", where, fmt.Sprintf(format, a...))
	os.Exit(1)
}

func src(n ast.Node) string {
	var b bytes.Buffer
	_ = printer.Fprint(&b, fset, n)
	return strings.Join(strings.Fields(b.String()), " ")
}

var funcs = map[string]*ast.FuncDecl{}

func body(name string) []ast.Stmt {
	fd, ok := funcs[name]
	if !ok {
		fmt.Fprintf(os.Stderr, "lock2coq: function %s not found\n", name)
		os.Exit(1)
	}
	return fd.Body.List
}

func want(n ast.Node, got, exp string, what string) {
	if got != exp {
		die(n, "%s: expected `%s`, found `%s`", what, exp, got)
	}
}

func nstmts(name string, l []ast.Stmt, n int) {
	if len(l) != n {
		var pos ast.Node
		if len(l) > 0 {
			pos = l[0]
		}
		die(pos, "%s: expected %d statements, found %d", name, n, len(l))
	}
}

// ---- facts ----
type facts struct {
	kv    [][2]string
	index map[string]int
}

func (f *facts) set(k, v string) {
	if f.index == nil {
		f.index = map[string]int{}
	}
	if i, ok := f.index[k]; ok {
		f.kv[i][1] = v
		return
	}
	f.index[k] = len(f.kv)
	f.kv = append(f.kv, [2]string{k, v})
}
func b(x bool) string {
	if x {
		return "true"
	}
	return "false"
}

var F facts

func errk(n ast.Node, s string) string {
	switch s {
	case "commonerrors.ErrExists":
		return "EExists"
	case "commonerrors.ErrLocked":
		return "ELocked"
	case "commonerrors.ErrStaleLock":
		return "EStaleLock"
	case "commonerrors.ErrTimeout":
		return "ETimeout"
	case "commonerrors.ErrCancelled":
		return "ECancelled"
	}
	if strings.HasPrefix(s, "commonerrors.Err") {
		return "EOtherErr"
	}
	die(n, "not an error sentinel: %s", s)
	return ""
}

func period(n ast.Node, s string) string {
	switch s {
	case "l.lockHeartBeatPeriod", "lockHeartBeatPeriod":
		return "PHeartBeat"
	case "l.timeBetweenLockTries":
		return "PPoll"
	}
	die(n, "not a period field: %s", s)
	return ""
}

// `if err := parallelisation.DetermineContextError(ctx); err != nil { return <ret> }`
func isCtxCheck(s ast.Stmt, ret string) bool {
	return src(s) == "if err := parallelisation.DetermineContextError(ctx); err != nil { return"+ret+" }"
}

func durationMs(n ast.Node, s string) string {
	m := regexp.MustCompile(`^(\d+) \* time\.Millisecond$`).FindStringSubmatch(s)
	if m == nil {
		die(n, "not a duration in milliseconds: %s", s)
	}
	return m[1]
}

func constructor() {
	l := body("NewGenericRemoteLockFile")
	nstmts("NewGenericRemoteLockFile", l, 1)
	ret, ok := l[0].(*ast.ReturnStmt)
	if !ok || len(ret.Results) != 1 {
		die(l[0], "NewGenericRemoteLockFile: return of a composite literal expected")
	}
	u, ok := ret.Results[0].(*ast.UnaryExpr)
	if !ok {
		die(l[0], "NewGenericRemoteLockFile: &RemoteLockFile{...} expected")
	}
	cl, ok := u.X.(*ast.CompositeLit)
	if !ok {
		die(l[0], "NewGenericRemoteLockFile: composite literal expected")
	}
	seen := 0
	for _, e := range cl.Elts {
		kv := e.(*ast.KeyValueExpr)
		switch src(kv.Key) {
		case "timeBetweenLockTries":
			F.set("poll_ms", durationMs(kv, src(kv.Value)))
			seen++
		case "lockHeartBeatPeriod":
			F.set("hb_period_ms", durationMs(kv, src(kv.Value)))
			seen++
		case "cancelStore":
			want(kv, src(kv.Value), "parallelisation.NewCancelFunctionsStore()", "cancel store")
		case "overrideStaleLock":
			want(kv, src(kv.Value), "overrideStaleLock", "override flag")
		}
	}
	if seen != 2 {
		die(cl, "NewGenericRemoteLockFile: periods not found")
	}
}

func heartBeat() {
	l := body("heartBeat")
	nstmts("heartBeat", l, 1)
	loop, ok := l[0].(*ast.ForStmt)
	if !ok || loop.Init != nil || loop.Cond != nil || loop.Post != nil {
		die(l[0], "heartBeat: `for { ... }` expected")
	}
	var out []string
	for _, s := range loop.Body.List {
		t := src(s)
		switch {
		case isCtxCheck(s, ""):
			out = append(out, "HCtxCheckReturn")
		case t == "now := time.Now()":
			out = append(out, "HNow")
		case regexp.MustCompile(`^_ = fs\.WriteFile\(filepath, .*\)$`).MatchString(t):
			out = append(out, "HWriteIgnoreErr")
		case regexp.MustCompile(`^if err := fs\.WriteFile\(filepath, .*\); err != nil \{ return \}$`).MatchString(t):
			out = append(out, "HWriteReturnOnErr")
		case t == "_ = fs.Chtimes(filepath, now, now)":
			out = append(out, "HChtimesIgnoreErr")
		case t == "parallelisation.SleepWithContext(ctx, period-time.Millisecond)":
			out = append(out, "HSleepPeriodMinusMs 1")
		case t == "parallelisation.SleepWithContext(ctx, period)":
			out = append(out, "HSleepPeriodMinusMs 0")
		default:
			die(s, "heartBeat loop statement: %s", t)
		}
	}
	F.set("hb_body", "["+strings.Join(out, "; ")+"]")
}

func isStaleFns() {
	// ---- IsStale
	l := body("RemoteLockFile.IsStale")
	nstmts("IsStale", l, 5)
	want(l[0], src(l[0]), "lockPath := l.lockPath()", "IsStale[0]")
	want(l[1], src(l[1]), "heartBeatFiles, err := l.fs.Ls(lockPath)", "IsStale[1]")
	m := regexp.MustCompile(`^if err != nil \{ return (true|false) \}$`).FindStringSubmatch(src(l[2]))
	if m == nil {
		die(l[2], "IsStale: `if err != nil { return <bool> }` expected: %s", src(l[2]))
	}
	F.set("is_ls_error_stale", m[1])
	ifs, ok := l[3].(*ast.IfStmt)
	if !ok || ifs.Init != nil || ifs.Else != nil {
		die(l[3], "IsStale: if on the number of files expected")
	}
	F.set("is_empty_test_len_zero", b(src(ifs.Cond) == "len(heartBeatFiles) == 0"))
	if src(ifs.Cond) != "len(heartBeatFiles) == 0" {
		die(ifs, "IsStale: condition `len(heartBeatFiles) == 0` expected: %s", src(ifs.Cond))
	}
	e := ifs.Body.List
	nstmts("IsStale empty branch", e, 3)
	want(e[0], src(e[0]), "dirInfo, err := l.fs.StatTimes(lockPath)", "IsStale empty[0]")
	m = regexp.MustCompile(`^if err != nil \{ return (true|false) \}$`).FindStringSubmatch(src(e[1]))
	if m == nil {
		die(e[1], "IsStale empty branch: `if err != nil { return <bool> }` expected")
	}
	F.set("is_empty_stat_error_stale", m[1])
	m = regexp.MustCompile(`^return isStale\(dirInfo, (.*)\)$`).FindStringSubmatch(src(e[2]))
	if m == nil {
		die(e[2], "IsStale empty branch: `return isStale(dirInfo, <period>)` expected")
	}
	F.set("is_empty_period", period(e[2], m[1]))
	m = regexp.MustCompile(`^return areHeartBeatFilesAllStale\(l\.fs, lockPath, heartBeatFiles, (.*)\)$`).FindStringSubmatch(src(l[4]))
	if m == nil {
		die(l[4], "IsStale: `return areHeartBeatFilesAllStale(l.fs, lockPath, heartBeatFiles, <period>)` expected")
	}
	F.set("is_files_period", period(l[4], m[1]))

	// ---- areHeartBeatFilesAllStale
	l = body("areHeartBeatFilesAllStale")
	nstmts("areHeartBeatFilesAllStale", l, 3)
	want(l[0], src(l[0]), "staleFiles := []bool{}", "areHeartBeatFilesAllStale[0]")
	rng, ok := l[1].(*ast.RangeStmt)
	if !ok || src(rng.X) != "heartBeatFiles" {
		die(l[1], "areHeartBeatFilesAllStale: range over heartBeatFiles expected")
	}
	r := rng.Body.List
	nstmts("areHeartBeatFilesAllStale loop", r, 5)
	want(r[0], src(r[0]), "heartBeat := filepath.Join(lockPath, heartBeatFiles[i])", "loop[0]")
	want(r[1], src(r[1]), "info, err := fs.StatTimes(heartBeat)", "loop[1]")
	m = regexp.MustCompile(`^isStaleB := (true|false)$`).FindStringSubmatch(src(r[2]))
	if m == nil {
		die(r[2], "loop: `isStaleB := <bool>` expected")
	}
	F.set("is_file_stat_error_stale", m[1])
	want(r[3], src(r[3]), "if err == nil { isStaleB = isStale(info, lockHeartBeatPeriod) }", "loop[3]")
	want(r[4], src(r[4]), "staleFiles = append(staleFiles, isStaleB)", "loop[4]")
	switch src(l[2]) {
	case "return collection.All(staleFiles)":
		F.set("is_files_all", "true")
	case "return collection.Any(staleFiles)":
		F.set("is_files_all", "false")
	default:
		die(l[2], "areHeartBeatFilesAllStale: return collection.All/Any(staleFiles) expected")
	}

	// ---- isStale
	l = body("isStale")
	nstmts("isStale", l, 2)
	m = regexp.MustCompile(`^if filetime == nil \{ return (true|false) \}$`).FindStringSubmatch(src(l[0]))
	if m == nil {
		die(l[0], "isStale: nil guard expected")
	}
	F.set("thr_nil_stale", m[1])
	m = regexp.MustCompile(`^return time\.Since\(filetime\.ModTime\(\)\)\.Milliseconds\(\) (>|>=|<|<=) (?:(\d+)\*)?beatPeriod\.Milliseconds\(\)$`).FindStringSubmatch(src(l[1]))
	if m == nil {
		die(l[1], "isStale: `return time.Since(filetime.ModTime()).Milliseconds() OP [k*]beatPeriod.Milliseconds()` expected: %s", src(l[1]))
	}
	F.set("thr_op", map[string]string{">": "OpGt", ">=": "OpGe", "<": "OpLt", "<=": "OpLe"}[m[1]])
	if m[2] == "" {
		m[2] = "1"
	}
	F.set("thr_mult", m[2])
	F.set("thr_ms_both_sides", "true")
}

func releaseIfStale() {
	l := body("RemoteLockFile.ReleaseIfStale")
	switch {
	case len(l) == 2 && src(l[0]) == "if l.IsStale() { return l.Unlock(ctx) }" && src(l[1]) == "return nil":
		F.set("ris_rechecks_stale", "true")
	case len(l) == 1 && src(l[0]) == "return l.Unlock(ctx)":
		F.set("ris_rechecks_stale", "false")
	default:
		die(l[0], "ReleaseIfStale: `if l.IsStale() { return l.Unlock(ctx) }; return nil` expected")
	}
}

func tryLock() {
	l := body("RemoteLockFile.TryLock")
	i := 0
	next := func() ast.Stmt {
		if i >= len(l) {
			die(l[len(l)-1], "TryLock: statement missing after this one")
		}
		i++
		return l[i-1]
	}
	s := next()
	F.set("tl_ctx_check_first", b(isCtxCheck(s, " err")))
	if !isCtxCheck(s, " err") {
		die(s, "TryLock: context check expected first")
	}
	s = next()
	want(s, src(s), "lockPath := l.lockPath()", "TryLock lockPath")
	s = next()
	switch src(s) {
	case "err = l.fs.vfs.Mkdir(lockPath, 0755)":
		F.set("tl_mkdir", "MkExclusive")
	case "err = l.fs.vfs.MkdirAll(lockPath, 0755)", "err = l.fs.MkDir(lockPath)", "err = l.fs.MkDirAll(lockPath, 0755)":
		F.set("tl_mkdir", "MkAll")
	default:
		die(s, "TryLock: the mkdir of the lock directory expected: %s", src(s))
	}
	s = next()
	held, ok := s.(*ast.IfStmt)
	if !ok || held.Init != nil || held.Else != nil {
		die(s, "TryLock: `if <mkdir reported that the directory exists> {...}` expected")
	}
	m := regexp.MustCompile(`^commonerrors\.Any\(ConvertFileSystemError\(err\), (commonerrors\.\w+)\)$`).FindStringSubmatch(src(held.Cond))
	if m == nil {
		die(held, "TryLock: condition `commonerrors.Any(ConvertFileSystemError(err), <sentinel>)` expected: %s", src(held.Cond))
	}
	F.set("tl_held_error", errk(held, m[1]))
	hb := held.Body.List
	nstmts("TryLock held branch", hb, 2)
	st, ok := hb[0].(*ast.IfStmt)
	if !ok || st.Init != nil || st.Else != nil {
		die(hb[0], "TryLock: `if l.IsStale() {...}` expected")
	}
	switch src(st.Cond) {
	case "l.IsStale()":
		F.set("tl_stale_test_is_IsStale", "true")
	case "!l.IsStale()":
		F.set("tl_stale_test_is_IsStale", "false")
	default:
		die(st, "TryLock: staleness test expected: %s", src(st.Cond))
	}
	sb := st.Body.List
	nstmts("TryLock stale branch", sb, 2)
	ov, ok := sb[0].(*ast.IfStmt)
	if !ok || ov.Init != nil || ov.Else != nil {
		die(sb[0], "TryLock: `if l.overrideStaleLock {...}` expected")
	}
	switch src(ov.Cond) {
	case "l.overrideStaleLock":
		F.set("tl_override_flag_positive", "true")
	case "!l.overrideStaleLock":
		F.set("tl_override_flag_positive", "false")
	default:
		die(ov, "TryLock: override test expected: %s", src(ov.Cond))
	}
	ob := ov.Body.List
	nstmts("TryLock override branch", ob, 3)
	switch src(ob[0]) {
	case "_ = l.ReleaseIfStale(ctx)":
		F.set("tl_override_call", "RelIfStale")
	case "_ = l.Unlock(ctx)":
		F.set("tl_override_call", "RelUnlock")
	default:
		die(ob[0], "TryLock override branch: release call expected: %s", src(ob[0]))
	}
	F.set("tl_override_retries_trylock", b(src(ob[1]) == "err = l.TryLock(ctx)" && src(ob[2]) == "return err"))
	if src(ob[1]) != "err = l.TryLock(ctx)" || src(ob[2]) != "return err" {
		die(ob[1], "TryLock override branch: `err = l.TryLock(ctx); return err` expected")
	}
	m = regexp.MustCompile(`^return (commonerrors\.\w+)$`).FindStringSubmatch(src(sb[1]))
	if m == nil {
		die(sb[1], "TryLock: return of a sentinel expected")
	}
	F.set("tl_stale_no_override_result", errk(sb[1], m[1]))
	m = regexp.MustCompile(`^return (commonerrors\.\w+)$`).FindStringSubmatch(src(hb[1]))
	if m == nil {
		die(hb[1], "TryLock: return of a sentinel expected")
	}
	F.set("tl_not_stale_result", errk(hb[1], m[1]))
	// after the held branch
	s = next()
	other := src(s) == "if err != nil { return }" || src(s) == "if err != nil { return err }"
	F.set("tl_other_error_returned", b(other))
	if !other {
		// the statement is something else: the error test is missing
		i--
	}
	hbStarted := false
	chtimes := false
	for i < len(l) {
		s = next()
		t := src(s)
		switch {
		case t == "now := time.Now()":
		case t == "_ = l.fs.Chtimes(lockPath, now, now)":
			chtimes = true
		case t == "heartBeatFilePath := l.heartBeatFile(lockPath)":
		case t == "subctx, cancelFunc := context.WithCancel(ctx)":
			F.set("tl_hb_ctx_with_cancel_of_ctx", "true")
		case t == "l.cancelStore.RegisterCancelFunction(cancelFunc)":
			F.set("tl_hb_cancel_registered", "true")
		case strings.HasPrefix(t, "go heartBeat("):
			m := regexp.MustCompile(`^go heartBeat\((\w+), l\.fs, (l\.\w+), heartBeatFilePath\)$`).FindStringSubmatch(t)
			if m == nil {
				die(s, "TryLock: `go heartBeat(<ctx>, l.fs, <period>, heartBeatFilePath)` expected: %s", t)
			}
			if m[1] != "subctx" {
				F.set("tl_hb_ctx_with_cancel_of_ctx", "false")
			}
			F.set("tl_hb_period", period(s, m[2]))
			hbStarted = true
			F.set("tl_hb_after_error_checks", b(other))
		case t == "return nil":
			if i != len(l) {
				die(s, "TryLock: statements after the final return")
			}
			F.set("tl_success_returns_nil", "true")
		default:
			die(s, "TryLock: statement after the mkdir tests: %s", t)
		}
	}
	F.set("tl_chtimes_dir", b(chtimes))
	if !hbStarted {
		die(l[len(l)-1], "TryLock: the heartbeat is never started")
	}
	for _, k := range []string{"tl_hb_ctx_with_cancel_of_ctx", "tl_hb_cancel_registered", "tl_success_returns_nil"} {
		if _, ok := F.index[k]; !ok {
			F.set(k, "false")
		}
	}
	// heartBeatFile
	hf := body("RemoteLockFile.heartBeatFile")
	nstmts("heartBeatFile", hf, 1)
	F.set("tl_hb_file_from_id", b(src(hf[0]) == `return filepath.Join(lockPath, fmt.Sprintf("%v.lock", l.id))`))
}

func lock() {
	l := body("RemoteLockFile.Lock")
	nstmts("Lock", l, 1)
	loop, ok := l[0].(*ast.ForStmt)
	if !ok || loop.Init != nil || loop.Cond != nil || loop.Post != nil {
		die(l[0], "Lock: `for { ... }` expected")
	}
	b0 := loop.Body.List
	nstmts("Lock loop", b0, 2)
	F.set("lk_ctx_check_first", b(isCtxCheck(b0[0], " err")))
	if !isCtxCheck(b0[0], " err") {
		die(b0[0], "Lock: context check expected first in the loop")
	}
	ifs, ok := b0[1].(*ast.IfStmt)
	if !ok || ifs.Init == nil || src(ifs.Init) != "err := l.TryLock(ctx)" || src(ifs.Cond) != "err != nil" || ifs.Else == nil {
		die(b0[1], "Lock: `if err := l.TryLock(ctx); err != nil {...} else {...}` expected")
	}
	F.set("lk_success_returns_nil", b(src(ifs.Else) == "{ return nil }"))
	if src(ifs.Else) != "{ return nil }" {
		die(ifs.Else, "Lock: the success branch must be `return nil`: %s", src(ifs.Else))
	}
	fb := ifs.Body.List
	nstmts("Lock failure branch", fb, 1)
	in, ok := fb[0].(*ast.IfStmt)
	if !ok || in.Init != nil || in.Else == nil {
		die(fb[0], "Lock: `if err == <sentinel> {wait} else {return err}` expected")
	}
	m := regexp.MustCompile(`^err == (commonerrors\.\w+)$`).FindStringSubmatch(src(in.Cond))
	if m == nil {
		die(in, "Lock: retry condition `err == <sentinel>` expected: %s", src(in.Cond))
	}
	F.set("lk_retry_error", errk(in, m[1]))
	want(in.Body, src(in.Body), "{ waitCtx, cancel := context.WithTimeout(ctx, l.timeBetweenLockTries) <-waitCtx.Done() cancel() }", "Lock wait")
	F.set("lk_other_returns_err", b(src(in.Else) == "{ return err }"))
	if src(in.Else) != "{ return err }" {
		die(in.Else, "Lock: other errors must be returned: %s", src(in.Else))
	}
}

func lockWithTimeout() {
	l := body("RemoteLockFile.LockWithTimeout")
	if len(l) < 2 || !isCtxCheck(l[0], " err") {
		die(l[0], "LockWithTimeout: context check expected first")
	}
	run := "parallelisation.RunActionWithTimeoutAndCancelStore(ctx, timeout, l.cancelStore, l.Lock)"
	switch {
	case len(l) == 2 && src(l[1]) == "return "+run:
		F.set("lwt_runs_lock_with_cancel_store", "true")
		F.set("lwt_unlock_on_timeout", "false")
	case len(l) == 4 && src(l[1]) == "err := "+run && src(l[3]) == "return err":
		ifs, ok := l[2].(*ast.IfStmt)
		if !ok || ifs.Init != nil || ifs.Else != nil || !strings.Contains(src(ifs.Body), "l.Unlock(ctx)") ||
			!regexp.MustCompile(`ErrTimeout`).MatchString(src(ifs.Cond)) {
			die(l[2], "LockWithTimeout: statement between the runner and the return: %s", src(l[2]))
		}
		F.set("lwt_runs_lock_with_cancel_store", "true")
		F.set("lwt_unlock_on_timeout", "true")
	default:
		die(l[1], "LockWithTimeout: `return %s` expected: %s", run, src(l[1]))
	}
}

func unlock() {
	l := body("RemoteLockFile.Unlock")
	i := 0
	cancel := false
	if len(l) > 0 && src(l[0]) == "l.cancelStore.Cancel()" {
		cancel = true
		i = 1
	}
	F.set("ul_cancel_first", b(cancel))
	if len(l) != i+1 {
		die(l[0], "Unlock: `[l.cancelStore.Cancel();] return retry.Do(...)` expected")
	}
	ret, ok := l[i].(*ast.ReturnStmt)
	if !ok || len(ret.Results) != 1 {
		die(l[i], "Unlock: return retry.Do(...) expected")
	}
	call, ok := ret.Results[0].(*ast.CallExpr)
	if !ok || src(call.Fun) != "retry.Do" || len(call.Args) < 2 {
		die(l[i], "Unlock: retry.Do(...) expected")
	}
	fl, ok := call.Args[0].(*ast.FuncLit)
	if !ok {
		die(call, "Unlock: function literal expected as the retried action")
	}
	a := fl.Body.List
	if len(a) < 3 {
		die(fl, "Unlock: action too short")
	}
	F.set("ul_rm_lockpath", b(src(a[0]) == "err := l.fs.Rm(l.lockPath())"))
	if src(a[0]) != "err := l.fs.Rm(l.lockPath())" {
		die(a[0], "Unlock: `err := l.fs.Rm(l.lockPath())` expected: %s", src(a[0]))
	}
	rmErr := regexp.MustCompile(`^if err != nil \{ return commonerrors\.Newf\(err, .*\) \}$`).MatchString(src(a[1]))
	F.set("ul_rm_error_retried", b(rmErr))
	if !rmErr {
		die(a[1], "Unlock: `if err != nil { return commonerrors.Newf(err, ...) }` expected: %s", src(a[1]))
	}
	switch {
	case len(a) == 4 && regexp.MustCompile(`^if l\.fs\.Exists\(l\.lockPath\(\)\) \{ return commonerrors\.Newf\(commonerrors\.ErrLocked, .*\) \}$`).MatchString(src(a[2])) && src(a[3]) == "return nil":
		F.set("ul_recheck_exists", "true")
	case len(a) == 3 && src(a[2]) == "return nil":
		F.set("ul_recheck_exists", "false")
	default:
		die(a[2], "Unlock: `if l.fs.Exists(l.lockPath()) { return ...ErrLocked... }; return nil` expected: %s", src(a[2]))
	}
	attempts, ctx := "", false
	for _, o := range call.Args[1:] {
		t := src(o)
		switch {
		case strings.HasPrefix(t, "retry.Attempts("):
			attempts = strings.TrimSuffix(strings.TrimPrefix(t, "retry.Attempts("), ")")
			if _, err := strconv.Atoi(attempts); err != nil {
				die(o, "Unlock: literal number of attempts expected: %s", t)
			}
		case t == "retry.Context(ctx)":
			ctx = true
		case strings.HasPrefix(t, "retry.MaxJitter("), strings.HasPrefix(t, "retry.DelayType("), strings.HasPrefix(t, "retry.Delay("):
		default:
			die(o, "Unlock: retry option: %s", t)
		}
	}
	if attempts == "" {
		attempts = "10" // retry-go's default
	}
	F.set("ul_attempts", attempts)
	F.set("ul_retry_context", b(ctx))
}

// parallelisation.RunActionWithTimeoutAndCancelStore: LockWithTimeout hands it the lock's OWN cancel store, which also holds
// the cancel functions of the heartbeat writers started through the same lock object.
func runner(repo string) {
	path := filepath.Join(repo, "utils", "parallelisation", "parallelisation.go")
	f, err := parser.ParseFile(fset, path, nil, 0)
	if err != nil {
		fmt.Fprintln(os.Stderr, "lock2coq:", err)
		os.Exit(1)
	}
	var fd *ast.FuncDecl
	for _, d := range f.Decls {
		if x, ok := d.(*ast.FuncDecl); ok && x.Name.Name == "RunActionWithTimeoutAndCancelStore" && x.Body != nil {
			fd = x
		}
	}
	if fd == nil {
		fmt.Fprintln(os.Stderr, "lock2coq: RunActionWithTimeoutAndCancelStore not found")
		os.Exit(1)
	}
	l := fd.Body.List
	exp := []string{
		"err := DetermineContextError(ctx)",
		"if err != nil { return err }",
		"timeoutContext, timeoutCancel := context.WithTimeout(ctx, timeout)",
		"store.RegisterCancelFunction(timeoutCancel)",
		"defer timeoutCancel()",
		"cancelCtx, actionCancel := context.WithCancel(ctx)",
		"store.RegisterCancelFunction(actionCancel)",
		"channel := make(chan error, 1)",
		"go func(actionCtx context.Context, action func(context.Context) error) { channel <- action(actionCtx) }(cancelCtx, blockingAction)",
	}
	nstmts("RunActionWithTimeoutAndCancelStore", l, len(exp)+1)
	for i, e := range exp {
		want(l[i], src(l[i]), e, fmt.Sprintf("RunActionWithTimeoutAndCancelStore[%d]", i))
	}
	F.set("lwt_registers_cancels_in_store", "true")
	sel, ok := l[len(exp)].(*ast.SelectStmt)
	if !ok || len(sel.Body.List) != 2 {
		die(l[len(exp)], "RunActionWithTimeoutAndCancelStore: select with two cases expected")
	}
	for _, c := range sel.Body.List {
		cc := c.(*ast.CommClause)
		var body []string
		for _, st := range cc.Body {
			body = append(body, src(st))
		}
		joined := strings.Join(body, " ; ")
		switch src(cc.Comm) {
		case "err = <-channel":
			switch joined {
			case "if err != nil { actionCancel() <-cancelCtx.Done() } ; err2 := DetermineContextError(timeoutContext) ; if err2 != nil { return err2 } ; timeoutCancel() ; return err":
				F.set("lwt_success_keeps_action_context", "true")
			default:
				if strings.Contains(joined, "store.Cancel()") || strings.Count(joined, "actionCancel()") != 1 {
					F.set("lwt_success_keeps_action_context", "false")
				} else {
					die(cc, "RunActionWithTimeoutAndCancelStore: completion branch: %s", joined)
				}
			}
		case "<-timeoutContext.Done()":
			switch joined {
			case "actionCancel() ; timeoutCancel() ; <-cancelCtx.Done() ; <-channel ; return DetermineContextError(timeoutContext)":
				F.set("lwt_timeout_cancels_store", "false")
			case "store.Cancel() ; <-cancelCtx.Done() ; <-channel ; return DetermineContextError(timeoutContext)",
				"store.Cancel() ; actionCancel() ; timeoutCancel() ; <-cancelCtx.Done() ; <-channel ; return DetermineContextError(timeoutContext)",
				"actionCancel() ; timeoutCancel() ; store.Cancel() ; <-cancelCtx.Done() ; <-channel ; return DetermineContextError(timeoutContext)":
				F.set("lwt_timeout_cancels_store", "true")
			default:
				die(cc, "RunActionWithTimeoutAndCancelStore: timeout branch: %s", joined)
			}
		default:
			die(cc, "RunActionWithTimeoutAndCancelStore: select case: %s", src(cc.Comm))
		}
	}
}

// files.go VFS.Exists / checkDirExists: Unlock's re-check after the removal (and every step of Rm) goes through them.
// The fact that matters to the lock: a Stat that FAILS — for whatever reason — counts as "absent".
func existsFns(repo string) {
	path := filepath.Join(repo, "utils", "filesystem", "files.go")
	f, err := parser.ParseFile(fset, path, nil, 0)
	if err != nil {
		fmt.Fprintln(os.Stderr, "lock2coq:", err)
		os.Exit(1)
	}
	var ex, cde, rm *ast.FuncDecl
	for _, d := range f.Decls {
		if x, ok := d.(*ast.FuncDecl); ok && x.Body != nil && x.Recv != nil {
			switch x.Name.Name {
			case "Exists":
				ex = x
			case "checkDirExists":
				cde = x
			case "removeWithExclusionPatterns":
				rm = x
			}
		}
	}
	if ex == nil || cde == nil {
		fmt.Fprintln(os.Stderr, "lock2coq: VFS.Exists / VFS.checkDirExists not found")
		os.Exit(1)
	}
	l := ex.Body.List
	nstmts("Exists", l, 5)
	want(l[0], src(l[0]), "fi, err := fs.Stat(path)", "Exists[0]")
	eb, ok := l[1].(*ast.IfStmt)
	if !ok || eb.Init != nil || eb.Else != nil || src(eb.Cond) != "err != nil" {
		die(l[1], "Exists: `if err != nil {...}` expected: %s", src(l[1]))
	}
	switch {
	case src(eb.Body) == "{ if IsPathNotExist(err) { return false } }":
		F.set("ex_stat_error_means_absent", "true")
	case strings.Contains(src(eb.Body), "return true"):
		F.set("ex_stat_error_means_absent", "false") // some failure of Stat is answered "exists"
	default:
		die(eb, "Exists: error branch: %s", src(eb.Body))
	}
	want(l[2], src(l[2]), "if fi == nil { return false }", "Exists[2]")
	want(l[3], src(l[3]), "if fi.IsDir() { return fs.checkDirExists(path) }", "Exists[3]")
	want(l[4], src(l[4]), "return true", "Exists[4]")
	F.set("ex_dir_double_check", "true")
	c := cde.Body.List
	exp := []string{
		"exist = false",
		"f, err := fs.vfs.Open(path)",
		"err = ConvertFileSystemError(err)",
		"if err != nil { return }",
		"defer func() { _ = f.Close() }()",
		"_, err = f.Readdirnames(1)",
		"if IsPathNotExist(err) { exist = false } else { exist = true }",
		"_ = f.Close()",
		"return",
	}
	nstmts("checkDirExists", c, len(exp))
	for i, e := range exp {
		want(c[i], src(c[i]), e, fmt.Sprintf("checkDirExists[%d]", i))
	}
	// removal (Rm of the lock directory and of the heartbeat file): the symbolic-link test at its head
	if rm == nil {
		fmt.Fprintln(os.Stderr, "lock2coq: VFS.removeWithExclusionPatterns not found")
		os.Exit(1)
	}
	found := false
	for i, st := range rm.Body.List {
		t := src(st)
		switch {
		case t == "info, lErr := fs.Lstat(dir)":
			if i+1 >= len(rm.Body.List) {
				die(st, "removeWithExclusionPatterns: statement after the Lstat missing")
			}
			nx := src(rm.Body.List[i+1])
			if nx == "if lErr != nil && !IsPathNotExist(lErr) && !commonerrors.Any(lErr, commonerrors.ErrNotFound, commonerrors.ErrNotImplemented) { err = lErr return }" {
				F.set("rm_lstat_failure_fails", "true")
			} else {
				die(rm.Body.List[i+1], "removeWithExclusionPatterns: handling of a failed Lstat: %s", nx)
			}
			found = true
		case strings.HasPrefix(t, "if info, subErr := fs.Lstat(dir); subErr == nil && IsSymLink(info) {"):
			F.set("rm_lstat_failure_fails", "false") // a failed Lstat is read as "not a link" and the removal goes on
			found = true
		}
	}
	if !found {
		die(rm, "removeWithExclusionPatterns: the Lstat of the symbolic-link test not found")
	}
	F.set("ex_open_error_means_absent", "true")
	F.set("ex_readdir_error_other_than_notexist_means_present", "true")
}

func main() {
	if len(os.Args) != 2 {
		fmt.Fprintln(os.Stderr, "usage: lock2coq <out.v>")
		os.Exit(2)
	}
	repo := os.Getenv("VERIF_REPO")
	if repo == "" {
		repo = "/repo"
	}
	path := filepath.Join(repo, "utils", "filesystem", "lockfile.go")
	f, err := parser.ParseFile(fset, path, nil, 0)
	if err != nil {
		fmt.Fprintln(os.Stderr, "lock2coq:", err)
		os.Exit(1)
	}
	for _, d := range f.Decls {
		fd, ok := d.(*ast.FuncDecl)
		if !ok || fd.Body == nil {
			continue
		}
		name := fd.Name.Name
		if fd.Recv != nil && len(fd.Recv.List) == 1 {
			t := fd.Recv.List[0].Type
			if st, ok := t.(*ast.StarExpr); ok {
				t = st.X
			}
			if id, ok := t.(*ast.Ident); ok {
				name = id.Name + "." + name
			}
		}
		funcs[name] = fd
	}
	constructor()
	tryLock()
	releaseIfStale()
	isStaleFns()
	lock()
	lockWithTimeout()
	runner(repo)
	unlock()
	heartBeat()
	existsFns(repo)

	var out bytes.Buffer
	out.WriteString("(* GENERATED by translator-c01/cmd/lock2coq from utils/filesystem/lockfile.go, files.go (Exists, checkDirExists) and utils/parallelisation/parallelisation.go\n   (RunActionWithTimeoutAndCancelStore) of the repository's working tree —\n   DO NOT EDIT; regenerated on every run of ./check C01. *)\nFrom Coq Require Import List.\nImport ListNotations.\nFrom GU Require Import C01.Facts C01.Model.\n\nDefinition facts : lockfacts := {|\n")
	for i, kv := range F.kv {
		sep := ";"
		if i == len(F.kv)-1 {
			sep = ""
		}
		fmt.Fprintf(&out, "  %s := %s%s\n", kv[0], kv[1], sep)
	}
	out.WriteString("|}.\n\n(* the correspondence check of the harness's case files, on the model instantiated with the generated facts *)\nDefinition check_case_gen : case -> bool := check_case facts.\n")
	old, _ := os.ReadFile(os.Args[1])
	if !bytes.Equal(old, out.Bytes()) {
		if err := os.WriteFile(os.Args[1], out.Bytes(), 0o644); err != nil {
			fmt.Fprintln(os.Stderr, "lock2coq:", err)
			os.Exit(1)
		}
	}
}
