module verif/translatorc13

go 1.24.1
