// loglocks2coq extracts the LOCK TABLE behind property C13 from utils/logs/*.go (go/ast only, no type checking):
// for every exported method of every struct type of package logs, every access to a field of the receiver is listed
// with
//   - the kind of access: mutate (assignment to the field / an element / a sub-field, ++/--, or a call of a known
//     mutator method of a value of type strings.Builder / bytes.Buffer stored in the field), sync (a method call on a
//     self-synchronised value: sync.Map, sync/atomic and go.uber.org/atomic types) or read (everything else);
//   - the mode in which a mutex FIELD OF THE SAME STRUCT is held at that point (none / RLock / Lock); lock state is
//     followed linearly through the method body (Lock, RLock, Unlock, RUnlock, defer Unlock); unexported methods of the
//     same receiver are inlined at their call sites with the caller's lock state;
//   - the phase: "init" for the explicit list of construction-phase helpers (checked here: they are only called from
//     New* constructor functions), otherwise "run".
//
// It writes coq/C13/Gen.v and coq/C13/loglocks.json (only when their content changes).  Any shape it does not know
// (a lock operation inside a nested block, an unknown receiver form, recursion between helpers, ...) is an error
// (exit 1): the tie must break rather than guess.
package main

import (
	"encoding/json"
	"fmt"
	"go/ast"
	"go/parser"
	"go/token"
	"os"
	"path/filepath"
	"sort"
	"strings"
)

type entry struct {
	Owner  string `json:"owner"`
	Method string `json:"method"`
	Field  string `json:"field"`
	Access string `json:"access"` // mutate | read | sync
	Lock   string `json:"lock"`   // none | shared | exclusive
	Phase  string `json:"phase"`  // init | run
	Pos    string `json:"pos"`
}

type field struct {
	name     string
	typ      string // printed type expression
	embedded bool
}

type structInfo struct {
	name   string
	fields []field
}

var (
	fset            = token.NewFileSet()
	structs         = map[string]*structInfo{}
	methods         = map[string]map[string]*ast.FuncDecl{} // receiver type -> method name -> decl
	funcs           []*ast.FuncDecl                         // package-level functions
	entries         []entry
	pkgPrefix       string // "" for package logs, "logrimp." for utils/logs/logrimp
	asyncCloseBoth  bool
	unlocksDeferred bool
)

// construction-phase helpers: called before the object is published
var initPhase = map[string]bool{"JSONLoggers.Configure": true}

func die(pos token.Pos, format string, a ...any) {
	where := ""
	if pos.IsValid() {
		p := fset.Position(pos)
		where = fmt.Sprintf("%s:%d: ", filepath.Base(p.Filename), p.Line)
	}
	fmt.Fprintf(os.Stderr, "loglocks2coq: %sunsupported shape: %s\n", where, fmt.Sprintf(format, a...))
	os.Exit(1)
}

func exprString(e ast.Expr) string {
	switch x := e.(type) {
	case *ast.Ident:
		return x.Name
	case *ast.SelectorExpr:
		return exprString(x.X) + "." + x.Sel.Name
	case *ast.StarExpr:
		return "*" + exprString(x.X)
	case *ast.ArrayType:
		return "[]" + exprString(x.Elt)
	case *ast.MapType:
		return "map[" + exprString(x.Key) + "]" + exprString(x.Value)
	case *ast.FuncType:
		return "func"
	case *ast.InterfaceType:
		return "interface"
	case *ast.ChanType:
		return "chan " + exprString(x.Value)
	case *ast.IndexExpr:
		return exprString(x.X) + "[" + exprString(x.Index) + "]"
	case *ast.Ellipsis:
		return "..." + exprString(x.Elt)
	}
	return fmt.Sprintf("<%T>", e)
}

func isMutexType(t string) bool { return t == "sync.Mutex" || t == "sync.RWMutex" }

// self-synchronised values: every method call on them is safe without an outer lock
func isSyncType(t string) bool {
	t = strings.TrimPrefix(t, "*")
	return t == "sync.Map" || strings.HasPrefix(t, "atomic.")
}

// mutator methods of value types that are NOT self-synchronised
var mutators = map[string]map[string]bool{
	"strings.Builder": {"Write": true, "WriteString": true, "WriteByte": true, "WriteRune": true, "Reset": true, "Grow": true},
	"bytes.Buffer": {"Write": true, "WriteString": true, "WriteByte": true, "WriteRune": true, "Reset": true, "Grow": true,
		"Truncate": true, "ReadFrom": true, "Read": true, "Next": true, "ReadByte": true, "ReadRune": true, "ReadBytes": true,
		"ReadString": true, "UnreadByte": true, "UnreadRune": true, "WriteTo": true},
}

// resolve a field name in struct T, looking through embedded structs declared in the package.
// returns the declaring struct and the field.
func resolveField(T, name string, depth int) (string, *field) {
	s := structs[T]
	if s == nil || depth > 8 {
		return "", nil
	}
	for i := range s.fields {
		if s.fields[i].name == name {
			return T, &s.fields[i]
		}
	}
	for i := range s.fields {
		if s.fields[i].embedded {
			et := strings.TrimPrefix(s.fields[i].typ, "*")
			if o, f := resolveField(et, name, depth+1); f != nil {
				return o, f
			}
		}
	}
	return "", nil
}

// resolve a method name on T (own or promoted from an embedded package-local struct)
func resolveMethod(T, name string, depth int) (string, *ast.FuncDecl) {
	if depth > 8 {
		return "", nil
	}
	if m := methods[T][name]; m != nil {
		return T, m
	}
	s := structs[T]
	if s == nil {
		return "", nil
	}
	for i := range s.fields {
		if s.fields[i].embedded {
			et := strings.TrimPrefix(s.fields[i].typ, "*")
			if o, m := resolveMethod(et, name, depth+1); m != nil {
				return o, m
			}
		}
	}
	return "", nil
}

type lockKey struct{ owner, field string }

type ctx struct {
	entryName string // "RecvType.Method" of the exported entry point
	phase     string
	recvType  string // static type of the receiver variable in the body being walked
	recvVar   string
	held      map[lockKey]string // none (absent) | shared | exclusive
	stack     []string           // inlining stack (recursion guard)
	deferred  []lockKey          // unlocks deferred in the body being walked (run when it returns)
}

func (c *ctx) modeFor(owner string) string {
	// the lock that protects a field = a mutex field declared in the same struct
	best := "none"
	for k, m := range c.held {
		if k.owner == owner {
			if m == "exclusive" || best == "none" {
				best = m
			}
		}
	}
	return best
}

func (c *ctx) record(owner, fname, access string, pos token.Pos) {
	p := fset.Position(pos)
	entries = append(entries, entry{Owner: pkgPrefix + owner, Method: pkgPrefix + c.entryName, Field: fname, Access: access,
		Lock: c.modeFor(owner), Phase: c.phase, Pos: fmt.Sprintf("%s:%d", filepath.Base(p.Filename), p.Line)})
}

// recvField: is e of the form recv.f (f a field of the receiver's struct, possibly promoted)?  returns owner, field
func (c *ctx) recvField(e ast.Expr) (string, *field, bool) {
	sel, ok := e.(*ast.SelectorExpr)
	if !ok {
		return "", nil, false
	}
	id, ok := sel.X.(*ast.Ident)
	if !ok || id.Name != c.recvVar {
		return "", nil, false
	}
	o, f := resolveField(c.recvType, sel.Sel.Name, 0)
	if f == nil {
		return "", nil, false
	}
	return o, f, true
}

// base of an lvalue: strips index / selector / star / paren down to recv.f
func (c *ctx) lvalueBase(e ast.Expr) (string, *field, token.Pos, bool) {
	for {
		if o, f, ok := c.recvField(e); ok {
			return o, f, e.Pos(), true
		}
		switch x := e.(type) {
		case *ast.IndexExpr:
			e = x.X
		case *ast.SelectorExpr:
			e = x.X
		case *ast.StarExpr:
			e = x.X
		case *ast.ParenExpr:
			e = x.X
		case *ast.SliceExpr:
			e = x.X
		default:
			return "", nil, token.NoPos, false
		}
	}
}

// lockOp: recognises recv.mu.Lock() etc.  returns key, op
func (c *ctx) lockOp(call *ast.CallExpr) (lockKey, string, bool) {
	sel, ok := call.Fun.(*ast.SelectorExpr)
	if !ok {
		return lockKey{}, "", false
	}
	switch sel.Sel.Name {
	case "Lock", "RLock", "Unlock", "RUnlock", "TryLock", "TryRLock":
	default:
		return lockKey{}, "", false
	}
	o, f, ok := c.recvField(sel.X)
	if !ok || !isMutexType(f.typ) {
		return lockKey{}, "", false
	}
	if strings.HasPrefix(sel.Sel.Name, "Try") {
		die(call.Pos(), "TryLock on %s.%s", o, f.name)
	}
	return lockKey{o, f.name}, sel.Sel.Name, true
}

func (c *ctx) walkStmts(list []ast.Stmt, top bool) {
	for _, s := range list {
		c.walkStmt(s, top)
	}
}

func (c *ctx) walkStmt(s ast.Stmt, top bool) {
	switch x := s.(type) {
	case nil:
	case *ast.ExprStmt:
		if call, ok := x.X.(*ast.CallExpr); ok {
			if k, op, ok := c.lockOp(call); ok {
				if !top {
					die(call.Pos(), "lock operation %s inside a nested block", op)
				}
				switch op {
				case "Lock":
					c.held[k] = "exclusive"
				case "RLock":
					c.held[k] = "shared"
				case "Unlock", "RUnlock":
					delete(c.held, k)
				}
				return
			}
		}
		c.walkExpr(x.X)
	case *ast.DeferStmt:
		if k, op, ok := c.lockOp(x.Call); ok {
			if op != "Unlock" && op != "RUnlock" {
				die(x.Pos(), "deferred %s", op)
			}
			if !top {
				die(x.Pos(), "deferred unlock inside a nested block")
			}
			c.deferred = append(c.deferred, k)
			return // held until the method returns
		}
		c.walkExpr(x.Call)
	case *ast.GoStmt:
		// the new goroutine does not hold the caller's locks
		saved := c.held
		c.held = map[lockKey]string{}
		c.walkExpr(x.Call)
		c.held = saved
	case *ast.AssignStmt:
		for _, l := range x.Lhs {
			if o, f, pos, ok := c.lvalueBase(l); ok {
				if isMutexType(f.typ) {
					die(pos, "assignment to mutex field")
				}
				c.record(o, f.name, "mutate", pos)
				// index expressions inside the lvalue are reads
				c.walkLvalueIndices(l)
			} else {
				c.walkExpr(l)
			}
		}
		for _, r := range x.Rhs {
			c.walkExpr(r)
		}
	case *ast.IncDecStmt:
		if o, f, pos, ok := c.lvalueBase(x.X); ok {
			c.record(o, f.name, "mutate", pos)
		} else {
			c.walkExpr(x.X)
		}
	case *ast.ReturnStmt:
		for _, r := range x.Results {
			c.walkExpr(r)
		}
	case *ast.BlockStmt:
		c.walkNested(func() { c.walkStmts(x.List, false) })
	case *ast.IfStmt:
		c.walkNested(func() {
			c.walkStmt(x.Init, false)
			c.walkExpr(x.Cond)
			c.walkStmts(x.Body.List, false)
			c.walkStmt(x.Else, false)
		})
	case *ast.ForStmt:
		c.walkNested(func() {
			c.walkStmt(x.Init, false)
			c.walkExpr(x.Cond)
			c.walkStmt(x.Post, false)
			c.walkStmts(x.Body.List, false)
		})
	case *ast.RangeStmt:
		c.walkNested(func() {
			c.walkExpr(x.X)
			c.walkStmts(x.Body.List, false)
		})
	case *ast.SwitchStmt:
		c.walkNested(func() {
			c.walkStmt(x.Init, false)
			c.walkExpr(x.Tag)
			for _, cc := range x.Body.List {
				cl := cc.(*ast.CaseClause)
				for _, e := range cl.List {
					c.walkExpr(e)
				}
				c.walkStmts(cl.Body, false)
			}
		})
	case *ast.TypeSwitchStmt:
		c.walkNested(func() {
			c.walkStmt(x.Init, false)
			c.walkStmt(x.Assign, false)
			for _, cc := range x.Body.List {
				c.walkStmts(cc.(*ast.CaseClause).Body, false)
			}
		})
	case *ast.SelectStmt:
		c.walkNested(func() {
			for _, cc := range x.Body.List {
				cl := cc.(*ast.CommClause)
				c.walkStmt(cl.Comm, false)
				c.walkStmts(cl.Body, false)
			}
		})
	case *ast.DeclStmt:
		if gd, ok := x.Decl.(*ast.GenDecl); ok {
			for _, sp := range gd.Specs {
				if vs, ok := sp.(*ast.ValueSpec); ok {
					for _, v := range vs.Values {
						c.walkExpr(v)
					}
				}
			}
		}
	case *ast.SendStmt:
		c.walkExpr(x.Chan)
		c.walkExpr(x.Value)
	case *ast.LabeledStmt:
		c.walkStmt(x.Stmt, top)
	case *ast.BranchStmt, *ast.EmptyStmt:
	default:
		die(s.Pos(), "statement %T", s)
	}
}

func (c *ctx) walkNested(f func()) {
	before := len(c.held)
	f()
	if len(c.held) != before {
		die(token.NoPos, "lock state changed inside a nested block in %s", c.entryName)
	}
}

func (c *ctx) walkLvalueIndices(e ast.Expr) {
	switch x := e.(type) {
	case *ast.IndexExpr:
		c.walkExpr(x.Index)
		c.walkLvalueIndices(x.X)
	case *ast.SelectorExpr:
		c.walkLvalueIndices(x.X)
	case *ast.StarExpr:
		c.walkLvalueIndices(x.X)
	case *ast.ParenExpr:
		c.walkLvalueIndices(x.X)
	}
}

func (c *ctx) walkExpr(e ast.Expr) {
	switch x := e.(type) {
	case nil:
	case *ast.CallExpr:
		c.walkCall(x)
	case *ast.SelectorExpr:
		if o, f, ok := c.recvField(x); ok {
			if !isMutexType(f.typ) {
				c.record(o, f.name, "read", x.Pos())
			}
			return
		}
		c.walkExpr(x.X)
	case *ast.UnaryExpr:
		if x.Op == token.AND {
			if o, f, pos, ok := c.lvalueBase(x.X); ok {
				// the address of a field escapes: anything may be done through it
				c.record(o, f.name, "mutate", pos)
				return
			}
		}
		c.walkExpr(x.X)
	case *ast.BinaryExpr:
		c.walkExpr(x.X)
		c.walkExpr(x.Y)
	case *ast.ParenExpr:
		c.walkExpr(x.X)
	case *ast.StarExpr:
		c.walkExpr(x.X)
	case *ast.IndexExpr:
		c.walkExpr(x.X)
		c.walkExpr(x.Index)
	case *ast.SliceExpr:
		c.walkExpr(x.X)
		c.walkExpr(x.Low)
		c.walkExpr(x.High)
		c.walkExpr(x.Max)
	case *ast.TypeAssertExpr:
		c.walkExpr(x.X)
	case *ast.CompositeLit:
		for _, el := range x.Elts {
			if kv, ok := el.(*ast.KeyValueExpr); ok {
				c.walkExpr(kv.Value)
			} else {
				c.walkExpr(el)
			}
		}
	case *ast.KeyValueExpr:
		c.walkExpr(x.Value)
	case *ast.FuncLit:
		// a closure may run later, on another goroutine: it holds none of the locks of the enclosing method
		saved := c.held
		c.held = map[lockKey]string{}
		c.walkStmts(x.Body.List, false)
		c.held = saved
	case *ast.Ident, *ast.BasicLit, *ast.ArrayType, *ast.MapType, *ast.FuncType, *ast.InterfaceType, *ast.ChanType, *ast.Ellipsis:
	default:
		die(e.Pos(), "expression %T", e)
	}
}

func (c *ctx) walkCall(call *ast.CallExpr) {
	for _, a := range call.Args {
		c.walkExpr(a)
	}
	sel, ok := call.Fun.(*ast.SelectorExpr)
	if !ok {
		c.walkExpr(call.Fun)
		return
	}
	if _, _, isLock := c.lockOp(call); isLock {
		die(call.Pos(), "lock operation used as an expression")
	}
	// recv.method(...)
	if id, ok := sel.X.(*ast.Ident); ok && id.Name == c.recvVar {
		if o, f := resolveField(c.recvType, sel.Sel.Name, 0); f != nil {
			// calling a function stored in a field
			c.record(o, f.name, "read", sel.Pos())
			return
		}
		if mo, m := resolveMethod(c.recvType, sel.Sel.Name, 0); m != nil {
			if !ast.IsExported(sel.Sel.Name) {
				c.inline(mo, m, call.Pos())
			}
			// exported methods are entry points of their own and take their own locks
			return
		}
		// method of an embedded foreign type or unknown: nothing of ours is touched
		return
	}
	// recv.f.M(...)
	if o, f, ok := c.recvField(sel.X); ok {
		switch {
		case isMutexType(f.typ):
			die(call.Pos(), "mutex method %s", sel.Sel.Name)
		case isSyncType(f.typ):
			c.record(o, f.name, "sync", sel.X.Pos())
		case mutators[f.typ] != nil && mutators[f.typ][sel.Sel.Name]:
			c.record(o, f.name, "mutate", sel.X.Pos())
		default:
			c.record(o, f.name, "read", sel.X.Pos())
		}
		return
	}
	c.walkExpr(sel.X)
}

func recvOf(fd *ast.FuncDecl) (typ, name string) {
	if fd.Recv == nil || len(fd.Recv.List) != 1 {
		return "", ""
	}
	r := fd.Recv.List[0]
	t := r.Type
	if st, ok := t.(*ast.StarExpr); ok {
		t = st.X
	}
	id, ok := t.(*ast.Ident)
	if !ok {
		die(fd.Pos(), "receiver type %s", exprString(r.Type))
	}
	if len(r.Names) == 1 {
		name = r.Names[0].Name
	}
	return id.Name, name
}

func (c *ctx) inline(owner string, m *ast.FuncDecl, at token.Pos) {
	key := owner + "." + m.Name.Name
	for _, s := range c.stack {
		if s == key {
			die(at, "recursion through %s", key)
		}
	}
	_, rv := recvOf(m)
	saveT, saveV := c.recvType, c.recvVar
	c.recvType, c.recvVar = owner, rv
	c.stack = append(c.stack, key)
	before := fmt.Sprint(c.held)
	savedDeferred := c.deferred
	c.deferred = nil
	if m.Body != nil {
		c.walkStmts(m.Body.List, true)
	}
	for _, k := range c.deferred {
		delete(c.held, k) // the helper's deferred unlocks run when it returns
	}
	c.deferred = savedDeferred
	if fmt.Sprint(c.held) != before {
		die(at, "helper %s changes the lock state", key)
	}
	c.stack = c.stack[:len(c.stack)-1]
	c.recvType, c.recvVar = saveT, saveV
}

func coqString(s string) string { return "\"" + strings.ReplaceAll(s, "\"", "\"\"") + "\"" }

func writeIfChanged(path, content string) {
	if old, err := os.ReadFile(path); err == nil && string(old) == content {
		return
	}
	if err := os.WriteFile(path, []byte(content), 0o644); err != nil {
		fmt.Fprintln(os.Stderr, "loglocks2coq:", err)
		os.Exit(1)
	}
}

// closesBothUnconditionally: in AsynchronousLoggers.Close, are eWriter.Close() and oWriter.Close() both called in an
// unconditional position (a statement of the method body, or the init clause of such an if statement) with no return
// statement anywhere before the second of them?
func closesBothUnconditionally() bool {
	m := methods["AsynchronousLoggers"]["Close"]
	if m == nil || m.Body == nil {
		die(token.NoPos, "AsynchronousLoggers.Close not found")
	}
	_, rv := recvOf(m)
	seen := map[string]bool{}
	isClose := func(n ast.Node) string {
		call, ok := n.(*ast.CallExpr)
		if !ok {
			return ""
		}
		sel, ok := call.Fun.(*ast.SelectorExpr)
		if !ok || sel.Sel.Name != "Close" {
			return ""
		}
		in, ok := sel.X.(*ast.SelectorExpr)
		if !ok {
			return ""
		}
		id, ok := in.X.(*ast.Ident)
		if !ok || id.Name != rv {
			return ""
		}
		return in.Sel.Name
	}
	scanUncond := func(n ast.Node) { // calls evaluated whenever the statement is reached (closures and nested blocks excluded)
		ast.Inspect(n, func(x ast.Node) bool {
			switch x.(type) {
			case *ast.FuncLit, *ast.BlockStmt:
				return false
			}
			if f := isClose(x); f != "" {
				seen[f] = true
			}
			return true
		})
	}
	hasReturn := func(n ast.Node) bool {
		r := false
		ast.Inspect(n, func(x ast.Node) bool {
			if _, ok := x.(*ast.FuncLit); ok {
				return false
			}
			if _, ok := x.(*ast.ReturnStmt); ok {
				r = true
			}
			return true
		})
		return r
	}
	for _, st := range m.Body.List {
		switch x := st.(type) {
		case *ast.IfStmt:
			if x.Init != nil {
				scanUncond(x.Init)
			}
			scanUncond(x.Cond)
		case *ast.DeferStmt:
			// a deferred Close runs on every path
			if f := isClose(x.Call); f != "" {
				seen[f] = true
			}
		default:
			scanUncond(st)
		}
		if seen["eWriter"] && seen["oWriter"] {
			return true
		}
		if hasReturn(st) {
			return false
		}
	}
	return false
}

// compositeUnlocksDeferred: in every method of the composite types, is every Unlock / RUnlock of the receiver's mutex
// a DEFERRED call (so that the mutex is released on every path, including a panic raised by a member)?
func compositeUnlocksDeferred() bool {
	ok := true
	for _, t := range []string{"MultipleLogger", "MultipleLoggerWithLoggerSource", "MultipleWritersWithSource"} {
		for _, m := range methods[t] {
			if m.Body == nil {
				continue
			}
			deferred := map[*ast.CallExpr]bool{}
			ast.Inspect(m.Body, func(n ast.Node) bool {
				if d, isDefer := n.(*ast.DeferStmt); isDefer {
					deferred[d.Call] = true
				}
				call, isCall := n.(*ast.CallExpr)
				if !isCall {
					return true
				}
				sel, isSel := call.Fun.(*ast.SelectorExpr)
				if !isSel || (sel.Sel.Name != "Unlock" && sel.Sel.Name != "RUnlock") {
					return true
				}
				if !deferred[call] {
					ok = false
				}
				return true
			})
		}
	}
	return ok
}

// analyse adds the accesses of one package directory to [entries]
func analyse(dir, prefix string, withInit bool) int {
	structs = map[string]*structInfo{}
	methods = map[string]map[string]*ast.FuncDecl{}
	funcs = nil
	pkgPrefix = prefix
	names, err := filepath.Glob(filepath.Join(dir, "*.go"))
	if err != nil || len(names) == 0 {
		fmt.Fprintln(os.Stderr, "loglocks2coq: no Go files in", dir)
		os.Exit(1)
	}
	sort.Strings(names)
	var files []*ast.File
	for _, n := range names {
		if strings.HasSuffix(n, "_test.go") {
			continue
		}
		f, err := parser.ParseFile(fset, n, nil, parser.SkipObjectResolution)
		if err != nil {
			fmt.Fprintln(os.Stderr, "loglocks2coq:", err)
			os.Exit(1)
		}
		// files excluded from ordinary builds (e.g. //go:build verif hooks) are not part of the library
		skip := false
		for _, cg := range f.Comments {
			for _, cm := range cg.List {
				if cm.Pos() < f.Package && strings.HasPrefix(cm.Text, "//go:build") {
					skip = true
				}
			}
		}
		if skip {
			continue
		}
		files = append(files, f)
	}
	for _, f := range files {
		for _, d := range f.Decls {
			switch x := d.(type) {
			case *ast.GenDecl:
				for _, sp := range x.Specs {
					ts, ok := sp.(*ast.TypeSpec)
					if !ok {
						continue
					}
					st, ok := ts.Type.(*ast.StructType)
					if !ok {
						continue
					}
					si := &structInfo{name: ts.Name.Name}
					for _, fl := range st.Fields.List {
						t := exprString(fl.Type)
						if len(fl.Names) == 0 {
							base := strings.TrimPrefix(t, "*")
							if i := strings.LastIndex(base, "."); i >= 0 {
								base = base[i+1:]
							}
							si.fields = append(si.fields, field{name: base, typ: t, embedded: true})
						}
						for _, n := range fl.Names {
							si.fields = append(si.fields, field{name: n.Name, typ: t})
						}
					}
					structs[si.name] = si
				}
			case *ast.FuncDecl:
				if x.Recv == nil {
					funcs = append(funcs, x)
					continue
				}
				t, _ := recvOf(x)
				if methods[t] == nil {
					methods[t] = map[string]*ast.FuncDecl{}
				}
				methods[t][x.Name.Name] = x
			}
		}
	}

	// init-phase helpers may only be called from New* constructor functions
	for key := range initPhase {
		if !withInit {
			break
		}
		parts := strings.SplitN(key, ".", 2)
		if methods[parts[0]][parts[1]] == nil {
			die(token.NoPos, "construction-phase helper %s no longer exists", key)
		}
	}
	checkCalls := func(fd *ast.FuncDecl) {
		if fd.Body == nil {
			return
		}
		isCtor := fd.Recv == nil && strings.HasPrefix(fd.Name.Name, "New")
		ast.Inspect(fd.Body, func(n ast.Node) bool {
			call, ok := n.(*ast.CallExpr)
			if !ok {
				return true
			}
			sel, ok := call.Fun.(*ast.SelectorExpr)
			if !ok {
				return true
			}
			for key := range initPhase {
				if !withInit {
					break
				}
				if sel.Sel.Name == strings.SplitN(key, ".", 2)[1] && !isCtor {
					die(call.Pos(), "construction-phase helper %s called outside a constructor (in %s)", key, fd.Name.Name)
				}
			}
			return true
		})
	}
	for _, fd := range funcs {
		checkCalls(fd)
	}
	var typeNames []string
	for t := range methods {
		typeNames = append(typeNames, t)
	}
	sort.Strings(typeNames)
	for _, t := range typeNames {
		for _, m := range methods[t] {
			checkCalls(m)
		}
	}

	for _, t := range typeNames {
		if structs[t] == nil {
			continue // methods on non-struct types have no fields
		}
		var mnames []string
		for n := range methods[t] {
			mnames = append(mnames, n)
		}
		sort.Strings(mnames)
		for _, n := range mnames {
			if !ast.IsExported(n) {
				continue
			}
			m := methods[t][n]
			if m.Body == nil {
				continue
			}
			_, rv := recvOf(m)
			phase := "run"
			if withInit && initPhase[t+"."+n] {
				phase = "init"
			}
			c := &ctx{entryName: t + "." + n, phase: phase, recvType: t, recvVar: rv, held: map[lockKey]string{}, stack: []string{t + "." + n}}
			if rv == "" || rv == "_" {
				continue // the receiver is not even named: no field can be touched
			}
			c.walkStmts(m.Body.List, true)
		}
	}
	// also the promoted exported methods of embedded package-local structs are entry points of the outer type, but their
	// accesses are exactly those listed under the embedded type: nothing to add.

	if withInit {
		asyncCloseBoth = closesBothUnconditionally()
		unlocksDeferred = compositeUnlocksDeferred()
	}
	return len(typeNames)
}

func main() {
	repo := os.Getenv("VERIF_REPO")
	if repo == "" {
		repo = "/repo"
	}
	out := "/verif/coq/C13"
	if len(os.Args) > 1 {
		out = os.Args[1]
	}
	dir := filepath.Join(repo, "utils", "logs")
	nTypes := analyse(dir, "", true)
	// the logr implementations the adapters are built on (package logrimp): owners and methods carry the prefix
	nTypes += analyse(filepath.Join(dir, "logrimp"), "logrimp.", false)
	var b strings.Builder
	b.WriteString("(* GENERATED by translator-c13/cmd/loglocks2coq from utils/logs/*.go and utils/logs/logrimp/*.go — do not edit.\n")
	b.WriteString("   One line per access to a field of the receiver in an exported method of a struct type of packages logs and logrimp. *)\n")
	b.WriteString("From Coq Require Import List String.\nImport ListNotations.\nFrom GU Require Import C13.Base.\nLocal Open Scope string_scope.\n\n")
	b.WriteString("Definition table : list entry := [\n")
	for i, e := range entries {
		acc := map[string]string{"mutate": "AMutate", "read": "ARead", "sync": "ASync"}[e.Access]
		lk := map[string]string{"none": "LNone", "shared": "LShared", "exclusive": "LExclusive"}[e.Lock]
		ph := map[string]string{"init": "PInit", "run": "PRun"}[e.Phase]
		sep := ";"
		if i == len(entries)-1 {
			sep = ""
		}
		fmt.Fprintf(&b, "  mkEntry %s %s %s %s %s %s %s%s\n", coqString(e.Owner), coqString(e.Method), coqString(e.Field), acc, lk, ph, coqString(e.Pos), sep)
	}
	b.WriteString("].\n\n")
	b.WriteString("(* log.go, AsynchronousLoggers.Close: eWriter.Close() and oWriter.Close() are both called in an unconditional\n   position, no return before the second of them *)\n")
	fmt.Fprintf(&b, "Definition async_close_closes_both : bool := %v.\n", asyncCloseBoth)
	b.WriteString("\n(* multiple_logger.go, writer.go: in the composite types every Unlock / RUnlock is deferred: the mutex is released on\n   every path, including a panic raised by a member *)\n")
	fmt.Fprintf(&b, "Definition composite_unlocks_deferred : bool := %v.\n", unlocksDeferred)
	writeIfChanged(filepath.Join(out, "Gen.v"), b.String())
	js, _ := json.MarshalIndent(map[string]any{"source": dir, "entries": entries, "async_close_closes_both": asyncCloseBoth}, "", " ")
	writeIfChanged(filepath.Join(out, "loglocks.json"), string(js)+"\n")
	fmt.Printf("loglocks2coq: %d accesses in %d struct types\n", len(entries), nTypes)
}
