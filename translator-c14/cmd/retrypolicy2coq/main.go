// retrypolicy2coq regenerates the wait-policy part of the C14 model from the Go source.
//
// It parses and type-checks (go/parser + go/types, amd64 sizes, source importer) the package
// $VERIF_REPO/utils/http (default /repo), takes findRetryAfter and the Apply methods of BasicRetryPolicy,
// LinearBackoffPolicy and ExponentialBackoffPolicy from retry_policy.go and prints one Gallina definition per
// function into coq/C14/Gen.v: a shallow embedding over the hand-written base coq/C14/GoBase.v (64-bit signed
// integer arithmetic with wrap-around, float64 as exact integer-valued doubles with infinities and NaN,
// float->integer conversion of an out-of-range value = the oracle's platform value, the response / header /
// ParseInt / parseDate / time.Until / retryablehttp primitives).
//
// Fragment: parameters and local variables of type int, int64, time.Duration, float64, bool, string, []string,
// *http.Response, time.Time, error; constant expressions (folded by go/types, so the VALUE of e.g.
// maxRetryAfterSeconds or math.MaxInt64/... operands is what is printed); := and = on identifiers; if (with init,
// with else) with or without return; return; + - * / comparisons && || !; conversions between the 64-bit signed
// integer types and float64; math.Pow(2, x); comparisons with nil of *http.Response and error; a fixed table of
// callees.  ANYTHING else is an error: the translator then writes a Gen.v that does not compile and exits 1.
package main

import (
	"encoding/json"
	"flag"
	"fmt"
	"go/ast"
	"go/build"
	"go/constant"
	"go/importer"
	"go/parser"
	"go/token"
	"go/types"
	"os"
	"path/filepath"
	"sort"
	"strings"
)

const pkgPath = "github.com/ARM-software/golang-utils/utils/http"

// callees outside the translated set: Go full name -> base primitive (all take the oracle as last argument)
var externals = map[string]string{
	"strconv.ParseInt": "ext_ParseInt",
	"time.Until":       "ext_time_Until",
	"github.com/hashicorp/go-retryablehttp.LinearJitterBackoff": "ext_LinearJitterBackoff",
	"github.com/hashicorp/go-retryablehttp.DefaultBackoff":      "ext_DefaultBackoff",
	pkgPath + ".parseDate": "ext_parseDate", // loops over layouts: outside the fragment, modelled by the oracle
}

// translated functions: key -> Coq name
var targets = []struct{ recv, name, coq string }{
	{"", "findRetryAfter", "findRetryAfter"},
	{"BasicRetryPolicy", "Apply", "BasicRetryPolicy_Apply"},
	{"LinearBackoffPolicy", "Apply", "LinearBackoffPolicy_Apply"},
	{"ExponentialBackoffPolicy", "Apply", "ExponentialBackoffPolicy_Apply"},
}

var coqReserved = map[string]bool{"o": true, "at": true, "in": true, "fun": true, "let": true, "end": true, "if": true, "then": true, "else": true, "return": true,
	"as": true, "with": true, "match": true, "for": true, "Type": true, "Prop": true, "Set": true, "forall": true, "exists": true, "fix": true, "cofix": true, "where": true, "using": true, "struct": true}

type errT struct {
	pos token.Pos
	msg string
}

type tr struct {
	fset *token.FileSet
	info *types.Info
	// per function
	recvVar  *types.Var
	fields   []string          // receiver fields used, in order of first use
	fieldTyp map[string]string // -> Coq type
	named    []*types.Var      // named results
	results  *types.Tuple
}

func (t *tr) fail(n ast.Node, f string, a ...any) error {
	p := t.fset.Position(n.Pos())
	return fmt.Errorf("%s:%d:%d: outside the translator's fragment: %s", filepath.Base(p.Filename), p.Line, p.Column, fmt.Sprintf(f, a...))
}

func isNamed(tp types.Type, pkg, name string) bool {
	n, ok := tp.(*types.Named)
	return ok && n.Obj().Pkg() != nil && n.Obj().Pkg().Path() == pkg && n.Obj().Name() == name
}

// kindOf: int (64-bit signed integer family) | float | bool | string | strs | resp | time | error
func kindOf(tp types.Type) (string, bool) {
	if isNamed(tp, "time", "Time") {
		return "time", true
	}
	if isNamed(tp, "", "error") || (tp.String() == "error") {
		return "error", true
	}
	if p, ok := tp.(*types.Pointer); ok {
		if isNamed(p.Elem(), "net/http", "Response") {
			return "resp", true
		}
		return "", false
	}
	if s, ok := tp.Underlying().(*types.Slice); ok {
		if b, ok := s.Elem().Underlying().(*types.Basic); ok && b.Kind() == types.String {
			return "strs", true
		}
		return "", false
	}
	b, ok := tp.Underlying().(*types.Basic)
	if !ok {
		return "", false
	}
	switch b.Kind() {
	case types.Int, types.Int64:
		return "int", true // int is 64 bits wide: the type checker runs with amd64 sizes
	case types.Float64, types.UntypedFloat:
		return "float", true
	case types.Bool, types.UntypedBool:
		return "bool", true
	case types.String, types.UntypedString:
		return "string", true
	case types.UntypedInt:
		return "int", true
	}
	return "", false
}

func coqType(k string) string {
	switch k {
	case "int", "time":
		return "Z"
	case "float":
		return "gf"
	case "bool", "error":
		return "bool"
	case "string":
		return "(list Z)"
	case "strs":
		return "(list (list Z))"
	case "resp":
		return "(option response)"
	}
	return "?"
}

func zlit(s string) string {
	if strings.HasPrefix(s, "-") {
		return "(" + s + ")"
	}
	return s
}

func (t *tr) name(id *ast.Ident) (string, error) {
	if coqReserved[id.Name] {
		return "", t.fail(id, "identifier %q clashes with a name of the embedding", id.Name)
	}
	return id.Name, nil
}

func (t *tr) constant(e ast.Expr, tv types.TypeAndValue) (string, error) {
	k, ok := kindOf(tv.Type)
	if !ok {
		return "", t.fail(e, "constant of type %s", tv.Type)
	}
	switch k {
	case "int":
		v := constant.ToInt(tv.Value)
		if v.Kind() != constant.Int {
			return "", t.fail(e, "non-integer constant %s", tv.Value)
		}
		if _, exact := constant.Int64Val(v); !exact {
			return "", t.fail(e, "constant %s does not fit int64", tv.Value)
		}
		return zlit(v.ExactString()), nil
	case "float":
		v := constant.ToInt(tv.Value)
		if v.Kind() != constant.Int {
			return "", t.fail(e, "float constant %s is not an integer (the base has integer-valued doubles only)", tv.Value)
		}
		if i, exact := constant.Int64Val(v); !exact || i > 1<<53 || i < -(1<<53) {
			return "", t.fail(e, "float constant %s too large", tv.Value)
		}
		return "(GFin " + zlit(v.ExactString()) + ")", nil
	case "bool":
		if constant.BoolVal(tv.Value) {
			return "true", nil
		}
		return "false", nil
	case "string":
		bs := []byte(constant.StringVal(tv.Value))
		ps := make([]string, len(bs))
		for i, b := range bs {
			ps[i] = fmt.Sprint(int(b))
		}
		return "[" + strings.Join(ps, "; ") + "]", nil
	}
	return "", t.fail(e, "constant of kind %s", k)
}

func isNil(info *types.Info, e ast.Expr) bool {
	tv, ok := info.Types[e]
	return ok && tv.IsNil()
}

func (t *tr) kind(e ast.Expr) (string, error) {
	tv, ok := t.info.Types[e]
	if !ok {
		return "", t.fail(e, "untyped expression")
	}
	k, ok := kindOf(tv.Type)
	if !ok {
		return "", t.fail(e, "type %s", tv.Type)
	}
	return k, nil
}

var intOps = map[token.Token]string{token.ADD: "i_add", token.SUB: "i_sub", token.MUL: "i_mul", token.QUO: "i_quot",
	token.LSS: "i_lt", token.LEQ: "i_le", token.GTR: "i_gt", token.GEQ: "i_ge", token.EQL: "i_eq", token.NEQ: "i_ne"}
var floatOps = map[token.Token]string{token.MUL: "g_mul", token.EQL: "g_eq", token.NEQ: "g_ne"}
var boolOps = map[token.Token]string{token.LAND: "andb", token.LOR: "orb", token.EQL: "Bool.eqb"}

func (t *tr) callee(call *ast.CallExpr) (*types.Func, error) {
	var id *ast.Ident
	switch f := call.Fun.(type) {
	case *ast.Ident:
		id = f
	case *ast.SelectorExpr:
		if _, isPkg := t.info.Uses[identOf(f.X)].(*types.PkgName); !isPkg {
			return nil, t.fail(call, "method call %s", types.ExprString(call.Fun))
		}
		id = f.Sel
	default:
		return nil, t.fail(call, "call of %s", types.ExprString(call.Fun))
	}
	fn, ok := t.info.Uses[id].(*types.Func)
	if !ok {
		return nil, t.fail(call, "call of %s (not a declared function)", types.ExprString(call.Fun))
	}
	return fn, nil
}

func identOf(e ast.Expr) *ast.Ident {
	id, _ := e.(*ast.Ident)
	return id
}

func (t *tr) args(call *ast.CallExpr) ([]string, error) {
	var as []string
	for _, a := range call.Args {
		s, err := t.expr(a)
		if err != nil {
			return nil, err
		}
		as = append(as, s)
	}
	return as, nil
}

func (t *tr) call(call *ast.CallExpr) (string, error) {
	if call.Ellipsis.IsValid() {
		return "", t.fail(call, "variadic call")
	}
	if tv := t.info.Types[call.Fun]; tv.IsType() { // conversion
		if len(call.Args) != 1 {
			return "", t.fail(call, "conversion with %d operands", len(call.Args))
		}
		to, ok := kindOf(tv.Type)
		if !ok {
			return "", t.fail(call, "conversion to %s", tv.Type)
		}
		from, err := t.kind(call.Args[0])
		if err != nil {
			return "", err
		}
		x, err := t.expr(call.Args[0])
		if err != nil {
			return "", err
		}
		switch from + ">" + to {
		case "int>int":
			return "(i_conv " + x + ")", nil // all of int, int64, time.Duration are 64-bit signed: the identity
		case "int>float":
			return "(g_of_int " + x + ")", nil
		case "float>int":
			return "(g_to_int (o_impl o) " + x + ")", nil
		}
		return "", t.fail(call, "conversion from %s to %s", from, to)
	}
	fn, err := t.callee(call)
	if err != nil {
		return "", err
	}
	full := fn.FullName()
	if full == "math.Pow" {
		if tv := t.info.Types[call.Args[0]]; tv.Value == nil || constant.Compare(constant.ToFloat(tv.Value), token.NEQ, constant.MakeInt64(2)) {
			return "", t.fail(call, "math.Pow with a base other than the constant 2")
		}
		x, err := t.expr(call.Args[1])
		if err != nil {
			return "", err
		}
		return "(g_pow2 " + x + ")", nil
	}
	as, err := t.args(call)
	if err != nil {
		return "", err
	}
	if full == "strconv.ParseInt" && (as[1] != "10" || as[2] != "64") {
		return "", t.fail(call, "strconv.ParseInt with base/bitSize other than 10/64")
	}
	if ext, ok := externals[full]; ok {
		return "(" + ext + " " + strings.Join(append(as, "o"), " ") + ")", nil
	}
	for _, tg := range targets {
		if tg.recv == "" && full == pkgPath+"."+tg.name {
			return "(" + tg.coq + " " + strings.Join(append(as, "o"), " ") + ")", nil
		}
	}
	return "", t.fail(call, "call of %s, which is neither translated nor in the table of primitives", full)
}

func (t *tr) expr(e ast.Expr) (string, error) {
	tv, ok := t.info.Types[e]
	if !ok {
		return "", t.fail(e, "untyped expression %s", types.ExprString(e))
	}
	if tv.Value != nil {
		return t.constant(e, tv)
	}
	switch x := e.(type) {
	case *ast.ParenExpr:
		return t.expr(x.X)
	case *ast.Ident:
		v, ok := t.info.Uses[x].(*types.Var)
		if !ok || v.IsField() || v.Pkg() == nil || v.Parent() == v.Pkg().Scope() {
			return "", t.fail(e, "identifier %s is not a local variable or parameter", x.Name)
		}
		if _, err := t.kind(e); err != nil {
			return "", err
		}
		return t.name(x)
	case *ast.UnaryExpr:
		k, err := t.kind(x.X)
		if err != nil {
			return "", err
		}
		a, err := t.expr(x.X)
		if err != nil {
			return "", err
		}
		switch {
		case x.Op == token.NOT && k == "bool":
			return "(negb " + a + ")", nil
		case x.Op == token.SUB && k == "int":
			return "(i_neg " + a + ")", nil
		}
		return "", t.fail(e, "unary %s on %s", x.Op, k)
	case *ast.BinaryExpr:
		if isNil(t.info, x.X) || isNil(t.info, x.Y) {
			other := x.X
			if isNil(t.info, x.X) {
				other = x.Y
			}
			k, err := t.kind(other)
			if err != nil {
				return "", err
			}
			a, err := t.expr(other)
			if err != nil {
				return "", err
			}
			var nonnil string
			switch k {
			case "resp":
				nonnil = "(resp_nonnil " + a + ")"
			case "error":
				nonnil = "(err_nonnil " + a + ")"
			default:
				return "", t.fail(e, "comparison of %s with nil", k)
			}
			switch x.Op {
			case token.NEQ:
				return nonnil, nil
			case token.EQL:
				return "(negb " + nonnil + ")", nil
			}
			return "", t.fail(e, "operator %s with nil", x.Op)
		}
		kx, err := t.kind(x.X)
		if err != nil {
			return "", err
		}
		ky, err := t.kind(x.Y)
		if err != nil {
			return "", err
		}
		if kx != ky {
			return "", t.fail(e, "operands of kinds %s and %s", kx, ky)
		}
		if x.Op == token.QUO || x.Op == token.MUL || x.Op == token.ADD || x.Op == token.SUB {
			// the result type must be of the same family (no mixed untyped arithmetic left after constant folding)
			if kr, err := t.kind(e); err != nil || kr != kx {
				return "", t.fail(e, "arithmetic result of another kind")
			}
		}
		var op string
		switch kx {
		case "int":
			op = intOps[x.Op]
		case "float":
			op = floatOps[x.Op]
		case "bool":
			op = boolOps[x.Op]
		}
		if op == "" {
			return "", t.fail(e, "operator %s on %s", x.Op, kx)
		}
		a, err := t.expr(x.X)
		if err != nil {
			return "", err
		}
		b, err := t.expr(x.Y)
		if err != nil {
			return "", err
		}
		return "(" + op + " " + a + " " + b + ")", nil
	case *ast.CallExpr:
		if tup, isTuple := tv.Type.(*types.Tuple); isTuple {
			for i := 0; i < tup.Len(); i++ {
				if _, ok := kindOf(tup.At(i).Type()); !ok {
					return "", t.fail(e, "result of type %s", tup.At(i).Type())
				}
			}
		} else if _, err := t.kind(e); err != nil {
			return "", err
		}
		return t.call(x)
	case *ast.SelectorExpr:
		if id := identOf(x.X); id != nil {
			if v, ok := t.info.Uses[id].(*types.Var); ok && v == t.recvVar {
				k, err := t.kind(e)
				if err != nil {
					return "", err
				}
				n := "p_" + x.Sel.Name
				if _, seen := t.fieldTyp[n]; !seen {
					t.fields = append(t.fields, n)
					t.fieldTyp[n] = coqType(k)
				}
				return n, nil
			}
		}
		if k, err := t.kind(x.X); err == nil && k == "resp" && x.Sel.Name == "StatusCode" {
			a, err := t.expr(x.X)
			if err != nil {
				return "", err
			}
			return "(resp_StatusCode " + a + ")", nil
		}
		return "", t.fail(e, "selector %s", types.ExprString(e))
	case *ast.IndexExpr:
		k, err := t.kind(x.X)
		if err == nil && k == "strs" {
			a, err := t.expr(x.X)
			if err != nil {
				return "", err
			}
			itv := t.info.Types[x.Index]
			if itv.Value == nil {
				return "", t.fail(e, "index that is not a constant")
			}
			i, err := t.constant(x.Index, itv)
			if err != nil {
				return "", err
			}
			return "(strs_index " + a + " " + i + ")", nil
		}
		return "", t.fail(e, "index expression %s", types.ExprString(e))
	}
	return "", t.fail(e, "expression %s", types.ExprString(e))
}

// headerLookup recognises  resp.Header[<constant string>]
func (t *tr) headerLookup(e ast.Expr) (string, bool, error) {
	ix, ok := e.(*ast.IndexExpr)
	if !ok {
		return "", false, nil
	}
	sel, ok := ix.X.(*ast.SelectorExpr)
	if !ok || sel.Sel.Name != "Header" {
		return "", false, nil
	}
	if k, err := t.kind(sel.X); err != nil || k != "resp" {
		return "", false, nil
	}
	if !isNamed(t.info.Types[ix.X].Type, "net/http", "Header") {
		return "", false, nil
	}
	ktv := t.info.Types[ix.Index]
	if ktv.Value == nil {
		return "", true, t.fail(e, "header key that is not a constant")
	}
	key, err := t.constant(ix.Index, ktv)
	if err != nil {
		return "", true, err
	}
	r, err := t.expr(sel.X)
	if err != nil {
		return "", true, err
	}
	return "(resp_Header_lookup " + r + " " + key + ")", true, nil
}

type scope map[string]bool

func (s scope) copy() scope {
	c := scope{}
	for k := range s {
		c[k] = true
	}
	return c
}

func hasReturn(n ast.Node) bool {
	found := false
	ast.Inspect(n, func(m ast.Node) bool {
		if _, ok := m.(*ast.ReturnStmt); ok {
			found = true
		}
		if _, ok := m.(*ast.FuncLit); ok {
			return false
		}
		return !found
	})
	return found
}

// assigned: variables of the enclosing scope that the statements assign with '='
func (t *tr) assigned(list []ast.Stmt, sc scope, acc *[]string) {
	seen := map[string]bool{}
	for _, a := range *acc {
		seen[a] = true
	}
	var walk func(n ast.Node)
	walk = func(n ast.Node) {
		ast.Inspect(n, func(m ast.Node) bool {
			if as, ok := m.(*ast.AssignStmt); ok && as.Tok == token.ASSIGN {
				for _, l := range as.Lhs {
					if id := identOf(l); id != nil && sc[id.Name] && !seen[id.Name] {
						seen[id.Name] = true
						*acc = append(*acc, id.Name)
					}
				}
			}
			return true
		})
	}
	for _, s := range list {
		walk(s)
	}
}

func tuple(vs []string) string {
	if len(vs) == 1 {
		return vs[0]
	}
	return "(" + strings.Join(vs, ", ") + ")"
}

func letPat(vs []string) string {
	if len(vs) == 1 {
		return "let " + vs[0] + " :="
	}
	return "let '(" + strings.Join(vs, ", ") + ") :="
}

func ind(n int) string { return strings.Repeat("  ", n) }

// define translates  a, b := rhs  (also the init statement of an if) into the text of a let-binding prefix
func (t *tr) define(as *ast.AssignStmt, sc scope) (string, error) {
	var names []string
	for _, l := range as.Lhs {
		id := identOf(l)
		if id == nil {
			return "", t.fail(as, "assignment to %s", types.ExprString(l))
		}
		if id.Name == "_" {
			names = append(names, "_")
			continue
		}
		n, err := t.name(id)
		if err != nil {
			return "", err
		}
		if as.Tok == token.DEFINE {
			if sc[n] {
				return "", t.fail(as, "':=' re-declares or shadows %s", n)
			}
			if v, ok := t.info.Defs[id].(*types.Var); !ok || v == nil {
				return "", t.fail(as, "':=' of %s", n)
			} else if _, ok := kindOf(v.Type()); !ok {
				return "", t.fail(as, "variable %s of type %s", n, v.Type())
			}
		} else if !sc[n] {
			return "", t.fail(as, "assignment to %s, which is not a local variable", n)
		}
		names = append(names, n)
	}
	if len(as.Rhs) != 1 {
		return "", t.fail(as, "parallel assignment")
	}
	var rhs string
	var err error
	if len(names) == 2 {
		var isLookup bool
		rhs, isLookup, err = t.headerLookup(as.Rhs[0])
		if err != nil {
			return "", err
		}
		if !isLookup {
			if _, isCall := as.Rhs[0].(*ast.CallExpr); !isCall {
				return "", t.fail(as, "two variables from %s", types.ExprString(as.Rhs[0]))
			}
			rhs, err = t.expr(as.Rhs[0])
		}
	} else if len(names) == 1 {
		rhs, err = t.expr(as.Rhs[0])
	} else {
		return "", t.fail(as, "%d variables on the left", len(names))
	}
	if err != nil {
		return "", err
	}
	for _, n := range names {
		if n != "_" {
			sc[n] = true
		}
	}
	return letPat(names) + " " + rhs + " in", nil
}

// stmts translates a statement list; k gives the term to continue with when the list falls off its end
func (t *tr) stmts(list []ast.Stmt, sc scope, d int, k func(sc scope, d int) (string, error)) (string, error) {
	if len(list) == 0 {
		return k(sc, d)
	}
	s, rest := list[0], list[1:]
	switch x := s.(type) {
	case *ast.EmptyStmt:
		return t.stmts(rest, sc, d, k)
	case *ast.ReturnStmt:
		switch {
		case len(x.Results) == 0:
			if len(t.named) == 0 {
				return "", t.fail(x, "bare return without named results")
			}
			var vs []string
			for _, v := range t.named {
				vs = append(vs, v.Name())
			}
			return ind(d) + tuple(vs), nil
		case len(x.Results) == t.results.Len():
			var vs []string
			for _, r := range x.Results {
				e, err := t.expr(r)
				if err != nil {
					return "", err
				}
				vs = append(vs, e)
			}
			return ind(d) + tuple(vs), nil
		}
		return "", t.fail(x, "return of a call's tuple")
	case *ast.AssignStmt:
		if x.Tok != token.DEFINE && x.Tok != token.ASSIGN {
			return "", t.fail(x, "assignment operator %s", x.Tok)
		}
		if x.Tok == token.ASSIGN && len(x.Lhs) != 1 {
			return "", t.fail(x, "tuple assignment with '='")
		}
		let, err := t.define(x, sc)
		if err != nil {
			return "", err
		}
		r, err := t.stmts(rest, sc, d, k)
		if err != nil {
			return "", err
		}
		return ind(d) + let + "\n" + r, nil
	case *ast.IfStmt:
		var elseList []ast.Stmt
		switch e := x.Else.(type) {
		case nil:
		case *ast.BlockStmt:
			elseList = e.List
		default:
			return "", t.fail(x, "else-if chain")
		}
		inner := sc.copy()
		prefix := ""
		if x.Init != nil {
			as, ok := x.Init.(*ast.AssignStmt)
			if !ok || as.Tok != token.DEFINE {
				return "", t.fail(x.Init, "if-initialiser that is not ':='")
			}
			let, err := t.define(as, inner)
			if err != nil {
				return "", err
			}
			prefix = let + " "
		}
		if k, err := t.kind(x.Cond); err != nil || k != "bool" {
			return "", t.fail(x.Cond, "condition")
		}
		cond, err := t.expr(x.Cond)
		if err != nil {
			return "", err
		}
		if !hasReturn(x.Body) && (x.Else == nil || !hasReturn(x.Else)) {
			// the statement only updates variables of the enclosing scope: it becomes  let (vars) := if c then .. else (vars) in
			var vs []string
			t.assigned(x.Body.List, sc, &vs)
			t.assigned(elseList, sc, &vs)
			if len(vs) == 0 {
				return "", t.fail(x, "if statement without effect on the enclosing scope")
			}
			fin := func(scope, int) (string, error) { return ind(d+2) + tuple(vs), nil }
			th, err := t.stmts(x.Body.List, inner.copy(), d+2, fin)
			if err != nil {
				return "", err
			}
			el, err := t.stmts(elseList, inner.copy(), d+2, fin)
			if err != nil {
				return "", err
			}
			r, err := t.stmts(rest, sc, d, k)
			if err != nil {
				return "", err
			}
			return ind(d) + letPat(vs) + "\n" + ind(d+1) + prefix + "if " + cond + " then\n" + th + "\n" + ind(d+1) + "else\n" + el + "\n" + ind(d) + "in\n" + r, nil
		}
		// a branch may return: what follows the statement is continued in each branch that falls through.
		// (variables declared in a branch stay visible in the copy of the continuation; ':=' of a name that is
		// already in scope is rejected, so this cannot capture anything.)
		th, err := t.stmts(append(append([]ast.Stmt{}, x.Body.List...), rest...), inner.copy(), d+1, k)
		if err != nil {
			return "", err
		}
		el, err := t.stmts(append(append([]ast.Stmt{}, elseList...), rest...), inner.copy(), d+1, k)
		if err != nil {
			return "", err
		}
		return ind(d) + prefix + "if " + cond + " then\n" + th + "\n" + ind(d) + "else\n" + el, nil
	}
	return "", t.fail(s, "statement %T", s)
}

func zero(k string) string {
	switch k {
	case "int", "time":
		return "0"
	case "bool", "error":
		return "false"
	case "float":
		return "(GFin 0)"
	}
	return "[]"
}

func (t *tr) function(fd *ast.FuncDecl, coqName string) (string, error) {
	t.recvVar, t.fields, t.fieldTyp, t.named = nil, nil, map[string]string{}, nil
	obj := t.info.Defs[fd.Name].(*types.Func)
	sig := obj.Type().(*types.Signature)
	if sig.Variadic() || sig.TypeParams() != nil {
		return "", t.fail(fd, "variadic or generic function")
	}
	if sig.Recv() != nil {
		t.recvVar = sig.Recv()
	}
	t.results = sig.Results()
	sc := scope{}
	var params []string
	for i := 0; i < sig.Params().Len(); i++ {
		p := sig.Params().At(i)
		k, ok := kindOf(p.Type())
		if !ok {
			return "", t.fail(fd, "parameter %s of type %s", p.Name(), p.Type())
		}
		if coqReserved[p.Name()] || p.Name() == "" || p.Name() == "_" {
			return "", t.fail(fd, "parameter name %q", p.Name())
		}
		sc[p.Name()] = true
		params = append(params, fmt.Sprintf("(%s : %s)", p.Name(), coqType(k)))
	}
	var rts []string
	pre := ""
	for i := 0; i < t.results.Len(); i++ {
		r := t.results.At(i)
		k, ok := kindOf(r.Type())
		if !ok {
			return "", t.fail(fd, "result of type %s", r.Type())
		}
		rts = append(rts, coqType(k))
		if r.Name() != "" {
			if coqReserved[r.Name()] || sc[r.Name()] {
				return "", t.fail(fd, "result name %q", r.Name())
			}
			t.named = append(t.named, r)
			sc[r.Name()] = true
			pre += fmt.Sprintf("  let %s := %s in\n", r.Name(), zero(k))
		}
	}
	if len(rts) == 0 {
		return "", t.fail(fd, "function without result")
	}
	body, err := t.stmts(fd.Body.List, sc, 1, func(scope, int) (string, error) { return "", t.fail(fd, "control reaches the end of the function") })
	if err != nil {
		return "", err
	}
	var fps []string
	for _, f := range t.fields {
		fps = append(fps, fmt.Sprintf("(%s : %s)", f, t.fieldTyp[f]))
	}
	all := append(append(fps, params...), "(o : oracle)")
	from, to := t.fset.Position(fd.Pos()), t.fset.Position(fd.End())
	hdr := fmt.Sprintf("(* %s:%d-%d  func %s%s *)\n", filepath.Base(from.Filename), from.Line, to.Line, recvText(fd), fd.Name.Name)
	return hdr + "Definition " + coqName + " " + strings.Join(all, " ") + " : " + strings.Join(rts, " * ") + " :=\n" + pre + body + ".\n", nil
}

func recvText(fd *ast.FuncDecl) string {
	if fd.Recv == nil || len(fd.Recv.List) == 0 {
		return ""
	}
	return "( " + types.ExprString(fd.Recv.List[0].Type) + " ) " // "( *T )": "(*" would open a nested Coq comment
}

func recvName(fd *ast.FuncDecl) string {
	if fd.Recv == nil || len(fd.Recv.List) == 0 {
		return ""
	}
	e := fd.Recv.List[0].Type
	if s, ok := e.(*ast.StarExpr); ok {
		e = s.X
	}
	if id := identOf(e); id != nil {
		return id.Name
	}
	return "?"
}

func run(repo, out string) error {
	dir := filepath.Join(repo, "utils", "http")
	build.Default.Dir = dir // module mode: resolve third-party imports in the repository's module
	fset := token.NewFileSet()
	ents, err := os.ReadDir(dir)
	if err != nil {
		return err
	}
	var files []*ast.File
	for _, e := range ents {
		n := e.Name()
		if e.IsDir() || !strings.HasSuffix(n, ".go") || strings.HasSuffix(n, "_test.go") {
			continue
		}
		if ok, err := build.Default.MatchFile(dir, n); err != nil || !ok {
			continue
		}
		f, err := parser.ParseFile(fset, filepath.Join(dir, n), nil, parser.ParseComments|parser.SkipObjectResolution)
		if err != nil {
			return fmt.Errorf("parse: %v", err)
		}
		files = append(files, f)
	}
	info := &types.Info{Types: map[ast.Expr]types.TypeAndValue{}, Defs: map[*ast.Ident]types.Object{}, Uses: map[*ast.Ident]types.Object{}}
	conf := types.Config{Importer: importer.ForCompiler(fset, "source", nil), Sizes: types.SizesFor("gc", "amd64")}
	pkg, err := conf.Check(pkgPath, fset, files, info)
	if err != nil {
		return fmt.Errorf("type check: %v", err)
	}
	if err := clientConstructors(pkg, filepath.Join(filepath.Dir(out), "constructors.json")); err != nil {
		return err
	}
	decls := map[string]*ast.FuncDecl{}
	for _, f := range files {
		for _, d := range f.Decls {
			if fd, ok := d.(*ast.FuncDecl); ok && fd.Body != nil {
				key := recvName(fd) + "." + fd.Name.Name
				if _, dup := decls[key]; dup {
					return fmt.Errorf("two declarations of %s", key)
				}
				decls[key] = fd
			}
		}
	}
	t := &tr{fset: fset, info: info}
	var b strings.Builder
	b.WriteString("(* GENERATED by translator-c14/cmd/retrypolicy2coq from utils/http/retry_policy.go — do not edit.\n" +
		"   One definition per Go function, a shallow embedding over GU.C14.GoBase; [o] is the oracle (everything taken from\n" +
		"   outside the arithmetic).  Constant expressions are printed with the value go/types computed for them. *)\n" +
		"From Coq Require Import List ZArith Bool.\nImport ListNotations.\nFrom GU Require Import C14.Model C14.GoBase.\nLocal Open Scope Z_scope.\n\n")
	for _, tg := range targets {
		fd, ok := decls[tg.recv+"."+tg.name]
		if !ok {
			return fmt.Errorf("function %s.%s not found in %s", tg.recv, tg.name, dir)
		}
		if filepath.Base(fset.Position(fd.Pos()).Filename) != "retry_policy.go" {
			return fmt.Errorf("function %s.%s is not in retry_policy.go", tg.recv, tg.name)
		}
		s, err := t.function(fd, tg.coq)
		if err != nil {
			return err
		}
		b.WriteString(s + "\n")
	}
	rules, err := convertRules(repo)
	if err != nil {
		return err
	}
	b.WriteString(rules)
	old, _ := os.ReadFile(out)
	if string(old) != b.String() {
		if err := os.WriteFile(out, []byte(b.String()), 0o644); err != nil {
			return err
		}
	}
	fmt.Printf("retrypolicy2coq: %s (%d functions, 1 rule table)\n", out, len(targets))
	return nil
}

// clientConstructors enumerates the public client constructors of utils/http: every exported function that returns an
// IRetryableClient, and every exported function returning an IClient that is handed a configuration containing a retry
// policy.  The list (name, signature, whether a configuration is accepted) is written as JSON for the harness, which
// must drive every one of them end to end and fails closed on an entry it has no driver for.
func clientConstructors(pkg *types.Package, out string) error {
	isNamedHere := func(t types.Type, names ...string) bool {
		if p, ok := t.(*types.Pointer); ok {
			t = p.Elem()
		}
		t = types.Unalias(t)
		n, ok := t.(*types.Named)
		if !ok {
			return false
		}
		for _, x := range names {
			if n.Obj().Name() == x && n.Obj().Pkg() != nil && (n.Obj().Pkg() == pkg || strings.HasSuffix(n.Obj().Pkg().Path(), "/utils/retry")) {
				return true
			}
		}
		return false
	}
	type entry struct {
		Name          string `json:"name"`
		Sig           string `json:"sig"`
		AcceptsConfig bool   `json:"accepts_config"`
		Retryable     bool   `json:"retryable"`
	}
	var es []entry
	for _, n := range pkg.Scope().Names() {
		fn, ok := pkg.Scope().Lookup(n).(*types.Func)
		if !ok || !fn.Exported() {
			continue
		}
		sig := fn.Type().(*types.Signature)
		retryable, client := false, false
		for i := 0; i < sig.Results().Len(); i++ {
			retryable = retryable || isNamedHere(sig.Results().At(i).Type(), "IRetryableClient", "RetryableClient")
			client = client || isNamedHere(sig.Results().At(i).Type(), "IClient", "GenericClient", "PooledClient")
		}
		accepts := false
		for i := 0; i < sig.Params().Len(); i++ {
			accepts = accepts || isNamedHere(sig.Params().At(i).Type(), "HTTPClientConfiguration", "RequestConfiguration", "RetryPolicyConfiguration")
		}
		if retryable || (client && accepts) {
			es = append(es, entry{n, types.TypeString(sig, types.RelativeTo(pkg)), accepts, retryable})
		}
	}
	if len(es) == 0 {
		return fmt.Errorf("no client constructor found in %s", pkg.Path())
	}
	bs, _ := json.MarshalIndent(es, "", " ")
	bs = append(bs, '\n')
	if old, _ := os.ReadFile(out); string(old) != string(bs) {
		return os.WriteFile(out, bs, 0o644)
	}
	return nil
}

// convertRules extracts the FACT TABLE of commonerrors.ConvertContextError (utils/commonerrors/errors.go): the ordered
// list of tests and what each returns.  Recognised shape, nothing else:
//
//	if err == nil { return nil }
//	if Any(err, context.Canceled|context.DeadlineExceeded) { return ErrCancelled|ErrTimeout }   (any number, any order)
//	return err
//
// A test with another operator, operand or callee (e.g. "|| os.IsTimeout(err)") is a translator error.
func convertRules(repo string) (string, error) {
	path := filepath.Join(repo, "utils", "commonerrors", "errors.go")
	fset := token.NewFileSet()
	f, err := parser.ParseFile(fset, path, nil, parser.SkipObjectResolution)
	if err != nil {
		return "", fmt.Errorf("parse: %v", err)
	}
	ctxImported := false
	for _, im := range f.Imports {
		if im.Path.Value == `"context"` && im.Name == nil {
			ctxImported = true
		}
	}
	var fd *ast.FuncDecl
	for _, d := range f.Decls {
		if x, ok := d.(*ast.FuncDecl); ok && x.Recv == nil && x.Name.Name == "ConvertContextError" {
			fd = x
		}
	}
	bad := func(n ast.Node, f string, a ...any) (string, error) {
		p := fset.Position(n.Pos())
		return "", fmt.Errorf("errors.go:%d:%d: ConvertContextError is outside the recognised shape: %s", p.Line, p.Column, fmt.Sprintf(f, a...))
	}
	if fd == nil || fd.Body == nil || !ctxImported {
		return "", fmt.Errorf("%s: ConvertContextError (or the import of context) not found", path)
	}
	ps := fd.Type.Params.List
	if len(ps) != 1 || len(ps[0].Names) != 1 || types.ExprString(ps[0].Type) != "error" || fd.Type.Results == nil || len(fd.Type.Results.List) != 1 || types.ExprString(fd.Type.Results.List[0].Type) != "error" {
		return bad(fd, "signature")
	}
	arg := ps[0].Names[0].Name
	list := fd.Body.List
	if len(list) < 1 {
		return bad(fd, "empty body")
	}
	var rules []string
	for _, st := range list[:len(list)-1] {
		is, ok := st.(*ast.IfStmt)
		if !ok || is.Init != nil || is.Else != nil || len(is.Body.List) != 1 {
			return bad(st, "statement that is not 'if test { return x }'")
		}
		ret, ok := is.Body.List[0].(*ast.ReturnStmt)
		if !ok || len(ret.Results) != 1 {
			return bad(st, "branch that is not a single return")
		}
		rid := identOf(ret.Results[0])
		if rid == nil {
			return bad(ret, "returned expression %s", types.ExprString(ret.Results[0]))
		}
		var test string
		switch c := is.Cond.(type) {
		case *ast.BinaryExpr:
			if c.Op != token.EQL || types.ExprString(c.X) != arg || types.ExprString(c.Y) != "nil" {
				return bad(c, "test %s", types.ExprString(c))
			}
			test = "TNil"
			if rid.Name != "nil" {
				return bad(ret, "nil test returning %s", rid.Name)
			}
		case *ast.CallExpr:
			if types.ExprString(c.Fun) != "Any" || len(c.Args) != 2 || types.ExprString(c.Args[0]) != arg || c.Ellipsis.IsValid() {
				return bad(c, "test %s", types.ExprString(c))
			}
			switch types.ExprString(c.Args[1]) {
			case "context.Canceled":
				test = "TAny CtxCancel"
			case "context.DeadlineExceeded":
				test = "TAny CtxDeadline"
			default:
				return bad(c, "target %s", types.ExprString(c.Args[1]))
			}
		default:
			return bad(is.Cond, "test %s", types.ExprString(is.Cond))
		}
		var res string
		switch rid.Name {
		case "nil":
			res = "RNil"
		case "ErrCancelled":
			res = "RCancelled"
		case "ErrTimeout":
			res = "RTimeout"
		default:
			return bad(ret, "returned value %s", rid.Name)
		}
		rules = append(rules, "("+test+", "+res+")")
	}
	last, ok := list[len(list)-1].(*ast.ReturnStmt)
	if !ok || len(last.Results) != 1 || types.ExprString(last.Results[0]) != arg {
		return bad(list[len(list)-1], "the function does not end with 'return %s'", arg)
	}
	from, to := fset.Position(fd.Pos()), fset.Position(fd.End())
	return fmt.Sprintf("(* utils/commonerrors/errors.go:%d-%d  func ConvertContextError: the ordered tests and what each returns; then 'return %s' *)\n"+
		"Definition ConvertContextError_rules : list (conv_test * result) :=\n  [%s].\n", from.Line, to.Line, arg, strings.Join(rules, "; ")), nil
}

func main() {
	out := flag.String("out", "", "output file (default ../coq/C14/Gen.v relative to the translator module)")
	flag.Parse()
	repo := os.Getenv("VERIF_REPO")
	if repo == "" {
		repo = "/repo"
	}
	if *out == "" {
		wd, _ := os.Getwd()
		*out = filepath.Join(wd, "..", "coq", "C14", "Gen.v")
	}
	if err := run(repo, *out); err != nil {
		fmt.Fprintln(os.Stderr, "retrypolicy2coq: ERROR:", err)
		// fail closed: leave a Gen.v that cannot be compiled, so that no stale model is checked
		msg := strings.ReplaceAll(err.Error(), "*)", "* )")
		_ = os.WriteFile(filepath.Join(filepath.Dir(*out), "constructors.json"), []byte("[]\n"), 0o644)
		_ = os.WriteFile(*out, []byte("(* retrypolicy2coq FAILED: "+msg+" *)\nDefinition translator_failed : False := I.\n"), 0o644)
		os.Exit(1)
	}
	_ = sort.Strings
}
