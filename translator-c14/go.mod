module verif/translator-c14

go 1.24.1
