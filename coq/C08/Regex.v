(* C08 — a small regular-expression library (self-contained; used by C08/Model.v).
   Syntax over characters (bytes as Z), denotational [matches], executable matcher by Brzozowski derivatives
   ([matchb], lemma [matchb_correct]), UNANCHORED search [finds] (Go's regexp.MatchString is unanchored) with the
   executable [findb] ([findb_correct]), and the lemma [finds_sep_split] / [finds_component]:
   a pattern that cannot match the separator finds a match in a separator-joined path iff it finds one inside a
   single component.  The matcher is compared with Go's regexp on every run (CaseMatch correspondence cases). *)
From Coq Require Import List ZArith Bool Lia.
Import ListNotations.
Local Open Scope Z_scope.

Definition str := list Z.

(* [Any] is Go's `.` (every character except '\n' = 10); [Cls neg ranges] is a bracket class `[a-cx]` / `[^a-cx]`
   ([Cls true []] matches every character, newline included — it is never printed, only used internally). *)
Inductive re :=
| Emp | Eps | Chr (c : Z) | Any | Cls (neg : bool) (ranges : list (Z * Z))
| Cat (a b : re) | Alt (a b : re) | Star (a : re) | Plus (a : re) | Opt (a : re).

Definition in_ranges (rs : list (Z * Z)) (c : Z) : bool :=
  existsb (fun r => (fst r <=? c) && (c <=? snd r)) rs.
Definition cls_ok (neg : bool) (rs : list (Z * Z)) (c : Z) : bool := xorb neg (in_ranges rs c).

Inductive matches : re -> str -> Prop :=
| MEps : matches Eps []
| MChr c : matches (Chr c) [c]
| MAny c : c <> 10 -> matches Any [c]
| MCls neg rs c : cls_ok neg rs c = true -> matches (Cls neg rs) [c]
| MCat a b s1 s2 : matches a s1 -> matches b s2 -> matches (Cat a b) (s1 ++ s2)
| MAltL a b s : matches a s -> matches (Alt a b) s
| MAltR a b s : matches b s -> matches (Alt a b) s
| MStar0 a : matches (Star a) []
| MStarS a s1 s2 : matches a s1 -> matches (Star a) s2 -> matches (Star a) (s1 ++ s2)
| MPlus a s1 s2 : matches a s1 -> matches (Star a) s2 -> matches (Plus a) (s1 ++ s2)
| MOpt0 a : matches (Opt a) []
| MOpt1 a s : matches a s -> matches (Opt a) s.

(* ---- executable matcher ---- *)
Fixpoint nullable (r : re) : bool :=
  match r with
  | Emp | Chr _ | Any | Cls _ _ => false
  | Eps | Star _ | Opt _ => true
  | Cat a b => nullable a && nullable b
  | Alt a b => nullable a || nullable b
  | Plus a => nullable a
  end.

Fixpoint ranges_eqb (x y : list (Z * Z)) : bool :=
  match x, y with
  | [], [] => true
  | (a, b) :: x', (c, d) :: y' => (a =? c) && (b =? d) && ranges_eqb x' y'
  | _, _ => false
  end.

Fixpoint re_eqb (x y : re) : bool :=
  match x, y with
  | Emp, Emp | Eps, Eps | Any, Any => true
  | Chr a, Chr b => a =? b
  | Cls n1 r1, Cls n2 r2 => Bool.eqb n1 n2 && ranges_eqb r1 r2
  | Cat a b, Cat c d | Alt a b, Alt c d => re_eqb a c && re_eqb b d
  | Star a, Star b | Plus a, Plus b | Opt a, Opt b => re_eqb a b
  | _, _ => false
  end.

(* smart constructors: keep derivatives small (Emp/Eps elimination, alternatives kept as a duplicate-free
   right-nested list) *)
Definition cat' (a b : re) : re :=
  match a, b with
  | Emp, _ => Emp
  | _, Emp => Emp
  | Eps, _ => b
  | _, Eps => a
  | _, _ => Cat a b
  end.

Fixpoint in_alts (x : re) (b : re) : bool :=
  match b with
  | Alt b1 b2 => re_eqb x b1 || in_alts x b2
  | _ => re_eqb x b
  end.

Fixpoint alt' (a b : re) : re :=
  match a with
  | Emp => b
  | Alt a1 a2 => alt' a1 (alt' a2 b)
  | _ => match b with
         | Emp => a
         | _ => if in_alts a b then b else Alt a b
         end
  end.

Fixpoint deriv (c : Z) (r : re) : re :=
  match r with
  | Emp | Eps => Emp
  | Chr d => if c =? d then Eps else Emp
  | Any => if c =? 10 then Emp else Eps
  | Cls neg rs => if cls_ok neg rs c then Eps else Emp
  | Cat a b => if nullable a then alt' (cat' (deriv c a) b) (deriv c b) else cat' (deriv c a) b
  | Alt a b => alt' (deriv c a) (deriv c b)
  | Star a => cat' (deriv c a) (Star a)
  | Plus a => cat' (deriv c a) (Star a)
  | Opt a => deriv c a
  end.

Fixpoint matchb (r : re) (s : str) : bool :=
  match s with
  | [] => nullable r
  | c :: s' => matchb (deriv c r) s'
  end.

(* does some prefix of s match r ? *)
Definition is_emp (r : re) : bool := match r with Emp => true | _ => false end.

Fixpoint prefixb (r : re) (s : str) : bool :=
  nullable r || match s with
                | [] => false
                | c :: s' => if is_emp (deriv c r) then false else prefixb (deriv c r) s'
                end.

(* unanchored search: some segment of s matches r *)
Fixpoint findb (r : re) (s : str) : bool :=
  prefixb r s || match s with [] => false | _ :: s' => findb r s' end.

Definition finds (r : re) (s : str) : Prop := exists pre mid post, s = pre ++ mid ++ post /\ matches r mid.

(* ---- correctness of the matcher ---- *)
Lemma cat_inv a b s : matches (Cat a b) s <-> exists s1 s2, s = s1 ++ s2 /\ matches a s1 /\ matches b s2.
Proof.
  split.
  - intro H; inversion H; subst. eauto.
  - intros (s1 & s2 & -> & H1 & H2). now constructor.
Qed.

Lemma plus_inv a s : matches (Plus a) s <-> exists s1 s2, s = s1 ++ s2 /\ matches a s1 /\ matches (Star a) s2.
Proof.
  split.
  - intro H; inversion H; subst. eauto.
  - intros (s1 & s2 & -> & H1 & H2). now constructor.
Qed.

Lemma nullable_correct r : nullable r = true <-> matches r [].
Proof.
  induction r; simpl.
  - split; [discriminate|]. intro H; inversion H.
  - split; [constructor|auto].
  - split; [discriminate|]. intro H; inversion H.
  - split; [discriminate|]. intro H; inversion H.
  - split; [discriminate|]. intro H; inversion H.
  - rewrite andb_true_iff, IHr1, IHr2, cat_inv. split.
    + intros [H1 H2]. exists [], []. auto.
    + intros (s1 & s2 & E & H1 & H2). symmetry in E. apply app_eq_nil in E as [-> ->]. auto.
  - rewrite orb_true_iff, IHr1, IHr2. split.
    + intros [H|H]; [apply MAltL|apply MAltR]; auto.
    + intro H; inversion H; subst; auto.
  - split; [constructor|auto].
  - rewrite IHr, plus_inv. split.
    + intro H. exists [], []. split; [auto|]. split; [auto|constructor].
    + intros (s1 & s2 & E & H1 & H2). symmetry in E. apply app_eq_nil in E as [-> ->]. auto.
  - split; [constructor|auto].
Qed.

Lemma ranges_eqb_eq x : forall y, ranges_eqb x y = true -> x = y.
Proof.
  induction x as [|[a b] x IH]; intros [|[c d] y]; simpl; intro H; try discriminate; auto.
  apply andb_true_iff in H as [H H3]. apply andb_true_iff in H as [H1 H2].
  apply Z.eqb_eq in H1, H2. subst. f_equal. auto.
Qed.

Lemma re_eqb_eq x : forall y, re_eqb x y = true -> x = y.
Proof.
  induction x; intros []; simpl; intro H; try discriminate; auto.
  - apply Z.eqb_eq in H. now subst.
  - apply andb_true_iff in H as [H1 H2]. apply Bool.eqb_prop in H1. apply ranges_eqb_eq in H2. now subst.
  - apply andb_true_iff in H as [H1 H2]. f_equal; auto.
  - apply andb_true_iff in H as [H1 H2]. f_equal; auto.
  - f_equal; auto.
  - f_equal; auto.
  - f_equal; auto.
Qed.

Lemma matches_Emp s : ~ matches Emp s.
Proof. intro H; inversion H. Qed.

Lemma matches_Eps s : matches Eps s -> s = [].
Proof. intro H; inversion H; auto. Qed.

Lemma cat'_correct a b s : matches (cat' a b) s <-> matches (Cat a b) s.
Proof.
  assert (E1 : forall x, matches (Cat Emp x) s <-> False).
  { intro x; split; [|tauto]. intro H; inversion H; subst. eapply matches_Emp; eauto. }
  assert (E2 : forall x, matches (Cat x Emp) s <-> False).
  { intro x; split; [|tauto]. intro H; inversion H; subst. eapply matches_Emp; eauto. }
  assert (E3 : forall x, matches (Cat Eps x) s <-> matches x s).
  { intro x; split; intro H.
    - inversion H; subst. apply matches_Eps in H2; subst. exact H4.
    - change s with ([] ++ s). constructor; [constructor|exact H]. }
  assert (E4 : forall x, matches (Cat x Eps) s <-> matches x s).
  { intro x; split; intro H.
    - inversion H; subst. apply matches_Eps in H4; subst. now rewrite app_nil_r.
    - rewrite <- (app_nil_r s). constructor; [exact H|constructor]. }
  assert (F : matches Emp s <-> False) by (split; [apply matches_Emp|tauto]).
  destruct a; simpl; rewrite ?E1; try tauto;
    destruct b; simpl; rewrite ?E2, ?E3, ?E4, ?F; tauto.
Qed.

Lemma in_alts_sound x b s : in_alts x b = true -> matches x s -> matches b s.
Proof.
  induction b; simpl; intros H M; try (apply re_eqb_eq in H; subst; exact M).
  apply orb_true_iff in H as [H|H].
  - apply re_eqb_eq in H; subst. now apply MAltL.
  - apply MAltR. auto.
Qed.

Lemma alt_inv a b s : matches (Alt a b) s <-> matches a s \/ matches b s.
Proof.
  split; intro H.
  - inversion H; subst; tauto.
  - destruct H; [apply MAltL|apply MAltR]; auto.
Qed.

Lemma alt'_correct a : forall b s, matches (alt' a b) s <-> matches a s \/ matches b s.
Proof.
  assert (G : forall a b s, (a <> Emp) -> (forall a1 a2, a <> Alt a1 a2) ->
              (matches (match b with Emp => a | _ => if in_alts a b then b else Alt a b end) s
               <-> matches a s \/ matches b s)).
  { intros a0 b s _ _.
    assert (K : matches (if in_alts a0 b then b else Alt a0 b) s <-> matches a0 s \/ matches b s).
    { destruct (in_alts a0 b) eqn:E; [|apply alt_inv].
      split; [tauto|]. intros [H|H]; auto. eapply in_alts_sound; eauto. }
    destruct b; try exact K.
    split; [tauto|]. intros [H|H]; auto. exfalso; eapply matches_Emp; eauto. }
  induction a; intros b0 s; try (apply G; congruence).
  - simpl. split; [tauto|]. intros [H|H]; auto. exfalso; eapply matches_Emp; eauto.
  - simpl. rewrite IHa1, IHa2, alt_inv. tauto.
Qed.

Lemma star_cons_inv a c s :
  matches (Star a) (c :: s) -> exists s1 s2, s = s1 ++ s2 /\ matches a (c :: s1) /\ matches (Star a) s2.
Proof.
  intro H. remember (Star a) as r eqn:Er. remember (c :: s) as w eqn:Ew.
  revert c s Ew. induction H; intros c0 s0 Ew; try discriminate; inversion Er; subst.
  destruct s1 as [|x s1].
  - simpl in Ew. apply IHmatches2; auto.
  - simpl in Ew. inversion Ew; subst. exists s1, s2. auto.
Qed.

Lemma deriv_correct r : forall c s, matches (deriv c r) s <-> matches r (c :: s).
Proof.
  induction r; intros c0 s; simpl.
  - split; intro H; inversion H.
  - split; intro H; inversion H.
  - destruct (c0 =? c) eqn:E.
    + apply Z.eqb_eq in E; subst. split; intro H; inversion H; subst; constructor.
    + apply Z.eqb_neq in E. split; intro H; inversion H; subst; congruence.
  - destruct (c0 =? 10) eqn:E.
    + apply Z.eqb_eq in E; subst. split; intro H; inversion H; subst; congruence.
    + apply Z.eqb_neq in E. split; intro H; inversion H; subst; constructor; auto.
  - destruct (cls_ok neg ranges c0) eqn:E.
    + split; intro H; inversion H; subst; constructor; auto.
    + split; intro H; inversion H; subst; congruence.
  - assert (C1 : matches (cat' (deriv c0 r1) r2) s <-> exists s1 s2, s = s1 ++ s2 /\ matches r1 (c0 :: s1) /\ matches r2 s2).
    { rewrite cat'_correct, cat_inv. split.
      - intros (s1 & s2 & -> & H1 & H2). exists s1, s2. rewrite <- IHr1. auto.
      - intros (s1 & s2 & -> & H1 & H2). exists s1, s2. rewrite IHr1. auto. }
    assert (C2 : matches (Cat r1 r2) (c0 :: s) <->
                 (exists s1 s2, s = s1 ++ s2 /\ matches r1 (c0 :: s1) /\ matches r2 s2) \/
                 (matches r1 [] /\ matches r2 (c0 :: s))).
    { rewrite cat_inv. split.
      - intros (s1 & s2 & E & H1 & H2). destruct s1 as [|x s1]; simpl in E.
        + right. subst. auto.
        + inversion E; subst. left. exists s1, s2. auto.
      - intros [(s1 & s2 & -> & H1 & H2)|[H1 H2]].
        + exists (c0 :: s1), s2. auto.
        + exists [], (c0 :: s). auto. }
    rewrite C2. destruct (nullable r1) eqn:N.
    + rewrite alt'_correct, C1, IHr2. apply nullable_correct in N. tauto.
    + rewrite C1. split; [tauto|]. intros [H|[H _]]; auto.
      apply nullable_correct in H. congruence.
  - rewrite alt'_correct, IHr1, IHr2, alt_inv. tauto.
  - rewrite cat'_correct, cat_inv. split.
    + intros (s1 & s2 & -> & H1 & H2). change (c0 :: s1 ++ s2) with ((c0 :: s1) ++ s2).
      constructor; auto. now apply IHr.
    + intro H. apply star_cons_inv in H as (s1 & s2 & -> & H1 & H2). exists s1, s2. rewrite IHr. auto.
  - rewrite cat'_correct, cat_inv, plus_inv. split.
    + intros (s1 & s2 & -> & H1 & H2). exists (c0 :: s1), s2. rewrite <- IHr. auto.
    + intros (s1 & s2 & E & H1 & H2). destruct s1 as [|x s1]; simpl in E.
      * subst. apply star_cons_inv in H2 as (s1 & s2' & -> & H1' & H2'). exists s1, s2'. rewrite IHr. auto.
      * inversion E; subst. exists s1, s2. rewrite IHr. auto.
  - rewrite IHr. split; intro H; [now apply MOpt1 | now inversion H].
Qed.

Theorem matchb_correct : forall s r, matchb r s = true <-> matches r s.
Proof.
  induction s as [|c s IH]; intro r; simpl.
  - apply nullable_correct.
  - rewrite IH. apply deriv_correct.
Qed.

Lemma prefixb_correct : forall s r, prefixb r s = true <-> exists mid post, s = mid ++ post /\ matches r mid.
Proof.
  induction s as [|c s IH]; intro r; simpl.
  - rewrite orb_false_r, nullable_correct. split.
    + intro H. exists [], []. auto.
    + intros (mid & post & E & H). symmetry in E. apply app_eq_nil in E as [-> _]. exact H.
  - rewrite orb_true_iff, nullable_correct.
    assert (D : (if is_emp (deriv c r) then false else prefixb (deriv c r) s) = true
                <-> exists mid post, s = mid ++ post /\ matches (deriv c r) mid).
    { rewrite <- IH. destruct (deriv c r) eqn:E; simpl; try tauto.
      split; [discriminate|]. rewrite IH. intros (mid & post & _ & H). inversion H. }
    rewrite D. split.
    + intros [H|(mid & post & -> & H)].
      * exists [], (c :: s). auto.
      * exists (c :: mid), post. split; auto. now apply deriv_correct.
    + intros (mid & post & E & H). destruct mid as [|x mid]; [left; exact H|right].
      simpl in E. inversion E; subst. exists mid, post. split; auto. now apply deriv_correct.
Qed.

Theorem findb_correct : forall s r, findb r s = true <-> finds r s.
Proof.
  unfold finds. induction s as [|c s IH]; intro r; cbn [findb].
  - rewrite orb_false_r, prefixb_correct. split.
    + intros (mid & post & E & H). exists [], mid, post. auto.
    + intros (pre & mid & post & E & H). symmetry in E. apply app_eq_nil in E as [-> E].
      exists mid, post. auto.
  - rewrite orb_true_iff, prefixb_correct, IH. split.
    + intros [(mid & post & E & H)|(pre & mid & post & E & H)].
      * exists [], mid, post. auto.
      * exists (c :: pre), mid, post. subst. auto.
    + intros (pre & mid & post & E & H). destruct pre as [|x pre]; simpl in E.
      * left. exists mid, post. auto.
      * right. inversion E; subst. exists pre, mid, post. auto.
Qed.

(* ---- elementary facts about [finds] ---- *)
Lemma matches_finds r s : matches r s -> finds r s.
Proof. intro H. exists [], s, []. rewrite app_nil_r. auto. Qed.

Lemma finds_app_l r s x : finds r s -> finds r (x ++ s).
Proof. intros (pre & mid & post & -> & H). exists (x ++ pre), mid, post. now rewrite <- app_assoc. Qed.

Lemma finds_app_r r s x : finds r s -> finds r (s ++ x).
Proof. intros (pre & mid & post & -> & H). exists pre, mid, (post ++ x). now rewrite <- !app_assoc. Qed.

Lemma finds_trans r s t : (exists pre post, t = pre ++ s ++ post) -> finds r s -> finds r t.
Proof. intros (pre & post & ->) H. apply finds_app_l, finds_app_r, H. Qed.

(* ---- patterns that cannot match the separator ---- *)
Section Sep.
  Variable sep : Z.

  Fixpoint sepfree (r : re) : bool :=
    match r with
    | Emp | Eps => true
    | Chr c => negb (c =? sep)
    | Any => sep =? 10
    | Cls neg rs => negb (cls_ok neg rs sep)
    | Cat a b | Alt a b => sepfree a && sepfree b
    | Star a | Plus a | Opt a => sepfree a
    end.

  Lemma sepfree_no_sep r s : sepfree r = true -> matches r s -> ~ In sep s.
  Proof.
    intros F M. induction M; simpl in F; try (apply andb_true_iff in F as [F1 F2]);
      try (intros [E|[]]; subst); try (intro I; apply in_app_or in I as [I|I]); auto; try tauto.
    - apply negb_true_iff, Z.eqb_neq in F. congruence.
    - apply Z.eqb_eq in F. congruence.
    - apply negb_true_iff in F. congruence.
  Qed.

  Lemma seg_prefix_side (mid post p n : str) :
    mid ++ post = p ++ sep :: n -> ~ In sep mid -> exists post', p = mid ++ post'.
  Proof.
    revert p. induction mid as [|m mid IH]; intros p E NI.
    - exists p. auto.
    - destruct p as [|x p]; simpl in E; inversion E; subst.
      + exfalso. apply NI. now left.
      + destruct (IH p H1) as [post' ->]; [intro; apply NI; now right|]. exists post'. auto.
  Qed.

  Lemma seg_one_side (pre mid post p n : str) :
    pre ++ mid ++ post = p ++ sep :: n -> ~ In sep mid ->
    (exists post', p = pre ++ mid ++ post') \/ (exists pre', n = pre' ++ mid ++ post).
  Proof.
    revert p. induction pre as [|x pre IH]; intros p E NI; simpl in E.
    - left. apply seg_prefix_side in E; auto.
    - destruct p as [|y p]; simpl in E; inversion E; subst.
      + right. exists pre. auto.
      + destruct (IH p H1 NI) as [[post' ->]|[pre' ->]].
        * left. exists post'. auto.
        * right. exists pre'. auto.
  Qed.

  (* the key lemma: a separator-free pattern finds a match in  p / n  iff it finds one in p or in n *)
  Lemma finds_sep_split r p n :
    sepfree r = true -> (finds r (p ++ sep :: n) <-> finds r p \/ finds r n).
  Proof.
    intro F. split.
    - intros (pre & mid & post & E & M). symmetry in E.
      destruct (seg_one_side _ _ _ _ _ E (sepfree_no_sep _ _ F M)) as [[post' ->]|[pre' ->]].
      + left. exists pre, mid, post'. auto.
      + right. exists pre', mid, post. auto.
    - intros [H|H].
      + now apply finds_app_r.
      + apply finds_app_l. change (sep :: n) with ([sep] ++ n). now apply finds_app_l.
  Qed.

  (* the path obtained by joining [root] and the components [rel] with the separator *)
  Definition pjoin (p n : str) : str := p ++ sep :: n.
  Definition path_of (root : str) (rel : list str) : str := fold_left pjoin rel root.

  Theorem finds_component r : sepfree r = true -> forall rel root,
    finds r (path_of root rel) <-> finds r root \/ exists c, In c rel /\ finds r c.
  Proof.
    intro F. unfold path_of. induction rel as [|n rel IH]; intro root; simpl.
    - split; [tauto|]. intros [H|(c & [] & _)]. exact H.
    - rewrite IH. unfold pjoin. rewrite finds_sep_split by exact F. split.
      + intros [[H|H]|(c & I & H)]; eauto.
      + intros [H|(c & [->|I] & H)]; eauto.
  Qed.
End Sep.
