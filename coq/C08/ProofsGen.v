(* C08 — the parameterised model (Model.v, Section Generic) coincides with the hand-written definitions whenever the
   facts of the operation concerned have the expected values; [E] and [E'] are any two compiled lists that exclude
   the same strings.  Each lemma names exactly the facts it needs. *)
From Coq Require Import List ZArith Bool Lia.
Import ListNotations.
From GU Require Import C08.Regex C08.Model C08.Proofs.
Local Open Scope Z_scope.

Definition same_excl (E E' : list re) : Prop := forall s, excl E s = excl E' s.

Section Red.
Variable F : facts.

(* ---- exclusion.go ---- *)
Definition has_plain (fs : list form) : bool := existsb (fun f => match f with FPlain => true | _ => false end) fs.

Lemma form_re_finds f p s : finds (form_re f p) s -> finds p s.
Proof. destruct f; simpl; auto; apply wrap_finds. Qed.

Lemma excl_gexpand_iff pats s : has_plain (x_forms F) = true -> (excl (gexpand F pats) s = true <-> hit pats s).
Proof.
  intro HP. rewrite excl_true_iff. unfold gexpand, hit. split.
  - intros (r & I & H). apply in_flat_map in I as (p & Ip & I). apply in_map_iff in I as (f & <- & _).
    exists p. split; auto. eapply form_re_finds; eauto.
  - intros (p & Ip & H). exists p. split; auto. apply in_flat_map. exists p. split; auto.
    apply in_map_iff. unfold has_plain in HP. apply existsb_exists in HP as (f & If & Hf).
    exists f. destruct f; try discriminate. auto.
Qed.

Lemma gexpand_same pats : has_plain (x_forms F) = true -> same_excl (gexpand F pats) (expand pats).
Proof.
  intros HP s. destruct (excl (gexpand F pats) s) eqn:A, (excl (expand pats) s) eqn:B; auto.
  - apply excl_gexpand_iff in A; auto. apply excl_expand_iff in A. congruence.
  - apply excl_expand_iff in B. apply excl_gexpand_iff in B; auto. congruence.
Qed.

Lemma gcompile_compile raw : x_skip_blank F = true -> x_pattern_as F = AsGiven -> gcompile F raw = compile raw.
Proof. intros H T. induction raw as [|[| |r] raw IH]; simpl; auto; unfold treat; rewrite ?H, ?T, ?IH; auto. Qed.

Lemma same_excl_nil_refl E : same_excl E E. Proof. intro; reflexivity. Qed.

Lemma lsdrop_red E E' x : x_keep_unmatched F = true -> ls_filter F = true -> same_excl E E' -> lsdrop F E x = excl E' x.
Proof. intros K L S. unfold lsdrop, kept. rewrite K, L, negb_involutive. simpl. apply S. Qed.

(* ---- walk ---- *)
Lemma gwalk_node_red E E' n : x_keep_unmatched F = true -> walk_child F = true -> walk_down F = true ->
  same_excl E E' -> gwalk_node F E n = walk_node E' n.
Proof.
  intros K C D S. induction n as [|ch IH] using node_ind'; [reflexivity|].
  cbn [gwalk_node walk_node]. f_equal. apply flat_map_ext_in. intros [x c] I. simpl.
  unfold kept. rewrite K, C, D, negb_involutive. simpl. rewrite (S x). destruct (excl E' x); auto.
  now rewrite (IH x c I).
Qed.

Lemma gwalk_red E E' root t : x_keep_unmatched F = true -> walk_root F = true -> walk_child F = true -> walk_down F = true ->
  same_excl E E' -> gwalk F E root t = walk E' root t.
Proof. intros K R C D S. unfold gwalk, walk. rewrite R, (S root). simpl. now rewrite (gwalk_node_red E E'). Qed.

(* ---- listings ---- *)
Lemma gls_red E E' t : x_keep_unmatched F = true -> ls_filter F = true -> same_excl E E' -> gls F E t = ls E' t.
Proof.
  intros K L S. destruct t as [|ch]; [reflexivity|]. simpl. apply flat_map_ext_in. intros [x c] _. simpl.
  now rewrite (lsdrop_red E E').
Qed.

Lemma gsubdirs_red E E' root t : sub_tested F = TName -> sub_requires_dir F = true -> same_excl E E' ->
  gsubdirs F E root t = subdirs E' t.
Proof.
  intros T R S. destruct t as [|ch]; [reflexivity|]. unfold gsubdirs, subdirs, ls, sub_excl. rewrite T, R. simpl.
  induction ch as [|[x c] ch IH]; [reflexivity|]. simpl. rewrite (S x), IH.
  destruct (excl E' x); simpl; [now rewrite andb_false_r|]. rewrite andb_true_r. destruct (is_dir c); reflexivity.
Qed.

Lemma glist_tree_red E E' n : x_keep_unmatched F = true -> ls_filter F = true -> tree_filtered F = true -> tree_down F = true ->
  same_excl E E' -> glist_tree F E n = list_tree E' n.
Proof.
  intros K L T D S. induction n as [|ch IH] using node_ind'; [reflexivity|].
  cbn [glist_tree list_tree]. apply flat_map_ext_in. intros [x c] I. simpl.
  rewrite T, D, (lsdrop_red E E') by auto. simpl. destruct (excl E' x); auto. now rewrite (IH x c I).
Qed.

(* ---- copy ---- *)
Lemma gcopy_node_red E E' n : x_keep_unmatched F = true -> ls_filter F = true ->
  copy_top_test F = (true, true) -> copy_folder_test F = (true, true) -> copy_file_test F = (true, true) ->
  copy_filtered F = true -> copy_down F = true -> same_excl E E' ->
  forall sp dp, gcopy_node F E sp dp n = copy_node E' sp dp n.
Proof.
  intros K L T1 T2 T3 Fl D S. induction n as [|ch IH] using node_ind'; intros sp dp.
  - simpl. rewrite T3. unfold ctest. simpl. now rewrite (S sp), (S dp).
  - cbn [gcopy_node copy_node]. rewrite T2. unfold ctest at 1. simpl. rewrite (S sp), (S dp).
    destruct (excl E' sp || excl E' dp); auto. f_equal. apply flat_map_ext_in. intros [x c] I. simpl.
    rewrite Fl, D, T1, (lsdrop_red E E') by auto. simpl. unfold ctest. simpl.
    rewrite (S (pjoin sep sp x)), (S dp). destruct (excl E' x); auto.
    destruct (excl E' (pjoin sep sp x) || excl E' dp); auto. now rewrite (IH x c I).
Qed.

Lemma gcopy_top_red E E' src dest base de t : x_keep_unmatched F = true -> ls_filter F = true ->
  copy_top_test F = (true, true) -> copy_folder_test F = (true, true) -> copy_file_test F = (true, true) ->
  copy_filtered F = true -> copy_down F = true -> same_excl E E' ->
  gcopy_top F E src dest base de t = copy_top E' src dest base de t.
Proof.
  intros K L T1 T2 T3 Fl D S. unfold gcopy_top, copy_top. rewrite T1. unfold ctest. simpl. rewrite (S src), (S dest).
  now rewrite !(gcopy_node_red E E').
Qed.

(* ---- remove / clean ---- *)
Definition rm_facts_ok : bool :=
  x_keep_unmatched F && ls_filter F && rm_cleans_with_pats F && rm_stops_if_nonempty F && rm_final_on_tested F &&
  rm_nested_name F && rm_nested_down F && clean_filtered F && clean_down F.

Lemma rm_facts_ok_inv : rm_facts_ok = true ->
  x_keep_unmatched F = true /\ ls_filter F = true /\ rm_cleans_with_pats F = true /\ rm_stops_if_nonempty F = true /\
  rm_final_on_tested F = true /\ rm_nested_name F = true /\ rm_nested_down F = true /\ clean_filtered F = true /\
  clean_down F = true.
Proof. unfold rm_facts_ok. intro H. repeat (apply andb_true_iff in H as [H ?]). repeat split; assumption. Qed.

Lemma gremove_node_red E E' n : rm_facts_ok = true -> same_excl E E' ->
  forall tst p, gremove_node F E tst p n = remove_node E' tst n.
Proof.
  intros H S. destruct (rm_facts_ok_inv H) as (K & L & Cp & St & Fi & Nn & Nd & Cf & Cd).
  induction n as [|ch IH] using node_ind'; intros tst p.
  - simpl. rewrite Fi. now rewrite (S tst).
  - cbn [gremove_node remove_node]. rewrite Cp, St, Fi, Nn, Nd, Cf, Cd. simpl.
    assert (Eq : forall l, (forall x c, In (x, c) l -> In (x, c) ch) ->
      flat_map (fun nc : str * node =>
         if lsdrop F E (fst nc) then [nc] else
         match gremove_node F E (fst nc) (pjoin sep p (fst nc)) (snd nc) with Some c' => [(fst nc, c')] | None => [] end) l =
      flat_map (fun nc : str * node =>
         if excl E' (fst nc) then [nc] else
         match remove_node E' (fst nc) (snd nc) with Some c' => [(fst nc, c')] | None => [] end) l).
    { intros l Hl. apply flat_map_ext_in. intros [x c] I. simpl. rewrite (lsdrop_red E E') by auto.
      destruct (excl E' x); auto. now rewrite (IH x c (Hl x c I)). }
    rewrite (Eq ch) by auto. rewrite (S tst). reflexivity.
Qed.

Lemma gclean_dir_red E E' p t : rm_facts_ok = true -> same_excl E E' -> gclean_dir F E p t = clean_dir E' t.
Proof.
  intros H S. pose proof (gremove_node_red E E') as R.
  destruct (rm_facts_ok_inv H) as (K & L & Cp & St & Fi & Nn & Nd & Cf & Cd).
  destruct t as [|ch]; [reflexivity|]. simpl. rewrite Nn, Nd, Cf, Cd. simpl. f_equal.
  apply flat_map_ext_in. intros [x c] I. simpl. rewrite (lsdrop_red E E') by auto.
  destruct (excl E' x); auto. now rewrite R.
Qed.
End Red.

(* ================= what each operation returns, under the facts of that operation ================= *)
Section Out.
Variable F : facts.

Definition x_ok : Prop := x_keep_unmatched F = true /\ has_plain (x_forms F) = true.
Definition walk_ok : Prop := walk_own F = false /\ walk_root F = true /\ walk_child F = true /\ walk_down F = true.
Definition ls_ok : Prop := ls_own F = false /\ ls_filter F = true.
Definition lsrec_ok : Prop := lsrec_own F = false /\ lsrec_with_pats F = true.
Definition tree_ok : Prop := tree_own F = false /\ ls_filter F = true /\ tree_filtered F = true /\ tree_down F = true.
Definition sub_ok : Prop := sub_own F = false /\ sub_tested F = TName /\ sub_requires_dir F = true.
Definition copy_ok : Prop :=
  copy_own F = false /\ ls_filter F = true /\ copy_top_test F = (true, true) /\ copy_folder_test F = (true, true) /\
  copy_file_test F = (true, true) /\ copy_filtered F = true /\ copy_down F = true.
Definition zip_ok : Prop := zip_own F = false /\ zip_with_pats F = true.
Definition rm_ok : Prop := rm_own F = false /\ clean_own F = false /\ rm_facts_ok F = true.

Lemma g_walk_out raw pats root dest base t : x_ok -> walk_ok -> gcompile F raw = Some pats ->
  grun_op F OWalk raw root dest base t = GOut (walk (expand pats) root t).
Proof.
  intros (K & P) (O & R & C & D) HC. unfold grun_op, op_own. rewrite O, HC. f_equal.
  apply gwalk_red; auto. now apply gexpand_same.
Qed.

Lemma g_ls_out raw pats root dest base t : x_ok -> ls_ok -> gcompile F raw = Some pats ->
  grun_op F OLs raw root dest base t = GOut (ls (expand pats) t).
Proof.
  intros (K & P) (O & L) HC. unfold grun_op, op_own. rewrite O, HC. f_equal.
  apply gls_red; auto. now apply gexpand_same.
Qed.

Lemma g_lsrec_out raw pats root dest base t d : x_ok -> walk_ok -> lsrec_ok -> gcompile F raw = Some pats ->
  grun_op F (OLsRec d) raw root dest base t = GOut (ls_rec (expand pats) root d t).
Proof.
  intros (K & P) (O & R & C & D) (O2 & L) HC. unfold grun_op, op_own. rewrite O, O2, HC. simpl. f_equal.
  unfold gls_rec, ls_rec. rewrite L. simpl. f_equal. apply gwalk_red; auto. now apply gexpand_same.
Qed.

Lemma g_tree_out raw pats root dest base t : x_ok -> tree_ok -> gcompile F raw = Some pats ->
  grun_op F OListTree raw root dest base t = GOut (list_tree (expand pats) t).
Proof.
  intros (K & P) (O & L & T & D) HC. unfold grun_op, op_own. rewrite O, HC. f_equal.
  apply glist_tree_red; auto. now apply gexpand_same.
Qed.

Lemma g_sub_out raw pats root dest base t : has_plain (x_forms F) = true -> sub_ok -> gcompile F raw = Some pats ->
  grun_op F OSubDirs raw root dest base t = GOut (subdirs (expand pats) t).
Proof.
  intros P (O & T & R) HC. unfold grun_op, op_own. rewrite O, HC. f_equal.
  apply gsubdirs_red; auto. now apply gexpand_same.
Qed.

Lemma g_copy_out raw pats root dest base t de : x_ok -> copy_ok -> gcompile F raw = Some pats ->
  grun_op F (OCopy de) raw root dest base t = GOut (copy_top (expand pats) root dest base de t).
Proof.
  intros (K & P) (O & L & T1 & T2 & T3 & Fl & D) HC. unfold grun_op, op_own. rewrite O, HC. f_equal.
  apply gcopy_top_red; auto. now apply gexpand_same.
Qed.

Lemma g_zip_out raw pats root dest base t : x_ok -> walk_ok -> zip_ok -> gcompile F raw = Some pats ->
  grun_op F OZip raw root dest base t = GOut (zip_entries (expand pats) root t).
Proof.
  intros (K & P) (O & R & C & D) (O2 & Z) HC. unfold grun_op, op_own. rewrite O, O2, HC. simpl. f_equal.
  unfold gzip_entries, zip_entries. rewrite Z. simpl. f_equal. apply gwalk_red; auto. now apply gexpand_same.
Qed.

Lemma g_remove_out raw pats root dest base t : has_plain (x_forms F) = true -> rm_ok -> gcompile F raw = Some pats ->
  grun_op F ORemove raw root dest base t = GOut (survivors (remove_node (expand pats) root t)).
Proof.
  intros P (O & O2 & R) HC. unfold grun_op, op_own. rewrite O, O2, HC. simpl. do 2 f_equal.
  apply gremove_node_red; auto. now apply gexpand_same.
Qed.

Lemma g_clean_out raw pats root dest base t : has_plain (x_forms F) = true -> rm_ok -> gcompile F raw = Some pats ->
  grun_op F OClean raw root dest base t = GOut (all_entries (clean_dir (expand pats) t)).
Proof.
  intros P (O & O2 & R) HC. unfold grun_op, op_own. rewrite O, O2, HC. simpl. do 2 f_equal.
  apply gclean_dir_red; auto. now apply gexpand_same.
Qed.

Lemma gcompile_bad raw : In Bad raw -> gcompile F raw = None.
Proof.
  induction raw as [|[| |r] raw IH]; simpl; intro H; auto.
  - destruct H.
  - destruct H as [H|H]; [discriminate|]. rewrite (IH H). now destruct (x_skip_blank F).
  - destruct H as [H|H]; [discriminate|]. now rewrite IH.
Qed.

Lemma g_invalid op raw root dest base t : x_invalid_kind F = true -> op_own F op = false -> op_validates_first F op = true ->
  In Bad raw -> grun_op F op raw root dest base t = GInvalid.
Proof. intros K O V B. unfold grun_op. rewrite O, (gcompile_bad raw B), K, V. reflexivity. Qed.

Lemma gcompile_good raw pats : x_skip_blank F = true -> x_pattern_as F = AsGiven ->
  gcompile F raw = Some pats -> forall r, In r pats <-> In (Good r) raw.
Proof. intros S T H. rewrite gcompile_compile in H by assumption. now apply compile_good. Qed.

(* blank patterns are skipped and every other pattern is compiled AS GIVEN *)
Lemma gcompile_goods_raw raw : x_skip_blank F = true -> x_pattern_as F = AsGiven -> ~ In Bad raw ->
  gcompile F raw = Some (goods raw).
Proof.
  intros S T. induction raw as [|[| |r] raw IH]; simpl; intro NB; auto.
  - exfalso. apply NB. now left.
  - rewrite S. apply IH. intro; apply NB; now right.
  - unfold treat. rewrite T, IH; [reflexivity|]. intro; apply NB; now right.
Qed.
Lemma gcompile_goods pats : x_pattern_as F = AsGiven -> gcompile F (map Good pats) = Some pats.
Proof. intro T. induction pats as [|p pats IH]; simpl; auto. unfold treat. now rewrite T, IH. Qed.
Lemma goods_map_good pats : goods (map Good pats) = pats.
Proof. induction pats as [|p pats IH]; simpl; auto. now rewrite IH. Qed.
Lemma bad_not_in_goods pats : ~ In Bad (map Good pats).
Proof. intro H. apply in_map_iff in H as (x & E & _). discriminate. Qed.
End Out.
