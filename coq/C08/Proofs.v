(* C08 — lemmas about the model of the exclusion-aware operations (Model.v). Part 1: the pattern expansion,
   trees, and the operations that test NAMES (walk, listings, tree listing, sub-directories, zip). *)
From Coq Require Import List ZArith Bool Lia.
Import ListNotations.
From GU Require Import C08.Regex C08.Model.
Local Open Scope Z_scope.

(* ---------- the specification vocabulary ---------- *)
(* some pattern finds a match inside s *)
Definition hit (pats : list re) (s : str) : Prop := exists p, In p pats /\ finds p s.
(* a component of the relative path is matched IN FULL by a pattern: the entry is, or lies beneath, an entry
   "whose name is matched in full by a pattern" *)
Definition fully_matched (pats : list re) (rel : list str) : Prop :=
  exists c p, In c rel /\ In p pats /\ matches p c.
(* no component of the relative path contains a match *)
Definition clear (pats : list re) (rel : list str) : Prop := forall c, In c rel -> ~ hit pats c.

Lemma fully_matched_not_clear pats rel : fully_matched pats rel -> ~ clear pats rel.
Proof. intros (c & p & Ic & Ip & M) C. apply (C c Ic). exists p. split; auto. now apply matches_finds. Qed.

(* ---------- the expansion adds nothing for anchor-free patterns ---------- *)
Lemma finds_alt_l a b s : finds a s -> finds (Alt a b) s.
Proof. intros (x & m & y & E & M). exists x, m, y. split; auto. now apply MAltL. Qed.
Lemma finds_alt_r a b s : finds b s -> finds (Alt a b) s.
Proof. intros (x & m & y & E & M). exists x, m, y. split; auto. now apply MAltR. Qed.

Lemma cat_l_finds pre r s : matches (Cat pre r) s -> finds r s.
Proof. intro H. apply cat_inv in H as (s1 & s2 & -> & _ & M). exists s1, s2, []. now rewrite app_nil_r. Qed.
Lemma cat_r_finds post r s : matches (Cat r post) s -> finds r s.
Proof. intro H. apply cat_inv in H as (s1 & s2 & -> & M & _). exists [], s1, s2. auto. Qed.

Lemma wrapL_finds pre r : forall s, matches (wrapL pre r) s -> finds r s.
Proof.
  induction r; intros s H; simpl in H; try (eapply cat_l_finds; exact H).
  apply alt_inv in H as [H|H]; [apply finds_alt_l; auto | apply finds_alt_r; now apply matches_finds].
Qed.
Lemma wrapR_finds post r : forall s, matches (wrapR post r) s -> finds r s.
Proof.
  induction r; intros s H; simpl in H; try (eapply cat_r_finds; exact H).
  apply alt_inv in H as [H|H]; [apply finds_alt_l; now apply matches_finds | apply finds_alt_r; auto].
Qed.
Lemma wrap_matches_finds pre post r s : matches (wrap pre post r) s -> finds r s.
Proof.
  assert (G : matches (Cat pre (Cat r post)) s -> finds r s).
  { intro H. apply cat_inv in H as (s1 & s2 & -> & _ & M). apply finds_app_l. eapply cat_r_finds; eauto. }
  destruct r; simpl; auto.
  intro H. apply alt_inv in H as [H|H].
  - apply finds_alt_l. eapply wrapL_finds; eauto.
  - apply finds_alt_r. eapply wrapR_finds; eauto.
Qed.
Lemma wrap_finds pre post r s : finds (wrap pre post r) s -> finds r s.
Proof.
  intros (x & m & y & -> & M). apply finds_app_l, finds_app_r. eapply wrap_matches_finds; eauto.
Qed.

Lemma excl_true_iff E s : excl E s = true <-> exists r, In r E /\ finds r s.
Proof.
  unfold excl. rewrite existsb_exists. split; intros (r & I & F); exists r; split; auto; now apply findb_correct.
Qed.

(* IsPathExcluded over NewExclusionRegexList(pats) = "some pattern finds a match in s" *)
Lemma excl_expand_iff pats s : excl (expand pats) s = true <-> hit pats s.
Proof.
  rewrite excl_true_iff. unfold expand, hit. split.
  - intros (r & I & F). apply in_flat_map in I as (p & Ip & I). exists p. split; auto.
    simpl in I. destruct I as [<-|[<-|[<-|[]]]]; auto; eapply wrap_finds; eauto.
  - intros (p & Ip & F). exists p. split; auto. apply in_flat_map. exists p. split; auto. now left.
Qed.

Lemma excl_expand_false pats s : excl (expand pats) s = false <-> ~ hit pats s.
Proof. rewrite <- excl_expand_iff. destruct (excl (expand pats) s); split; congruence. Qed.

(* ---------- trees ---------- *)
Section NodeInd.
  Variable P : node -> Prop.
  Hypothesis HF : P File.
  Hypothesis HD : forall ch, (forall x c, In (x, c) ch -> P c) -> P (Dir ch).
  Lemma node_ind' : forall n, P n.
  Proof.
    fix IH 1. intros [|ch]; [exact HF|]. apply HD.
    induction ch as [|[y d] l IHl]; intros x c H; [destruct H|].
    destruct H as [E|H]; [|exact (IHl x c H)]. injection E as _ <-. apply IH.
  Qed.
End NodeInd.

(* the entry [m] is found in [n] under the relative path [rel] *)
Inductive at_path : node -> list str -> node -> Prop :=
| AtHere n : at_path n [] n
| AtChild ch x c rest m : In (x, c) ch -> at_path c rest m -> at_path (Dir ch) (x :: rest) m.

Lemma at_path_nil n m : at_path n [] m -> m = n.
Proof. intro H; inversion H; auto. Qed.
Lemma at_path_cons n x rest m :
  at_path n (x :: rest) m <-> exists ch c, n = Dir ch /\ In (x, c) ch /\ at_path c rest m.
Proof.
  split.
  - intro H; inversion H; subst. eauto.
  - intros (ch & c & -> & I & A). econstructor; eauto.
Qed.
Lemma at_path_app n r1 m r2 k : at_path n r1 m -> at_path m r2 k -> at_path n (r1 ++ r2) k.
Proof. induction 1; simpl; auto. intro. econstructor; eauto. Qed.

Lemma in_under x es rel d : In (rel, d) (under x es) <-> exists rel', rel = x :: rel' /\ In (rel', d) es.
Proof.
  unfold under. rewrite in_map_iff. split.
  - intros ([r e] & E & I). simpl in E. inversion E; subst. eauto.
  - intros (rel' & -> & I). exists (rel', d). auto.
Qed.

Lemma flat_map_ext_in {A B} (f g : A -> list B) l : (forall a, In a l -> f a = g a) -> flat_map f l = flat_map g l.
Proof.
  induction l as [|a l IH]; simpl; intro H; auto. rewrite (H a) by now left. f_equal. apply IH. intros; apply H; now right.
Qed.
Lemma flat_map_nil {A B} (f : A -> list B) l : (forall a, In a l -> f a = []) -> flat_map f l = [].
Proof. induction l as [|a l IH]; simpl; intro H; auto. rewrite (H a) by now left. apply IH. intros; apply H; now right. Qed.

(* ---------- walk ---------- *)
Definition names_ok (E : list re) (rel : list str) : Prop := Forall (fun c => excl E c = false) rel.

Lemma walk_node_spec E n : forall rel d,
  In (rel, d) (walk_node E n) <-> exists m, at_path n rel m /\ is_dir m = d /\ names_ok E rel.
Proof.
  induction n as [|ch IH] using node_ind'; intros rel d.
  - simpl. split.
    + intros [H|[]]. inversion H; subst. exists File. repeat split; constructor.
    + intros (m & A & D & N). inversion A; subst. now left.
  - cbn [walk_node]. split.
    + intros [H|H].
      * inversion H; subst. exists (Dir ch). repeat split; constructor.
      * apply in_flat_map in H as ([x c] & I & H). simpl in H.
        destruct (excl E x) eqn:X; [destruct H|]. apply in_under in H as (rel' & -> & H).
        apply (IH x c I) in H as (m & A & D & N). exists m. repeat split; auto.
        { econstructor; eauto. } { constructor; auto. }
    + intros (m & A & D & N). destruct rel as [|x rest].
      * apply at_path_nil in A. subst. now left.
      * right. apply at_path_cons in A as (ch0 & c & E0 & I & A). inversion E0; subst ch0.
        inversion N; subst. apply in_flat_map. exists (x, c). split; auto. simpl. rewrite H1.
        apply in_under. exists rest. split; auto. apply (IH x c I). eauto.
Qed.

Lemma walk_node_cons E n : walk_node E n = ([], is_dir n) :: list_tree E n.
Proof.
  induction n as [|ch IH] using node_ind'; [reflexivity|].
  cbn [walk_node list_tree is_dir]. f_equal. apply flat_map_ext_in. intros [x c] I. simpl.
  destruct (excl E x); auto. rewrite (IH x c I). reflexivity.
Qed.

Lemma names_ok_expand pats rel : names_ok (expand pats) rel <-> clear pats rel.
Proof.
  unfold names_ok, clear. rewrite Forall_forall. split; intros H c I.
  - apply excl_expand_false. auto.
  - apply excl_expand_false. auto.
Qed.

(* what an operation that tests names shows of a tree: entries reached through names without a match *)
Definition visible (pats : list re) (t : node) (rel : list str) (d : bool) : Prop :=
  exists m, at_path t rel m /\ is_dir m = d /\ clear pats rel.

Lemma walk_exact pats root t rel d :
  In (rel, d) (walk (expand pats) root t) <-> ~ hit pats root /\ visible pats t rel d.
Proof.
  unfold walk, visible. destruct (excl (expand pats) root) eqn:X.
  - apply excl_expand_iff in X. split; [intros []|tauto].
  - apply excl_expand_false in X. rewrite walk_node_spec. setoid_rewrite names_ok_expand. tauto.
Qed.

Lemma ls_rec_exact pats root incl t rel d :
  In (rel, d) (ls_rec (expand pats) root incl t) <->
  ~ hit pats root /\ visible pats t rel d /\ (incl = true \/ d = false).
Proof.
  unfold ls_rec. rewrite filter_In, walk_exact. simpl. rewrite orb_true_iff, negb_true_iff. tauto.
Qed.

Lemma zip_exact pats root t rel d :
  In (rel, d) (zip_entries (expand pats) root t) <-> ~ hit pats root /\ visible pats t rel d /\ rel <> [].
Proof.
  unfold zip_entries. rewrite filter_In, walk_exact. simpl.
  destruct rel; split; intros; try tauto; intuition congruence.
Qed.

Lemma list_tree_exact pats t rel d :
  In (rel, d) (list_tree (expand pats) t) <-> visible pats t rel d /\ rel <> [].
Proof.
  unfold visible. setoid_rewrite <- names_ok_expand.
  rewrite <- (walk_node_spec (expand pats) t rel d), walk_node_cons. simpl. split.
  - intro H. split; auto. intros ->.
    assert (G : forall n r b, In (r, b) (list_tree (expand pats) n) -> r <> []).
    { clear. intros n r b H. destruct n; simpl in H; [destruct H|].
      apply in_flat_map in H as ([x c] & _ & H). simpl in H. destruct (excl (expand pats) x); [destruct H|].
      destruct H as [H|H]; [inversion H; subst; discriminate|]. apply in_under in H as (r' & -> & _). discriminate. }
    eapply G; eauto.
  - intros [[H|H] N]; auto. inversion H; subst. congruence.
Qed.

Lemma ls_exact pats t rel d :
  In (rel, d) (ls (expand pats) t) <-> visible pats t rel d /\ length rel = 1%nat.
Proof.
  unfold visible. setoid_rewrite <- names_ok_expand. set (E := expand pats). split.
  - intro H. destruct t as [|ch]; simpl in H; [destruct H|].
    apply in_flat_map in H as ([x c] & I & H). simpl in H. destruct (excl E x) eqn:X; [destruct H|].
    destruct H as [H|[]]. inversion H; subst. split; auto. exists c. repeat split.
    + econstructor; eauto. constructor.
    + constructor; auto.
  - intros [(m & A & D & N) L]. destruct rel as [|x [|y r]]; try discriminate.
    apply at_path_cons in A as (ch & c & -> & I & A). apply at_path_nil in A. subst m.
    inversion N; subst. simpl. apply in_flat_map. exists (x, c). split; auto. simpl. rewrite H1. now left.
Qed.

Lemma subdirs_exact pats t rel d :
  In (rel, d) (subdirs (expand pats) t) <-> visible pats t rel d /\ length rel = 1%nat /\ d = true.
Proof. unfold subdirs. rewrite filter_In, ls_exact. simpl. tauto. Qed.

(* ---------- invalid patterns ---------- *)
Lemma compile_bad raw : In Bad raw -> compile raw = None.
Proof.
  induction raw as [|[| |r] raw IH]; simpl; intro H; auto.
  - destruct H.
  - destruct H as [H|H]; [discriminate|auto].
  - destruct H as [H|H]; [discriminate|]. now rewrite IH.
Qed.
Lemma run_op_invalid op raw root dest base t : In Bad raw -> run_op op raw root dest base t = RInvalid.
Proof. intro H. unfold run_op. now rewrite compile_bad. Qed.

Lemma compile_good raw pats : compile raw = Some pats -> forall r, In r pats <-> In (Good r) raw.
Proof.
  revert pats. induction raw as [|[| |r0] raw IH]; simpl; intros pats H r.
  - inversion H; subst. tauto.
  - discriminate.
  - rewrite (IH pats H). split; auto. intros [E|I]; [discriminate|auto].
  - destruct (compile raw) as [ps|]; [|discriminate]. inversion H; subst. simpl. rewrite (IH ps eq_refl).
    split; intros [E|I]; auto; left; congruence.
Qed.

(* ================= Part 2: copy (tests whole paths) ================= *)
(* the tests made on the way from (sp, dp) down to the entry at [rel] *)
Fixpoint paths_ok (E : list re) (sp dp : str) (rel : list str) : Prop :=
  excl E sp = false /\ excl E dp = false /\
  match rel with
  | [] => True
  | x :: r => excl E x = false /\ paths_ok E (pjoin sep sp x) (pjoin sep dp x) r
  end.

Lemma paths_ok_head E sp dp rel : paths_ok E sp dp rel -> excl E sp = false /\ excl E dp = false.
Proof. destruct rel; simpl; tauto. Qed.

Lemma copy_node_spec E n : forall sp dp rel d,
  In (rel, d) (copy_node E sp dp n) <-> exists m, at_path n rel m /\ is_dir m = d /\ paths_ok E sp dp rel.
Proof.
  induction n as [|ch IH] using node_ind'; intros sp dp rel d.
  - simpl. split.
    + destruct (excl E sp) eqn:S, (excl E dp) eqn:D; simpl; intro H; try (now destruct H).
      destruct H as [H|[]]. inversion H; subst. exists File. repeat split; auto. constructor.
    + intros (m & A & D & P). inversion A; subst. simpl in P. destruct P as (-> & -> & _). simpl. now left.
  - cbn [copy_node]. split.
    + destruct (excl E sp) eqn:S, (excl E dp) eqn:D; simpl; intro H; try (now destruct H).
      destruct H as [H|H].
      * inversion H; subst. exists (Dir ch). repeat split; auto. constructor.
      * apply in_flat_map in H as ([x c] & I & H). simpl in H.
        destruct (excl E x) eqn:X; [destruct H|].
        destruct (excl E (pjoin sep sp x)) eqn:SX; simpl in H; [destruct H|].
        apply in_under in H as (rel' & -> & H). apply (IH x c I) in H as (m & A & Dm & P).
        exists m. repeat split; auto. econstructor; eauto.
    + intros (m & A & Dm & P). destruct (paths_ok_head _ _ _ _ P) as [S D]. rewrite S, D. simpl.
      destruct rel as [|x rest].
      * apply at_path_nil in A. subst. now left.
      * right. apply at_path_cons in A as (ch0 & c & E0 & I & A). inversion E0; subst ch0.
        simpl in P. destruct P as (_ & _ & X & P). destruct (paths_ok_head _ _ _ _ P) as [SX _].
        apply in_flat_map. exists (x, c). split; auto. simpl. rewrite X, SX. simpl.
        apply in_under. exists rest. split; auto. apply (IH x c I). eauto.
Qed.

Lemma paths_ok_clear pats rel : forall sp dp, paths_ok (expand pats) sp dp rel -> clear pats rel.
Proof.
  induction rel as [|x r IH]; intros sp dp P c I; [destruct I|].
  simpl in P. destruct P as (_ & _ & X & P). destruct I as [<-|I].
  - now apply excl_expand_false.
  - eapply IH; eauto.
Qed.

(* patterns that cannot match the separator *)
Definition all_sepfree (pats : list re) : Prop := forall p, In p pats -> sepfree sep p = true.

Lemma hit_pjoin pats p n : all_sepfree pats -> (hit pats (pjoin sep p n) <-> hit pats p \/ hit pats n).
Proof.
  intro F. unfold hit, pjoin. split.
  - intros (r & I & H). apply finds_sep_split in H; auto. destruct H; eauto.
  - intros [(r & I & H)|(r & I & H)]; exists r; split; auto; apply finds_sep_split; auto.
Qed.

Lemma clear_paths_ok pats rel : all_sepfree pats -> forall sp dp,
  ~ hit pats sp -> ~ hit pats dp -> clear pats rel -> paths_ok (expand pats) sp dp rel.
Proof.
  intro F. induction rel as [|x r IH]; intros sp dp S D C; simpl.
  - repeat split; now apply excl_expand_false.
  - assert (X : ~ hit pats x) by (apply C; now left).
    repeat split; try now apply excl_expand_false.
    apply IH.
    + rewrite hit_pjoin; tauto.
    + rewrite hit_pjoin; tauto.
    + intros c I. apply C. now right.
Qed.

Definition dest_prefix (dest_exists : bool) (base : str) : list str := if dest_exists then [base] else [].

Lemma copy_top_sound pats src dest base de t rel d :
  In (rel, d) (copy_top (expand pats) src dest base de t) ->
  exists rel', rel = dest_prefix de base ++ rel' /\ (exists m, at_path t rel' m /\ is_dir m = d) /\ clear pats rel'.
Proof.
  unfold copy_top. destruct (excl (expand pats) src || excl (expand pats) dest); [intros []|].
  destruct de; simpl; intro H.
  - apply in_under in H as (rel' & -> & H). apply copy_node_spec in H as (m & A & D & P).
    exists rel'. repeat split; eauto. eapply paths_ok_clear; eauto.
  - apply copy_node_spec in H as (m & A & D & P). exists rel. repeat split; eauto. eapply paths_ok_clear; eauto.
Qed.

Lemma copy_top_complete pats src dest base de t rel m :
  all_sepfree pats -> ~ hit pats src -> ~ hit pats dest -> (de = true -> ~ hit pats base) ->
  at_path t rel m -> clear pats rel ->
  In (dest_prefix de base ++ rel, is_dir m) (copy_top (expand pats) src dest base de t).
Proof.
  intros F S D B A C. unfold copy_top.
  apply excl_expand_false in S as S'. apply excl_expand_false in D as D'. rewrite S', D'. simpl.
  destruct de; simpl.
  - apply in_under. exists rel. split; auto. apply copy_node_spec. exists m. repeat split; auto.
    apply clear_paths_ok; auto. rewrite hit_pjoin; auto. intros [H|H]; auto. now apply B.
  - apply copy_node_spec. exists m. repeat split; auto. apply clear_paths_ok; auto.
Qed.

(* D29: without the restriction to separator-free patterns the complete direction fails for copy *)
Definition d29_pats : list re := [Cat (Chr 97) (Cat Any (Chr 98))].          (* a.b *)
Definition d29_tree : node := Dir [([97], Dir [([98], File)])].              (* a/b *)
Lemma copy_complete_refuted :
  exists pats src dest t rel m,
    ~ hit pats src /\ ~ hit pats dest /\ at_path t rel m /\ clear pats rel /\
    ~ In (rel, is_dir m) (copy_top (expand pats) src dest [] false t).
Proof.
  exists d29_pats, [116], [111], d29_tree, [[97]; [98]], File.
  repeat split.
  - apply excl_expand_false. reflexivity.
  - apply excl_expand_false. reflexivity.
  - econstructor; [left; reflexivity|]. econstructor; [left; reflexivity|]. constructor.
  - intros c [<-|[<-|[]]]; apply excl_expand_false; reflexivity.
  - vm_compute. intros [H|[H|[]]]; discriminate.
Qed.

(* ================= Part 3: remove / clean ================= *)
Definition rm_children (E : list re) (ch : list (str * node)) : list (str * node) :=
  flat_map (fun nc =>
    if excl E (fst nc) then [nc] else
    match remove_node E (fst nc) (snd nc) with
    | Some c' => [(fst nc, c')]
    | None => []
    end) ch.

Lemma remove_dir E tested ch :
  remove_node E tested (Dir ch) =
  match rm_children E ch with
  | [] => if excl E tested then Some (Dir []) else None
  | _ => Some (Dir (rm_children E ch))
  end.
Proof. reflexivity. Qed.

Lemma clean_dir_dir E ch : clean_dir E (Dir ch) = Dir (rm_children E ch).
Proof. reflexivity. Qed.

Lemma in_rm_children E ch x c' :
  In (x, c') (rm_children E ch) <->
  exists c, In (x, c) ch /\ ((excl E x = true /\ c' = c) \/ (excl E x = false /\ remove_node E x c = Some c')).
Proof.
  unfold rm_children. rewrite in_flat_map. split.
  - intros ([y c] & I & H). simpl in H. destruct (excl E y) eqn:X.
    + destruct H as [H|[]]. inversion H; subst. exists c'. auto.
    + destruct (remove_node E y c) as [c2|] eqn:R; [|destruct H]. destruct H as [H|[]]. inversion H; subst.
      exists c. auto.
  - intros (c & I & [[X ->]|[X R]]); exists (x, c); split; auto; simpl; rewrite X; [now left|]. rewrite R. now left.
Qed.

Definition name_excluded (E : list re) (rel : list str) : Prop := Exists (fun c => excl E c = true) rel.

(* -- sound: what a pattern protects stays, with everything beneath it -- *)
Definition keeps_spec (E : list re) (c : node) : Prop :=
  forall tested rel m, at_path c rel m -> name_excluded E rel ->
    exists n', remove_node E tested c = Some n' /\ at_path n' rel m.

Lemma rm_children_keeps E ch : (forall x c, In (x, c) ch -> keeps_spec E c) ->
  forall x rest c m, In (x, c) ch -> at_path c rest m -> name_excluded E (x :: rest) ->
  exists c', In (x, c') (rm_children E ch) /\ at_path c' rest m.
Proof.
  intros IH x rest c m I A N. destruct (excl E x) eqn:X.
  - exists c. split; auto. apply in_rm_children. exists c. auto.
  - inversion N; subst; [congruence|]. destruct (IH x c I x rest m A H0) as (c' & R & A').
    exists c'. split; auto. apply in_rm_children. exists c. auto.
Qed.

Lemma remove_keeps E n : keeps_spec E n.
Proof.
  induction n as [|ch IH] using node_ind'; intros tested rel m A N.
  - inversion A; subst. inversion N.
  - destruct rel as [|x rest]; [inversion N|].
    apply at_path_cons in A as (ch0 & c & E0 & I & A). inversion E0; subst ch0.
    destruct (rm_children_keeps E ch IH x rest c m I A N) as (c' & I' & A').
    rewrite remove_dir. destruct (rm_children E ch) as [|p l] eqn:R; [destruct I'|].
    eexists. split; [reflexivity|]. rewrite <- R in I'. rewrite <- R. econstructor; eauto.
Qed.

Lemma clean_keeps E t rel m : at_path t rel m -> name_excluded E rel -> at_path (clean_dir E t) rel m.
Proof.
  intros A N. destruct rel as [|x rest]; [inversion N|].
  apply at_path_cons in A as (ch & c & -> & I & A). rewrite clean_dir_dir.
  destruct (rm_children_keeps E ch (fun x c _ => remove_keeps E c) x rest c m I A N) as (c' & I' & A').
  econstructor; eauto.
Qed.

Lemma fully_matched_name_excluded pats rel : fully_matched pats rel -> name_excluded (expand pats) rel.
Proof.
  intros (c & p & Ic & Ip & M). apply Exists_exists. exists c. split; auto.
  apply excl_expand_iff. exists p. split; auto. now apply matches_finds.
Qed.

(* -- complete: whatever is left is, or holds, something a pattern names -- *)
Definition survivor_spec (E : list re) (c : node) : Prop :=
  forall tested n' rel m', remove_node E tested c = Some n' -> at_path n' rel m' ->
    excl E tested = true \/ exists rel2 m2, at_path c (rel ++ rel2) m2 /\ name_excluded E (rel ++ rel2).

Lemma rm_children_survivor E ch : (forall x c, In (x, c) ch -> survivor_spec E c) ->
  forall x c' rest m', In (x, c') (rm_children E ch) -> at_path c' rest m' ->
  exists rel2 m2, at_path (Dir ch) ((x :: rest) ++ rel2) m2 /\ name_excluded E ((x :: rest) ++ rel2).
Proof.
  intros IH x c' rest m' I A. apply in_rm_children in I as (c & I & [[X ->]|[X R]]).
  - exists [], m'. rewrite app_nil_r. split; [econstructor; eauto|]. now constructor.
  - destruct (IH x c I x c' rest m' R A) as [T|(rel2 & m2 & A2 & N2)]; [congruence|].
    exists rel2, m2. simpl. split; [econstructor; eauto|]. now constructor 2.
Qed.

Lemma remove_survivor E n : survivor_spec E n.
Proof.
  induction n as [|ch IH] using node_ind'; intros tested n' rel m' R A.
  - simpl in R. destruct (excl E tested); [now left|discriminate].
  - rewrite remove_dir in R. destruct (rm_children E ch) as [|[y cy] l] eqn:RC.
    + destruct (excl E tested); [now left|discriminate].
    + right. inversion R; subst n'. rewrite <- RC in A.
      destruct rel as [|x rest].
      * assert (I : In (y, cy) (rm_children E ch)) by (rewrite RC; now left).
        destruct (rm_children_survivor E ch IH y cy [] cy I (AtHere cy)) as (rel2 & m2 & A2 & N2).
        exists ((y :: []) ++ rel2), m2. auto.
      * apply at_path_cons in A as (ch0 & c' & E0 & I & A). inversion E0; subst ch0.
        exact (rm_children_survivor E ch IH x c' rest m' I A).
Qed.

Lemma clean_survivor E t rel m' : at_path (clean_dir E t) rel m' ->
  rel = [] \/ exists rel2 m2, at_path t (rel ++ rel2) m2 /\ name_excluded E (rel ++ rel2).
Proof.
  intro A. destruct rel as [|x rest]; [now left|right].
  destruct t as [|ch]; [inversion A|]. rewrite clean_dir_dir in A.
  apply at_path_cons in A as (ch0 & c' & E0 & I & A). inversion E0; subst ch0.
  exact (rm_children_survivor E ch (fun x c _ => remove_survivor E c) x c' rest m' I A).
Qed.

Lemma name_excluded_not_clear pats rel : name_excluded (expand pats) rel -> ~ clear pats rel.
Proof.
  intros N C. apply Exists_exists in N as (c & I & X). apply excl_expand_iff in X. exact (C c I X).
Qed.

(* the defect that was repaired (D11): the unfixed cleaning loses protected entries below the first level *)
Lemma clean_unfixed_refuted :
  exists pats t rel m, at_path t rel m /\ fully_matched pats rel /\
    ~ at_path (clean_dir_unfixed (expand pats) t) rel m.
Proof.
  exists [Chr 98], d29_tree, [[97]; [98]], File. repeat split.
  - econstructor; [left; reflexivity|]. econstructor; [left; reflexivity|]. constructor.
  - exists [98], (Chr 98). repeat split; [right; now left | now left | constructor].
  - vm_compute. intro A. apply at_path_cons in A as (ch & c & E0 & I & _). inversion E0; subst. destruct I.
Qed.
