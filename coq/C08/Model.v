(* C08 — executable model of the exclusion-aware operations of utils/filesystem (definitions only).
   Mirrors exclusion.go:11-57, files.go:138-219 (walk), :590-631 (CleanDir), :711-752 (Remove), :1175-1262 (Ls,
   LsRecursive), :1591-1730 (Copy), :1779-1873 (SubDirectories, ListDirTree), zip.go:72-166 (Zip) — the code AFTER
   the two repairs proposed in fixes/C08-*.patch (patterns handed down by CleanDir to the per-entry removal, which
   tests the entry name; patterns compiled before anything else in Remove / CleanDir / Zip).
   Regular expressions: C08/Regex.v (syntax, derivative matcher, unanchored search = regexp.MatchString). *)
From Coq Require Import List ZArith Bool.
Import ListNotations.
From GU Require Import C08.Regex.
Local Open Scope Z_scope.

(* ---------- trees ---------- *)
Inductive node := File | Dir (children : list (str * node)).

Definition is_dir (n : node) : bool := match n with Dir _ => true | File => false end.

(* an entry: path relative to the root of the operation (list of names), and whether it is a directory *)
Definition entry := (list str * bool)%type.
Definition under (x : str) (es : list entry) : list entry := map (fun e => (x :: fst e, snd e)) es.

(* ---------- exclusion.go ---------- *)
Definition sep : Z := 47.                        (* '/' : PathSeparator() of both back ends on Linux *)
Definition dotstar : re := Star Any.
(* fmt.Sprintf(".*/%v/.*", pattern): the text before / after the pattern *)
Definition pre2 : re := Cat dotstar (Chr sep).
Definition post2 : re := Cat (Chr sep) dotstar.
(* fmt.Sprintf(".*%v%v%v.*", pathSeparator, pattern, pathSeparator) with pathSeparator a RUNE: %v prints the
   number, so on Linux the text is ".*47" pattern "47.*"  ('4' = 52, '7' = 55) — reproduced as it is *)
Definition pre3 : re := Cat dotstar (Cat (Chr 52) (Chr 55)).
Definition post3 : re := Cat (Cat (Chr 52) (Chr 55)) dotstar.

(* The pattern TEXT is spliced between two texts and the result is parsed again, so a top-level alternation of
   the pattern captures the prefix in its first alternative only and the suffix in its last one only:
   the text ".*/a|b/.*" parses as the alternation of ".*/a" and "b/.*".  [re] values stand for the parse of their text as printed
   by the harness: top-level alternatives without brackets, everything nested bracketed. *)
Fixpoint wrapL (pre r : re) : re := match r with Alt a b => Alt (wrapL pre a) b | _ => Cat pre r end.
Fixpoint wrapR (post r : re) : re := match r with Alt a b => Alt a (wrapR post b) | _ => Cat r post end.
Definition wrap (pre post r : re) : re :=
  match r with Alt a b => Alt (wrapL pre a) (wrapR post b) | _ => Cat pre (Cat r post) end.

(* a pattern as handed to the library *)
Inductive rawpat :=
| Bad               (* text that regexp.Compile rejects *)
| Blank             (* "" or white space only: skipped (reflection.IsEmpty) *)
| Good (r : re).

(* NewExclusionRegexList (exclusion.go:22-40): None = ErrInvalid *)
Fixpoint compile (raw : list rawpat) : option (list re) :=
  match raw with
  | [] => Some []
  | Bad :: _ => None
  | Blank :: rest => compile rest
  | Good r :: rest => option_map (cons r) (compile rest)
  end.
Definition expand (pats : list re) : list re :=
  flat_map (fun p => [p; wrap pre2 post2 p; wrap pre3 post3 p]) pats.

(* IsPathExcluded (exclusion.go:50-57): MatchString is an unanchored search *)
Definition excl (E : list re) (s : str) : bool := existsb (fun r => findb r s) E.

(* ---------- walk (files.go:167-219) and what is built on it ---------- *)
(* entries handed to the callback, relative to the node *)
Fixpoint walk_node (E : list re) (n : node) : list entry :=
  ([], is_dir n) ::
  match n with
  | File => []
  | Dir ch => flat_map (fun nc => if excl E (fst nc) then [] else under (fst nc) (walk_node E (snd nc))) ch
  end.

(* WalkWithContextAndExclusionPatterns (files.go:138-165): the (cleaned) root path itself is tested first *)
Definition walk (E : list re) (root : str) (t : node) : list entry :=
  if excl E root then [] else walk_node E t.

(* LsRecursiveWithExclusionPatterns (files.go:1206-1243): the callback keeps files, and directories on request *)
Definition ls_rec (E : list re) (root : str) (incl_dirs : bool) (t : node) : list entry :=
  filter (fun e => incl_dirs || negb (snd e)) (walk E root t).

(* Zip (zip.go:103-153): one archive entry per callback except for the source directory itself *)
Definition zip_entries (E : list re) (root : str) (t : node) : list entry :=
  filter (fun e => match fst e with [] => false | _ => true end) (walk E root t).

(* LsWithExclusionPatterns (files.go:1245-1262): names only, no test of the directory's own path *)
Definition ls (E : list re) (t : node) : list entry :=
  match t with
  | File => []
  | Dir ch => flat_map (fun nc => if excl E (fst nc) then [] else [([fst nc], is_dir (snd nc))]) ch
  end.

(* SubDirectoriesWithContextAndExclusionPatterns (files.go:1779-1811) *)
Definition subdirs (E : list re) (t : node) : list entry :=
  filter (fun e => snd e) (ls E t).

(* ListDirTreeWithContextAndExclusionPatterns (files.go:1841-1873) *)
Fixpoint list_tree (E : list re) (n : node) : list entry :=
  match n with
  | File => []
  | Dir ch => flat_map (fun nc => if excl E (fst nc) then []
                                  else ([fst nc], is_dir (snd nc)) :: under (fst nc) (list_tree E (snd nc))) ch
  end.

(* ---------- copy (files.go:1608-1730) ---------- *)
(* copyFolderBetweenFS… / copyFileBetweenFS…(sp, dp): [n] is the node at source path [sp], to be created at [dp].
   Both test the two paths (:1667, :1699); the folder lists its names through LsWithExclusionPatterns (:1683) and
   hands each child to CopyBetweenFSWithExclusionRegexes(sp/x, dp), which tests (sp/x, dp) (:1609) and then calls
   the folder / file copy with (sp/x, dp/x). Result: the entries created, relative to [dp]. *)
Fixpoint copy_node (E : list re) (sp dp : str) (n : node) : list entry :=
  if excl E sp || excl E dp then [] else
  match n with
  | File => [([], false)]
  | Dir ch =>
      ([], true) ::
      flat_map (fun nc =>
        if excl E (fst nc) then [] else
        if excl E (pjoin sep sp (fst nc)) || excl E dp then [] else
        under (fst nc) (copy_node E (pjoin sep sp (fst nc)) (pjoin sep dp (fst nc)) (snd nc))) ch
  end.

(* CopyBetweenFSWithExclusionRegexes at the top (files.go:1608-1664).
   dest_exists = false: the destination does not exist, the tree is created AT dest;
   dest_exists = true : dest is an existing directory, the tree is created at dest/base(src) ([base] = last name of src).
   Result relative to dest. *)
Definition copy_top (E : list re) (src dest base : str) (dest_exists : bool) (t : node) : list entry :=
  if excl E src || excl E dest then [] else
  if dest_exists then under base (copy_node E src (pjoin sep dest base) t)
  else copy_node E src dest t.

(* ---------- remove / clean (files.go:590-631, 711-765, after the repair) ---------- *)
(* removeWithExclusionPatterns(dir, tested): None = the entry is gone, Some n' = it is still there, holding n'.
   A non-empty directory is cleaned first (CleanDir: names filtered by LsWithExclusionPatterns, every other entry
   removed with the same patterns through removeFileWithContext, which hands the entry NAME down as [tested]);
   if something is left the removal stops; otherwise the entry is removed unless [tested] is excluded.
   [tested] is the path given by the caller for the top entry (RemoveWithContextAndExclusionPatterns(dir) =
   removeWithExclusionPatterns(dir, dir)) and the entry's name below it. *)
Fixpoint remove_node (E : list re) (tested : str) (n : node) : option node :=
  match n with
  | File => if excl E tested then Some File else None
  | Dir ch =>
      let ch' := flat_map (fun nc =>
                   if excl E (fst nc) then [nc] else
                   match remove_node E (fst nc) (snd nc) with
                   | Some c' => [(fst nc, c')]
                   | None => []
                   end) ch in
      match ch' with
      | [] => if excl E tested then Some (Dir []) else None
      | _ => Some (Dir ch')
      end
  end.

(* CleanDirWithContextAndExclusionPatterns(dir): the directory itself stays *)
Definition clean_dir (E : list re) (t : node) : node :=
  match t with
  | File => File
  | Dir ch =>
      Dir (flat_map (fun nc =>
             if excl E (fst nc) then [nc] else
             match remove_node E (fst nc) (snd nc) with
             | Some c' => [(fst nc, c')]
             | None => []
             end) ch)
  end.

(* The code BEFORE the repair (files.go:606-631 at bc1ce85a): the names of the cleaned directory are filtered, but
   each remaining entry is removed by RemoveWithContext, i.e. WITHOUT patterns: it disappears with all it holds. *)
Definition clean_dir_unfixed (E : list re) (t : node) : node :=
  match t with
  | File => File
  | Dir ch => Dir (filter (fun nc => excl E (fst nc)) ch)
  end.

(* everything in a tree (the snapshot the harness takes after remove / clean) *)
Definition all_entries (n : node) : list entry := walk_node [] n.
Definition survivors (r : option node) : list entry :=
  match r with Some n => all_entries n | None => [] end.

(* ---------- the operations as called by a client ---------- *)
Inductive opk :=
| OWalk | OLs | OLsRec (incl_dirs : bool) | OListTree | OSubDirs | OCopy (dest_exists : bool) | OZip | ORemove | OClean.

Inductive result :=
| RInvalid                       (* commonerrors.ErrInvalid, nothing touched *)
| ROut (out : list entry).       (* entries reported / created under dest / archived / surviving *)

Definition run_op (op : opk) (raw : list rawpat) (root dest base : str) (t : node) : result :=
  match compile raw with
  | None => RInvalid
  | Some pats =>
      let E := expand pats in
      ROut match op with
           | OWalk => walk E root t
           | OLs => ls E t
           | OLsRec d => ls_rec E root d t
           | OListTree => list_tree E t
           | OSubDirs => subdirs E t
           | OCopy de => copy_top E root dest base de t
           | OZip => zip_entries E root t
           | ORemove => survivors (remove_node E root t)
           | OClean => all_entries (clean_dir E t)
           end
  end.

(* ---------- correspondence ---------- *)
(* which part of an entry the implementation lets the harness observe: Walk (callback FileInfo), Copy (snapshot of
   the destination), Zip (trailing '/'), Remove / Clean (snapshot) show the kind; the listings return paths only *)
Definition shows_kind (op : opk) : bool :=
  match op with OLs | OLsRec _ | OListTree | OSubDirs => false | _ => true end.
Definition project (op : opk) (es : list entry) : list entry :=
  if shows_kind op then es else map (fun e => (fst e, false)) es.

Fixpoint str_eqb (a b : str) : bool :=
  match a, b with
  | [], [] => true
  | x :: a', y :: b' => (x =? y) && str_eqb a' b'
  | _, _ => false
  end.
Fixpoint rel_eqb (a b : list str) : bool :=
  match a, b with
  | [], [] => true
  | x :: a', y :: b' => str_eqb x y && rel_eqb a' b'
  | _, _ => false
  end.
Definition entry_eqb (a b : entry) : bool := rel_eqb (fst a) (fst b) && Bool.eqb (snd a) (snd b).
Definition subset (a b : list entry) : bool := forallb (fun x => existsb (entry_eqb x) b) a.
(* same entries, same number of them (a listing that reports an entry twice is a difference) *)
Definition same_entries (a b : list entry) : bool :=
  subset a b && subset b a && Nat.eqb (length a) (length b).

Inductive case :=
| COp (op : opk) (raw : list rawpat) (root dest base : str) (t : node)
      (obs_invalid : bool) (obs : list entry)
| CMatch (r : re) (s : str) (obs_full obs_search : bool)      (* regexp: ^(?:r)$ and r against s *)
| CExcl (raw : list rawpat) (s : str) (obs : bool).           (* IsPathExcludedFromPatterns(s, '/', raw...) *)

Definition check_case (c : case) : bool :=
  match c with
  | COp op raw root dest base t obs_invalid obs =>
      match run_op op raw root dest base t with
      | RInvalid => obs_invalid
      | ROut out => negb obs_invalid && same_entries (project op out) obs
      end
  | CMatch r s f g => Bool.eqb (matchb r s) f && Bool.eqb (findb r s) g
  | CExcl raw s o =>
      match compile raw with
      | None => negb o                     (* IsPathExcludedFromPatterns: a compile error means "not excluded" *)
      | Some pats => Bool.eqb (excl (expand pats) s) o
      end
  end.
