(* C08 — executable model of the exclusion-aware operations of utils/filesystem (definitions only).
   Two layers: (1) the EXPECTED-SHAPE definitions (compile, expand, walk, ls, ..., remove_node, clean_dir) that the
   lemmas of Proofs.v are about; (2) below, Section Generic: the same operations PARAMETERISED by a record of facts
   that translator-c08 reads from the source on every run (Gen.v). ProofsGen.v shows that (2) coincides with (1)
   whenever the facts of the operation concerned have the expected values; Props.v and the correspondence use (2)
   instantiated with the generated record.
   Mirrors exclusion.go:11-57, files.go:138-219 (walk), :590-631 (CleanDir), :711-752 (Remove), :1175-1262 (Ls,
   LsRecursive), :1591-1730 (Copy), :1779-1873 (SubDirectories, ListDirTree), zip.go:72-166 (Zip) — the code AFTER
   the two repairs proposed in fixes/C08-*.patch (patterns handed down by CleanDir to the per-entry removal, which
   tests the entry name; patterns compiled before anything else in Remove / CleanDir / Zip).
   Regular expressions: C08/Regex.v (syntax, derivative matcher, unanchored search = regexp.MatchString). *)
From Coq Require Import List ZArith Bool.
From Coq Require String.
Import ListNotations.
From GU Require Import C08.Regex.
Local Open Scope Z_scope.

(* ---------- trees ---------- *)
Inductive node := File | Dir (children : list (str * node)).

Definition is_dir (n : node) : bool := match n with Dir _ => true | File => false end.

(* an entry: path relative to the root of the operation (list of names), and whether it is a directory *)
Definition entry := (list str * bool)%type.
Definition under (x : str) (es : list entry) : list entry := map (fun e => (x :: fst e, snd e)) es.

(* ---------- exclusion.go ---------- *)
Definition sep : Z := 47.                        (* '/' : PathSeparator() of both back ends on Linux *)
Definition dotstar : re := Star Any.
(* fmt.Sprintf(".*/%v/.*", pattern): the text before / after the pattern *)
Definition pre2 : re := Cat dotstar (Chr sep).
Definition post2 : re := Cat (Chr sep) dotstar.
(* fmt.Sprintf(".*%v%v%v.*", pathSeparator, pattern, pathSeparator) with pathSeparator a RUNE: %v prints the
   number, so on Linux the text is ".*47" pattern "47.*"  ('4' = 52, '7' = 55) — reproduced as it is *)
Definition pre3 : re := Cat dotstar (Cat (Chr 52) (Chr 55)).
Definition post3 : re := Cat (Cat (Chr 52) (Chr 55)) dotstar.

(* The pattern TEXT is spliced between two texts and the result is parsed again, so a top-level alternation of
   the pattern captures the prefix in its first alternative only and the suffix in its last one only:
   the text ".*/a|b/.*" parses as the alternation of ".*/a" and "b/.*".  [re] values stand for the parse of their text as printed
   by the harness: top-level alternatives without brackets, everything nested bracketed. *)
Fixpoint wrapL (pre r : re) : re := match r with Alt a b => Alt (wrapL pre a) b | _ => Cat pre r end.
Fixpoint wrapR (post r : re) : re := match r with Alt a b => Alt a (wrapR post b) | _ => Cat r post end.
Definition wrap (pre post r : re) : re :=
  match r with Alt a b => Alt (wrapL pre a) (wrapR post b) | _ => Cat pre (Cat r post) end.

(* a pattern as handed to the library *)
Inductive rawpat :=
| Bad               (* text that regexp.Compile rejects *)
| Blank             (* "" or white space only: skipped (reflection.IsEmpty) *)
| Good (r : re).

(* NewExclusionRegexList (exclusion.go:22-40): None = ErrInvalid *)
Fixpoint compile (raw : list rawpat) : option (list re) :=
  match raw with
  | [] => Some []
  | Bad :: _ => None
  | Blank :: rest => compile rest
  | Good r :: rest => option_map (cons r) (compile rest)
  end.
(* the patterns a caller gave, blank ones apart *)
Definition goods (raw : list rawpat) : list re := flat_map (fun p => match p with Good r => [r] | _ => [] end) raw.
Definition expand (pats : list re) : list re :=
  flat_map (fun p => [p; wrap pre2 post2 p; wrap pre3 post3 p]) pats.

(* IsPathExcluded (exclusion.go:50-57): MatchString is an unanchored search *)
Definition excl (E : list re) (s : str) : bool := existsb (fun r => findb r s) E.

(* ---------- walk (files.go:167-219) and what is built on it ---------- *)
(* entries handed to the callback, relative to the node *)
Fixpoint walk_node (E : list re) (n : node) : list entry :=
  ([], is_dir n) ::
  match n with
  | File => []
  | Dir ch => flat_map (fun nc => if excl E (fst nc) then [] else under (fst nc) (walk_node E (snd nc))) ch
  end.

(* WalkWithContextAndExclusionPatterns (files.go:138-165): the (cleaned) root path itself is tested first *)
Definition walk (E : list re) (root : str) (t : node) : list entry :=
  if excl E root then [] else walk_node E t.

(* LsRecursiveWithExclusionPatterns (files.go:1206-1243): the callback keeps files, and directories on request *)
Definition ls_rec (E : list re) (root : str) (incl_dirs : bool) (t : node) : list entry :=
  filter (fun e => incl_dirs || negb (snd e)) (walk E root t).

(* Zip (zip.go:103-153): one archive entry per callback except for the source directory itself *)
Definition zip_entries (E : list re) (root : str) (t : node) : list entry :=
  filter (fun e => match fst e with [] => false | _ => true end) (walk E root t).

(* LsWithExclusionPatterns (files.go:1245-1262): names only, no test of the directory's own path *)
Definition ls (E : list re) (t : node) : list entry :=
  match t with
  | File => []
  | Dir ch => flat_map (fun nc => if excl E (fst nc) then [] else [([fst nc], is_dir (snd nc))]) ch
  end.

(* SubDirectoriesWithContextAndExclusionPatterns (files.go:1779-1811) *)
Definition subdirs (E : list re) (t : node) : list entry :=
  filter (fun e => snd e) (ls E t).

(* ListDirTreeWithContextAndExclusionPatterns (files.go:1841-1873) *)
Fixpoint list_tree (E : list re) (n : node) : list entry :=
  match n with
  | File => []
  | Dir ch => flat_map (fun nc => if excl E (fst nc) then []
                                  else ([fst nc], is_dir (snd nc)) :: under (fst nc) (list_tree E (snd nc))) ch
  end.

(* ---------- copy (files.go:1608-1730) ---------- *)
(* copyFolderBetweenFS… / copyFileBetweenFS…(sp, dp): [n] is the node at source path [sp], to be created at [dp].
   Both test the two paths (:1667, :1699); the folder lists its names through LsWithExclusionPatterns (:1683) and
   hands each child to CopyBetweenFSWithExclusionRegexes(sp/x, dp), which tests (sp/x, dp) (:1609) and then calls
   the folder / file copy with (sp/x, dp/x). Result: the entries created, relative to [dp]. *)
Fixpoint copy_node (E : list re) (sp dp : str) (n : node) : list entry :=
  if excl E sp || excl E dp then [] else
  match n with
  | File => [([], false)]
  | Dir ch =>
      ([], true) ::
      flat_map (fun nc =>
        if excl E (fst nc) then [] else
        if excl E (pjoin sep sp (fst nc)) || excl E dp then [] else
        under (fst nc) (copy_node E (pjoin sep sp (fst nc)) (pjoin sep dp (fst nc)) (snd nc))) ch
  end.

(* CopyBetweenFSWithExclusionRegexes at the top (files.go:1608-1664).
   dest_exists = false: the destination does not exist, the tree is created AT dest;
   dest_exists = true : dest is an existing directory, the tree is created at dest/base(src) ([base] = last name of src).
   Result relative to dest. *)
Definition copy_top (E : list re) (src dest base : str) (dest_exists : bool) (t : node) : list entry :=
  if excl E src || excl E dest then [] else
  if dest_exists then under base (copy_node E src (pjoin sep dest base) t)
  else copy_node E src dest t.

(* ---------- remove / clean (files.go:590-631, 711-765, after the repair) ---------- *)
(* removeWithExclusionPatterns(dir, tested): None = the entry is gone, Some n' = it is still there, holding n'.
   A non-empty directory is cleaned first (CleanDir: names filtered by LsWithExclusionPatterns, every other entry
   removed with the same patterns through removeFileWithContext, which hands the entry NAME down as [tested]);
   if something is left the removal stops; otherwise the entry is removed unless [tested] is excluded.
   [tested] is the path given by the caller for the top entry (RemoveWithContextAndExclusionPatterns(dir) =
   removeWithExclusionPatterns(dir, dir)) and the entry's name below it. *)
Fixpoint remove_node (E : list re) (tested : str) (n : node) : option node :=
  match n with
  | File => if excl E tested then Some File else None
  | Dir ch =>
      let ch' := flat_map (fun nc =>
                   if excl E (fst nc) then [nc] else
                   match remove_node E (fst nc) (snd nc) with
                   | Some c' => [(fst nc, c')]
                   | None => []
                   end) ch in
      match ch' with
      | [] => if excl E tested then Some (Dir []) else None
      | _ => Some (Dir ch')
      end
  end.

(* CleanDirWithContextAndExclusionPatterns(dir): the directory itself stays *)
Definition clean_dir (E : list re) (t : node) : node :=
  match t with
  | File => File
  | Dir ch =>
      Dir (flat_map (fun nc =>
             if excl E (fst nc) then [nc] else
             match remove_node E (fst nc) (snd nc) with
             | Some c' => [(fst nc, c')]
             | None => []
             end) ch)
  end.

(* The code BEFORE the repair (files.go:606-631 at bc1ce85a): the names of the cleaned directory are filtered, but
   each remaining entry is removed by RemoveWithContext, i.e. WITHOUT patterns: it disappears with all it holds. *)
Definition clean_dir_unfixed (E : list re) (t : node) : node :=
  match t with
  | File => File
  | Dir ch => Dir (filter (fun nc => excl E (fst nc)) ch)
  end.

(* everything in a tree (the snapshot the harness takes after remove / clean) *)
Definition all_entries (n : node) : list entry := walk_node [] n.
Definition survivors (r : option node) : list entry :=
  match r with Some n => all_entries n | None => [] end.

(* ---------- the operations as called by a client ---------- *)
Inductive opk :=
| OWalk | OLs | OLsRec (incl_dirs : bool) | OListTree | OSubDirs | OCopy (dest_exists : bool) | OZip | ORemove | OClean.

Inductive result :=
| RInvalid                       (* commonerrors.ErrInvalid, nothing touched *)
| ROut (out : list entry).       (* entries reported / created under dest / archived / surviving *)

Definition run_op (op : opk) (raw : list rawpat) (root dest base : str) (t : node) : result :=
  match compile raw with
  | None => RInvalid
  | Some pats =>
      let E := expand pats in
      ROut match op with
           | OWalk => walk E root t
           | OLs => ls E t
           | OLsRec d => ls_rec E root d t
           | OListTree => list_tree E t
           | OSubDirs => subdirs E t
           | OCopy de => copy_top E root dest base de t
           | OZip => zip_entries E root t
           | ORemove => survivors (remove_node E root t)
           | OClean => all_entries (clean_dir E t)
           end
  end.

(* ---------- correspondence ---------- *)
(* which part of an entry the implementation lets the harness observe: Walk (callback FileInfo), Copy (snapshot of
   the destination), Zip (trailing '/'), Remove / Clean (snapshot) show the kind; the listings return paths only *)
Definition shows_kind (op : opk) : bool :=
  match op with OLs | OLsRec _ | OListTree | OSubDirs => false | _ => true end.
Definition project (op : opk) (es : list entry) : list entry :=
  if shows_kind op then es else map (fun e => (fst e, false)) es.

Fixpoint str_eqb (a b : str) : bool :=
  match a, b with
  | [], [] => true
  | x :: a', y :: b' => (x =? y) && str_eqb a' b'
  | _, _ => false
  end.
Fixpoint rel_eqb (a b : list str) : bool :=
  match a, b with
  | [], [] => true
  | x :: a', y :: b' => str_eqb x y && rel_eqb a' b'
  | _, _ => false
  end.
Definition entry_eqb (a b : entry) : bool := rel_eqb (fst a) (fst b) && Bool.eqb (snd a) (snd b).
Definition subset (a b : list entry) : bool := forallb (fun x => existsb (entry_eqb x) b) a.
(* same entries, same number of them (a listing that reports an entry twice is a difference) *)
Definition same_entries (a b : list entry) : bool :=
  subset a b && subset b a && Nat.eqb (length a) (length b).

(* a function of the package that hands its arguments on (Gen.v: gen_wrappers) *)
Record wrapper := mkW {
  w_name : String.string;
  w_global : bool;          (* package-level function forwarding to the global file system *)
  w_patterns : bool;        (* has an exclusion-pattern parameter *)
  w_forwards_all : bool     (* hands ALL its parameters on (global wrapper) / spreads its patterns into a call *)
}.

Inductive case :=
| CWrap (name : String.string) (c : case)                     (* the call went through the package-level function [name] *)
| CExcludeAll (raw : list rawpat) (names : list str) (obs_invalid : bool) (obs : list str)   (* ExcludeAll(names, raw...) *)
| COp (op : opk) (raw : list rawpat) (root dest base : str) (t : node)
      (obs_invalid : bool) (obs : list entry)
| CMatch (r : re) (s : str) (obs_full obs_search : bool)      (* regexp: ^(?:r)$ and r against s *)
| CExcl (raw : list rawpat) (s : str) (obs : bool).           (* IsPathExcludedFromPatterns(s, '/', raw...) *)

(* ====================================================================================================
   The model PARAMETERISED by facts read from the source.
   translator-c08/cmd/excl2coq parses exclusion.go, files.go and zip.go of the repository on every run and writes
   coq/C08/Gen.v : a value [gen : facts].  Every function below interprets a facts record; with the expected facts
   it coincides with the definitions above (ProofsGen.v), and the property theorems (Props.v) are stated for the
   model instantiated with [gen], each one requiring only the facts of its own operation.
   ==================================================================================================== *)
Inductive form := FPlain | FSlash | FSepNum.          (* pattern | ".*/%v/.*" | ".*%v%v%v.*" with the separator rune *)
Inductive tested := TName | TPath | TNone.
Inductive treatment := AsGiven | Trimmed | Quoted.  (* what happens to a pattern text before it is expanded and compiled *)            (* an exclusion test is applied to: the entry name | the joined path | nothing *)

Record facts := mkFacts {
  (* exclusion.go *)
  x_skip_blank : bool;          (* NewExclusionRegexList: a blank pattern is skipped, the loop goes on *)
  x_pattern_as : treatment;     (* the pattern is compiled AS GIVEN (expected) | after strings.TrimSpace | after regexp.QuoteMeta *)
  x_forms : list form;          (* the texts appended per pattern, in order; each is compiled on its own *)
  x_invalid_kind : bool;        (* a compile error is wrapped as commonerrors.ErrInvalid *)
  x_keep_unmatched : bool;      (* ExcludeFiles keeps f iff !IsPathExcluded(f, regexes...) *)
  (* x_own fields: the operation assigns to / appends to the patterns it was given (expected: false) *)
  walk_own : bool;
  walk_root : bool;             (* IsPathExcluded(root, regexes...) => return, before anything else *)
  walk_child : bool;            (* the loop of walk ranges over ExcludeFiles(fs.Ls(path), exclusions) *)
  walk_down : bool;             (* the recursive call receives the same compiled list *)
  ls_own : bool;
  ls_filter : bool;             (* LsWithExclusionPatterns returns ExcludeFiles(all names, regexes) *)
  lsrec_own : bool;
  lsrec_with_pats : bool;       (* LsRecursive... hands its patterns to WalkWithContextAndExclusionPatterns *)
  tree_own : bool;
  tree_filtered : bool;         (* ListDirTree... lists with LsWithExclusionPatterns(fs, dirPath, regexes) *)
  tree_down : bool;             (* and recurses with the same regexes *)
  sub_own : bool;
  sub_tested : tested;          (* what SubDirectories... hands to IsPathExcluded *)
  sub_requires_dir : bool;      (* file.IsDir() && ... *)
  copy_own : bool;
  copy_top_test : bool * bool;     (* CopyBetweenFSWithExclusionRegexes: first statement tests (src path, dest path) *)
  copy_folder_test : bool * bool;  (* copyFolderBetweenFSWithExclusionRegexes *)
  copy_file_test : bool * bool;    (* copyFileBetweenFS... *)
  copy_filtered : bool;         (* the folder copy lists with LsWithExclusionPatterns(srcFs, src, source regexes) *)
  copy_down : bool;             (* and recurses with both regex lists *)
  zip_own : bool;
  zip_validates_first : bool;   (* NewExclusionRegexList + return on error precede fs.CreateFile(destination) *)
  zip_with_pats : bool;         (* the walk receives the patterns *)
  rm_own : bool;
  rm_validates_first : bool;    (* validation precedes every backend call of removeWithExclusionPatterns *)
  rm_cleans_with_pats : bool;   (* a non-empty directory is cleaned with the patterns *)
  rm_stops_if_nonempty : bool;  (* if something is left the removal stops *)
  rm_final_on_tested : bool;    (* the last test before vfs.Remove(dir) is on [tested] (false: on dir) *)
  rm_nested_name : bool;        (* removeFileWithContext hands the entry NAME down as [tested] (false: the joined path) *)
  rm_nested_down : bool;        (* ... together with the patterns *)
  clean_own : bool;
  clean_validates_first : bool;
  clean_filtered : bool;        (* CleanDir lists with fs.LsWithExclusionPatterns(dir, patterns...) *)
  clean_down : bool             (* and hands the patterns to removeFileWithContext *)
}.

Section Generic.
Variable F : facts.

(* strings.TrimSpace on the pattern TEXT, expressed on the syntax tree (text printed with top-level alternatives
   unbracketed): blank literals at the two ends of the text disappear. A blank under a repetition or inside brackets
   is not at the end of the text. (Only evaluated when the source trims; the expected code compiles the text as given.) *)
Definition blankc (c : Z) : bool := (c =? 32) || (c =? 9) || (c =? 10) || (c =? 13).
Fixpoint all_blank (r : re) : bool :=
  match r with Chr c => blankc c | Cat a b => all_blank a && all_blank b | _ => false end.
Fixpoint trim_l (r : re) : re :=
  match r with
  | Chr c => if blankc c then Eps else r
  | Cat a b => if all_blank a then trim_l b else Cat (trim_l a) b
  | _ => r
  end.
Fixpoint trim_r (r : re) : re :=
  match r with
  | Chr c => if blankc c then Eps else r
  | Cat a b => if all_blank b then trim_r a else Cat a (trim_r b)
  | _ => r
  end.
Fixpoint trim_top_l (r : re) : re := match r with Alt a b => Alt (trim_top_l a) b | _ => trim_l r end.
Fixpoint trim_top_r (r : re) : re := match r with Alt a b => Alt a (trim_top_r b) | _ => trim_r r end.
Definition treat (F : facts) (r : re) : re :=
  match x_pattern_as F with
  | AsGiven => r
  | Trimmed => trim_top_r (trim_top_l r)
  | Quoted => r      (* a quoted pattern is a literal of its text: not interpreted, the theorems require AsGiven *)
  end.

Definition form_re (f : form) (p : re) : re :=
  match f with FPlain => p | FSlash => wrap pre2 post2 p | FSepNum => wrap pre3 post3 p end.
Definition gexpand (pats : list re) : list re := flat_map (fun p => map (fun f => form_re f p) (x_forms F)) pats.
Fixpoint gcompile (raw : list rawpat) : option (list re) :=
  match raw with
  | [] => Some []
  | Bad :: _ => None
  | Blank :: rest => if x_skip_blank F then gcompile rest else option_map (cons Eps) (gcompile rest)
  | Good r :: rest => option_map (cons (treat F r)) (gcompile rest)
  end.

(* ExcludeFiles: is the name kept? *)
Definition kept (E : list re) (x : str) : bool := if x_keep_unmatched F then negb (excl E x) else excl E x.
(* LsWithExclusionPatterns(fs, dir, regexes): is the name dropped from the listing? *)
Definition lsdrop (E : list re) (x : str) : bool := ls_filter F && negb (kept E x).
Definition down (b : bool) (E : list re) : list re := if b then E else [].

Fixpoint gwalk_node (E : list re) (n : node) : list entry :=
  ([], is_dir n) ::
  match n with
  | File => []
  | Dir ch => flat_map (fun nc => if walk_child F && negb (kept E (fst nc)) then []
                                  else under (fst nc) (gwalk_node (down (walk_down F) E) (snd nc))) ch
  end.
Definition gwalk (E : list re) (root : str) (t : node) : list entry :=
  if walk_root F && excl E root then [] else gwalk_node E t.
Definition gls_rec (E : list re) (root : str) (incl_dirs : bool) (t : node) : list entry :=
  filter (fun e => incl_dirs || negb (snd e)) (gwalk (down (lsrec_with_pats F) E) root t).
Definition gzip_entries (E : list re) (root : str) (t : node) : list entry :=
  filter (fun e => match fst e with [] => false | _ => true end) (gwalk (down (zip_with_pats F) E) root t).
Definition gls (E : list re) (t : node) : list entry :=
  match t with
  | File => []
  | Dir ch => flat_map (fun nc => if lsdrop E (fst nc) then [] else [([fst nc], is_dir (snd nc))]) ch
  end.
Definition sub_excl (E : list re) (root x : str) : bool :=
  match sub_tested F with TName => excl E x | TPath => excl E (pjoin sep root x) | TNone => false end.
Definition gsubdirs (E : list re) (root : str) (t : node) : list entry :=
  match t with
  | File => []
  | Dir ch => flat_map (fun nc => if (negb (sub_requires_dir F) || is_dir (snd nc)) && negb (sub_excl E root (fst nc))
                                  then [([fst nc], is_dir (snd nc))] else []) ch
  end.
Fixpoint glist_tree (E : list re) (n : node) : list entry :=
  match n with
  | File => []
  | Dir ch => flat_map (fun nc => if tree_filtered F && lsdrop E (fst nc) then []
                                  else ([fst nc], is_dir (snd nc)) :: under (fst nc) (glist_tree (down (tree_down F) E) (snd nc))) ch
  end.

Definition ctest (pr : bool * bool) (E : list re) (sp dp : str) : bool := (fst pr && excl E sp) || (snd pr && excl E dp).
Fixpoint gcopy_node (E : list re) (sp dp : str) (n : node) : list entry :=
  match n with
  | File => if ctest (copy_file_test F) E sp dp then [] else [([], false)]
  | Dir ch =>
      if ctest (copy_folder_test F) E sp dp then [] else
      ([], true) ::
      flat_map (fun nc =>
        if copy_filtered F && lsdrop E (fst nc) then [] else
        if ctest (copy_top_test F) (down (copy_down F) E) (pjoin sep sp (fst nc)) dp then [] else
        under (fst nc) (gcopy_node (down (copy_down F) E) (pjoin sep sp (fst nc)) (pjoin sep dp (fst nc)) (snd nc))) ch
  end.
Definition gcopy_top (E : list re) (src dest base : str) (dest_exists : bool) (t : node) : list entry :=
  if ctest (copy_top_test F) E src dest then [] else
  if dest_exists then under base (gcopy_node E src (pjoin sep dest base) t)
  else gcopy_node E src dest t.

(* removeWithExclusionPatterns(dir = p, tested); a non-empty directory removed without stopping is modelled as gone *)
Fixpoint gremove_node (E : list re) (tst p : str) (n : node) : option node :=
  let final := if rm_final_on_tested F then tst else p in
  match n with
  | File => if excl E final then Some File else None
  | Dir ch =>
      let Ec := down (rm_cleans_with_pats F) E in
      let ch' := flat_map (fun nc =>
                   if clean_filtered F && lsdrop Ec (fst nc) then [nc] else
                   match gremove_node (down (clean_down F && rm_nested_down F) Ec)
                                      (if rm_nested_name F then fst nc else pjoin sep p (fst nc))
                                      (pjoin sep p (fst nc)) (snd nc) with
                   | Some c' => [(fst nc, c')]
                   | None => []
                   end) ch in
      match ch' with
      | [] => if excl E final then Some (Dir []) else None
      | _ => if rm_stops_if_nonempty F || excl E final then Some (Dir ch') else None
      end
  end.
Definition gclean_dir (E : list re) (p : str) (t : node) : node :=
  match t with
  | File => File
  | Dir ch =>
      Dir (flat_map (fun nc =>
             if clean_filtered F && lsdrop E (fst nc) then [nc] else
             match gremove_node (down (clean_down F && rm_nested_down F) E)
                                (if rm_nested_name F then fst nc else pjoin sep p (fst nc))
                                (pjoin sep p (fst nc)) (snd nc) with
             | Some c' => [(fst nc, c')]
             | None => []
             end) ch)
  end.

Definition op_own (op : opk) : bool :=
  match op with
  | OWalk => walk_own F
  | OLs => ls_own F
  | OLsRec _ => lsrec_own F || walk_own F
  | OListTree => tree_own F
  | OSubDirs => sub_own F
  | OCopy _ => copy_own F
  | OZip => zip_own F || walk_own F
  | ORemove | OClean => rm_own F || clean_own F
  end.
Definition op_validates_first (op : opk) : bool :=
  match op with
  | OZip => zip_validates_first F
  | ORemove => rm_validates_first F
  | OClean => clean_validates_first F
  | _ => true      (* the other operations compile the patterns in their first statements (translator: fixed shape) *)
  end.

Inductive gresult :=
| GInvalid                     (* ErrInvalid, nothing touched *)
| GInvalidLate                 (* an invalid pattern is noticed too late, or reported with another kind *)
| GUnmodelled                  (* the operation builds patterns of its own: outside the model *)
| GOut (out : list entry).

Definition grun_op (op : opk) (raw : list rawpat) (root dest base : str) (t : node) : gresult :=
  if op_own op then GUnmodelled else
  match gcompile raw with
  | None => if x_invalid_kind F && op_validates_first op then GInvalid else GInvalidLate
  | Some pats =>
      let E := gexpand pats in
      GOut match op with
           | OWalk => gwalk E root t
           | OLs => gls E t
           | OLsRec d => gls_rec E root d t
           | OListTree => glist_tree E t
           | OSubDirs => gsubdirs E root t
           | OCopy de => gcopy_top E root dest base de t
           | OZip => gzip_entries E root t
           | ORemove => survivors (gremove_node E root root t)
           | OClean => all_entries (gclean_dir E root t)
           end
  end.
End Generic.

(* evaluated by the correspondence on the GENERATED facts (Gen.v: check_case_gen := gcheck_case gen) *)
Fixpoint gcheck_case (F : facts) (W : list wrapper) (c : case) : bool :=
  match c with
  | CWrap name c' =>
      (* a wrapper that does not forward everything is outside the model *)
      existsb (fun w => String.eqb (w_name w) name && w_forwards_all w) W && gcheck_case F W c'
  | CExcludeAll raw names obs_invalid obs =>
      match gcompile F raw with
      | None => Bool.eqb obs_invalid (x_invalid_kind F)
      | Some pats => negb obs_invalid && rel_eqb (filter (kept F (gexpand F pats)) names) obs
      end
  | COp op raw root dest base t obs_invalid obs =>
      match grun_op F op raw root dest base t with
      | GInvalid => obs_invalid
      | GInvalidLate => negb obs_invalid
      | GUnmodelled => false
      | GOut out => negb obs_invalid && same_entries (project op out) obs
      end
  | CMatch r s f g => Bool.eqb (matchb r s) f && Bool.eqb (findb r s) g
  | CExcl raw s o =>
      match gcompile F raw with
      | None => negb o                     (* IsPathExcludedFromPatterns: a compile error means "not excluded" *)
      | Some pats => Bool.eqb (excl (gexpand F pats) s) o
      end
  end.

(* what calling an operation THROUGH a forwarding function gives *)
Definition grun_wrapper (F : facts) (w : wrapper) (op : opk) (raw : list rawpat) (root dest base : str) (t : node) : gresult :=
  if w_forwards_all w then grun_op F op raw root dest base t else GUnmodelled.

(* the facts the hand-written definitions above correspond to *)
Definition expected_facts : facts := {|
  x_skip_blank := true; x_pattern_as := AsGiven; x_forms := [FPlain; FSlash; FSepNum]; x_invalid_kind := true; x_keep_unmatched := true;
  walk_own := false; walk_root := true; walk_child := true; walk_down := true;
  ls_own := false; ls_filter := true;
  lsrec_own := false; lsrec_with_pats := true;
  tree_own := false; tree_filtered := true; tree_down := true;
  sub_own := false; sub_tested := TName; sub_requires_dir := true;
  copy_own := false; copy_top_test := (true, true); copy_folder_test := (true, true); copy_file_test := (true, true);
  copy_filtered := true; copy_down := true;
  zip_own := false; zip_validates_first := true; zip_with_pats := true;
  rm_own := false; rm_validates_first := true; rm_cleans_with_pats := true; rm_stops_if_nonempty := true;
  rm_final_on_tested := true; rm_nested_name := true; rm_nested_down := true;
  clean_own := false; clean_validates_first := true; clean_filtered := true; clean_down := true |}.

(* the facts of the code BEFORE the two repairs (bc1ce85a): CleanDir did not hand the patterns to the per-entry removal,
   and Remove / CleanDir / Zip did not validate the patterns first *)
Definition facts_before_fix : facts := {| x_skip_blank := x_skip_blank expected_facts; x_pattern_as := AsGiven; x_forms := x_forms expected_facts; x_invalid_kind := x_invalid_kind expected_facts; x_keep_unmatched := x_keep_unmatched expected_facts; walk_own := walk_own expected_facts; walk_root := walk_root expected_facts; walk_child := walk_child expected_facts; walk_down := walk_down expected_facts; ls_own := ls_own expected_facts; ls_filter := ls_filter expected_facts; lsrec_own := lsrec_own expected_facts; lsrec_with_pats := lsrec_with_pats expected_facts; tree_own := tree_own expected_facts; tree_filtered := tree_filtered expected_facts; tree_down := tree_down expected_facts; sub_own := sub_own expected_facts; sub_tested := sub_tested expected_facts; sub_requires_dir := sub_requires_dir expected_facts; copy_own := copy_own expected_facts; copy_top_test := copy_top_test expected_facts; copy_folder_test := copy_folder_test expected_facts; copy_file_test := copy_file_test expected_facts; copy_filtered := copy_filtered expected_facts; copy_down := copy_down expected_facts; zip_own := zip_own expected_facts; zip_validates_first := false; zip_with_pats := zip_with_pats expected_facts; rm_own := rm_own expected_facts; rm_validates_first := false; rm_cleans_with_pats := rm_cleans_with_pats expected_facts; rm_stops_if_nonempty := rm_stops_if_nonempty expected_facts; rm_final_on_tested := rm_final_on_tested expected_facts; rm_nested_name := rm_nested_name expected_facts; rm_nested_down := rm_nested_down expected_facts; clean_own := clean_own expected_facts; clean_validates_first := false; clean_filtered := clean_filtered expected_facts; clean_down := false |}.

(* written to Gen.v when the translator cannot read the source (unknown statement shape): every operation is outside
   the model, nothing can be proved of it *)
Definition facts_unreadable : facts := {| x_skip_blank := false; x_pattern_as := Quoted; x_forms := []; x_invalid_kind := false; x_keep_unmatched := false; walk_own := true; walk_root := false; walk_child := false; walk_down := false; ls_own := true; ls_filter := false; lsrec_own := true; lsrec_with_pats := false; tree_own := true; tree_filtered := false; tree_down := false; sub_own := true; sub_tested := TNone; sub_requires_dir := false; copy_own := true; copy_top_test := (false, false); copy_folder_test := (false, false); copy_file_test := (false, false); copy_filtered := false; copy_down := false; zip_own := true; zip_validates_first := false; zip_with_pats := false; rm_own := true; rm_validates_first := false; rm_cleans_with_pats := false; rm_stops_if_nonempty := false; rm_final_on_tested := false; rm_nested_name := false; rm_nested_down := false; clean_own := true; clean_validates_first := false; clean_filtered := false; clean_down := false |}.
Definition check_case (c : case) : bool := gcheck_case expected_facts [] c.
