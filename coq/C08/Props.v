(* C08 — Exclusion patterns protect exactly what they name, in every operation.
   The theorems are about the model INSTANTIATED WITH THE FACTS GENERATED FROM THE SOURCE (Gen.v, written on every run
   by translator-c08/cmd/excl2coq from exclusion.go, files.go, zip.go): [grun_op gen op raw root dest base t] is what
   the operation returns for the raw pattern list [raw] on the tree [t] rooted at path [root].
   Each proof applies a lemma of ProofsGen.v that holds for EVERY facts record satisfying the conditions of the operation
   concerned (x_ok, walk_ok, ls_ok, ... : which string is tested, whether the filtered listing is used, whether the
   recursion hands the patterns down, that the operation adds no pattern of its own, where the patterns are validated)
   and discharges these conditions on [gen] by computation ([facts]): a change of a fact breaks exactly the theorems of
   the operations that depend on it.
   Vocabulary (Proofs.v): [hit pats s] some pattern finds a match inside s; [fully_matched pats rel] a component of the
   relative path rel is matched IN FULL by a pattern; [clear pats rel] no component of rel contains a match;
   [at_path t rel m] the tree t holds the entry m at rel.  For EVERY tree, EVERY pattern list, EVERY root path.
   sound    : what is reported / copied / archived has no fully matched component; what has one is not deleted;
   complete : an entry at a clear path (root path without a match) is reported / copied / archived / deleted. *)
From Coq Require Import List ZArith Bool String.
Import ListNotations.
From GU Require Import C08.Regex C08.Model C08.Proofs C08.ProofsGen C08.Gen.
Local Open Scope Z_scope.

Ltac facts := repeat split; reflexivity.

(* exclusion.go: whatever forms are appended per pattern, as long as the pattern itself is among them the compiled
   list decides exactly "some pattern finds a match" *)
Theorem expansion_adds_nothing : forall pats s, excl (gexpand gen pats) s = true <-> hit pats s.
Proof. intros. apply excl_gexpand_iff. reflexivity. Qed.
Print Assumptions expansion_adds_nothing.

(* NewExclusionRegexList: blank patterns are skipped, every other pattern is compiled AS GIVEN (not trimmed, not quoted):
   the patterns [goods raw] the caller wrote are the patterns the theorems below speak about *)
Theorem patterns_compiled_as_given : forall raw, ~ In Bad raw -> gcompile gen raw = Some (goods raw).
Proof. intros raw NB. apply gcompile_goods_raw; [reflexivity|reflexivity|exact NB]. Qed.
Print Assumptions patterns_compiled_as_given.
Definition gen_compiles := patterns_compiled_as_given.

(* ---- walk ---- *)
Lemma walk_excl_sound_c : forall raw pats root dest base t, gcompile gen raw = Some pats ->
  exists out, grun_op gen OWalk raw root dest base t = GOut out /\
              forall rel d, In (rel, d) out -> ~ fully_matched pats rel.
Proof.
  intros. eexists. split; [apply g_walk_out; [facts|facts|eassumption]|].
  intros rel d I M. apply walk_exact in I as (_ & m & _ & _ & C). eapply fully_matched_not_clear; eauto.
Qed.
Theorem walk_excl_sound : forall raw root dest base t, ~ In Bad raw ->
  exists out, grun_op gen OWalk raw root dest base t = GOut out /\
              forall rel d, In (rel, d) out -> ~ fully_matched (goods raw) rel.
Proof. intros raw root dest base t NB. exact (walk_excl_sound_c raw (goods raw) root dest base t (gen_compiles raw NB)). Qed.
Print Assumptions walk_excl_sound.

Lemma walk_excl_complete_c : forall raw pats root dest base t rel m, gcompile gen raw = Some pats ->
  ~ hit pats root -> at_path t rel m -> clear pats rel ->
  exists out, grun_op gen OWalk raw root dest base t = GOut out /\ In (rel, is_dir m) out.
Proof.
  intros. eexists. split; [apply g_walk_out; [facts|facts|eassumption]|].
  apply walk_exact. split; auto. exists m. auto.
Qed.
Theorem walk_excl_complete : forall raw root dest base t rel m, ~ In Bad raw ->
  ~ hit (goods raw) root -> at_path t rel m -> clear (goods raw) rel ->
  exists out, grun_op gen OWalk raw root dest base t = GOut out /\ In (rel, is_dir m) out.
Proof. intros raw root dest base t rel m NB. exact (walk_excl_complete_c raw (goods raw) root dest base t rel m (gen_compiles raw NB)). Qed.
Print Assumptions walk_excl_complete.

(* ---- list ---- *)
Lemma ls_excl_sound_c : forall raw pats root dest base t, gcompile gen raw = Some pats ->
  exists out, grun_op gen OLs raw root dest base t = GOut out /\
              forall rel d, In (rel, d) out -> ~ fully_matched pats rel.
Proof.
  intros. eexists. split; [apply g_ls_out; [facts|facts|eassumption]|].
  intros rel d I M. apply ls_exact in I as ((m & _ & _ & C) & _). eapply fully_matched_not_clear; eauto.
Qed.
Theorem ls_excl_sound : forall raw root dest base t, ~ In Bad raw ->
  exists out, grun_op gen OLs raw root dest base t = GOut out /\
              forall rel d, In (rel, d) out -> ~ fully_matched (goods raw) rel.
Proof. intros raw root dest base t NB. exact (ls_excl_sound_c raw (goods raw) root dest base t (gen_compiles raw NB)). Qed.
Print Assumptions ls_excl_sound.

Lemma ls_excl_complete_c : forall raw pats root dest base t x m, gcompile gen raw = Some pats ->
  at_path t [x] m -> clear pats [x] ->
  exists out, grun_op gen OLs raw root dest base t = GOut out /\ In ([x], is_dir m) out.
Proof.
  intros. eexists. split; [apply g_ls_out; [facts|facts|eassumption]|].
  apply ls_exact. split; auto. exists m. auto.
Qed.
Theorem ls_excl_complete : forall raw root dest base t x m, ~ In Bad raw ->
  at_path t [x] m -> clear (goods raw) [x] ->
  exists out, grun_op gen OLs raw root dest base t = GOut out /\ In ([x], is_dir m) out.
Proof. intros raw root dest base t x m NB. exact (ls_excl_complete_c raw (goods raw) root dest base t x m (gen_compiles raw NB)). Qed.
Print Assumptions ls_excl_complete.

(* ---- recursive list ---- *)
Lemma lsrec_excl_sound_c : forall raw pats root dest base t incl, gcompile gen raw = Some pats ->
  exists out, grun_op gen (OLsRec incl) raw root dest base t = GOut out /\
              forall rel d, In (rel, d) out -> ~ fully_matched pats rel.
Proof.
  intros. eexists. split; [apply g_lsrec_out; [facts|facts|facts|eassumption]|].
  intros rel d I M. apply ls_rec_exact in I as (_ & (m & _ & _ & C) & _). eapply fully_matched_not_clear; eauto.
Qed.
Theorem lsrec_excl_sound : forall raw root dest base t incl, ~ In Bad raw ->
  exists out, grun_op gen (OLsRec incl) raw root dest base t = GOut out /\
              forall rel d, In (rel, d) out -> ~ fully_matched (goods raw) rel.
Proof. intros raw root dest base t incl NB. exact (lsrec_excl_sound_c raw (goods raw) root dest base t incl (gen_compiles raw NB)). Qed.
Print Assumptions lsrec_excl_sound.

Lemma lsrec_excl_complete_c : forall raw pats root dest base t incl rel m, gcompile gen raw = Some pats ->
  ~ hit pats root -> at_path t rel m -> clear pats rel -> (incl = true \/ is_dir m = false) ->
  exists out, grun_op gen (OLsRec incl) raw root dest base t = GOut out /\ In (rel, is_dir m) out.
Proof.
  intros. eexists. split; [apply g_lsrec_out; [facts|facts|facts|eassumption]|].
  apply ls_rec_exact. repeat split; auto. exists m. auto.
Qed.
Theorem lsrec_excl_complete : forall raw root dest base t incl rel m, ~ In Bad raw ->
  ~ hit (goods raw) root -> at_path t rel m -> clear (goods raw) rel -> (incl = true \/ is_dir m = false) ->
  exists out, grun_op gen (OLsRec incl) raw root dest base t = GOut out /\ In (rel, is_dir m) out.
Proof. intros raw root dest base t incl rel m NB. exact (lsrec_excl_complete_c raw (goods raw) root dest base t incl rel m (gen_compiles raw NB)). Qed.
Print Assumptions lsrec_excl_complete.

(* ---- tree listing ---- *)
Lemma listtree_excl_sound_c : forall raw pats root dest base t, gcompile gen raw = Some pats ->
  exists out, grun_op gen OListTree raw root dest base t = GOut out /\
              forall rel d, In (rel, d) out -> ~ fully_matched pats rel.
Proof.
  intros. eexists. split; [apply g_tree_out; [facts|facts|eassumption]|].
  intros rel d I M. apply list_tree_exact in I as ((m & _ & _ & C) & _). eapply fully_matched_not_clear; eauto.
Qed.
Theorem listtree_excl_sound : forall raw root dest base t, ~ In Bad raw ->
  exists out, grun_op gen OListTree raw root dest base t = GOut out /\
              forall rel d, In (rel, d) out -> ~ fully_matched (goods raw) rel.
Proof. intros raw root dest base t NB. exact (listtree_excl_sound_c raw (goods raw) root dest base t (gen_compiles raw NB)). Qed.
Print Assumptions listtree_excl_sound.

Lemma listtree_excl_complete_c : forall raw pats root dest base t rel m, gcompile gen raw = Some pats ->
  at_path t rel m -> rel <> [] -> clear pats rel ->
  exists out, grun_op gen OListTree raw root dest base t = GOut out /\ In (rel, is_dir m) out.
Proof.
  intros. eexists. split; [apply g_tree_out; [facts|facts|eassumption]|].
  apply list_tree_exact. split; auto. exists m. auto.
Qed.
Theorem listtree_excl_complete : forall raw root dest base t rel m, ~ In Bad raw ->
  at_path t rel m -> rel <> [] -> clear (goods raw) rel ->
  exists out, grun_op gen OListTree raw root dest base t = GOut out /\ In (rel, is_dir m) out.
Proof. intros raw root dest base t rel m NB. exact (listtree_excl_complete_c raw (goods raw) root dest base t rel m (gen_compiles raw NB)). Qed.
Print Assumptions listtree_excl_complete.

(* ---- sub-directories ---- *)
Lemma subdirs_excl_sound_c : forall raw pats root dest base t, gcompile gen raw = Some pats ->
  exists out, grun_op gen OSubDirs raw root dest base t = GOut out /\
              forall rel d, In (rel, d) out -> ~ fully_matched pats rel.
Proof.
  intros. eexists. split; [apply g_sub_out; [reflexivity|facts|eassumption]|].
  intros rel d I M. apply subdirs_exact in I as ((m & _ & _ & C) & _). eapply fully_matched_not_clear; eauto.
Qed.
Theorem subdirs_excl_sound : forall raw root dest base t, ~ In Bad raw ->
  exists out, grun_op gen OSubDirs raw root dest base t = GOut out /\
              forall rel d, In (rel, d) out -> ~ fully_matched (goods raw) rel.
Proof. intros raw root dest base t NB. exact (subdirs_excl_sound_c raw (goods raw) root dest base t (gen_compiles raw NB)). Qed.
Print Assumptions subdirs_excl_sound.

Lemma subdirs_excl_complete_c : forall raw pats root dest base t x m, gcompile gen raw = Some pats ->
  at_path t [x] m -> is_dir m = true -> clear pats [x] ->
  exists out, grun_op gen OSubDirs raw root dest base t = GOut out /\ In ([x], true) out.
Proof.
  intros. eexists. split; [apply g_sub_out; [reflexivity|facts|eassumption]|].
  apply subdirs_exact. repeat split; auto. exists m. auto.
Qed.
Theorem subdirs_excl_complete : forall raw root dest base t x m, ~ In Bad raw ->
  at_path t [x] m -> is_dir m = true -> clear (goods raw) [x] ->
  exists out, grun_op gen OSubDirs raw root dest base t = GOut out /\ In ([x], true) out.
Proof. intros raw root dest base t x m NB. exact (subdirs_excl_complete_c raw (goods raw) root dest base t x m (gen_compiles raw NB)). Qed.
Print Assumptions subdirs_excl_complete.

(* ---- zip ---- *)
Lemma zip_excl_sound_c : forall raw pats root dest base t, gcompile gen raw = Some pats ->
  exists out, grun_op gen OZip raw root dest base t = GOut out /\
              forall rel d, In (rel, d) out -> ~ fully_matched pats rel.
Proof.
  intros. eexists. split; [apply g_zip_out; [facts|facts|facts|eassumption]|].
  intros rel d I M. apply zip_exact in I as (_ & (m & _ & _ & C) & _). eapply fully_matched_not_clear; eauto.
Qed.
Theorem zip_excl_sound : forall raw root dest base t, ~ In Bad raw ->
  exists out, grun_op gen OZip raw root dest base t = GOut out /\
              forall rel d, In (rel, d) out -> ~ fully_matched (goods raw) rel.
Proof. intros raw root dest base t NB. exact (zip_excl_sound_c raw (goods raw) root dest base t (gen_compiles raw NB)). Qed.
Print Assumptions zip_excl_sound.

Lemma zip_excl_complete_c : forall raw pats root dest base t rel m, gcompile gen raw = Some pats ->
  ~ hit pats root -> at_path t rel m -> rel <> [] -> clear pats rel ->
  exists out, grun_op gen OZip raw root dest base t = GOut out /\ In (rel, is_dir m) out.
Proof.
  intros. eexists. split; [apply g_zip_out; [facts|facts|facts|eassumption]|].
  apply zip_exact. repeat split; auto. exists m. auto.
Qed.
Theorem zip_excl_complete : forall raw root dest base t rel m, ~ In Bad raw ->
  ~ hit (goods raw) root -> at_path t rel m -> rel <> [] -> clear (goods raw) rel ->
  exists out, grun_op gen OZip raw root dest base t = GOut out /\ In (rel, is_dir m) out.
Proof. intros raw root dest base t rel m NB. exact (zip_excl_complete_c raw (goods raw) root dest base t rel m (gen_compiles raw NB)). Qed.
Print Assumptions zip_excl_complete.

(* ---- copy (tests whole source and destination paths) ---- *)
Lemma copy_excl_sound_c : forall raw pats src dest base dest_exists t, gcompile gen raw = Some pats ->
  exists out, grun_op gen (OCopy dest_exists) raw src dest base t = GOut out /\
    forall rel d, In (rel, d) out ->
      exists rel', rel = dest_prefix dest_exists base ++ rel' /\ (exists m, at_path t rel' m /\ is_dir m = d) /\
                   ~ fully_matched pats rel'.
Proof.
  intros. eexists. split; [apply g_copy_out; [facts|facts|eassumption]|].
  intros rel d I. apply copy_top_sound in I as (rel' & E & A & C). exists rel'. repeat split; auto.
  intro M. eapply fully_matched_not_clear; eauto.
Qed.
Theorem copy_excl_sound : forall raw src dest base dest_exists t, ~ In Bad raw ->
  exists out, grun_op gen (OCopy dest_exists) raw src dest base t = GOut out /\
    forall rel d, In (rel, d) out ->
      exists rel', rel = dest_prefix dest_exists base ++ rel' /\ (exists m, at_path t rel' m /\ is_dir m = d) /\
                   ~ fully_matched (goods raw) rel'.
Proof. intros raw src dest base dest_exists t NB. exact (copy_excl_sound_c raw (goods raw) src dest base dest_exists t (gen_compiles raw NB)). Qed.
Print Assumptions copy_excl_sound.

(* complete for patterns that cannot match the separator; source and destination paths without a match *)
Lemma copy_excl_complete_c : forall raw pats src dest base dest_exists t rel m, gcompile gen raw = Some pats ->
  all_sepfree pats -> ~ hit pats src -> ~ hit pats dest -> (dest_exists = true -> ~ hit pats base) ->
  at_path t rel m -> clear pats rel ->
  exists out, grun_op gen (OCopy dest_exists) raw src dest base t = GOut out /\
              In (dest_prefix dest_exists base ++ rel, is_dir m) out.
Proof.
  intros. eexists. split; [apply g_copy_out; [facts|facts|eassumption]|]. now apply copy_top_complete.
Qed.
Theorem copy_excl_complete : forall raw src dest base dest_exists t rel m, ~ In Bad raw ->
  all_sepfree (goods raw) -> ~ hit (goods raw) src -> ~ hit (goods raw) dest -> (dest_exists = true -> ~ hit (goods raw) base) ->
  at_path t rel m -> clear (goods raw) rel ->
  exists out, grun_op gen (OCopy dest_exists) raw src dest base t = GOut out /\
              In (dest_prefix dest_exists base ++ rel, is_dir m) out.
Proof. intros raw src dest base dest_exists t rel m NB. exact (copy_excl_complete_c raw (goods raw) src dest base dest_exists t rel m (gen_compiles raw NB)). Qed.
Print Assumptions copy_excl_complete.

(* FINDING D29 — the restriction is necessary: with pattern a.b and the tree a/b no name contains a match, the
   listings report a/b, yet Copy skips it. Replayed on the implementation on every run. *)
Theorem copy_excl_complete_refuted :
  exists raw src dest t rel m, ~ In Bad raw /\
    ~ hit (goods raw) src /\ ~ hit (goods raw) dest /\ at_path t rel m /\ clear (goods raw) rel /\
    forall out, grun_op gen (OCopy false) raw src dest [] t = GOut out -> ~ In (rel, is_dir m) out.
Proof.
  destruct copy_complete_refuted as (pats & src & dest & t & rel & m & S & D & A & C & N).
  exists (map Good pats), src, dest, t, rel, m. rewrite goods_map_good.
  repeat split; auto; [apply bad_not_in_goods|].
  intros out R. rewrite (g_copy_out gen (map Good pats) pats) in R; [|facts|facts|apply gcompile_goods; reflexivity].
  inversion R; subst. exact N.
Qed.
Print Assumptions copy_excl_complete_refuted.

(* ---- remove ---- *)
(* an entry with a fully matched component survives, with everything it holds *)
Lemma remove_excl_sound_c : forall raw pats root dest base t rel m, gcompile gen raw = Some pats ->
  at_path t rel m -> fully_matched pats rel ->
  exists t', grun_op gen ORemove raw root dest base t = GOut (all_entries t') /\ at_path t' rel m.
Proof.
  intros raw pats root dest base t rel m HC A M.
  destruct (remove_keeps (expand pats) t root rel m A (fully_matched_name_excluded _ _ M)) as (t' & R & A').
  exists t'. split; auto. rewrite (g_remove_out gen raw pats); [|reflexivity|facts|assumption]. now rewrite R.
Qed.
Theorem remove_excl_sound : forall raw root dest base t rel m, ~ In Bad raw ->
  at_path t rel m -> fully_matched (goods raw) rel ->
  exists t', grun_op gen ORemove raw root dest base t = GOut (all_entries t') /\ at_path t' rel m.
Proof. intros raw root dest base t rel m NB. exact (remove_excl_sound_c raw (goods raw) root dest base t rel m (gen_compiles raw NB)). Qed.
Print Assumptions remove_excl_sound.

(* if nothing at or below rel contains a match (and the root path does not either) nothing is left at rel *)
Lemma remove_excl_complete_c : forall raw pats root dest base t rel, gcompile gen raw = Some pats ->
  ~ hit pats root -> (forall rel2 m2, at_path t (rel ++ rel2) m2 -> clear pats (rel ++ rel2)) ->
  exists r, grun_op gen ORemove raw root dest base t = GOut (survivors r) /\
            forall t', r = Some t' -> forall m', ~ at_path t' rel m'.
Proof.
  intros raw pats root dest base t rel HC R C. exists (remove_node (expand pats) root t).
  split; [apply g_remove_out; [reflexivity|facts|assumption]|].
  intros t' H m' A. destruct (remove_survivor _ _ _ _ _ _ H A) as [X|(rel2 & m2 & A2 & N)].
  - now apply excl_expand_iff in X.
  - eapply name_excluded_not_clear; eauto.
Qed.
Theorem remove_excl_complete : forall raw root dest base t rel, ~ In Bad raw ->
  ~ hit (goods raw) root -> (forall rel2 m2, at_path t (rel ++ rel2) m2 -> clear (goods raw) (rel ++ rel2)) ->
  exists r, grun_op gen ORemove raw root dest base t = GOut (survivors r) /\
            forall t', r = Some t' -> forall m', ~ at_path t' rel m'.
Proof. intros raw root dest base t rel NB. exact (remove_excl_complete_c raw (goods raw) root dest base t rel (gen_compiles raw NB)). Qed.
Print Assumptions remove_excl_complete.

(* ---- clean ---- *)
Lemma clean_excl_sound_c : forall raw pats root dest base t rel m, gcompile gen raw = Some pats ->
  at_path t rel m -> fully_matched pats rel ->
  exists t', grun_op gen OClean raw root dest base t = GOut (all_entries t') /\ at_path t' rel m.
Proof.
  intros raw pats root dest base t rel m HC A M. exists (clean_dir (expand pats) t).
  split; [apply g_clean_out; [reflexivity|facts|assumption]|].
  apply clean_keeps; auto. now apply fully_matched_name_excluded.
Qed.
Theorem clean_excl_sound : forall raw root dest base t rel m, ~ In Bad raw ->
  at_path t rel m -> fully_matched (goods raw) rel ->
  exists t', grun_op gen OClean raw root dest base t = GOut (all_entries t') /\ at_path t' rel m.
Proof. intros raw root dest base t rel m NB. exact (clean_excl_sound_c raw (goods raw) root dest base t rel m (gen_compiles raw NB)). Qed.
Print Assumptions clean_excl_sound.

Lemma clean_excl_complete_c : forall raw pats root dest base t rel, gcompile gen raw = Some pats ->
  rel <> [] -> (forall rel2 m2, at_path t (rel ++ rel2) m2 -> clear pats (rel ++ rel2)) ->
  exists t', grun_op gen OClean raw root dest base t = GOut (all_entries t') /\ forall m', ~ at_path t' rel m'.
Proof.
  intros raw pats root dest base t rel HC NE C. exists (clean_dir (expand pats) t).
  split; [apply g_clean_out; [reflexivity|facts|assumption]|].
  intros m' A. destruct (clean_survivor _ _ _ _ A) as [->|(rel2 & m2 & A2 & N)]; [congruence|].
  eapply name_excluded_not_clear; eauto.
Qed.
Theorem clean_excl_complete : forall raw root dest base t rel, ~ In Bad raw ->
  rel <> [] -> (forall rel2 m2, at_path t (rel ++ rel2) m2 -> clear (goods raw) (rel ++ rel2)) ->
  exists t', grun_op gen OClean raw root dest base t = GOut (all_entries t') /\ forall m', ~ at_path t' rel m'.
Proof. intros raw root dest base t rel NB. exact (clean_excl_complete_c raw (goods raw) root dest base t rel (gen_compiles raw NB)). Qed.
Print Assumptions clean_excl_complete.

(* ---- all operations ---- *)
(* any uncompilable pattern: every operation answers 'invalid' before anything happens (needs: ErrInvalid kind, no
   operation builds patterns of its own, Zip / Remove / CleanDir validate before their first backend call) *)
Theorem invalid_pattern_rejected_first : forall op raw root dest base t,
  In Bad raw -> grun_op gen op raw root dest base t = GInvalid.
Proof. intros. apply g_invalid; auto; destruct op; reflexivity. Qed.
Print Assumptions invalid_pattern_rejected_first.

(* the package-level convenience functions (they forward to the global file system) and every function or method with a
   pattern parameter hand ALL their parameters on — in particular the patterns: calling an operation through any of them
   is calling the operation. [gen_wrappers] is enumerated from the package by the translator on every run. *)
Theorem wrappers_forward_everything : forall w, In w gen_wrappers ->
  forall op raw root dest base t, grun_wrapper gen w op raw root dest base t = grun_op gen op raw root dest base t.
Proof.
  assert (H : forallb w_forwards_all gen_wrappers = true) by reflexivity.
  intros w I. unfold grun_wrapper. rewrite (proj1 (forallb_forall _ _) H w I). reflexivity.
Qed.
Print Assumptions wrappers_forward_everything.

(* D11, repaired: with the facts of the code before the repair (CleanDir does not hand the patterns down) a protected
   entry below the first level is lost. Kept as documentation; the harness replays the witness on every run. *)
Theorem clean_excl_refuted_before_fix :
  exists pats t rel m, at_path t rel m /\ fully_matched pats rel /\
    ~ at_path (gclean_dir facts_before_fix (gexpand facts_before_fix pats) [116] t) rel m.
Proof.
  exists [Chr 98], d29_tree, [[97]; [98]], File. repeat split.
  - econstructor; [left; reflexivity|]. econstructor; [left; reflexivity|]. constructor.
  - exists [98], (Chr 98). repeat split; [right; now left | now left | constructor].
  - vm_compute. intro A. apply at_path_cons in A as (ch & c & E0 & I & _). inversion E0; subst. destruct I.
Qed.
Print Assumptions clean_excl_refuted_before_fix.

(* ---- non-vacuity: the hypotheses are satisfiable and the generated instance does something ---- *)
Definition ex_tree : node :=                         (* ab/{x, d/a}, xab/x, d/{ab/d, a}, b *)
  Dir [([97;98], Dir [([120], File); ([100], Dir [([97], File)])]);
       ([120;97;98], Dir [([120], File)]);
       ([100], Dir [([97;98], Dir [([100], File)]); ([97], File)]);
       ([98], File)].
Definition ex_raw : list rawpat := [Blank; Good (Cat (Chr 97) (Chr 98))].      (* " ", ab *)
Definition ex_pats : list re := [Cat (Chr 97) (Chr 98)].
Definition ex_root : str := [47;119;47;116].                                      (* /w/t *)
Example ex_compile : gcompile gen ex_raw = Some ex_pats /\ goods ex_raw = ex_pats /\ ~ In Bad ex_raw.
Proof. repeat split. intros [H|[H|[]]]; discriminate. Qed.
Example ex_root_clear : ~ hit ex_pats ex_root.
Proof. apply excl_expand_false. reflexivity. Qed.
Example ex_walk : grun_op gen OWalk ex_raw ex_root [] [] ex_tree =
  GOut [([], true); ([[100]], true); ([[100];[97]], false); ([[98]], false)].
Proof. reflexivity. Qed.
Example ex_remove : grun_op gen ORemove ex_raw ex_root [] [] ex_tree = GOut
  [([], true); ([[97;98]], true); ([[97;98];[120]], false); ([[97;98];[100]], true); ([[97;98];[100];[97]], false);
   ([[120;97;98]], true); ([[120;97;98];[120]], false); ([[100]], true); ([[100];[97;98]], true); ([[100];[97;98];[100]], false)].
Proof. reflexivity. Qed.
Example ex_fully : fully_matched ex_pats [[100]; [97;98]; [100]].
Proof. exists [97;98], (Cat (Chr 97) (Chr 98)). repeat split; [right; now left | now left |]. apply matchb_correct. reflexivity. Qed.
Example ex_clear : clear ex_pats [[100]; [97]].
Proof. intros c [<-|[<-|[]]]; apply excl_expand_false; reflexivity. Qed.
Example ex_sepfree : all_sepfree ex_pats.
Proof. intros p [<-|[]]. reflexivity. Qed.
Example ex_copy : grun_op gen (OCopy true) ex_raw [116] [111] [116] ex_tree =
  GOut [([[116]], true); ([[116];[100]], true); ([[116];[100];[97]], false); ([[116];[98]], false)].
Proof. reflexivity. Qed.
Example ex_wrappers_enumerated :
  existsb (fun w => String.eqb (w_name w) "LsRecursiveWithExclusionPatterns"%string && w_global w && w_patterns w) gen_wrappers = true
  /\ existsb (fun w => String.eqb (w_name w) "ExcludeAll"%string && w_global w && w_patterns w) gen_wrappers = true.
Proof. split; reflexivity. Qed.
Example ex_generated_facts_are_the_expected_ones : gen = expected_facts. Proof. reflexivity. Qed.
