(* C08 — Exclusion patterns protect exactly what they name, in every operation.
   Vocabulary (Proofs.v): [hit pats s] some pattern finds a match inside s; [fully_matched pats rel] a component of the
   relative path rel is matched IN FULL by a pattern (the entry is, or lies beneath, an entry whose name is matched in
   full); [clear pats rel] no component of rel contains a match; [at_path t rel m] the tree t holds the entry m at rel.
   The statements are about E = expand pats, the compiled list NewExclusionRegexList builds (three forms per pattern),
   for EVERY tree, EVERY list of anchor-free patterns, EVERY root path.
   sound    : what is reported / copied / archived has no fully matched component; what has one is not deleted;
   complete : an entry at a clear path (root path without a match) is reported / copied / archived / deleted.
   Whatever lies in between (a component merely CONTAINS a match) is left unconstrained, as in the property. *)
From Coq Require Import List ZArith Bool.
Import ListNotations.
From GU Require Import C08.Regex C08.Model C08.Proofs.
Local Open Scope Z_scope.

(* the two extra forms of every pattern (".*/p/.*" and, on Linux, ".*47p47.*") never decide anything *)
Theorem expansion_adds_nothing : forall pats s, excl (expand pats) s = true <-> hit pats s.
Proof. exact excl_expand_iff. Qed.
Print Assumptions expansion_adds_nothing.

(* only the well-formed, non-blank patterns count; any uncompilable one rejects the call before anything happens *)
Theorem invalid_pattern_rejected_first : forall op raw root dest base t,
  In Bad raw -> run_op op raw root dest base t = RInvalid.
Proof. exact run_op_invalid. Qed.
Print Assumptions invalid_pattern_rejected_first.

Theorem compiled_patterns_are_the_good_ones : forall raw pats,
  compile raw = Some pats -> forall r, In r pats <-> In (Good r) raw.
Proof. exact compile_good. Qed.
Print Assumptions compiled_patterns_are_the_good_ones.

(* ---- walk ---- *)
Theorem walk_excl_sound : forall pats root t rel d,
  In (rel, d) (walk (expand pats) root t) -> ~ fully_matched pats rel.
Proof. intros pats root t rel d H F. apply walk_exact in H as (_ & m & _ & _ & C). eapply fully_matched_not_clear; eauto. Qed.
Print Assumptions walk_excl_sound.

Theorem walk_excl_complete : forall pats root t rel m,
  ~ hit pats root -> at_path t rel m -> clear pats rel -> In (rel, is_dir m) (walk (expand pats) root t).
Proof. intros. apply walk_exact. split; auto. exists m. auto. Qed.
Print Assumptions walk_excl_complete.

(* ---- list ---- *)
Theorem ls_excl_sound : forall pats t rel d, In (rel, d) (ls (expand pats) t) -> ~ fully_matched pats rel.
Proof. intros pats t rel d H F. apply ls_exact in H as ((m & _ & _ & C) & _). eapply fully_matched_not_clear; eauto. Qed.
Print Assumptions ls_excl_sound.

Theorem ls_excl_complete : forall pats t x m,
  at_path t [x] m -> clear pats [x] -> In ([x], is_dir m) (ls (expand pats) t).
Proof. intros. apply ls_exact. split; auto. exists m. auto. Qed.
Print Assumptions ls_excl_complete.

(* ---- recursive list ---- *)
Theorem lsrec_excl_sound : forall pats root incl t rel d,
  In (rel, d) (ls_rec (expand pats) root incl t) -> ~ fully_matched pats rel.
Proof. intros pats root incl t rel d H F. apply ls_rec_exact in H as (_ & (m & _ & _ & C) & _). eapply fully_matched_not_clear; eauto. Qed.
Print Assumptions lsrec_excl_sound.

Theorem lsrec_excl_complete : forall pats root incl t rel m,
  ~ hit pats root -> at_path t rel m -> clear pats rel -> (incl = true \/ is_dir m = false) ->
  In (rel, is_dir m) (ls_rec (expand pats) root incl t).
Proof. intros. apply ls_rec_exact. repeat split; auto. exists m. auto. Qed.
Print Assumptions lsrec_excl_complete.

(* ---- tree listing ---- *)
Theorem listtree_excl_sound : forall pats t rel d, In (rel, d) (list_tree (expand pats) t) -> ~ fully_matched pats rel.
Proof. intros pats t rel d H F. apply list_tree_exact in H as ((m & _ & _ & C) & _). eapply fully_matched_not_clear; eauto. Qed.
Print Assumptions listtree_excl_sound.

Theorem listtree_excl_complete : forall pats t rel m,
  at_path t rel m -> rel <> [] -> clear pats rel -> In (rel, is_dir m) (list_tree (expand pats) t).
Proof. intros. apply list_tree_exact. split; auto. exists m. auto. Qed.
Print Assumptions listtree_excl_complete.

(* ---- sub-directories ---- *)
Theorem subdirs_excl_sound : forall pats t rel d, In (rel, d) (subdirs (expand pats) t) -> ~ fully_matched pats rel.
Proof. intros pats t rel d H F. apply subdirs_exact in H as ((m & _ & _ & C) & _). eapply fully_matched_not_clear; eauto. Qed.
Print Assumptions subdirs_excl_sound.

Theorem subdirs_excl_complete : forall pats t x m,
  at_path t [x] m -> is_dir m = true -> clear pats [x] -> In ([x], true) (subdirs (expand pats) t).
Proof. intros pats t x m A D C. apply subdirs_exact. repeat split; auto. exists m. auto. Qed.
Print Assumptions subdirs_excl_complete.

(* ---- zip ---- *)
Theorem zip_excl_sound : forall pats root t rel d,
  In (rel, d) (zip_entries (expand pats) root t) -> ~ fully_matched pats rel.
Proof. intros pats root t rel d H F. apply zip_exact in H as (_ & (m & _ & _ & C) & _). eapply fully_matched_not_clear; eauto. Qed.
Print Assumptions zip_excl_sound.

Theorem zip_excl_complete : forall pats root t rel m,
  ~ hit pats root -> at_path t rel m -> rel <> [] -> clear pats rel ->
  In (rel, is_dir m) (zip_entries (expand pats) root t).
Proof. intros. apply zip_exact. repeat split; auto. exists m. auto. Qed.
Print Assumptions zip_excl_complete.

(* ---- copy (tests whole paths) ---- *)
(* everything created under dest is the image of an entry reached through names without a match *)
Theorem copy_excl_sound : forall pats src dest base dest_exists t rel d,
  In (rel, d) (copy_top (expand pats) src dest base dest_exists t) ->
  exists rel', rel = dest_prefix dest_exists base ++ rel' /\ (exists m, at_path t rel' m /\ is_dir m = d) /\
               ~ fully_matched pats rel'.
Proof.
  intros. apply copy_top_sound in H as (rel' & E & A & C). exists rel'. repeat split; auto.
  intro F. eapply fully_matched_not_clear; eauto.
Qed.
Print Assumptions copy_excl_sound.

(* complete for patterns that cannot match the separator; source and destination paths without a match *)
Theorem copy_excl_complete : forall pats src dest base dest_exists t rel m,
  all_sepfree pats -> ~ hit pats src -> ~ hit pats dest -> (dest_exists = true -> ~ hit pats base) ->
  at_path t rel m -> clear pats rel ->
  In (dest_prefix dest_exists base ++ rel, is_dir m) (copy_top (expand pats) src dest base dest_exists t).
Proof. exact copy_top_complete. Qed.
Print Assumptions copy_excl_complete.

(* FINDING D29 — the restriction is necessary: with pattern a.b and the tree a/b no name contains a match, the
   listings report a/b (walk_excl_complete), yet Copy skips it. Replayed on the implementation on every run. *)
Theorem copy_excl_complete_refuted :
  exists pats src dest t rel m,
    ~ hit pats src /\ ~ hit pats dest /\ at_path t rel m /\ clear pats rel /\
    ~ In (rel, is_dir m) (copy_top (expand pats) src dest [] false t).
Proof. exact copy_complete_refuted. Qed.
Print Assumptions copy_excl_complete_refuted.

(* ---- remove ---- *)
(* an entry with a fully matched component survives, with everything it holds (the same sub-tree m) *)
Theorem remove_excl_sound : forall pats root t rel m,
  at_path t rel m -> fully_matched pats rel ->
  exists t', remove_node (expand pats) root t = Some t' /\ at_path t' rel m.
Proof. intros. apply remove_keeps; auto. now apply fully_matched_name_excluded. Qed.
Print Assumptions remove_excl_sound.

(* if nothing at or below rel contains a match (and the root path does not either) nothing is left at rel:
   it is deleted unless it is an ancestor of an entry that a pattern lets survive *)
Theorem remove_excl_complete : forall pats root t rel,
  ~ hit pats root -> (forall rel2 m2, at_path t (rel ++ rel2) m2 -> clear pats (rel ++ rel2)) ->
  forall t', remove_node (expand pats) root t = Some t' -> forall m', ~ at_path t' rel m'.
Proof.
  intros pats root t rel R C t' H m' A.
  destruct (remove_survivor _ _ _ _ _ _ H A) as [X|(rel2 & m2 & A2 & N)].
  - now apply excl_expand_iff in X.
  - eapply name_excluded_not_clear; eauto.
Qed.
Print Assumptions remove_excl_complete.

(* ---- clean ---- *)
Theorem clean_excl_sound : forall pats t rel m,
  at_path t rel m -> fully_matched pats rel -> at_path (clean_dir (expand pats) t) rel m.
Proof. intros. apply clean_keeps; auto. now apply fully_matched_name_excluded. Qed.
Print Assumptions clean_excl_sound.

Theorem clean_excl_complete : forall pats t rel,
  rel <> [] -> (forall rel2 m2, at_path t (rel ++ rel2) m2 -> clear pats (rel ++ rel2)) ->
  forall m', ~ at_path (clean_dir (expand pats) t) rel m'.
Proof.
  intros pats t rel NE C m' A. destruct (clean_survivor _ _ _ _ A) as [->|(rel2 & m2 & A2 & N)]; [congruence|].
  eapply name_excluded_not_clear; eauto.
Qed.
Print Assumptions clean_excl_complete.

(* D11, repaired: CleanDir used to remove the entries of the cleaned directory WITHOUT the patterns, so a protected
   entry below the first level was lost. Kept as documentation of the defect; the harness replays the witness. *)
Theorem clean_excl_refuted_before_fix :
  exists pats t rel m, at_path t rel m /\ fully_matched pats rel /\
    ~ at_path (clean_dir_unfixed (expand pats) t) rel m.
Proof. exact clean_unfixed_refuted. Qed.
Print Assumptions clean_excl_refuted_before_fix.

(* ---- non-vacuity: the hypotheses are satisfiable and the operations do something ---- *)
Definition ex_tree : node :=                         (* ab/{x, d/a}, xab/x, d/{ab/d, a}, b *)
  Dir [([97;98], Dir [([120], File); ([100], Dir [([97], File)])]);
       ([120;97;98], Dir [([120], File)]);
       ([100], Dir [([97;98], Dir [([100], File)]); ([97], File)]);
       ([98], File)].
Definition ex_pats : list re := [Cat (Chr 97) (Chr 98)].      (* ab *)
Example ex_root_clear : ~ hit ex_pats [47;119;47;116].        (* /w/t *)
Proof. apply excl_expand_false. reflexivity. Qed.
Example ex_walk : map fst (walk (expand ex_pats) [47;119;47;116] ex_tree) = [[]; [[100]]; [[100];[97]]; [[98]]].
Proof. reflexivity. Qed.
Example ex_remove : survivors (remove_node (expand ex_pats) [47;119;47;116] ex_tree) =
  [([], true); ([[97;98]], true); ([[97;98];[120]], false); ([[97;98];[100]], true); ([[97;98];[100];[97]], false);
   ([[120;97;98]], true); ([[120;97;98];[120]], false); ([[100]], true); ([[100];[97;98]], true); ([[100];[97;98];[100]], false)].
Proof. reflexivity. Qed.
Example ex_fully : fully_matched ex_pats [[100]; [97;98]; [100]].
Proof. exists [97;98], (Cat (Chr 97) (Chr 98)). repeat split; [right; now left | now left |]. apply matchb_correct. reflexivity. Qed.
Example ex_clear : clear ex_pats [[100]; [97]].
Proof. intros c [<-|[<-|[]]]; apply excl_expand_false; reflexivity. Qed.
Example ex_sepfree : all_sepfree ex_pats.
Proof. intros p [<-|[]]. reflexivity. Qed.
Example ex_copy : map fst (copy_top (expand ex_pats) [116] [111] [116] true ex_tree) =
  [[[116]]; [[116];[100]]; [[116];[100];[97]]; [[116];[98]]].
Proof. reflexivity. Qed.
