(* C14 — lemmas about the model of the retry loop and of the back-off wait policies (GU.C14.Model).
   Part 1: the retry loop (characterisation of [loop] by induction on the attempt budget, schedule irrelevance).
   Part 2: numerics (wrap-around, float64 rounding [rne53]), Retry-After, linear and exponential policies. *)
From Coq Require Import List ZArith Bool Lia Arith.
Import ListNotations.
From GU Require Import C14.Model.

(* ============================================================================================== *)
(* Part 1: the retry loop *)


Lemma loop_done : forall cfg script rem k tr sched,
  loop cfg script rem k true tr sched = (tr, convert (ECtx (c_ck cfg))).
Proof.
  intros cfg script rem; induction rem as [|rem IH]; intros k tr sched; simpl.
  - destruct (c_retry_ctx_err cfg); reflexivity.
  - destruct (c_retry_ctx_err cfg); simpl; [|reflexivity].
    destruct sched as [|[|] s]; try reflexivity. apply IH.
Qed.

Definition continuing (a : attempt) : Prop :=
  (exists e, a_out a = ORetriable e) /\ a_ctx_ends_in a = false /\ a_ctx_ends_in_wait a = false.

Definition final (cfg : rcfg) (a : attempt) (exhausted : bool) (res : result) : Prop :=
  match a_out a with
  | OSucc => res = RNil
  | OFatal e => res = convert e
  | ORetriable e => if exhausted then res = convert e
                    else (a_ctx_ends_in a || a_ctx_ends_in_wait a = true) /\ res = convert (ECtx (c_ck cfg))
  end.

Lemma loop_char : forall cfg script rem k tr sched,
  exists j, (1 <= j <= S rem)%nat /\
    fst (loop cfg script rem k false tr sched) = tr ++ map (fun i => (i, false)) (seq k j) /\
    (forall i, (k <= i < k + j - 1)%nat -> continuing (nth i script default_attempt)) /\
    final cfg (nth (k + j - 1) script default_attempt) (Nat.eqb j (S rem)) (snd (loop cfg script rem k false tr sched)).
Proof.
  intros cfg script rem; induction rem as [|rem IH]; intros k tr sched.
  - exists 1%nat. simpl. replace (k + 1 - 1)%nat with k by lia. unfold final.
    destruct (a_out (nth k script default_attempt)) eqn:E; simpl; repeat split; auto; try lia; intros; lia.
  - simpl. destruct (a_out (nth k script default_attempt)) as [|e|e] eqn:E.
    + exists 1%nat. simpl. replace (k + 1 - 1)%nat with k by lia. unfold final. rewrite E.
      repeat split; auto; try lia; intros; lia.
    + destruct (a_ctx_ends_in (nth k script default_attempt) || a_ctx_ends_in_wait (nth k script default_attempt)) eqn:D.
      * exists 1%nat. replace (k + 1 - 1)%nat with k by lia. unfold final. rewrite E, D. simpl.
        destruct sched as [|[|] s]; try rewrite loop_done; simpl; repeat split; auto; try lia; intros; lia.
      * destruct (IH (S k) (tr ++ [(k, false)]) sched) as (j & Hj & Hf & Hc & Hr).
        exists (S j). split; [lia|]. split; [|split].
        -- rewrite Hf. rewrite <- app_assoc. reflexivity.
        -- intros i Hi. destruct (Nat.eq_dec i k) as [->|Hne].
           ++ apply orb_false_iff in D. unfold continuing. split; [eauto|tauto].
           ++ apply Hc. lia.
        -- replace (k + S j - 1)%nat with (S k + j - 1)%nat by lia. exact Hr.
    + exists 1%nat. simpl. replace (k + 1 - 1)%nat with k by lia. unfold final. rewrite E.
      repeat split; auto; try lia; intros; lia.
Qed.

Lemma loop_sched_irrelevant : forall cfg script rem k done tr s1 s2,
  loop cfg script rem k done tr s1 = loop cfg script rem k done tr s2.
Proof.
  intros cfg script rem; induction rem as [|rem IH]; intros k done tr s1 s2.
  - destruct done; [now rewrite !loop_done|]. reflexivity.
  - destruct done; [now rewrite !loop_done|]. simpl.
    destruct (a_out (nth k script default_attempt)); try reflexivity.
    destruct (a_ctx_ends_in (nth k script default_attempt) || a_ctx_ends_in_wait (nth k script default_attempt)).
    + destruct s1 as [|[|] s1], s2 as [|[|] s2]; rewrite ?loop_done; reflexivity.
    + apply IH.
Qed.

Lemma run_sched_irrelevant : forall cfg ctx0 script s1 s2, run cfg ctx0 script s1 = run cfg ctx0 script s2.
Proof.
  intros. unfold run. destruct (negb (c_enabled cfg)); auto. destruct ctx0; auto.
  destruct (c_attempts cfg); auto. apply loop_sched_irrelevant.
Qed.

(* the loop looks at two fields of the configuration only — in particular not at the context's cause *)
Lemma loop_cfg_ext : forall cfg1 cfg2 script,
  c_retry_ctx_err cfg1 = c_retry_ctx_err cfg2 -> c_ck cfg1 = c_ck cfg2 ->
  forall rem k done tr sched, loop cfg1 script rem k done tr sched = loop cfg2 script rem k done tr sched.
Proof.
  intros cfg1 cfg2 script E1 E2 rem; induction rem as [|rem IH]; intros k done tr sched; simpl; rewrite E1, E2.
  - reflexivity.
  - destruct done.
    + destruct (c_retry_ctx_err cfg2); simpl; [|reflexivity].
      destruct sched as [|[|] s]; try reflexivity. apply IH.
    + destruct (a_out (nth k script default_attempt)); try reflexivity.
      destruct (a_ctx_ends_in (nth k script default_attempt) || a_ctx_ends_in_wait (nth k script default_attempt)).
      * destruct sched as [|[|] s]; try reflexivity. apply IH.
      * apply IH.
Qed.

Lemma run_cause_irrelevant : forall cfg c ctx0 script sched,
  run (with_cause cfg c) ctx0 script sched = run cfg ctx0 script sched.
Proof.
  intros. unfold run. simpl. destruct (negb (c_enabled cfg)); auto. destruct ctx0; auto.
  destruct (c_attempts cfg); auto. now apply loop_cfg_ext.
Qed.

(* the property, on the result of [run] *)
Definition att (script : list attempt) (i : nat) : attempt := nth i script default_attempt.

Record retry_spec (cfg : rcfg) (script : list attempt) (tr : trace) (res : result) : Prop := {
  rs_at_least_once : (1 <= length tr)%nat;
  rs_at_most_max : (length tr <= c_attempts cfg)%nat;
  rs_in_order : map fst tr = seq 0 (length tr);
  rs_ctx_live : forall c, In c tr -> snd c = false;
  rs_only_after_retriable_and_live_ctx :
    forall i, (S i < length tr)%nat -> continuing (att script i);
  rs_nil_iff_success : res = RNil <-> exists i, (i < length tr)%nat /\ a_out (att script i) = OSucc;
  rs_error :
    let last := att script (length tr - 1) in
    match a_out last with
    | OSucc => res = RNil
    | OFatal e => res = convert e
    | ORetriable e =>
        res = convert e \/
        ((a_ctx_ends_in last || a_ctx_ends_in_wait last = true) /\ res = convert (ECtx (c_ck cfg)))
    end
}.

Lemma convert_not_nil : forall e, convert e <> RNil.
Proof. intros [i s|[|]]; discriminate. Qed.

Lemma run_spec : forall cfg script sched m,
  c_enabled cfg = true -> c_attempts cfg = S m ->
  retry_spec cfg script (fst (run cfg false script sched)) (snd (run cfg false script sched)).
Proof.
  intros cfg script sched m He Ha. unfold run. rewrite He, Ha. simpl negb. cbv iota.
  destruct (loop_char cfg script m 0 [] sched) as (j & Hj & Hf & Hc & Hr).
  simpl in Hf. set (L := loop cfg script m 0 false [] sched) in *.
  assert (Hlen : length (fst L) = j) by (rewrite Hf, map_length, seq_length; reflexivity).
  simpl plus in Hr. replace (j - 0)%nat with j in Hr by lia.
  constructor; rewrite ?Hlen.
  - lia.
  - lia.
  - rewrite Hf, map_map. simpl. apply map_id.
  - intros c Hin. rewrite Hf in Hin. apply in_map_iff in Hin. destruct Hin as (i & <- & _). reflexivity.
  - intros i Hi. apply Hc. lia.
  - unfold final in Hr. split.
    + intros Hn. exists (j - 1)%nat. split; [lia|]. unfold att.
      destruct (a_out (nth (j - 1) script default_attempt)); auto.
      * destruct (j =? S m)%nat; [|destruct Hr as [_ Hr]]; rewrite Hn in Hr; symmetry in Hr; now apply convert_not_nil in Hr.
      * rewrite Hn in Hr; symmetry in Hr; now apply convert_not_nil in Hr.
    + intros (i & Hi & Hs). destruct (Nat.eq_dec i (j - 1)) as [->|Hne].
      * unfold att in Hs. rewrite Hs in Hr. exact Hr.
      * destruct (Hc i) as ((e & He') & _); [lia|]. unfold att in Hs. congruence.
  - cbv zeta. unfold att. unfold final in Hr.
    destruct (a_out (nth (j - 1) script default_attempt)); auto.
    destruct (j =? S m)%nat; auto.
Qed.

(* ============================================================================================== *)
(* Part 2: waits *)
Local Open Scope Z_scope.


Lemma wrap64_id z : in_i64 z -> wrap64 z = z.
Proof.
  unfold in_i64, min_i64, max_i64, wrap64. intros H.
  destruct (Z_lt_le_dec z 0).
  - replace (z mod 2 ^ 64) with (z + 2 ^ 64).
    + destruct (Z.ltb_spec (z + 2 ^ 64) (2 ^ 63)); lia.
    + apply Z.mod_unique with (q := -1); lia.
  - rewrite Z.mod_small by lia. destruct (Z.ltb_spec z (2 ^ 63)); lia.
Qed.

Lemma wrap64_range z : in_i64 (wrap64 z).
Proof.
  unfold in_i64, min_i64, max_i64, wrap64.
  pose proof (Z.mod_pos_bound z (2 ^ 64) ltac:(lia)).
  destruct (Z.ltb_spec (z mod 2 ^ 64) (2 ^ 63)); lia.
Qed.

Lemma in_i64b_spec z : in_i64b z = true <-> in_i64 z.
Proof. unfold in_i64b, in_i64. rewrite andb_true_iff, !Z.leb_le. tauto. Qed.

Lemma rne53_small z : Z.abs z < 2 ^ 53 -> rne53 z = z.
Proof.
  intros H. unfold rne53.
  destruct (Z.eq_dec (Z.abs z) 0) as [E|E].
  - rewrite E. simpl. reflexivity.
  - assert (Z.log2 (Z.abs z) < 53) by (apply Z.log2_lt_pow2; lia).
    destruct (Z.ltb_spec (Z.log2 (Z.abs z)) 53); [reflexivity|lia].
Qed.

(* the rounded magnitude: between a - 2^sh and a + 2^sh, and a multiple of 2^sh *)
Lemma rne53_bounds z : 0 <= z -> 0 <= rne53 z <= 2 * z.
Proof.
  intros Hz. unfold rne53. rewrite Z.abs_eq by lia.
  destruct (Z.ltb_spec (Z.log2 z) 53); [lia|].
  assert (Hpos : 0 < z) by (destruct (Z.eq_dec z 0) as [->|]; [simpl in H; lia|lia]).
  set (sh := Z.log2 z - 52).
  assert (Hsh : 0 < sh) by (unfold sh; lia).
  pose proof (Z.log2_spec z Hpos) as [Hlo _].
  assert (Hp : 0 < 2 ^ sh) by (apply Z.pow_pos_nonneg; lia).
  assert (Hle : 2 ^ sh <= z).
  { eapply Z.le_trans; [|exact Hlo]. apply Z.pow_le_mono_r; unfold sh; lia. }
  pose proof (Z.div_mod z (2 ^ sh) ltac:(lia)) as Hdm.
  pose proof (Z.mod_pos_bound z (2 ^ sh) Hp) as Hmb.
  assert (Hq : 0 <= z / 2 ^ sh) by (apply Z.div_pos; lia).
  rewrite Z.sgn_pos by lia.
  destruct ((z mod 2 ^ sh >? 2 ^ (sh - 1)) || ((z mod 2 ^ sh =? 2 ^ (sh - 1)) && Z.odd (z / 2 ^ sh))); nia.
Qed.

Lemma rne53_nonpos z : z <= 0 -> rne53 z <= 0.
Proof.
  intros Hz. unfold rne53.
  destruct (Z.ltb_spec (Z.log2 (Z.abs z)) 53); [lia|].
  assert (z < 0) by (destruct (Z.eq_dec z 0) as [->|]; [simpl in H; lia|lia]).
  rewrite Z.sgn_neg by lia.
  set (sh := Z.log2 (Z.abs z) - 52).
  assert (Hp : 0 < 2 ^ sh) by (apply Z.pow_pos_nonneg; unfold sh; lia).
  assert (Hq : 0 <= Z.abs z / 2 ^ sh) by (apply Z.div_pos; lia).
  destruct ((Z.abs z mod 2 ^ sh >? 2 ^ (sh - 1)) || ((Z.abs z mod 2 ^ sh =? 2 ^ (sh - 1)) && Z.odd (Z.abs z / 2 ^ sh))); nia.
Qed.

(* a 53-bit integer times a power of two is a double *)
Lemma rne53_mul_pow2 n m : 0 <= n -> 0 <= m < 2 ^ 53 -> rne53 (m * 2 ^ n) = m * 2 ^ n.
Proof.
  intros Hn Hm. destruct (Z.eq_dec m 0) as [->|Hm0]; [reflexivity|].
  assert (Hpn : 0 < 2 ^ n) by (apply Z.pow_pos_nonneg; lia).
  unfold rne53. rewrite Z.abs_eq by nia.
  rewrite Z.log2_mul_pow2 by lia.
  destruct (Z.ltb_spec (n + Z.log2 m) 53); [reflexivity|].
  assert (Hl : Z.log2 m < 53) by (apply Z.log2_lt_pow2; lia).
  pose proof (Z.log2_nonneg m).
  set (sh := n + Z.log2 m - 52) in *.
  assert (Hsh : 0 < sh <= n) by (unfold sh; lia).
  assert (Hsplit : m * 2 ^ n = (m * 2 ^ (n - sh)) * 2 ^ sh).
  { rewrite <- Z.mul_assoc, <- Z.pow_add_r by lia. f_equal. f_equal. lia. }
  assert (Hp : 0 < 2 ^ sh) by (apply Z.pow_pos_nonneg; lia).
  assert (Hh : 0 < 2 ^ (sh - 1)) by (apply Z.pow_pos_nonneg; lia).
  rewrite Z.sgn_pos by nia.
  rewrite Hsplit. rewrite Z.mod_mul, Z.div_mul by lia.
  replace (0 >? 2 ^ (sh - 1)) with false by (symmetry; rewrite Z.gtb_ltb; apply Z.ltb_ge; lia).
  replace (0 =? 2 ^ (sh - 1)) with false by (symmetry; apply Z.eqb_neq; lia).
  cbn [orb andb]. lia.
Qed.

Lemma rne53_pow2_mul n m : 0 <= n -> 0 <= m < 2 ^ 53 -> rne53 (2 ^ n * m) = 2 ^ n * m.
Proof. intros. rewrite Z.mul_comm. now apply rne53_mul_pow2. Qed.

(* ---------------------------------------------------------------------------------------------- *)
(* Retry-After *)

Definition server_hint (r : option response) (o : oracle) : option Z :=
  match r with
  | Some resp =>
      if is_429_503 (r_status resp) then
        match r_retry_after resp with Some s => retry_after_value s o | None => None end
      else None
  | None => None
  end.

Lemma cap_value : max_retry_after_seconds = 9223372036.
Proof. reflexivity. Qed.

Lemma parse_int_range s v : parse_int s = Some v -> in_i64 v.
Proof.
  unfold parse_int. destruct s as [|c t]; [discriminate|].
  destruct (if c =? 43 then (false, t) else if c =? 45 then (true, t) else (false, c :: t)) as [neg ds].
  destruct ds; [discriminate|]. destruct (digits_val 0 (z :: ds)); [|discriminate].
  destruct (in_i64b (if neg then - z0 else z0)) eqn:E; [|discriminate].
  intros H; inversion H; subst. now apply in_i64b_spec.
Qed.

Lemma seconds_no_wrap v : in_i64 v ->
  mul64 second (if (if v <? 0 then 0 else v) >? max_retry_after_seconds then max_retry_after_seconds else (if v <? 0 then 0 else v))
  = Z.min (Z.max 0 v) max_retry_after_seconds * second.
Proof.
  intros Hv. rewrite cap_value. unfold mul64, second.
  destruct (Z.ltb_spec v 0).
  - destruct (Z.gtb_spec 0 9223372036); [lia|]. rewrite Z.max_l, Z.min_l by lia. reflexivity.
  - rewrite Z.max_r by lia. destruct (Z.gtb_spec v 9223372036).
    + rewrite Z.min_r by lia. reflexivity.
    + rewrite Z.min_l by lia. rewrite wrap64_id; [lia|]. unfold in_i64, min_i64, max_i64. lia.
Qed.

Lemma find_retry_after_spec r o : find_retry_after r o = server_hint r o.
Proof.
  unfold find_retry_after, server_hint. destruct r as [resp|]; [|reflexivity].
  destruct (is_429_503 (r_status resp)); [|reflexivity].
  destruct (r_retry_after resp) as [s|]; [|reflexivity].
  unfold retry_after_value. destruct (o_date o) as [u|].
  - f_equal. destruct (Z.ltb_spec u 0); lia.
  - destruct (parse_int s) as [v|] eqn:E; [|reflexivity].
    f_equal. apply seconds_no_wrap. eapply parse_int_range; eauto.
Qed.

Lemma server_hint_nonneg r o v : server_hint r o = Some v -> 0 <= v.
Proof.
  unfold server_hint, retry_after_value. destruct r as [resp|]; [|discriminate].
  destruct (is_429_503 (r_status resp)); [|discriminate].
  destruct (r_retry_after resp) as [s|]; [|discriminate].
  destruct (o_date o) as [u|].
  - intros H; inversion H; lia.
  - destruct (parse_int s) as [x|]; [|discriminate]. rewrite cap_value. unfold second.
    intros H; inversion H; lia.
Qed.

Lemma server_hint_in_i64 min max r o v : oracle_ok min max o -> server_hint r o = Some v -> in_i64 v.
Proof.
  intros (_ & _ & _ & Hd). unfold server_hint, retry_after_value. destruct r as [resp|]; [|discriminate].
  destruct (is_429_503 (r_status resp)); [|discriminate].
  destruct (r_retry_after resp) as [s|]; [|discriminate].
  destruct (o_date o) as [u|].
  - specialize (Hd u eq_refl). unfold in_i64, min_i64, max_i64 in *. intros H; inversion H; lia.
  - destruct (parse_int s) as [x|]; [|discriminate]. rewrite cap_value. unfold second, in_i64, min_i64, max_i64.
    intros H; inversion H; lia.
Qed.

(* retryablehttp's own look at the header adds nothing once findRetryAfter has found nothing *)
Lemma default_backoff_no_hint min max n r o :
  (o_date o = None -> o_rfc1123 o = None) ->
  find_retry_after r o = None -> default_backoff min max n r o = exp_formula min max n (o_impl o).
Proof.
  intros Hrfc. unfold find_retry_after, default_backoff. destruct r as [resp|]; [|reflexivity].
  destruct (is_429_503 (r_status resp)); [|reflexivity].
  unfold parse_retry_after_header. destruct (r_retry_after resp) as [s|]; [|reflexivity].
  destruct (o_date o) as [u|]; [discriminate|].
  destruct (parse_int s) as [v|]; [discriminate|]. rewrite (Hrfc eq_refl).
  destruct s; reflexivity.
Qed.

Definition consider_hint (consider : bool) (r : option response) (o : oracle) : option Z :=
  if consider then server_hint r o else None.

Lemma apply_spec k consider min max n r o :
  (o_date o = None -> o_rfc1123 o = None) ->
  apply k consider min max n r o =
  match consider_hint consider r o with Some v => v | None => plain k min max n o end.
Proof.
  intros Hrfc. unfold apply, consider_hint, hint, plain. destruct k.
  - destruct consider; [rewrite find_retry_after_spec|]; reflexivity.
  - destruct consider; [rewrite find_retry_after_spec|]; reflexivity.
  - destruct consider; [|reflexivity].
    destruct (find_retry_after r o) eqn:E.
    + rewrite <- find_retry_after_spec, E. reflexivity.
    + rewrite default_backoff_no_hint by assumption. rewrite <- find_retry_after_spec, E. reflexivity.
Qed.

(* ---------------------------------------------------------------------------------------------- *)
(* linear *)

Lemma linear_guard min max n : 0 <= min <= max -> 0 <= n ->
  (linear_saturates min max n = false <-> (n + 1) * max <= max_i64).
Proof.
  intros Hm Hn. unfold linear_saturates.
  destruct (Z.gtb_spec min max); [lia|].
  destruct (Z.gtb_spec max 0); simpl.
  - destruct (Z.geb_spec n 0); [|lia]. simpl.
    assert (HM : 0 <= max_i64) by (unfold max_i64; lia).
    rewrite Z.quot_div_nonneg by lia.
    pose proof (Z.mul_div_le max_i64 max ltac:(lia)).
    pose proof (Z.mul_succ_div_gt max_i64 max ltac:(lia)).
    destruct (Z.geb_spec n (max_i64 / max)); split; intros; try discriminate; try reflexivity; nia.
  - split; [intros _|reflexivity]. assert (max = 0) by lia. subst. unfold max_i64. lia.
Qed.

Lemma linear_jitter_value min max n j : 0 <= min <= max -> 0 <= n -> (n + 1) * max <= max_i64 ->
  0 <= j <= Z.max 0 (max - min) ->
  linear_jitter min max n j = (if max <=? min then min else j + min) * (n + 1).
Proof.
  intros Hm Hn Hb Hj. unfold linear_jitter, mul64, add64.
  assert (HM : max_i64 = 2 ^ 63 - 1) by reflexivity.
  destruct (Z.leb_spec max min).
  - assert (max = min) by lia. subst max.
    destruct (Z.eq_dec min 0) as [->|].
    + rewrite !Z.mul_0_l. reflexivity.
    + rewrite (wrap64_id (n + 1)) by (unfold in_i64, min_i64; nia).
      apply wrap64_id. unfold in_i64, min_i64. nia.
  - rewrite Z.max_r in Hj by lia.
    rewrite (wrap64_id (n + 1)) by (unfold in_i64, min_i64; nia).
    rewrite (wrap64_id (j + min)) by (unfold in_i64, min_i64; nia).
    apply wrap64_id. unfold in_i64, min_i64. nia.
Qed.

Lemma plain_linear_range min max n o : 0 <= min <= max -> 0 <= n -> (n + 1) * max <= max_i64 ->
  0 <= o_jitter o <= Z.max 0 (max - min) ->
  (n + 1) * min <= plain Linear min max n o <= (n + 1) * max.
Proof.
  intros Hm Hn Hb Hj. unfold plain.
  replace (linear_saturates min max n) with false by (symmetry; now apply linear_guard).
  rewrite linear_jitter_value by assumption.
  destruct (Z.leb_spec max min); [nia|]. rewrite Z.max_r in Hj by lia. nia.
Qed.

Lemma plain_linear_nonneg min max n o : 0 <= min <= max -> 0 <= n ->
  0 <= o_jitter o <= Z.max 0 (max - min) -> 0 <= plain Linear min max n o <= max_i64.
Proof.
  intros Hm Hn Hj. unfold plain. destruct (linear_saturates min max n) eqn:E.
  - unfold max_i64; lia.
  - apply linear_guard in E; try assumption.
    pose proof (plain_linear_range min max n o Hm Hn E Hj) as H. unfold plain in H.
    replace (linear_saturates min max n) with false in H by (symmetry; now apply linear_guard). nia.
Qed.

(* ---------------------------------------------------------------------------------------------- *)
(* exponential *)

Lemma pow2_ge_1 n : 0 <= n -> 1 <= 2 ^ n.
Proof. intros. pose proof (Z.pow_pos_nonneg 2 n). lia. Qed.

Lemma pow2_big n : 63 <= n -> 2 ^ 63 <= 2 ^ n.
Proof. intros. apply Z.pow_le_mono_r; lia. Qed.

Lemma exp_nonneg min max n impl : 0 <= min -> 0 <= max -> 0 <= n -> 0 <= exp_formula min max n impl.
Proof.
  intros Hmin Hmax Hn. unfold exp_formula.
  pose proof (rne53_bounds min Hmin) as [Hr _].
  set (mult := fmul (pow2 n) (rne53 min)).
  destruct (feq_int (to_dur impl mult) mult) eqn:F; simpl; [|assumption].
  destruct (Z.gtb_spec (to_dur impl mult) max); [assumption|].
  destruct mult as [z| |] eqn:M; simpl in F; try discriminate.
  assert (Hz : 0 <= z).
  { unfold mult, pow2, fmul in M. destruct (n <? 1024).
    - destruct (2 ^ n * rne53 min <? 2 ^ 1024); inversion M. pose proof (pow2_ge_1 n Hn). nia.
    - destruct (rne53 min =? 0); discriminate. }
  simpl. destruct (in_i64b z) eqn:R; [assumption|].
  apply Z.eqb_eq in F.
  destruct (Z_lt_le_dec impl 0); [|assumption].
  pose proof (rne53_nonpos impl ltac:(lia)).
  assert (in_i64b z = true); [|congruence].
  apply in_i64b_spec. unfold in_i64, min_i64, max_i64. lia.
Qed.

(* what the exponential formula yields, for EVERY value [impl] an out-of-range float->int64 conversion may give *)
Lemma exp_char min max n impl :
  0 <= min < 2 ^ 53 -> min <= max <= max_i64 -> 0 <= n -> in_i64 impl ->
  let w := exp_formula min max n impl in
  (min = 0 -> w = if n <? 1024 then 0 else max) /\
  (0 < min ->
     (2 ^ n * min <= max -> w = 2 ^ n * min) /\
     (max < 2 ^ n * min -> w = max \/ (w = impl /\ impl <= max /\ 2 ^ 63 <= 2 ^ n * min <= 2 * impl))).
Proof.
  intros Hmin Hmax Hn Himpl. cbv zeta. unfold exp_formula.
  rewrite rne53_small by (rewrite Z.abs_eq; lia).
  assert (HM : max_i64 = 2 ^ 63 - 1) by reflexivity.
  pose proof (pow2_ge_1 n Hn) as Hp1.
  split.
  - intros ->. unfold pow2, fmul. destruct (Z.ltb_spec n 1024).
    + rewrite Z.mul_0_r. simpl. destruct (Z.gtb_spec 0 max); [lia|reflexivity].
    + simpl. reflexivity.
  - intros Hpos. unfold pow2. destruct (Z.ltb_spec n 1024) as [Hn1|Hn1].
    + unfold fmul. destruct (Z.ltb_spec (2 ^ n * min) (2 ^ 1024)) as [Hf|Hf].
      * unfold to_dur. destruct (in_i64b (2 ^ n * min)) eqn:R.
        -- apply in_i64b_spec in R. unfold feq_int. rewrite rne53_pow2_mul by lia. rewrite Z.eqb_refl. simpl.
           destruct (Z.gtb_spec (2 ^ n * min) max); split; intros; try lia; auto.
        -- assert (Hbig : 2 ^ 63 <= 2 ^ n * min).
           { destruct (Z_lt_le_dec (2 ^ n * min) (2 ^ 63)); [|assumption].
             assert (in_i64b (2 ^ n * min) = true); [|congruence].
             apply in_i64b_spec. unfold in_i64, min_i64. nia. }
           split; [intros; lia|]. intros _. unfold feq_int.
           destruct (Z.eqb_spec (rne53 impl) (2 ^ n * min)) as [E|E]; cbn [negb orb]; [|now left].
           destruct (Z.gtb_spec impl max); [now left|]. right.
           destruct (Z_lt_le_dec impl 0) as [Hneg|Hnn].
           ++ pose proof (rne53_nonpos impl ltac:(lia)). lia.
           ++ pose proof (rne53_bounds impl Hnn). lia.
      * assert (Hbig : 2 ^ 63 <= 2 ^ n * min).
        { eapply Z.le_trans; [|exact Hf]. apply Z.pow_le_mono_r; lia. }
        split; [intros; lia|]. intros _. left. simpl. reflexivity.
    + pose proof (pow2_big n ltac:(lia)).
      split; [intros; nia|]. intros _. left. unfold fmul.
      destruct (min =? 0); simpl; reflexivity.
Qed.

Lemma exp_range min max n impl :
  0 <= min < 2 ^ 53 -> min <= max <= max_i64 -> 0 <= n -> in_i64 impl ->
  min <= exp_formula min max n impl <= max.
Proof.
  intros Hmin Hmax Hn Himpl.
  destruct (exp_char min max n impl Hmin Hmax Hn Himpl) as [H0 Hp].
  pose proof (pow2_ge_1 n Hn).
  destruct (Z.eq_dec min 0) as [E|E].
  - rewrite (H0 E). destruct (n <? 1024); lia.
  - destruct (Hp ltac:(lia)) as [Hle Hgt].
    destruct (Z_le_gt_dec (2 ^ n * min) max) as [C|C].
    + rewrite (Hle C). nia.
    + destruct (Hgt ltac:(lia)) as [->|(-> & ? & ? & ?)]; lia.
Qed.

Lemma exp_monotone min max n impl :
  0 <= min < 2 ^ 53 -> min <= max <= max_i64 -> 0 <= n -> in_i64 impl ->
  exp_formula min max n impl <= exp_formula min max (n + 1) impl.
Proof.
  intros Hmin Hmax Hn Himpl.
  destruct (exp_char min max n impl Hmin Hmax Hn Himpl) as [H0 Hp].
  destruct (exp_char min max (n + 1) impl Hmin Hmax ltac:(lia) Himpl) as [H0' Hp'].
  pose proof (pow2_ge_1 n Hn).
  assert (Hs : 2 ^ (n + 1) = 2 * 2 ^ n) by (rewrite Z.pow_add_r by lia; lia).
  destruct (Z.eq_dec min 0) as [E|E].
  - rewrite (H0 E), (H0' E). destruct (Z.ltb_spec n 1024), (Z.ltb_spec (n + 1) 1024); lia.
  - destruct (Hp ltac:(lia)) as [Hle Hgt]. destruct (Hp' ltac:(lia)) as [Hle' Hgt'].
    rewrite Hs in Hle', Hgt'.
    destruct (Z_le_gt_dec (2 * 2 ^ n * min) max) as [C'|C'].
    + rewrite (Hle' C'), (Hle ltac:(nia)). nia.
    + destruct (Z_le_gt_dec (2 ^ n * min) max) as [C|C].
      * rewrite (Hle C). destruct (Hgt' ltac:(lia)) as [->|(-> & ? & ? & ?)]; lia.
      * destruct (Hgt ltac:(lia)) as [->|(-> & ? & ? & ?)];
        destruct (Hgt' ltac:(lia)) as [->|(-> & ? & ? & ?)]; lia.
Qed.

(* non-decreasing in the attempt number, for any two attempt numbers *)
Lemma exp_monotone_le min max n1 n2 impl :
  0 <= min < 2 ^ 53 -> min <= max <= max_i64 -> 0 <= n1 <= n2 -> in_i64 impl ->
  exp_formula min max n1 impl <= exp_formula min max n2 impl.
Proof.
  intros Hmin Hmax Hn Himpl.
  replace n2 with (n1 + Z.of_nat (Z.to_nat (n2 - n1))) by lia.
  induction (Z.to_nat (n2 - n1)) as [|d IH].
  - rewrite Z.add_0_r. lia.
  - eapply Z.le_trans; [exact IH|].
    replace (n1 + Z.of_nat (S d)) with (n1 + Z.of_nat d + 1) by lia.
    apply exp_monotone; auto. lia.
Qed.

Lemma exp_le_max min max n impl : exp_formula min max n impl <= max.
Proof.
  unfold exp_formula. destruct (negb _); simpl; [lia|].
  destruct (Z.gtb_spec (to_dur impl (fmul (pow2 n) (rne53 min))) max); lia.
Qed.

Lemma plain_nonneg k min max n o : 0 <= min <= max -> max <= max_i64 -> 0 <= n -> oracle_ok min max o ->
  0 <= plain k min max n o <= max_i64.
Proof.
  intros Hm HM Hn (Hj & _). destruct k.
  - simpl. lia.
  - now apply plain_linear_nonneg.
  - simpl. pose proof (exp_nonneg min max n (o_impl o) ltac:(lia) ltac:(lia) Hn).
    pose proof (exp_le_max min max n (o_impl o)). lia.
Qed.

Lemma apply_nonneg k consider min max n r o : 0 <= min <= max -> max <= max_i64 -> 0 <= n -> oracle_ok min max o ->
  0 <= apply k consider min max n r o <= max_i64.
Proof.
  intros Hm HM Hn Ho. rewrite apply_spec by (destruct Ho as (_ & _ & H & _); exact H).
  destruct (consider_hint consider r o) as [v|] eqn:E.
  - unfold consider_hint in E. destruct consider; [|discriminate].
    pose proof (server_hint_nonneg _ _ _ E). pose proof (server_hint_in_i64 _ _ _ _ _ Ho E) as [_ ?]. lia.
  - now apply plain_nonneg.
Qed.
