(* C14 — the wait policies as REGENERATED from the source (Gen.v), indexed like the hand-written [apply], and the
   correspondence check that evaluates the generated definitions on the implementation's observations.
   Definitions only. *)
From Coq Require Import List ZArith Bool.
Import ListNotations.
From GU Require Import C14.Model C14.GoBase C14.Gen.
Local Open Scope Z_scope.

(* IRetryWaitPolicy.Apply of the policy BackOffPolicyFactory selects ([policy_of], hand-written) *)
Definition gen_apply (k : kind) (consider : bool) (min max n : Z) (r : option response) (o : oracle) : Z :=
  match k with
  | Basic => BasicRetryPolicy_Apply consider min max n r o
  | Linear => LinearBackoffPolicy_Apply consider min max n r o
  | Exponential => ExponentialBackoffPolicy_Apply consider min max n r o
  end.

(* as Model.check_case, with the generated definitions for the waits *)
Definition check_case_gen (c : case) : bool :=
  match c with
  | CWait enabled backoff linear ra_disabled min max n r date rfc1123 jitter impl w =>
      let '(k, consider) := policy_of enabled backoff linear ra_disabled in
      let date_ok := match date with Some (lo, hi, u) => (lo <=? u) && (u <=? hi) | None => true end in
      let o := mkOracle (match date with Some (_, _, u) => Some u | None => None end)
                        (if rfc1123 then Some 0 else None) jitter impl in
      date_ok && (0 <=? jitter) && (jitter <=? Z.max 0 (max - min)) && in_i64b impl &&
      (gen_apply k consider min max n r o =? w)
  | _ => check_case c
  end.
