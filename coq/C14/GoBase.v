(* C14 — hand-written semantic base of the REGENERATED wait-policy model (Gen.v, written by
   translator-c14/cmd/retrypolicy2coq from utils/http/retry_policy.go on every run).
   It gives the meaning of the Go operations the translator's fragment contains.  Definitions only.

   Integers.  int, int64 and time.Duration are 64-bit two's complement (the translator type-checks with amd64 sizes and
   rejects every other integer type): a value is its Z, every arithmetic operation wraps ([wrap64]), conversions between
   the three types are the identity.  Division truncates toward zero; division by zero panics in Go and is totalised
   here (the generated code guards it: largest > 0 && ...).

   float64.  Integer-valued doubles only: [GFin z] is the double whose exact value is the integer z (always a value
   that float64 can represent: produced by [rne53] rounding), plus both infinities and NaN.  This is closed under
   everything the fragment does with attemptNum >= 0: float64(int), 2^n, products, comparisons.  2^n for n < 0 is a
   fraction and leaves the base: [GOut] (absorbing; anything computed from it is meaningless).  The property and all
   theorems have 0 <= attemptNum, where GOut cannot arise.
   float64 -> integer conversion: truncation when the value is in range, otherwise IMPLEMENTATION DEFINED: the value
   [impl] supplied by the oracle (any int64: the theorems quantify over it).

   The world.  *http.Response is [option response] (nil = None) with the status code and the first Retry-After value;
   an error value is a boolean "is non-nil"; time.Time is represented by its distance from now in ns, as supplied by
   the oracle ([o_date]); third-party and out-of-fragment callees are the hand-written models of Model.v. *)
From Coq Require Import List ZArith Bool.
Import ListNotations.
From GU Require Import C14.Model.
Local Open Scope Z_scope.

(* ---- integers *)
Definition i_conv (x : Z) : Z := x.
Definition i_add (a b : Z) : Z := wrap64 (a + b).
Definition i_sub (a b : Z) : Z := wrap64 (a - b).
Definition i_mul (a b : Z) : Z := wrap64 (a * b).
Definition i_neg (a : Z) : Z := wrap64 (- a).
Definition i_quot (a b : Z) : Z := wrap64 (Z.quot a b).
Definition i_lt (a b : Z) : bool := a <? b.
Definition i_le (a b : Z) : bool := a <=? b.
Definition i_gt (a b : Z) : bool := a >? b.
Definition i_ge (a b : Z) : bool := a >=? b.
Definition i_eq (a b : Z) : bool := a =? b.
Definition i_ne (a b : Z) : bool := negb (a =? b).

(* ---- float64 *)
Inductive gf := GFin (z : Z) | GPInf | GNInf | GNaN | GOut.

(* the double nearest to the integer p (ties to even); beyond the largest finite double: an infinity *)
Definition g_round (p : Z) : gf :=
  let r := rne53 p in
  if Z.abs r <? 2 ^ 1024 then GFin r else if 0 <? p then GPInf else GNInf.

Definition g_of_int (x : Z) : gf := GFin (rne53 x).   (* float64(x), |x| <= 2^63 *)

(* math.Pow(2, x) *)
Definition g_pow2 (x : gf) : gf :=
  match x with
  | GFin n => if n <? 0 then GOut else if n <? 1024 then GFin (2 ^ n) else GPInf
  | GPInf => GPInf
  | GNInf => GFin 0
  | GNaN => GNaN
  | GOut => GOut
  end.

Definition inf_times (pos : bool) (x : Z) : gf :=
  if x =? 0 then GNaN else if Bool.eqb pos (0 <? x) then GPInf else GNInf.

Definition g_mul (a b : gf) : gf :=
  match a, b with
  | GOut, _ | _, GOut => GOut
  | GNaN, _ | _, GNaN => GNaN
  | GFin x, GFin y => g_round (x * y)
  | GFin x, GPInf | GPInf, GFin x => inf_times true x
  | GFin x, GNInf | GNInf, GFin x => inf_times false x
  | GPInf, GPInf | GNInf, GNInf => GPInf
  | GPInf, GNInf | GNInf, GPInf => GNInf
  end.

Definition g_eq (a b : gf) : bool :=
  match a, b with
  | GFin x, GFin y => x =? y
  | GPInf, GPInf | GNInf, GNInf => true
  | _, _ => false          (* NaN equals nothing *)
  end.
Definition g_ne (a b : gf) : bool := negb (g_eq a b).

(* int64(f) / time.Duration(f) *)
Definition g_to_int (impl : Z) (f : gf) : Z :=
  match f with
  | GFin z => if in_i64b z then z else impl
  | _ => impl
  end.

(* ---- commonerrors.ConvertContextError as an ordered rule list (the list itself is generated: Gen.v) *)
Inductive conv_test := TNil | TAny (k : ctxkind).   (* err == nil | commonerrors.Any(err, context.Canceled / DeadlineExceeded) *)
Definition conv_holds (t : conv_test) (e : option err) : bool :=
  match t, e with
  | TNil, None => true
  | TAny CtxCancel, Some (ECtx CtxCancel) | TAny CtxDeadline, Some (ECtx CtxDeadline) => true
  | _, _ => false
  end.
(* if test1 { return r1 } ... return err *)
Fixpoint conv_by_rules (rules : list (conv_test * result)) (e : option err) : result :=
  match rules with
  | [] => match e with None => RNil | Some x => RErr x end
  | (t, r) :: rs => if conv_holds t e then r else conv_by_rules rs e
  end.

(* ---- the world *)
Definition err_nonnil (e : bool) : bool := e.

Definition resp_nonnil (r : option response) : bool := match r with Some _ => true | None => false end.
(* resp.StatusCode; a nil dereference panics in Go (the generated code tests resp != nil first) *)
Definition resp_StatusCode (r : option response) : Z := match r with Some x => r_status x | None => 0 end.

Fixpoint zs_eqb (a b : list Z) : bool :=
  match a, b with
  | [], [] => true
  | x :: a', y :: b' => (x =? y) && zs_eqb a' b'
  | _, _ => false
  end.
Definition key_retry_after : list Z := [82; 101; 116; 114; 121; 45; 65; 102; 116; 101; 114].   (* "Retry-After" *)

(* s, ok := resp.Header[key] : the response model carries the Retry-After header only *)
Definition resp_Header_lookup (r : option response) (key : list Z) : list (list Z) * bool :=
  match r with
  | Some x => if zs_eqb key key_retry_after
              then match r_retry_after x with Some v => ([v], true) | None => ([], false) end
              else ([], false)
  | None => ([], false)
  end.
Definition strs_index (s : list (list Z)) (i : Z) : list Z := nth (Z.to_nat i) s [].

(* strconv.ParseInt(s, 10, 64): (value, err) *)
Definition ext_ParseInt (s : list Z) (base bits : Z) (o : oracle) : Z * bool :=
  match parse_int s with Some v => (v, false) | None => (0, true) end.
(* parseDate(s) (retry_policy.go, a loop over layouts): (time, err); the time is its distance from now *)
Definition ext_parseDate (s : list Z) (o : oracle) : Z * bool :=
  match o_date o with Some u => (u, false) | None => (0, true) end.
Definition ext_time_Until (t : Z) (o : oracle) : Z := t.
(* third party, hand-modelled in Model.v *)
Definition ext_LinearJitterBackoff (min max n : Z) (r : option response) (o : oracle) : Z := linear_jitter min max n (o_jitter o).
Definition ext_DefaultBackoff (min max n : Z) (r : option response) (o : oracle) : Z := default_backoff min max n r o.
