(* C14 — the REGENERATED wait-policy definitions (Gen.v) equal the hand-written model functions the lemmas of Proofs.v
   are about ("gen_matches_model"), so that the property theorems can be stated about the generated text.
   When retry_policy.go changes, Gen.v changes and these proofs are re-run against the new text. *)
From Coq Require Import List ZArith Bool Lia.
Import ListNotations.
From GU Require Import C14.Model C14.Proofs C14.GoBase C14.Gen C14.GenModel.
Local Open Scope Z_scope.

(* ---- rounding: the result of rne53 is a 53-bit integer times a power of two, hence a fixed point *)
Lemma rne53_lower z : 0 <= z -> z <= 2 * rne53 z.
Proof.
  intros Hz. unfold rne53. rewrite Z.abs_eq by lia.
  destruct (Z.ltb_spec (Z.log2 z) 53); [lia|].
  assert (Hpos : 0 < z) by (destruct (Z.eq_dec z 0) as [->|]; [simpl in H; lia|lia]).
  set (sh := Z.log2 z - 52). assert (Hsh : 0 < sh) by (unfold sh; lia).
  pose proof (Z.log2_spec z Hpos) as [Hlo _].
  assert (Hp : 0 < 2 ^ sh) by (apply Z.pow_pos_nonneg; lia).
  assert (Hle : 2 * 2 ^ sh <= z).
  { eapply Z.le_trans; [|exact Hlo]. replace (2 * 2 ^ sh) with (2 ^ (sh + 1)) by (rewrite Z.pow_add_r; lia).
    apply Z.pow_le_mono_r; unfold sh; lia. }
  pose proof (Z.div_mod z (2 ^ sh) ltac:(lia)) as Hdm.
  pose proof (Z.mod_pos_bound z (2 ^ sh) Hp) as Hmb.
  rewrite Z.sgn_pos by lia.
  destruct ((z mod 2 ^ sh >? 2 ^ (sh - 1)) || ((z mod 2 ^ sh =? 2 ^ (sh - 1)) && Z.odd (z / 2 ^ sh))); nia.
Qed.

Lemma rne53_repr z : 0 <= z -> exists q e, rne53 z = q * 2 ^ e /\ 0 <= q < 2 ^ 53 /\ 0 <= e.
Proof.
  intros Hz. unfold rne53. rewrite Z.abs_eq by lia.
  destruct (Z.ltb_spec (Z.log2 z) 53) as [Hl|Hl].
  - exists z, 0. rewrite Z.mul_1_r. repeat split; try lia.
    destruct (Z.eq_dec z 0) as [->|]; [lia|]. apply Z.log2_lt_pow2; lia.
  - assert (Hpos : 0 < z) by (destruct (Z.eq_dec z 0) as [->|]; [simpl in Hl; lia|lia]).
    set (sh := Z.log2 z - 52). assert (Hsh : 0 < sh) by (unfold sh; lia).
    pose proof (Z.log2_spec z Hpos) as [Hlo Hhi].
    assert (Hp : 0 < 2 ^ sh) by (apply Z.pow_pos_nonneg; lia).
    assert (Hq : 0 <= z / 2 ^ sh < 2 ^ 53).
    { split; [apply Z.div_pos; lia|]. apply Z.div_lt_upper_bound; [lia|].
      replace (2 ^ sh * 2 ^ 53) with (2 ^ Z.succ (Z.log2 z)); [lia|].
      rewrite <- Z.pow_add_r by lia. f_equal. unfold sh. lia. }
    rewrite Z.sgn_pos by lia. rewrite Z.mul_1_l.
    destruct ((z mod 2 ^ sh >? 2 ^ (sh - 1)) || ((z mod 2 ^ sh =? 2 ^ (sh - 1)) && Z.odd (z / 2 ^ sh))).
    + destruct (Z.eq_dec (z / 2 ^ sh + 1) (2 ^ 53)) as [E|E].
      * exists (2 ^ 52), (sh + 1). rewrite E. split; [|lia].
        rewrite Z.pow_add_r by lia. lia.
      * exists (z / 2 ^ sh + 1), sh. repeat split; lia.
    + exists (z / 2 ^ sh), sh. repeat split; lia.
Qed.

Lemma rne53_fixed n m : 0 <= n -> 0 <= m -> rne53 (2 ^ n * rne53 m) = 2 ^ n * rne53 m.
Proof.
  intros Hn Hm. destruct (rne53_repr m Hm) as (q & e & -> & Hq & He).
  replace (2 ^ n * (q * 2 ^ e)) with (q * 2 ^ (e + n)) by (rewrite Z.pow_add_r by lia; lia).
  apply rne53_mul_pow2; lia.
Qed.

(* ---- findRetryAfter *)
Lemma findRetryAfter_gen r o :
  findRetryAfter r o = match find_retry_after r o with Some w => (w, true) | None => (0, false) end.
Proof.
  unfold findRetryAfter, find_retry_after. destruct r as [resp|]; [|reflexivity].
  cbn [resp_nonnil resp_StatusCode]. unfold i_eq, is_429_503.
  destruct ((r_status resp =? 429) || (r_status resp =? 503)); [|reflexivity].
  unfold resp_Header_lookup. replace (zs_eqb _ key_retry_after) with true by reflexivity.
  destruct (r_retry_after resp) as [s|]; [|reflexivity].
  cbn [strs_index Z.to_nat nth]. unfold ext_ParseInt, ext_parseDate, ext_time_Until, err_nonnil.
  rewrite cap_value.
  destruct (parse_int s) as [v|]; destruct (o_date o) as [u|]; cbn [negb]; unfold i_lt, i_gt, i_mul, i_conv, mul64, second;
    repeat match goal with |- context [if ?c then _ else _] => destruct c end; reflexivity.
Qed.

(* ---- the three policies *)
Lemma basic_gen c min max n r o : BasicRetryPolicy_Apply c min max n r o = apply Basic c min max n r o.
Proof.
  unfold BasicRetryPolicy_Apply, apply, hint. destruct c; [|reflexivity].
  rewrite findRetryAfter_gen. destruct (find_retry_after r o); reflexivity.
Qed.

Lemma linear_guard_gen min max n :
  (let largest := max in
   let largest := if i_gt min largest then let largest := min in largest else largest in
   andb (andb (i_gt largest 0) (i_ge n 0)) (i_ge (i_conv n) (i_quot 9223372036854775807 (i_conv largest))))
  = linear_saturates min max n.
Proof.
  cbv zeta. unfold linear_saturates, i_gt, i_ge, i_conv, i_quot.
  set (largest := if min >? max then min else max).
  destruct (Z.gtb_spec largest 0); [|reflexivity]. cbn [andb].
  rewrite wrap64_id; [reflexivity|].
  change 9223372036854775807 with max_i64. unfold in_i64, min_i64.
  assert (0 <= max_i64) by (unfold max_i64; lia).
  rewrite Z.quot_div_nonneg by lia.
  pose proof (Z.div_pos max_i64 largest ltac:(lia) ltac:(lia)).
  pose proof (Z.div_le_upper_bound max_i64 largest max_i64 ltac:(lia) ltac:(nia)). lia.
Qed.

Lemma linear_gen c min max n r o : LinearBackoffPolicy_Apply c min max n r o = apply Linear c min max n r o.
Proof.
  pose proof (linear_guard_gen min max n) as G. cbv zeta in G.
  unfold LinearBackoffPolicy_Apply, apply, hint, ext_LinearJitterBackoff.
  destruct c.
  - rewrite findRetryAfter_gen. destruct (find_retry_after r o); [reflexivity|]. rewrite G.
    destruct (linear_saturates min max n); reflexivity.
  - rewrite G. destruct (linear_saturates min max n); reflexivity.
Qed.

Definition emb (f : f64) : gf := match f with Fin z => GFin z | PInf => GPInf | NaN => GNaN end.

Lemma pow2_gen n : 0 <= n -> g_pow2 (g_of_int n) = emb (pow2 n).
Proof.
  intros Hn. unfold g_pow2, g_of_int, pow2.
  pose proof (rne53_bounds n Hn) as [Hr _]. pose proof (rne53_lower n Hn).
  destruct (Z.ltb_spec (rne53 n) 0); [lia|].
  destruct (Z_lt_le_dec n (2 ^ 53)).
  - rewrite rne53_small by (rewrite Z.abs_eq; lia). destruct (n <? 1024); reflexivity.
  - destruct (Z.ltb_spec (rne53 n) 1024); [lia|]. destruct (Z.ltb_spec n 1024); [lia|]. reflexivity.
Qed.

Lemma mul_gen n p min : 0 <= n -> 0 <= min -> (p = pow2 n) ->
  g_mul (emb p) (g_of_int min) = emb (fmul p (rne53 min)).
Proof.
  intros Hn Hmin ->. unfold g_of_int, pow2. pose proof (rne53_bounds min Hmin) as [Hr _].
  destruct (Z.ltb_spec n 1024).
  - cbn [emb g_mul fmul]. unfold g_round. rewrite rne53_fixed by lia.
    pose proof (Z.pow_pos_nonneg 2 n ltac:(lia) Hn).
    rewrite Z.abs_eq by nia.
    destruct (Z.ltb_spec (2 ^ n * rne53 min) (2 ^ 1024)); [reflexivity|].
    assert (0 < 2 ^ 1024) by (apply Z.pow_pos_nonneg; lia).
    destruct (Z.ltb_spec 0 (2 ^ n * rne53 min)); [reflexivity|lia].
  - cbn [emb g_mul fmul]. unfold inf_times.
    destruct (Z.eqb_spec (rne53 min) 0); [reflexivity|].
    destruct (Z.ltb_spec 0 (rne53 min)); [reflexivity|lia].
Qed.

Lemma exp_gen min max n o : 0 <= n -> 0 <= min ->
  ExponentialBackoffPolicy_Apply false min max n None o = exp_formula min max n (o_impl o).
Proof.
  intros Hn Hmin. unfold ExponentialBackoffPolicy_Apply, exp_formula.
  rewrite (pow2_gen n Hn), (mul_gen n _ min Hn Hmin eq_refl).
  set (m := fmul (pow2 n) (rne53 min)).
  assert (Hc : g_to_int (o_impl o) (emb m) = to_dur (o_impl o) m) by (destruct m; reflexivity).
  rewrite Hc. set (s := to_dur (o_impl o) m).
  assert (Hf : g_ne (g_of_int s) (emb m) = negb (feq_int s m)) by (destruct m; reflexivity).
  rewrite Hf. unfold i_gt. destruct (negb (feq_int s m) || (s >? max)); reflexivity.
Qed.

Lemma exponential_gen c min max n r o : 0 <= n -> 0 <= min ->
  ExponentialBackoffPolicy_Apply c min max n r o = apply Exponential c min max n r o.
Proof.
  intros Hn Hmin. destruct c.
  - unfold ExponentialBackoffPolicy_Apply, apply, ext_DefaultBackoff. rewrite findRetryAfter_gen.
    destruct (find_retry_after r o); reflexivity.
  - transitivity (ExponentialBackoffPolicy_Apply false min max n None o); [reflexivity|].
    rewrite exp_gen by assumption. reflexivity.
Qed.

(* the generated definitions are the model *)
Lemma gen_matches_model k c min max n r o : 0 <= n -> 0 <= min ->
  gen_apply k c min max n r o = apply k c min max n r o.
Proof.
  intros Hn Hmin. destruct k; simpl.
  - apply basic_gen.
  - apply linear_gen.
  - now apply exponential_gen.
Qed.

(* without applicable server hint the generated policy yields the model's plain wait *)
Lemma gen_plain k c min max n r o : 0 <= n -> 0 <= min ->
  (o_date o = None -> o_rfc1123 o = None) -> consider_hint c r o = None ->
  gen_apply k c min max n r o = plain k min max n o.
Proof.
  intros Hn Hmin Hrfc Hh. rewrite gen_matches_model by assumption.
  rewrite apply_spec by assumption. now rewrite Hh.
Qed.

(* ---- commonerrors.ConvertContextError: the generated rule list is the model's [convert] *)
Lemma convert_rules_gen e : conv_by_rules ConvertContextError_rules (Some e) = convert e.
Proof. destruct e as [i s|[|]]; reflexivity. Qed.
Lemma convert_rules_nil : conv_by_rules ConvertContextError_rules None = RNil.
Proof. reflexivity. Qed.

Lemma convert_only_ctx e : convert e = RCancelled \/ convert e = RTimeout -> exists k, e = ECtx k.
Proof. destruct e as [i s|k]; simpl; [intros [H|H]; discriminate|eauto]. Qed.
