(* C14 — executable model of the retry loop and of the HTTP back-off wait policies.
   Mirrors (AFTER the proposed fixes fixes/C14-*.patch):
     utils/retry/retry.go            RetryIf :16-59 (policy -> retry-go options, the wrapper :35-42 around fn with the context check)
     avast/retry-go/v4 v4.6.1        DoWithData retry.go:123-223 (attempts != 0 branch, lastErrorOnly, custom retryIf)  [MODELLED, third party]
     utils/commonerrors/errors.go    ConvertContextError :191-202
     utils/http/retry_policy.go      Apply x3 :34-43, :58-75, :90-104, BackOffPolicyFactory :114-125, findRetryAfter :127-158, parseDate :160-172
     hashicorp/go-retryablehttp 0.7.7 DefaultBackoff / parseRetryAfterHeader / LinearJitterBackoff client.go:551-639, Do :649-830 [MODELLED]
   int / int64 / time.Duration are 64-bit two's complement (linux/amd64): every Go multiplication / addition is written
   with its wrap-around ([wrap64]).  Definitions only; proofs are in Proofs.v.  Own numeric helpers (no dependency on C10). *)
From Coq Require Import List ZArith Bool.
Import ListNotations.
Local Open Scope Z_scope.

(* ------------------------------------------------------------------------------------------------ *)
(* numeric helpers *)

Definition max_i64 : Z := 2 ^ 63 - 1.
Definition min_i64 : Z := - 2 ^ 63.
Definition in_i64 (z : Z) : Prop := min_i64 <= z <= max_i64.
Definition in_i64b (z : Z) : bool := (min_i64 <=? z) && (z <=? max_i64).

(* two's complement wrap-around of a mathematical integer to int64: mod 2^64, then signed *)
Definition wrap64 (z : Z) : Z :=
  let m := z mod 2 ^ 64 in if m <? 2 ^ 63 then m else m - 2 ^ 64.
Definition mul64 (a b : Z) : Z := wrap64 (a * b).   (* Go's  a * b  on int64 / time.Duration *)
Definition add64 (a b : Z) : Z := wrap64 (a + b).   (* Go's  a + b  *)

(* float64(z) for an integer z, as the exact integer value of the resulting double: round to nearest, ties to even,
   53 significant bits (every |z| < 2^63 is far from overflow, so the result is finite). *)
Definition rne53 (z : Z) : Z :=
  let a := Z.abs z in
  let l := Z.log2 a in
  if l <? 53 then z
  else
    let sh := l - 52 in
    let q := a / 2 ^ sh in
    let r := a mod 2 ^ sh in
    let half := 2 ^ (sh - 1) in
    let q' := if (r >? half) || ((r =? half) && Z.odd q) then q + 1 else q in
    Z.sgn z * (q' * 2 ^ sh).

(* The float64 values that occur in the exponential policy.  Every finite one is a non-negative INTEGER
   (2^n * float64(min) with n >= 0, min >= 0), so a finite double is represented by its exact integer value. *)
Inductive f64 := Fin (z : Z) | PInf | NaN.

(* math.Pow(2, float64(n)) for an int n >= 0: the exact power of two, +Inf from n = 1024 on *)
Definition pow2 (n : Z) : f64 := if n <? 1024 then Fin (2 ^ n) else PInf.

(* p * float64(min)  where r = rne53 min >= 0: exact (a power of two times a 53-bit integer) unless it overflows
   to +Inf; Inf * 0 = NaN *)
Definition fmul (p : f64) (r : Z) : f64 :=
  match p with
  | Fin a => if a * r <? 2 ^ 1024 then Fin (a * r) else PInf
  | PInf => if r =? 0 then NaN else PInf
  | NaN => NaN
  end.

(* time.Duration(f): truncation when the value is in range, otherwise IMPLEMENTATION DEFINED: [impl] is whatever the
   platform returns (0x8000000000000000 on amd64, saturation on arm64); the theorems quantify over every int64 [impl]. *)
Definition to_dur (impl : Z) (f : f64) : Z :=
  match f with
  | Fin z => if in_i64b z then z else impl
  | _ => impl
  end.

(* float64(sleep) == mult *)
Definition feq_int (s : Z) (f : f64) : bool :=
  match f with Fin z => rne53 s =? z | _ => false end.

(* ------------------------------------------------------------------------------------------------ *)
(* (c) Retry-After *)

(* strconv.ParseInt(s, 10, 64) on the bytes of s: optional sign, then one or more ASCII digits, nothing else
   (no spaces, no underscores in base 10); value out of int64 range is an error.  None = err != nil. *)
Fixpoint digits_val (acc : Z) (s : list Z) : option Z :=
  match s with
  | [] => Some acc
  | c :: t => if (48 <=? c) && (c <=? 57) then digits_val (acc * 10 + (c - 48)) t else None
  end.

Definition parse_int (s : list Z) : option Z :=
  match s with
  | [] => None
  | c :: t =>
      let '(neg, ds) := if c =? 43 then (false, t) else if c =? 45 then (true, t) else (false, s) in
      match ds with
      | [] => None
      | _ => match digits_val 0 ds with
             | None => None
             | Some v => let v' := if neg then - v else v in if in_i64b v' then Some v' else None
             end
      end
  end.

(* *http.Response as far as the policies look at it: status code and the first value of the Retry-After header *)
Record response := mkResp { r_status : Z; r_retry_after : option (list Z) }.

(* Everything the wait computation takes from outside the arithmetic: *)
Record oracle := mkOracle {
  o_date : option Z;     (* parseDate(header) succeeded (retry_policy.go:160-172); the value is time.Until(afterTime) in ns *)
  o_rfc1123 : option Z;  (* time.Parse(time.RFC1123, header) succeeded (retryablehttp.parseRetryAfterHeader); retryTime.Sub(now) *)
  o_jitter : Z;          (* int64(rand.Float64() * float64(max-min)) in LinearJitterBackoff *)
  o_impl : Z             (* the platform's result of an out-of-range float64 -> int64 conversion *)
}.

Definition second : Z := 1000000000.
Definition max_retry_after_seconds : Z := Z.quot max_i64 second.   (* const maxRetryAfterSeconds (fix D3) *)

Definition is_429_503 (st : Z) : bool := (st =? 429) || (st =? 503).

(* findRetryAfter (retry_policy.go:127-158, fixed): Some wait <-> found.  Seconds form: negative -> 0, saturated at
   maxRetryAfterSeconds, then time.Second * time.Duration(sleep) WITH wrap-around written out; the date form is tried as
   well and wins when it parses: one clock reading, clamped at 0. *)
Definition find_retry_after (r : option response) (o : oracle) : option Z :=
  match r with
  | None => None
  | Some resp =>
      if is_429_503 (r_status resp) then
        match r_retry_after resp with
        | None => None
        | Some s =>
            let w1 := match parse_int s with
                      | Some v =>
                          let v1 := if v <? 0 then 0 else v in
                          let v2 := if v1 >? max_retry_after_seconds then max_retry_after_seconds else v1 in
                          Some (mul64 second v2)
                      | None => None
                      end in
            match o_date o with
            | Some u => Some (if u <? 0 then 0 else u)
            | None => w1
            end
        end
      else None
  end.

(* retryablehttp.parseRetryAfterHeader (client.go:578-601), reached through DefaultBackoff only *)
Definition parse_retry_after_header (h : option (list Z)) (o : oracle) : option Z :=
  match h with
  | None => None
  | Some [] => None
  | Some s =>
      match parse_int s with
      | Some v => if v <? 0 then None else Some (mul64 second v)
      | None => match o_rfc1123 o with
                | None => None
                | Some u => Some (if u >? 0 then u else 0)
                end
      end
  end.

(* ------------------------------------------------------------------------------------------------ *)
(* (b) the three wait policies *)

Inductive kind := Basic | Linear | Exponential.

(* BackOffPolicyFactory (retry_policy.go:114-125) + NewRetryWaitPolicy (:19-26), cfg != nil *)
Definition policy_of (enabled backoff linear retry_after_disabled : bool) : kind * bool :=
  (if enabled && backoff then (if linear then Linear else Exponential) else Basic, negb retry_after_disabled).

(* the exponential formula: ExponentialBackoffPolicy.Apply :98-103 and, identically, DefaultBackoff client.go:560-565 *)
Definition exp_formula (min max n impl : Z) : Z :=
  let mult := fmul (pow2 n) (rne53 min) in
  let sleep := to_dur impl mult in
  if negb (feq_int sleep mult) || (sleep >? max) then max else sleep.

(* retryablehttp.DefaultBackoff client.go:551-566 *)
Definition default_backoff (min max n : Z) (r : option response) (o : oracle) : Z :=
  let hint := match r with
              | Some resp => if is_429_503 (r_status resp) then parse_retry_after_header (r_retry_after resp) o else None
              | None => None
              end in
  match hint with Some w => w | None => exp_formula min max n (o_impl o) end.

(* retryablehttp.LinearJitterBackoff client.go:619-639; j = o_jitter *)
Definition linear_jitter (min max n j : Z) : Z :=
  let a := wrap64 (n + 1) in
  if max <=? min then mul64 min a
  else mul64 (add64 j min) a.

(* the saturation guard of LinearBackoffPolicy.Apply :65-73 (fix): largest := max(min, max);
   largest > 0 && attemptNum >= 0 && int64(attemptNum) >= math.MaxInt64/int64(largest) *)
Definition linear_saturates (min max n : Z) : bool :=
  let largest := if min >? max then min else max in
  (largest >? 0) && (n >=? 0) && (n >=? Z.quot max_i64 largest).

Definition hint (consider : bool) (r : option response) (o : oracle) : option Z :=
  if consider then find_retry_after r o else None.

(* IRetryWaitPolicy.Apply(min, max, attemptNum, resp) of the three policies *)
Definition apply (k : kind) (consider : bool) (min max n : Z) (r : option response) (o : oracle) : Z :=
  match k with
  | Basic => match hint consider r o with Some w => w | None => min end
  | Linear =>
      match hint consider r o with
      | Some w => w
      | None => if linear_saturates min max n then max_i64 else linear_jitter min max n (o_jitter o)
      end
  | Exponential =>
      if consider then
        match find_retry_after r o with
        | Some w => w
        | None => default_backoff min max n r o
        end
      else exp_formula min max n (o_impl o)
  end.

(* the policy without any server hint — what the property calls "the wait computed without a server hint" *)
Definition plain (k : kind) (min max n : Z) (o : oracle) : Z :=
  match k with
  | Basic => min
  | Linear => if linear_saturates min max n then max_i64 else linear_jitter min max n (o_jitter o)
  | Exponential => exp_formula min max n (o_impl o)
  end.

(* the value a parsed Retry-After header stands for *)
Definition retry_after_value (s : list Z) (o : oracle) : option Z :=
  match o_date o with
  | Some u => Some (Z.max 0 u)
  | None => match parse_int s with
            | Some v => Some (Z.min (Z.max 0 v) max_retry_after_seconds * second)
            | None => None
            end
  end.

(* what the oracle values must satisfy: jitter is anything int64(rand * float64(max-min)) can yield, the
   implementation-defined conversion result and the clock differences are int64, and a string which parseDate rejects
   (it tries RFC1123 among others) is not RFC1123. *)
Definition oracle_ok (min max : Z) (o : oracle) : Prop :=
  0 <= o_jitter o <= Z.max 0 (max - min) /\ in_i64 (o_impl o) /\
  (o_date o = None -> o_rfc1123 o = None) /\
  (forall u, o_date o = Some u -> in_i64 u).

(* ------------------------------------------------------------------------------------------------ *)
(* (a) the retry loop *)

Inductive ctxkind := CtxCancel | CtxDeadline.
(* errors as far as errors.Is sees them: a harness error with an identity, or one that Is context.Canceled/DeadlineExceeded *)
(* [shape] says what the operation's error looks like (opaque, a common-error kind such as ErrTimeout, an os / syscall / net
   error with Timeout() = true, wrapped, joined ...): data only — an error that is not a context error is handed through
   whatever its shape. *)
Inductive err := EPlain (id shape : Z) | ECtx (k : ctxkind).
(* outcome of one invocation of fn; retriable = retryConditionFn(err) *)
Inductive outcome := OSucc | ORetriable (e : err) | OFatal (e : err).
Record attempt := mkAtt {
  a_out : outcome;
  a_ctx_ends_in : bool;        (* the context ends while this invocation of fn runs *)
  a_ctx_ends_in_wait : bool    (* the context ends during the wait that follows this invocation *)
}.
Definition default_attempt := mkAtt OSucc false false.

Inductive result := RNil | RErr (e : err) | RCancelled | RTimeout.

(* commonerrors.ConvertContextError *)
Definition convert (e : err) : result :=
  match e with
  | ECtx CtxCancel => RCancelled
  | ECtx CtxDeadline => RTimeout
  | EPlain _ _ => RErr e
  end.

Record rcfg := mkCfg {
  c_enabled : bool;
  c_attempts : nat;        (* safecast.ToUint(RetryMax); the model covers RetryMax >= 1 (0 is retry-go's "retry forever") *)
  c_retry_ctx_err : bool;  (* retryConditionFn applied to ctx.Err() (reached only through the wrapper's context check) *)
  c_ck : ctxkind;          (* how the context ends when it ends: what ctx.Err() Is *)
  c_cause : Z              (* identity of the value context.Cause(ctx) reports (WithCancelCause / WithTimeoutCause /
                              WithDeadlineCause, own or inherited from a parent; 0 = none).  Data only: the code looks at
                              ctx.Err(), never at the cause, so nothing below depends on it (context_cause_irrelevant). *)
}.
Definition with_cause (cfg : rcfg) (c : Z) : rcfg :=
  mkCfg (c_enabled cfg) (c_attempts cfg) (c_retry_ctx_err cfg) (c_ck cfg) c.

(* one invocation of fn: (index in the script, was the context already done when fn started) *)
Definition trace := list (nat * bool).

(* The loop of DoWithData (retry.go:178-217) around the wrapper of RetryIf.  [rem] = attempts - 1 - n (retries left),
   [k] = number of invocations of fn so far, [done] = ctx.Err() != nil, [sched] resolves each select in which
   ctx.Done() is ready: true = the delay timer's branch is taken (it may be ready too: always with a zero delay),
   false = the ctx.Done() branch.  An exhausted schedule means false. *)
Fixpoint loop (cfg : rcfg) (script : list attempt) (rem : nat) (k : nat) (done : bool) (tr : trace) (sched : list bool)
  : trace * result :=
  (* the wrapper: if err := ctx.Err(); err != nil { return err }; return fn() *)
  let '(tr1, k1, done1, waitends, out) :=
      if done then (tr, k, true, false, (if c_retry_ctx_err cfg then ORetriable (ECtx (c_ck cfg)) else OFatal (ECtx (c_ck cfg))))
      else let a := nth k script default_attempt in
           (tr ++ [(k, done)], S k, a_ctx_ends_in a, a_ctx_ends_in_wait a, a_out a) in
  match out with
  | OSucc => (tr1, RNil)                                        (* :181 *)
  | OFatal e => (tr1, convert e)                                (* :187 break; :220 errorLog.Unwrap() = last *)
  | ORetriable e =>
      match rem with
      | O => (tr1, convert e)                                   (* :202 n == attempts-1: break *)
      | S rem' =>
          (* :206 select { case <-timer.After(delay): case <-ctx.Done(): return ctx.Err() } *)
          if done1 || waitends then
            match sched with
            | true :: sched' => loop cfg script rem' k1 true tr1 sched'
            | _ => (tr1, convert (ECtx (c_ck cfg)))
            end
          else loop cfg script rem' k1 false tr1 sched
      end
  end.

(* retry.RetryIf (retry.go:16-59).  [ctx0]: the context is already done on entry (DoWithData :135 returns ctx.Err()). *)
Definition run (cfg : rcfg) (ctx0 : bool) (script : list attempt) (sched : list bool) : trace * result :=
  if negb (c_enabled cfg) then
    (* :20 return fn() — one invocation whatever the context; the error is returned as it is *)
    ([(O, ctx0)], match a_out (nth O script default_attempt) with OSucc => RNil | ORetriable e | OFatal e => RErr e end)
  else if ctx0 then ([], convert (ECtx (c_ck cfg)))
  else match c_attempts cfg with
       | O => ([], RNil)   (* not modelled: RetryMax <= 0 retries for ever; excluded by every theorem and never generated *)
       | S m => loop cfg script m O false [] sched
       end.

(* retryablehttp.Client.Do client.go:649-830 with CheckRetry = DefaultRetryPolicy against a server that answers
   [fails] times with a retriable status and then 200: number of requests received.  (RetryMax counts RE-tries.) *)
Definition client_requests (retry_max fails : Z) : Z := Z.min (fails + 1) (Z.max 0 retry_max + 1).

(* ------------------------------------------------------------------------------------------------ *)
(* correspondence cases: what the harness observed on the real code *)

Inductive case :=
| CWait (enabled backoff linear ra_disabled : bool) (min max n : Z) (r : option response)
        (date : option (Z * Z * Z))   (* header parsed as a date by the harness: (lo, hi, witness) bracket of time.Until *)
        (rfc1123 : bool)              (* time.Parse(RFC1123, header) succeeds *)
        (jitter impl : Z)             (* witness for the jitter (solved by the harness from the observation), platform conversion value *)
        (w : Z)                       (* observed Apply(...) in ns *)
| CRetry (cfg : rcfg) (ctx0 : bool) (script : list attempt) (calls : list bool) (res : result)
        (* calls: one entry per observed invocation of fn: ctx.Err() != nil when it started *)
| CClient (retry_max fails requests : Z).

Definition err_eqb (a b : err) : bool :=
  match a, b with
  | EPlain x s, EPlain y s' => (x =? y) && (s =? s')
  | ECtx CtxCancel, ECtx CtxCancel | ECtx CtxDeadline, ECtx CtxDeadline => true
  | _, _ => false
  end.
Definition result_eqb (a b : result) : bool :=
  match a, b with
  | RNil, RNil | RCancelled, RCancelled | RTimeout, RTimeout => true
  | RErr x, RErr y => err_eqb x y
  | _, _ => false
  end.
Fixpoint bools_eqb (a b : list bool) : bool :=
  match a, b with
  | [], [] => true
  | x :: xs, y :: ys => Bool.eqb x y && bools_eqb xs ys
  | _, _ => false
  end.
Fixpoint trace_ok (i : nat) (t : trace) : bool :=   (* invocations consume the script in order *)
  match t with [] => true | (k, _) :: t' => Nat.eqb k i && trace_ok (S i) t' end.

Definition run_matches (cfg : rcfg) (ctx0 : bool) (script : list attempt) (sched : list bool) (calls : list bool) (res : result) : bool :=
  let '(tr, r) := run cfg ctx0 script sched in
  trace_ok O tr && bools_eqb (map snd tr) calls && result_eqb r res.

Definition check_case (c : case) : bool :=
  match c with
  | CWait enabled backoff linear ra_disabled min max n r date rfc1123 jitter impl w =>
      let '(k, consider) := policy_of enabled backoff linear ra_disabled in
      let date_ok := match date with Some (lo, hi, u) => (lo <=? u) && (u <=? hi) | None => true end in
      let o := mkOracle (match date with Some (_, _, u) => Some u | None => None end)
                        (if rfc1123 then Some 0 else None) jitter impl in
      date_ok && (0 <=? jitter) && (jitter <=? Z.max 0 (max - min)) && in_i64b impl &&
      (apply k consider min max n r o =? w)
  | CRetry cfg ctx0 script calls res =>
      (* the observables do not depend on how the selects are resolved (schedule_irrelevant): both extremes are evaluated *)
      run_matches cfg ctx0 script [] calls res &&
      run_matches cfg ctx0 script (repeat true (c_attempts cfg)) calls res
  | CClient retry_max fails requests => client_requests retry_max fails =? requests
  end.
