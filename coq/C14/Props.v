(* C14 — Retries are bounded and back-off waits stay in range.
   Property theorems only: each is closed by a lemma of Proofs.v (short glue tolerated) and followed by Print Assumptions.
   Model: GU.C14.Model — retry.RetryIf around retry-go's DoWithData (as configured in retry.go), the three wait policies of
   http/retry_policy.go over retryablehttp's DefaultBackoff / LinearJitterBackoff, findRetryAfter — AFTER the fixes
   fixes/C14-*.patch.  Everything taken from outside the arithmetic is a field of [oracle] constrained by [oracle_ok]:
   the random jitter (any integer in [0, max-min]), the platform's result of an out-of-range float64->int64 conversion
   (ANY int64), the clock differences (any int64). int/int64/time.Duration are 64-bit (linux/amd64). *)
From Coq Require Import List ZArith Bool Lia Arith.
Import ListNotations.
From GU Require Import C14.Model C14.Proofs C14.GoBase C14.Gen C14.GenModel C14.ProofsGen.

(* ---------------------------------------------------------------------------------------------- *)
(* the retry loop: every policy with RetryMax >= 1, EVERY outcome script (of any length; attempts beyond the script
   succeed), every resolution [sched] of the selects in which both the delay timer and ctx.Done() are ready *)

(* At least one and at most RetryMax invocations, consuming the script in order; an attempt is made only after a
   retriable failure; nil exactly when some attempt succeeded; otherwise the last error (context errors converted by
   [convert] to cancelled / timeout) or — only if the context ended during the last attempt or the wait after it — the
   context's cancelled / timeout. *)
Theorem retry_attempts_bounded : forall cfg script sched m,
  c_enabled cfg = true -> c_attempts cfg = S m ->
  let tr := fst (run cfg false script sched) in
  let res := snd (run cfg false script sched) in
  (1 <= length tr <= c_attempts cfg)%nat /\
  map fst tr = seq 0 (length tr) /\
  (forall i, (S i < length tr)%nat -> exists e, a_out (att script i) = ORetriable e) /\
  (res = RNil <-> exists i, (i < length tr)%nat /\ a_out (att script i) = OSucc) /\
  (let last := att script (length tr - 1) in
   match a_out last with
   | OSucc => res = RNil
   | OFatal e => res = convert e
   | ORetriable e =>
       res = convert e \/
       ((a_ctx_ends_in last || a_ctx_ends_in_wait last = true) /\ res = convert (ECtx (c_ck cfg)))
   end).
Proof.
  intros cfg script sched m He Ha. cbv zeta.
  destruct (run_spec cfg script sched m He Ha) as [H1 H2 H3 H4 H5 H6 H7].
  repeat split; auto; try apply H6.
  intros i Hi. destruct (H5 i Hi) as (He' & _). exact He'.
Qed.
Print Assumptions retry_attempts_bounded.

(* Once the context is done the operation is not invoked (again): every invocation starts with a live context, the
   context ended neither during an earlier attempt nor during the wait after it, and a context that is already done
   on entry means no invocation at all and the result cancelled / timeout.
   (Refuted for the code before fixes/C14-no-attempt-after-context-done.patch: with both channels of retry-go's select
   ready the timer branch could be taken; the harness reproduces it on the unfixed tree.) *)
Theorem no_attempt_after_context_done : forall cfg script sched m,
  c_enabled cfg = true -> c_attempts cfg = S m ->
  let tr := fst (run cfg false script sched) in
  (forall c, In c tr -> snd c = false) /\
  (forall i, (S i < length tr)%nat ->
     a_ctx_ends_in (att script i) = false /\ a_ctx_ends_in_wait (att script i) = false) /\
  run cfg true script sched = ([], convert (ECtx (c_ck cfg))).
Proof.
  intros cfg script sched m He Ha. cbv zeta.
  destruct (run_spec cfg script sched m He Ha) as [H1 H2 H3 H4 H5 H6 H7].
  split; [exact H4|]. split.
  - intros i Hi. destruct (H5 i Hi) as (_ & Hc). exact Hc.
  - unfold run. rewrite He. reflexivity.
Qed.
Print Assumptions no_attempt_after_context_done.

(* The observables do not depend on how the runtime resolves a select with both channels ready. *)
Theorem retry_schedule_irrelevant : forall cfg ctx0 script s1 s2,
  run cfg ctx0 script s1 = run cfg ctx0 script s2.
Proof. exact run_sched_irrelevant. Qed.
Print Assumptions retry_schedule_irrelevant.

(* The value reported by context.Cause (cancel cause, timeout / deadline cause, a parent's cause) is data that
   influences nothing: same invocations, same result — in particular the result's kind is cancelled / timeout
   according to ctx.Err() whatever the cause. *)
Theorem context_cause_irrelevant : forall cfg c ctx0 script sched,
  run (with_cause cfg c) ctx0 script sched = run cfg ctx0 script sched.
Proof. exact run_cause_irrelevant. Qed.
Print Assumptions context_cause_irrelevant.

(* commonerrors.ConvertContextError, whose ordered rule list is REGENERATED from utils/commonerrors/errors.go (Gen.v), is the
   model's [convert]; and only a context error becomes cancelled / timeout: an error of the operation that is not a
   context error — whatever its shape: opaque, ErrTimeout / ErrCancelled returned by the operation, an os / syscall / net
   error with Timeout() = true, wrapped, joined — is handed through. *)
Theorem convert_rules_match_model : forall e,
  conv_by_rules ConvertContextError_rules (Some e) = convert e /\ conv_by_rules ConvertContextError_rules None = RNil.
Proof. intros e. split; [apply ProofsGen.convert_rules_gen|apply ProofsGen.convert_rules_nil]. Qed.
Print Assumptions convert_rules_match_model.

Theorem only_context_errors_are_converted : forall e,
  conv_by_rules ConvertContextError_rules (Some e) = RCancelled \/ conv_by_rules ConvertContextError_rules (Some e) = RTimeout ->
  exists k, e = ECtx k.
Proof. intros e. rewrite ProofsGen.convert_rules_gen. apply ProofsGen.convert_only_ctx. Qed.
Print Assumptions only_context_errors_are_converted.

(* A disabled policy: exactly one invocation, its error handed through unchanged. *)
Theorem disabled_policy_single_attempt : forall cfg ctx0 script sched,
  c_enabled cfg = false ->
  run cfg ctx0 script sched =
  ([(O, ctx0)], match a_out (att script 0) with OSucc => RNil | ORetriable e | OFatal e => RErr e end).
Proof. intros cfg ctx0 script sched He. unfold run. rewrite He. reflexivity. Qed.
Print Assumptions disabled_policy_single_attempt.

(* ---------------------------------------------------------------------------------------------- *)
(* the waits — statements about the definitions REGENERATED from utils/http/retry_policy.go on every run
   (Gen.v: BasicRetryPolicy_Apply, LinearBackoffPolicy_Apply, ExponentialBackoffPolicy_Apply, findRetryAfter; [gen_apply]
   indexes the three Apply methods by policy kind).  [server_hint] / [consider_hint] are the specification of what a
   Retry-After header stands for. *)
Local Open Scope Z_scope.

(* the generated definitions coincide with the hand-written model functions (which the retry-client and the
   third-party parts of the model, and the lemmas of Proofs.v, are phrased with) *)
Theorem gen_matches_model : forall k consider min max n r o, 0 <= n -> 0 <= min ->
  gen_apply k consider min max n r o = apply k consider min max n r o.
Proof. exact ProofsGen.gen_matches_model. Qed.
Print Assumptions gen_matches_model.

(* A Retry-After value replaces the policy's wait exactly when that is enabled: with the header considered, status
   429/503 and a value that parses (seconds, or a date), the wait IS that value (seconds clamped to [0, MaxInt64/1e9],
   no wrap-around; dates clamped at 0) whatever the policy; in every other case it is what the same policy computes
   with the header disabled and no response. *)
Theorem retry_after_replaces_exactly_when_enabled : forall k consider min max n r o,
  0 <= n -> 0 <= min -> (o_date o = None -> o_rfc1123 o = None) ->
  (forall v, consider = true -> server_hint r o = Some v -> gen_apply k consider min max n r o = v) /\
  (consider = false \/ server_hint r o = None ->
   gen_apply k consider min max n r o = gen_apply k false min max n None o).
Proof.
  intros k consider min max n r o Hn Hmin H. split.
  - intros v -> Hv. rewrite ProofsGen.gen_matches_model, (apply_spec k true min max n r o H) by assumption.
    simpl. now rewrite Hv.
  - intros Hc. rewrite !ProofsGen.gen_plain; auto.
    destruct Hc as [->|Hc]; [reflexivity|]. unfold consider_hint. rewrite Hc. now destruct consider.
Qed.
Print Assumptions retry_after_replaces_exactly_when_enabled.

Theorem wait_constant : forall consider min max n r o,
  0 <= n -> 0 <= min -> (o_date o = None -> o_rfc1123 o = None) -> consider_hint consider r o = None ->
  BasicRetryPolicy_Apply consider min max n r o = min.
Proof. intros. now rewrite (ProofsGen.gen_plain Basic). Qed.
Print Assumptions wait_constant.

(* linear: for EVERY attempt number and every jitter draw, as long as (n+1)*max is representable *)
Theorem wait_linear_range : forall consider min max n r o,
  0 <= min <= max -> 0 <= n -> (n + 1) * max <= max_i64 ->
  0 <= o_jitter o <= Z.max 0 (max - min) ->
  (o_date o = None -> o_rfc1123 o = None) -> consider_hint consider r o = None ->
  (n + 1) * min <= LinearBackoffPolicy_Apply consider min max n r o <= (n + 1) * max.
Proof. intros. rewrite (ProofsGen.gen_plain Linear) by (auto; lia). now apply plain_linear_range. Qed.
Print Assumptions wait_linear_range.

(* exponential: for EVERY attempt number (n >= 1024 makes the power +Inf, min = 0 then gives NaN) and EVERY value the
   platform may return for an out-of-range conversion; min < 2^53 ns (104 days) so that float64(min) is exact *)
Theorem wait_exponential_range : forall consider min max n r o,
  0 <= min < 2 ^ 53 -> min <= max <= max_i64 -> 0 <= n -> in_i64 (o_impl o) ->
  (o_date o = None -> o_rfc1123 o = None) -> consider_hint consider r o = None ->
  min <= ExponentialBackoffPolicy_Apply consider min max n r o <= max.
Proof. intros. rewrite (ProofsGen.gen_plain Exponential) by (auto; lia). now apply exp_range. Qed.
Print Assumptions wait_exponential_range.

Theorem wait_exponential_monotone : forall consider min max n1 n2 r1 r2 o,
  0 <= min < 2 ^ 53 -> min <= max <= max_i64 -> 0 <= n1 <= n2 -> in_i64 (o_impl o) ->
  (o_date o = None -> o_rfc1123 o = None) ->
  consider_hint consider r1 o = None -> consider_hint consider r2 o = None ->
  ExponentialBackoffPolicy_Apply consider min max n1 r1 o <= ExponentialBackoffPolicy_Apply consider min max n2 r2 o.
Proof. intros. rewrite !(ProofsGen.gen_plain Exponential) by (auto; lia). now apply exp_monotone_le. Qed.
Print Assumptions wait_exponential_monotone.

(* never negative (and representable): every policy, with or without server hint, every attempt number, every
   0 <= min <= max of the whole int64 range.
   (Refuted for the code before fixes/C14-retry-after-overflow.patch — Retry-After: 9223372037 — and before
   fixes/C14-linear-backoff-overflow.patch — linear policy, (n+1)*wait beyond int64; both reproduced by the harness.) *)
Theorem wait_non_negative : forall k consider min max n r o,
  0 <= min <= max -> max <= max_i64 -> 0 <= n -> oracle_ok min max o ->
  0 <= gen_apply k consider min max n r o <= max_i64.
Proof. intros. rewrite ProofsGen.gen_matches_model by lia. now apply apply_nonneg. Qed.
Print Assumptions wait_non_negative.

(* ---------------------------------------------------------------------------------------------- *)
(* non-vacuity *)
Definition o_ex : oracle := mkOracle None None 150000000 (- 2 ^ 63).
Example oracle_ok_satisfiable : oracle_ok 800000000 1200000000 o_ex.
Proof. unfold oracle_ok, o_ex, in_i64, min_i64, max_i64; simpl. repeat split; try lia; try discriminate. Qed.

Example hint_seconds : server_hint (Some (mkResp 429 (Some [49; 50; 48]))) o_ex = Some 120000000000.   (* "120" *)
Proof. reflexivity. Qed.
Example hint_saturates :   (* "9223372037": one more than fits *)
  server_hint (Some (mkResp 503 (Some [57;50;50;51;51;55;50;48;51;55]))) o_ex = Some 9223372036000000000
  /\ apply Basic true 0 0 0 (Some (mkResp 503 (Some [57;50;50;51;51;55;50;48;51;55]))) o_ex = 9223372036000000000.
Proof. split; reflexivity. Qed.
Example hint_other_status : server_hint (Some (mkResp 500 (Some [49; 50; 48]))) o_ex = None.
Proof. reflexivity. Qed.
Example waits_ex :
  plain Linear 800000000 1200000000 2 o_ex = 2850000000 /\
  plain Exponential 1000000000 30000000000 3 o_ex = 8000000000 /\
  plain Exponential 1000000000 30000000000 5 o_ex = 30000000000 /\
  plain Exponential 0 30000000000 1023 o_ex = 0 /\
  plain Exponential 0 30000000000 1024 o_ex = 30000000000 /\
  plain Linear 1000000000 1000000000 (2 ^ 40) o_ex = max_i64.
Proof. vm_compute. repeat split; reflexivity. Qed.

Example gen_ex :
  gen_apply Basic true 0 0 0 (Some (mkResp 503 (Some [57;50;50;51;51;55;50;48;51;55]))) o_ex = 9223372036000000000 /\
  LinearBackoffPolicy_Apply false 800000000 1200000000 2 None o_ex = 2850000000 /\
  LinearBackoffPolicy_Apply true 1000000000 1000000000 (2 ^ 40) None o_ex = max_i64 /\
  ExponentialBackoffPolicy_Apply false 1000000000 30000000000 3 None o_ex = 8000000000 /\
  ExponentialBackoffPolicy_Apply false 0 30000000000 1024 None o_ex = 30000000000.
Proof. vm_compute. repeat split; reflexivity. Qed.

Definition cfg_ex : rcfg := mkCfg true 3 false CtxCancel 7.
Example run_ex :
  run cfg_ex false [mkAtt (ORetriable (EPlain 0 0)) false false; mkAtt (ORetriable (EPlain 1 0)) false false;
                    mkAtt (ORetriable (EPlain 2 0)) false false; mkAtt OSucc false false] []
  = ([(0, false); (1, false); (2, false)]%nat, RErr (EPlain 2 0)) /\
  run cfg_ex false [mkAtt (ORetriable (EPlain 0 0)) true false; mkAtt OSucc false false] [true; true]
  = ([(0, false)]%nat, RCancelled) /\
  run cfg_ex false [mkAtt (ORetriable (EPlain 0 0)) false false; mkAtt OSucc false false] []
  = ([(0, false); (1, false)]%nat, RNil).
Proof. repeat split; reflexivity. Qed.
