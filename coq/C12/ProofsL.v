(* C12 — the RW-lock discipline of the CancelFunctionStore model never deadlocks: in every reachable state, unless every
   goroutine has finished its program, some goroutine can make a step (any programs, any schedule). *)
From Coq Require Import List ZArith Bool Arith Lia.
Import ListNotations.
From GU Require Import C12.Conc C12.Facts C12.Gen C12.Model C12.ProofsS.

(* a goroutine holding the read lock *)
Definition inrsec (th : thread) : bool :=
  match th_pc th with SCanLoop _ | SLenUnlock _ => true | _ => false end.

Fixpoint rsec (l : list thread) : nat :=
  match l with [] => 0 | th :: r => (if inrsec th then 1 else 0) + rsec r end.

Lemma rsec_upd l i th th' : nth_error l i = Some th ->
  rsec (upd i th' l) + (if inrsec th then 1 else 0) = rsec l + (if inrsec th' then 1 else 0).
Proof.
  revert i; induction l as [|y l IH]; intros [|i] H; simpl in *; try discriminate.
  - inversion H; subst. lia.
  - specialize (IH i H). lia.
Qed.

Lemma rsec_pos l : 1 <= rsec l -> exists j th, nth_error l j = Some th /\ inrsec th = true.
Proof.
  induction l as [|y l IH]; simpl; intros H; [lia|].
  destruct (inrsec y) eqn:E.
  - exists 0, y. split; [reflexivity|exact E].
  - destruct (IH ltac:(lia)) as [j [th [Hj Hin]]]. exists (S j), th. split; assumption.
Qed.

Lemma wsec_pos l : 1 <= wsec l -> exists j th, nth_error l j = Some th /\ insec th = true.
Proof.
  induction l as [|y l IH]; simpl; intros H; [lia|].
  destruct (insec y) eqn:E.
  - exists 0, y. split; [reflexivity|exact E].
  - destruct (IH ltac:(lia)) as [j [th [Hj Hin]]]. exists (S j), th. split; assumption.
Qed.

Section Lock.
  Variable f : facts.
  Hypothesis Hlock : f_reg_lock f = LLock.
  Hypothesis Hcopy : f_reg_copies f = true.

Definition LI (s : sstate) : Prop :=
  SI s /\ s_readers s = rsec (s_threads s) /\ (s_writer s = true -> s_readers s = 0).

Lemma LI_init progs : LI (s_init progs).
Proof.
  split; [apply SI_init|]. unfold s_init; simpl. split; [|discriminate].
  induction progs; simpl; auto.
Qed.

Lemma LI_step s i s' : LI s -> s_step f s i = Some s' -> LI s'.
Proof.
  intros (HS & HR & HX) E. split; [eapply (SI_step f Hlock Hcopy); eauto|].
  destruct HS as (_ & HW & _ & _).
  unfold s_step in E.
  destruct (nth_error (s_threads s) i) as [th|] eqn:Ei; [|discriminate].
  destruct (th_step f s th) as [[s1 th']|] eqn:Est; [|discriminate]. inversion E; subst s'; clear E.
  pose proof (rsec_upd (s_threads s) i th th' Ei) as HU.
  destruct s as [fns wr rd ths rdn cs]. destruct th as [ops pc must called outs]. simpl in *.
  destruct pc as [|fs|fs|fs seen|fs| |todo| |n]; simpl in Est; rewrite ?Hlock, ?Hcopy in Est.
  - destruct ops as [|[fs| | |] r]; try discriminate; inversion Est; subst; clear Est; simpl;
      unfold inrsec in *; simpl in *; (split; [lia|exact HX]).
  - destruct (negb wr && (rd =? 0)) eqn:Eg; [|discriminate]. inversion Est; subst; clear Est.
    apply andb_true_iff in Eg. destruct Eg as [_ Eg]. apply Nat.eqb_eq in Eg. simpl.
    unfold inrsec in *; simpl in *. split; [lia|intros _; exact Eg].
  - inversion Est; subst; clear Est. simpl. unfold inrsec in *; simpl in *. split; [lia|exact HX].
  - inversion Est; subst; clear Est. simpl. unfold inrsec in *; simpl in *. split; [lia|exact HX].
  - inversion Est; subst; clear Est. simpl. unfold inrsec in *; simpl in *. split; [lia|discriminate].
  - destruct (negb wr) eqn:Eg; [|discriminate]. inversion Est; subst; clear Est. simpl.
    apply negb_true_iff in Eg. subst wr. unfold inrsec in *; simpl in *. split; [lia|discriminate].
  - destruct todo as [|g todo]; inversion Est; subst; clear Est; simpl; unfold inrsec in *; simpl in *.
    + split; [lia|]. intros Hw. specialize (HX Hw). lia.
    + split; [lia|exact HX].
  - destruct (negb wr) eqn:Eg; [|discriminate]. inversion Est; subst; clear Est. simpl.
    apply negb_true_iff in Eg. subst wr. unfold inrsec in *; simpl in *. split; [lia|discriminate].
  - inversion Est; subst; clear Est. simpl. unfold inrsec in *; simpl in *.
    split; [lia|]. intros Hw. specialize (HX Hw). lia.
Qed.

Lemma LI_run progs sched : LI (run (s_step f) (s_init progs) sched).
Proof. apply (inv_run (s_step f) LI LI_step). apply LI_init. Qed.

Definition th_finished (th : thread) : bool :=
  match th_pc th, th_ops th with SIdle, [] => true | _, _ => false end.

(* a goroutine that holds a lock, or that waits for a lock which is free, can step *)
Lemma step_of_thread s j th : nth_error (s_threads s) j = Some th -> th_step f s th <> None -> s_step f s j <> None.
Proof.
  intros Hj Hs. unfold s_step. rewrite Hj. destruct (th_step f s th) as [[s1 th']|]; [discriminate|congruence].
Qed.

Lemma store_no_deadlock_f : forall progs sched,
  let s := run (s_step f) (s_init progs) sched in
  (exists j th, nth_error (s_threads s) j = Some th /\ th_finished th = false) ->
  exists i, s_step f s i <> None.
Proof.
  intros progs sched s [j [th [Hj Hf]]].
  destruct (LI_run progs sched) as ((_ & HW & _ & _) & HR & HX). fold s in HW, HR, HX.
  destruct (s_writer s) eqn:Ew.
  - (* the write lock is held: its holder is inside Register and can always move *)
    destruct (wsec_pos (s_threads s) ltac:(lia)) as [k [th2 [Hk Hin]]].
    exists k. apply (step_of_thread s k th2 Hk).
    destruct s as [fns wr rd ths rdn cs]. destruct th2 as [ops pc must called outs].
    unfold insec in Hin; simpl in *. destruct pc; try discriminate; simpl; rewrite ?Hlock, ?Hcopy; discriminate.
  - destruct (s_readers s) as [|r] eqn:Er.
    + (* no lock is held: the unfinished goroutine itself can move *)
      exists j. apply (step_of_thread s j th Hj).
      destruct s as [fns wr rd ths rdn cs]. destruct th as [ops pc must called outs]. simpl in *. subst wr rd.
      unfold th_finished in Hf; simpl in Hf.
      destruct pc as [|fs|fs|fs seen|fs| |todo| |n]; simpl; rewrite ?Hlock, ?Hcopy; try discriminate.
      * destruct ops as [|[fs| | |] r]; try discriminate.
      * destruct todo; discriminate.
    + (* read locks are held: a reader is inside Cancel or Len and can always move *)
      destruct (rsec_pos (s_threads s) ltac:(lia)) as [k [th2 [Hk Hin]]].
      exists k. apply (step_of_thread s k th2 Hk).
      destruct s as [fns wr rd ths rdn cs]. destruct th2 as [ops pc must called outs].
      unfold inrsec in Hin; simpl in *. destruct pc as [|fs|fs|fs seen|fs| |todo| |n]; try discriminate; simpl; rewrite ?Hlock, ?Hcopy;
        try (destruct todo; discriminate); try discriminate.
Qed.
End Lock.

(* for the GENERATED facts; Cancel and Len must take the READ lock, as the model assumes *)
Lemma gen_readers_take_rlock : f_cancel_lock gen_facts = LRLock /\ f_len_lock gen_facts = LRLock.
Proof. split; reflexivity. Qed.

Lemma store_no_deadlock_l : forall progs sched,
  let s := run (s_step gen_facts) (s_init progs) sched in
  (exists j th, nth_error (s_threads s) j = Some th /\ th_finished th = false) ->
  exists i, s_step gen_facts s i <> None.
Proof.
  exact (store_no_deadlock_f gen_facts (proj1 gen_register_locks_and_copies) (proj2 gen_register_locks_and_copies)).
Qed.
