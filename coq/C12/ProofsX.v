(* C12 — proofs about the context-based runner model (x_* machine of GU.C12.Model):
   RunActionWithTimeoutAndCancelStore and RunActionWithTimeoutAndContext.  Same method as ProofsR.v. *)
From Coq Require Import List ZArith Bool Arith Lia.
Import ListNotations.
From GU Require Import C12.Conc C12.MC C12.Facts C12.Gen C12.Model C12.ProofsR.

Definition started (s : xstate) : bool := match x_act s with None => false | _ => true end.

(* what must hold in a state in which the runner has returned r *)
Definition x_safe (c : xcfg) (s : xstate) : bool :=
  match x_pc s with
  | CDone r =>
      match x_act s with
      | None =>       (* the action was never started: only because the parent context had already ended *)
          negb (is_live (x_parent s)) && res_eqb r (kind_of gen_facts (x_parent s)) && negb (x_chan s)
          && negb (res_eqb r ROther)
      | Some a =>     (* otherwise the action has returned and its result has been received *)
          apc_eqb a ASent && negb (x_chan s)
          (* the result: the action's own, or the kind of the ended timeout context, with a cause *)
          && (res_eqb r (res_of (a_out (x_a c)))
              || res_eqb r RTimeout && pst_eqb (base (x_tctx s)) PDead && (x_fired s || pst_eqb (base (x_parent s)) PDead)
              || res_eqb r RCancelled && pst_eqb (base (x_tctx s)) PCanc
                 && (pst_eqb (base (x_parent s)) PCanc || negb (epc_eqb (x_ext s) EIdle)))
          (* whatever cause the parent's canceller supplied, the error is of the timeout / cancelled KIND *)
          && negb (res_eqb r ROther)
          (* the action's context: cancelled on every exit path of ...AndContext; for ...AndCancelStore on every
             path except "the action returned nil by itself" *)
          && (if x_store c then x_cret s || outcome_eqb (a_out (x_a c)) ONil && negb (x_saw s) && negb (res_eqb r RErr)
              else x_cret s)
          && (if res_eqb r RErr then x_cret s else true)
          (* scenario classes *)
          && match a_own (x_a c) with
             | Never => x_saw s && negb (res_eqb r (res_of (a_out (x_a c))))
             | Late => negb (res_eqb r (res_of (a_out (x_a c))))
             | Early => match x_ev c with None => res_eqb r (res_of (a_out (x_a c))) | _ => true end
             | Near => true
             end
      end
  | _ => true
  end.

Definition x_okR (f : facts) (c : xcfg) (R : list xstate) : bool :=
  closed (x_step f c) xstate_eqb xlabels R && mem xstate_eqb (x_init c) R && forallb (x_safe c) R
  && (if x_wf c then progress_ok (x_step f c) xlabels x_is_done (x_G c) R else true)
  && variant_ok (x_step f c) xlabels (x_rank f) R.

(* THE proof obligation that depends on the generated facts (branch statements, registrations, deferred calls, entry check,
   channel capacity): recomputed for all 768 scenario classes whenever Gen.v changes *)
Lemma x_ok_all : forall c, x_okR gen_facts c (x_R gen_facts c) = true.
Proof. intros [[] [[] [] []] [] [[]|] []]; vm_compute; reflexivity. Qed.

Lemma x_okR_parts f c R : x_okR f c R = true ->
  closed (x_step f c) xstate_eqb xlabels R = true /\ mem xstate_eqb (x_init c) R = true
  /\ forallb (x_safe c) R = true
  /\ (x_wf c = true -> progress_ok (x_step f c) xlabels x_is_done (x_G c) R = true)
  /\ variant_ok (x_step f c) xlabels (x_rank f) R = true.
Proof. unfold x_okR. apply and5_parts. Qed.

Definition x_ok_parts c := x_okR_parts gen_facts c (x_R gen_facts c) (x_ok_all c).

Lemma x_safe_run c sched : x_safe c (run (x_step gen_facts c) (x_init c) sched) = true.
Proof.
  destruct (x_ok_parts c) as (Hc & H0 & Hs & _).
  exact (safe_run (x_step gen_facts c) xstate_eqb xstate_eqb_ok xlabels xlabels_all _ (x_safe c) (x_init c) Hc H0 Hs sched).
Qed.

Ltac bool_hyps :=
  repeat match goal with
         | H : _ && _ = true |- _ => apply andb_true_iff in H; destruct H
         | H : negb _ = true |- _ => apply negb_true_iff in H
         end.

(* the runner never returns while the action is still running; it runs no action only if the parent had ended *)
Lemma x_waits_l : forall c sched r,
  let s := run (x_step gen_facts c) (x_init c) sched in
  x_pc s = CDone r ->
  (x_act s = Some ASent /\ x_chan s = false) \/
  (x_act s = None /\ x_parent s <> PLive /\ r = kind_of gen_facts (x_parent s) /\ r <> ROther).
Proof.
  intros c sched r s Hpc. pose proof (x_safe_run c sched) as H. fold s in H.
  unfold x_safe in H. rewrite Hpc in H. destruct (x_act s) as [a|].
  - left. bool_hyps. repeat match goal with H : apc_eqb _ _ = true |- _ => apply apc_eqb_ok in H end. subst. auto.
  - right. bool_hyps. split; [reflexivity|]. split; [|split].
    + intros E. rewrite E in *. discriminate.
    + now apply res_eqb_ok.
    + intros E. subst r. discriminate.
Qed.

(* the value returned *)
Lemma x_result_l : forall c sched r,
  let s := run (x_step gen_facts c) (x_init c) sched in
  x_pc s = CDone r -> x_act s <> None ->
  r = res_of (a_out (x_a c)) \/
  (r = RTimeout /\ base (x_tctx s) = PDead /\ (x_fired s = true \/ base (x_parent s) = PDead)) \/
  (r = RCancelled /\ base (x_tctx s) = PCanc /\ (base (x_parent s) = PCanc \/ x_ext s <> EIdle)).
Proof.
  intros c sched r s Hpc Hst. pose proof (x_safe_run c sched) as H. fold s in H.
  unfold x_safe in H. rewrite Hpc in H. destruct (x_act s) as [a|]; [|congruence].
  apply andb_true_iff in H. destruct H as [H _]. apply andb_true_iff in H. destruct H as [H _].
  apply andb_true_iff in H. destruct H as [H _]. apply andb_true_iff in H. destruct H as [H _].
  apply andb_true_iff in H. destruct H as [_ H].
  apply orb_true_iff in H. destruct H as [H|H]; [apply orb_true_iff in H; destruct H as [H|H]|].
  - left. now apply res_eqb_ok.
  - right; left. bool_hyps. apply res_eqb_ok in H. apply pst_eqb_ok in H1. repeat split; auto.
    apply orb_true_iff in H0. destruct H0 as [F|P]; [now left|right; now apply pst_eqb_ok].
  - right; right. bool_hyps. apply res_eqb_ok in H. apply pst_eqb_ok in H1. repeat split; auto.
    apply orb_true_iff in H0. destruct H0 as [P|E]; [left; now apply pst_eqb_ok|].
    right. apply negb_true_iff in E. intros X. rewrite X in E. discriminate.
Qed.

(* whatever the parent's canceller supplied as a cause, the runner never returns an error outside the kinds *)
Lemma x_kind_l : forall c sched r,
  let s := run (x_step gen_facts c) (x_init c) sched in
  x_pc s = CDone r -> r <> ROther.
Proof.
  intros c sched r s Hpc. pose proof (x_safe_run c sched) as H. fold s in H.
  unfold x_safe in H. rewrite Hpc in H. intros E. subst r. destruct (x_act s).
  - apply andb_true_iff in H. destruct H as [H _]. apply andb_true_iff in H. destruct H as [H _].
    apply andb_true_iff in H. destruct H as [H _]. apply andb_true_iff in H. destruct H as [_ H]. discriminate.
  - apply andb_true_iff in H. destruct H as [_ H]. discriminate.
Qed.

(* the action's context is cancelled when the runner returns *)
Lemma x_signals_l : forall c sched r,
  let s := run (x_step gen_facts c) (x_init c) sched in
  x_pc s = CDone r -> x_act s <> None ->
  (x_store c = false -> x_cret s = true) /\
  (r = RErr -> x_cret s = true) /\
  (x_store c = true -> x_cret s = true \/ (a_out (x_a c) = ONil /\ x_saw s = false /\ r <> RErr)).
Proof.
  intros c sched r s Hpc Hst. pose proof (x_safe_run c sched) as H. fold s in H.
  unfold x_safe in H. rewrite Hpc in H. destruct (x_act s) as [a|]; [|congruence].
  apply andb_true_iff in H. destruct H as [H _]. apply andb_true_iff in H. destruct H as [H H2].
  apply andb_true_iff in H. destruct H as [_ H1].
  split; [|split].
  - intros E. rewrite E in H1. exact H1.
  - intros E. subst r. exact H2.
  - intros E. rewrite E in H1. apply orb_true_iff in H1. destruct H1 as [H1|H1]; [now left|right].
    bool_hyps. destruct (a_out (x_a c)); [|discriminate]. repeat split; auto.
    intros X; subst r; discriminate.
Qed.

(* scenario classes: an action that only returns when signalled HAS seen its signal, and the runner reports the end of
   the timeout context; an action that completes by itself early, with no event, gets its own result back *)
Lemma x_classes_l : forall c sched r,
  let s := run (x_step gen_facts c) (x_init c) sched in
  x_pc s = CDone r -> x_act s <> None ->
  (a_own (x_a c) = Never -> x_saw s = true /\ r <> res_of (a_out (x_a c))) /\
  (a_own (x_a c) = Late -> r <> res_of (a_out (x_a c))) /\
  (a_own (x_a c) = Early -> x_ev c = None -> r = res_of (a_out (x_a c))).
Proof.
  intros c sched r s Hpc Hst. pose proof (x_safe_run c sched) as H. fold s in H.
  unfold x_safe in H. rewrite Hpc in H. destruct (x_act s) as [a|]; [|congruence].
  apply andb_true_iff in H. destruct H as [_ H].
  split; [|split]; intros E; rewrite E in H.
  - bool_hyps. split; [assumption|]. intros X; subst r. destruct (a_out (x_a c)); discriminate.
  - bool_hyps. intros X; subst r. destruct (a_out (x_a c)); discriminate.
  - intros E2. rewrite E2 in H. now apply res_eqb_ok.
Qed.

Lemma x_no_deadlock_l : forall c, x_wf c = true -> forall sched,
  let s := run (x_step gen_facts c) (x_init c) sched in
  x_is_done s = false -> exists t, x_G c s t = true /\ x_step gen_facts c s t <> None.
Proof.
  intros c W sched s Hd. destruct (x_ok_parts c) as (Hc & H0 & _ & Hp & _).
  exact (mc_no_deadlock (x_step gen_facts c) xstate_eqb xstate_eqb_ok xlabels xlabels_all x_is_done (x_G c) _ (x_init c) Hc H0 (Hp W) sched Hd).
Qed.

Lemma x_terminates_l : forall c, x_wf c = true -> forall sigma,
  weakly_fair (x_step gen_facts c) (x_G c) (x_init c) sigma ->
  exists k, x_is_done (state_at (x_step gen_facts c) (x_init c) sigma k) = true.
Proof.
  intros c W sigma Hf. destruct (x_ok_parts c) as (Hc & H0 & _ & Hp & Hv).
  exact (mc_fair_terminates (x_step gen_facts c) xstate_eqb xstate_eqb_ok xlabels xlabels_all x_is_done (x_G c) (x_rank gen_facts) _ (x_init c)
           Hc H0 (Hp W) Hv sigma Hf).
Qed.

Lemma x_steps_bounded_l : forall c sched, effective (x_step gen_facts c) (x_init c) sched <= x_rank gen_facts (x_init c).
Proof.
  intros c sched. destruct (x_ok_parts c) as (Hc & H0 & _ & _ & Hv).
  exact (mc_steps_bounded (x_step gen_facts c) xstate_eqb xstate_eqb_ok xlabels xlabels_all (x_rank gen_facts) _ (x_init c) Hc H0 Hv sched).
Qed.

Lemma x_allowed_complete c sched :
  (forall t, x_step gen_facts c (run (x_step gen_facts c) (x_init c) sched) t = None) ->
  In (x_observe (run (x_step gen_facts c) (x_init c) sched)) (x_allowed gen_facts c).
Proof.
  intros Hq. destruct (x_ok_parts c) as (Hc & H0 & _).
  unfold x_allowed. apply in_map. apply filter_In. split; [|now apply quiescentb_spec].
  apply (closed_run (x_step gen_facts c) xstate_eqb xstate_eqb_ok xlabels xlabels_all _ Hc sched (x_init c)).
  now apply (mem_In xstate_eqb xstate_eqb_ok).
Qed.
