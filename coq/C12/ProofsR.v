(* C12 — proofs about the timeout / cancellation runner models (GU.C12.Model, t_* and x_* machines).
   Method (GU.C12.MC): for every scenario class (finitely many) the reachable set is computed and checked closed under
   [step]; membership is then an inductive invariant, so every checked state property holds after EVERY schedule, and
   progress + variant give termination of every weakly fair infinite schedule. *)
From Coq Require Import List ZArith Bool Arith Lia.
Import ListNotations.
From GU Require Import C12.Conc C12.MC C12.Facts C12.Gen C12.Model.

(* ---------- decidable equalities are sound ---------- *)
Lemma res_eqb_ok a b : res_eqb a b = true -> a = b.
Proof. destruct a, b; simpl; congruence. Qed.
Lemma apc_eqb_ok a b : apc_eqb a b = true -> a = b.
Proof. destruct a, b; simpl; congruence. Qed.
Lemma pst_eqb_ok a b : pst_eqb a b = true -> a = b.
Proof. destruct a, b; simpl; congruence. Qed.
Lemma own_eqb_ok a b : own_eqb a b = true -> a = b.
Proof. destruct a, b; simpl; congruence. Qed.
Lemma ekind_eqb_ok a b : ekind_eqb a b = true -> a = b.
Proof. destruct a, b; simpl; congruence. Qed.
Lemma ract_eqb_ok a b : ract_eqb a b = true -> a = b.
Proof. destruct a, b; simpl; try congruence. intros H; apply ekind_eqb_ok in H; congruence. Qed.
Lemma xact_eqb_ok a b : xact_eqb a b = true -> a = b.
Proof. destruct a, b; simpl; congruence. Qed.
Lemma list_eqb_ok {A} (e : A -> A -> bool) (He : forall x y, e x y = true -> x = y) a b : list_eqb e a b = true -> a = b.
Proof.
  revert b; induction a as [|x a IH]; intros [|y b]; simpl; try congruence.
  destruct (e x y) eqn:E; [|discriminate]. intros H. apply He in E. apply IH in H. congruence.
Qed.
Lemma tpc_eqb_ok a b : tpc_eqb a b = true -> a = b.
Proof.
  destruct a, b; simpl; try congruence; intros H.
  - apply (list_eqb_ok ract_eqb ract_eqb_ok) in H. congruence.
  - apply res_eqb_ok in H. congruence.
Qed.

Lemma cpc_eqb_ok a b : cpc_eqb a b = true -> a = b.
Proof.
  destruct a, b; simpl; try congruence; intros H; try (apply res_eqb_ok in H; congruence).
  apply (list_eqb_ok xact_eqb xact_eqb_ok) in H. congruence.
Qed.
Lemma oapc_eqb_ok a b : oapc_eqb a b = true -> a = b.
Proof. destruct a, b; simpl; try congruence. intros H; apply apc_eqb_ok in H; congruence. Qed.
Lemma epc_eqb_ok a b : epc_eqb a b = true -> a = b.
Proof.
  destruct a, b; simpl; try congruence. intros H. apply andb_true_iff in H. destruct H as [H1 H2].
  apply Bool.eqb_prop in H1, H2. congruence.
Qed.

Ltac split_ifs :=
  repeat match goal with
         | H : (if ?X then _ else false) = true |- _ => let E := fresh "E" in destruct X eqn:E; [|discriminate H]
         end.

Lemma tstate_eqb_ok a b : tstate_eqb a b = true -> a = b.
Proof.
  destruct a, b. unfold tstate_eqb; simpl. intros H. split_ifs.
  apply tpc_eqb_ok in E. apply apc_eqb_ok in E0. apply Bool.eqb_prop in E1, E2, E3, E4, E5, E6. apply res_eqb_ok in H.
  subst. reflexivity.
Qed.

Lemma xstate_eqb_ok a b : xstate_eqb a b = true -> a = b.
Proof.
  destruct a, b. unfold xstate_eqb; simpl. intros H. split_ifs.
  apply cpc_eqb_ok in E. apply oapc_eqb_ok in E0. apply epc_eqb_ok in E1.
  apply pst_eqb_ok in E5, E7. apply Bool.eqb_prop in E2, E3, E4, E6, E8, E9, E10, H. subst. reflexivity.
Qed.

Lemma tlabels_all : forall t, In t tlabels.
Proof. destruct t; simpl; tauto. Qed.
Lemma xlabels_all : forall t, In t xlabels.
Proof. destruct t; simpl; tauto. Qed.

(* ===================================================================================================== *)
(** * RunActionWithTimeout, instantiated with the GENERATED facts *)

(* what must hold in a state in which the runner has returned r *)
Definition t_safe (c : acfg) (s : tstate) : bool :=
  match t_pc s with
  | TDone r =>
      apc_eqb (t_a s) ASent && negb (t_chan s)
      && (res_eqb r (res_of (a_out c)) && negb (t_sent s) || res_eqb r RTimeout && t_fired s && t_sent s)
      && match a_own c with
         | Early => res_eqb r (res_of (a_out c))
         | Near => true
         | Late => res_eqb r RTimeout
         | Never => res_eqb r RTimeout && t_saw s
         end
  | _ => true
  end.

Definition t_okR (f : facts) (c : acfg) (R : list tstate) : bool :=
  closed (t_step f c) tstate_eqb tlabels R && mem tstate_eqb t_init R && forallb (t_safe c) R
  && (if a_wf c then progress_ok (t_step f c) tlabels t_is_done (t_G c) R else true)
  && variant_ok (t_step f c) tlabels (t_rank f) R.

(* THE proof obligation that depends on the generated facts: recomputed (reachable set, closure, safety, progress,
   variant) whenever Gen.v changes; it fails e.g. for a stop channel of capacity 0 or a missing `<-channel` *)
Lemma t_ok_all : forall c, t_okR gen_facts c (t_R gen_facts c) = true.
Proof. intros [[] [] []]; vm_compute; reflexivity. Qed.

Lemma and5_parts (a b c d e w : bool) :
  a && b && c && (if w then d else true) && e = true -> a = true /\ b = true /\ c = true /\ (w = true -> d = true) /\ e = true.
Proof. destruct a, b, c, e, w, d; simpl; intros H; try discriminate H; repeat split; auto; discriminate. Qed.

Lemma t_okR_parts f c R : t_okR f c R = true ->
  closed (t_step f c) tstate_eqb tlabels R = true /\ mem tstate_eqb t_init R = true
  /\ forallb (t_safe c) R = true
  /\ (a_wf c = true -> progress_ok (t_step f c) tlabels t_is_done (t_G c) R = true)
  /\ variant_ok (t_step f c) tlabels (t_rank f) R = true.
Proof. unfold t_okR. apply and5_parts. Qed.

Definition t_ok_parts c := t_okR_parts gen_facts c (t_R gen_facts c) (t_ok_all c).

Lemma t_safe_run c sched : t_safe c (run (t_step gen_facts c) t_init sched) = true.
Proof.
  destruct (t_ok_parts c) as (Hc & H0 & Hs & _).
  exact (safe_run (t_step gen_facts c) tstate_eqb tstate_eqb_ok tlabels tlabels_all _ (t_safe c) t_init Hc H0 Hs sched).
Qed.

Ltac bool_hyps :=
  repeat match goal with
         | H : _ && _ = true |- _ => apply andb_true_iff in H; destruct H
         | H : negb _ = true |- _ => apply negb_true_iff in H
         end.

(* the readable form of [t_safe] *)
Lemma t_result_l : forall c sched r,
  let s := run (t_step gen_facts c) t_init sched in
  t_pc s = TDone r ->
  t_a s = ASent /\
  (r = res_of (a_out c) /\ t_sent s = false \/ r = RTimeout /\ t_fired s = true /\ t_sent s = true) /\
  (a_own c = Early -> r = res_of (a_out c)) /\
  (a_own c = Late -> r = RTimeout) /\
  (a_own c = Never -> r = RTimeout /\ t_saw s = true).
Proof.
  intros c sched r s Hpc. pose proof (t_safe_run c sched) as H. fold s in H.
  unfold t_safe in H. rewrite Hpc in H.
  apply andb_true_iff in H. destruct H as [H Hcl]. apply andb_true_iff in H. destruct H as [H Hres].
  apply andb_true_iff in H. destruct H as [Ha _]. apply apc_eqb_ok in Ha.
  split; [exact Ha|]. split.
  - apply orb_true_iff in Hres. destruct Hres as [Q|Q]; bool_hyps.
    + left. split; [now apply res_eqb_ok|assumption].
    + right. repeat split; auto. now apply res_eqb_ok.
  - split; [|split]; intros E; rewrite E in Hcl; bool_hyps; try split; auto using res_eqb_ok.
Qed.

Lemma t_no_deadlock_l : forall c, a_wf c = true -> forall sched,
  let s := run (t_step gen_facts c) t_init sched in
  t_is_done s = false -> exists t, t_G c s t = true /\ t_step gen_facts c s t <> None.
Proof.
  intros c W sched s Hd. destruct (t_ok_parts c) as (Hc & H0 & _ & Hp & _).
  exact (mc_no_deadlock (t_step gen_facts c) tstate_eqb tstate_eqb_ok tlabels tlabels_all t_is_done (t_G c) _ t_init Hc H0 (Hp W) sched Hd).
Qed.

Lemma t_terminates_l : forall c, a_wf c = true -> forall sigma,
  weakly_fair (t_step gen_facts c) (t_G c) t_init sigma ->
  exists k, t_is_done (state_at (t_step gen_facts c) t_init sigma k) = true.
Proof.
  intros c W sigma Hf. destruct (t_ok_parts c) as (Hc & H0 & _ & Hp & Hv).
  exact (mc_fair_terminates (t_step gen_facts c) tstate_eqb tstate_eqb_ok tlabels tlabels_all t_is_done (t_G c) (t_rank gen_facts) _ t_init
           Hc H0 (Hp W) Hv sigma Hf).
Qed.

Lemma t_steps_bounded_l : forall c sched, effective (t_step gen_facts c) t_init sched <= t_rank gen_facts t_init.
Proof.
  intros c sched. destruct (t_ok_parts c) as (Hc & H0 & _ & _ & Hv).
  exact (mc_steps_bounded (t_step gen_facts c) tstate_eqb tstate_eqb_ok tlabels tlabels_all (t_rank gen_facts) _ t_init Hc H0 Hv sched).
Qed.

(* completeness of the allowed-observation sets used by the correspondence: the observation of EVERY schedule that
   ends in a quiescent state is listed *)
Lemma quiescentb_spec {state label} (step : state -> label -> option state) labels s :
  (forall t, step s t = None) -> quiescentb step labels s = true.
Proof.
  intros H. unfold quiescentb. apply forallb_forall. intros t _. unfold enabledb. now rewrite H.
Qed.

Lemma t_allowed_complete c sched :
  (forall t, t_step gen_facts c (run (t_step gen_facts c) t_init sched) t = None) ->
  In (t_observe (run (t_step gen_facts c) t_init sched)) (t_allowed gen_facts c).
Proof.
  intros Hq. destruct (t_ok_parts c) as (Hc & H0 & _).
  unfold t_allowed. apply in_map. apply filter_In. split; [|now apply quiescentb_spec].
  apply (closed_run (t_step gen_facts c) tstate_eqb tstate_eqb_ok tlabels tlabels_all _ Hc sched t_init).
  now apply (mem_In tstate_eqb tstate_eqb_ok).
Qed.

(* The same code with an UNBUFFERED stop channel (as it was before the fix of D5): a schedule after which nothing can
   move and the runner has not returned.  The action is far after the deadline and never reads the stop channel. *)
Lemma t_unbuffered_deadlock_l :
  let f := set_stop_cap 0 gen_facts in
  exists c sched, a_wf c = true /\
    (forall t, t_step f c (run (t_step f c) t_init sched) t = None) /\
    t_is_done (run (t_step f c) t_init sched) = false.
Proof.
  exists (mkA ONil false Late), [LTimer; LTimeout; LRet; LSend]. split; [reflexivity|]. split; [|reflexivity].
  intros t; destruct t; reflexivity.
Qed.
