(* C12 — the FACTS about utils/parallelisation/{parallelisation.go,cancel_functions.go} that the models are parameterised
   by.  The record [gen_facts : facts] of GU.C12.Gen is written on every run by translator-c12/cmd/facts2coq (go/ast)
   from the repository's current working tree; the theorems of Props.v are stated for the models instantiated with it. *)
From Coq Require Import List.
Import ListNotations.

Inductive ekind := KTimeout | KCancelled.            (* commonerrors.ErrTimeout / ErrCancelled *)

(* statements of the two select branches of RunActionWithTimeout *)
Inductive ract :=
  | RSetCompleted            (* completed.Store(true) *)
  | RSendStop                (* stop <- true *)
  | RSetErr (k : ekind).     (* err = commonerrors.ErrXxx *)

(* statements of the select branches of RunActionWithTimeoutAndCancelStore *)
Inductive xact :=
  | XACancelAction           (* actionCancel() *)
  | XACancelTimeout          (* timeoutCancel() *)
  | XAWaitActionDone         (* <-cancelCtx.Done() *)
  | XARecvChan               (* <-channel *)
  | XARetTimeoutErrIfAny     (* err2 := DetermineContextError(timeoutContext); if err2 != nil { return err2 } *)
  | XARetErr                 (* return err   (the action's result) *)
  | XARetTimeoutErr.         (* return DetermineContextError(timeoutContext) *)

Inductive lockmode := LLock | LRLock | LNone.
(* what DetermineContextError converts: ctx.Err() (the reason in the sense of the context package: Canceled or
   DeadlineExceeded), or context.Cause(ctx) (whatever the canceller supplied) *)
Inductive errsrc := SrcErr | SrcCause.
Inductive capk := CapConst (n : nat) | CapLen.       (* make(chan T) / make(chan T, n) / make(chan T, <number of arguments>) *)

Record facts := mkFacts {
  (* RunActionWithTimeout *)
  f_rat_chan_cap : nat;              (* capacity of `channel` *)
  f_rat_stop_cap : nat;              (* capacity of `stop` *)
  f_rat_chan_branch : list ract;     (* select case err = <-channel *)
  f_rat_timer_branch : list ract;    (* select case <-time.After(timeout) *)
  f_rat_waits : bool;                (* if !completed.Load() { <-channel } before the return *)
  (* RunActionWithTimeoutAndCancelStore *)
  f_x_initial_check : bool;          (* err := DetermineContextError(ctx); if err != nil { return err } *)
  f_x_reg_t : bool;                  (* store.RegisterCancelFunction(timeoutCancel) *)
  f_x_reg_a : bool;                  (* store.RegisterCancelFunction(actionCancel) *)
  f_x_defer_tcancel : bool;          (* defer timeoutCancel() *)
  f_x_chan_cap : nat;
  f_x_err_branch : list xact;        (* case err = <-channel: inside `if err != nil { ... }` *)
  f_x_chan_tail : list xact;         (* ... and after it *)
  f_x_timeout_branch : list xact;    (* case <-timeoutContext.Done() *)
  f_ctx_err_src : errsrc;            (* DetermineContextError: commonerrors.ConvertContextError(ctx.Err()) *)
  (* RunActionWithTimeoutAndContext *)
  f_ctx_defer_store_cancel : bool;   (* defer store.Cancel() on a private store *)
  (* Parallelise *)
  f_par_cap : capk;                  (* capacity of the result channel *)
  (* CancelFunctionStore *)
  f_reg_lock : lockmode;             (* RegisterCancelFunction: lock held around the update of the slice *)
  f_reg_copies : bool;               (* s.cancelFunctions = append(s.cancelFunctions, cancel...) : the arguments are copied *)
  f_cancel_lock : lockmode;          (* Cancel: lock held around the range over the slice *)
  f_len_lock : lockmode              (* Len *)
}.

Definition set_stop_cap (n : nat) (f : facts) : facts :=
  mkFacts (f_rat_chan_cap f) n (f_rat_chan_branch f) (f_rat_timer_branch f) (f_rat_waits f)
          (f_x_initial_check f) (f_x_reg_t f) (f_x_reg_a f) (f_x_defer_tcancel f) (f_x_chan_cap f)
          (f_x_err_branch f) (f_x_chan_tail f) (f_x_timeout_branch f) (f_ctx_err_src f) (f_ctx_defer_store_cancel f)
          (f_par_cap f) (f_reg_lock f) (f_reg_copies f) (f_cancel_lock f) (f_len_lock f).

Definition par_cap (f : facts) (n : nat) : nat := match f_par_cap f with CapLen => n | CapConst k => k end.
