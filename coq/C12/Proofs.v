(* C12 — lemmas, collected: ProofsR (RunActionWithTimeout), ProofsX (context-based runners), ProofsP (Parallelise),
   ProofsS (CancelFunctionStore: safety), ProofsL (its lock discipline cannot deadlock). *)
From GU Require Export C12.Conc C12.MC C12.Model C12.ProofsR C12.ProofsX C12.ProofsP C12.ProofsS C12.ProofsL.
