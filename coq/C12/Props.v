(* C12 — Timeout / cancellation runners always return and always signal the action.
   Property theorems only; each is closed by a lemma of Proofs*.v and followed by Print Assumptions.
   EVERY theorem is about the models instantiated with [gen_facts] (GU.C12.Gen), the record of facts that
   translator-c12/cmd/facts2coq extracts from parallelisation.go / cancel_functions.go on every run (channel capacities, the
   statements of each select branch, registrations, deferred calls, lock modes, whether Register copies): when the source
   changes these facts, the reachable sets are recomputed and the obligations re-checked for the new instance.
   Models: GU.C12.Model (t_*: RunActionWithTimeout after the fix; x_*: ...AndContext / ...AndCancelStore; p_*: Parallelise;
   s_*: CancelFunctionStore), interleaving semantics GU.C12.Conc: a schedule is ANY list of labels (goroutine steps, timer,
   parent context, the action's own decisions), so "for all sched" covers every completion instant of the action
   relative to the deadline and every resolution of every select. *)
From Coq Require Import List ZArith Bool Arith Permutation.
Import ListNotations.
From GU Require Import C12.Facts C12.Gen C12.Proofs.

(** ** RunActionWithTimeout (stop channel of capacity 1) *)

(* Whatever the schedule and the scenario class c (action outcome, watches the stop channel or not, completes by
   itself early / near / late / never): when the runner has returned r, the action HAS finished; r is the action's own
   result (and then no signal was posted), or `timeout` — only after the timer fired and the stop signal was posted;
   an action that completes before the timer can fire gets its own result; one that only returns when told has
   seen the signal. *)
Theorem runner_result : forall c sched r,
  let s := run (t_step gen_facts c) t_init sched in
  t_pc s = TDone r ->
  t_a s = ASent /\
  (r = res_of (a_out c) /\ t_sent s = false \/ r = RTimeout /\ t_fired s = true /\ t_sent s = true) /\
  (a_own c = Early -> r = res_of (a_out c)) /\
  (a_own c = Late -> r = RTimeout) /\
  (a_own c = Never -> r = RTimeout /\ t_saw s = true).
Proof. exact t_result_l. Qed.
Print Assumptions runner_result.

(* No reachable state has the runner blocked: as long as it has not returned, an action that is GUARANTEED to happen
   is enabled (runner, timer, result hand-over always; the action's return only once it has been signalled). *)
Theorem runner_no_deadlock : forall c, a_wf c = true -> forall sched,
  let s := run (t_step gen_facts c) t_init sched in
  t_is_done s = false -> exists t, t_G c s t = true /\ t_step gen_facts c s t <> None.
Proof. exact t_no_deadlock_l. Qed.
Print Assumptions runner_no_deadlock.

(* Hence, under weak fairness only ("a continuously enabled guaranteed action eventually happens"), on every infinite
   schedule the runner returns; and no schedule makes more than [t_rank gen_facts t_init] (= 9) effective steps. *)
Theorem runner_terminates : forall c, a_wf c = true -> forall sigma,
  weakly_fair (t_step gen_facts c) (t_G c) t_init sigma ->
  exists k, t_is_done (state_at (t_step gen_facts c) t_init sigma k) = true.
Proof. exact t_terminates_l. Qed.
Print Assumptions runner_terminates.

Theorem runner_steps_bounded : forall c sched, effective (t_step gen_facts c) t_init sched <= t_rank gen_facts t_init.
Proof. exact t_steps_bounded_l. Qed.
Print Assumptions runner_steps_bounded.

(* The code as it was (unbuffered stop channel, defect D5): a well-formed action and a schedule after which nothing can
   move while the runner has not returned.  Kept to document why the fix is needed; the harness replays it on the
   implementation on every run (it must pass now). *)
Theorem runner_deadlocks_with_unbuffered_stop :
  let f := set_stop_cap 0 gen_facts in
  exists c sched, a_wf c = true /\
    (forall t, t_step f c (run (t_step f c) t_init sched) t = None) /\
    t_is_done (run (t_step f c) t_init sched) = false.
Proof. exact t_unbuffered_deadlock_l. Qed.
Print Assumptions runner_deadlocks_with_unbuffered_stop.

(** ** RunActionWithTimeoutAndCancelStore / RunActionWithTimeoutAndContext *)

(* The runner never returns while the action is running; it starts no action only when the parent context had ended,
   and then reports the parent's kind. *)
Theorem ctx_runner_waits_for_action : forall c sched r,
  let s := run (x_step gen_facts c) (x_init c) sched in
  x_pc s = CDone r ->
  (x_act s = Some ASent /\ x_chan s = false) \/
  (x_act s = None /\ x_parent s <> PLive /\ r = kind_of gen_facts (x_parent s) /\ r <> ROther).
Proof. exact x_waits_l. Qed.
Print Assumptions ctx_runner_waits_for_action.

(* The value returned: the action's own result, or `timeout` with the timeout context ended by its deadline (timer
   fired or parent deadline), or `cancelled` with the timeout context cancelled by the parent or by another caller of
   the store's Cancel. *)
Theorem ctx_runner_result : forall c sched r,
  let s := run (x_step gen_facts c) (x_init c) sched in
  x_pc s = CDone r -> x_act s <> None ->
  r = res_of (a_out (x_a c)) \/
  (r = RTimeout /\ base (x_tctx s) = PDead /\ (x_fired s = true \/ base (x_parent s) = PDead)) \/
  (r = RCancelled /\ base (x_tctx s) = PCanc /\ (base (x_parent s) = PCanc \/ x_ext s <> EIdle)).
Proof. exact x_result_l. Qed.
Print Assumptions ctx_runner_result.

(* ... whatever CAUSE the parent context was ended with (scenario classes PCancC / PDeadC / EvPCancelC / EvPDeadlineC): the
   runner never returns an error outside the action's own / timeout / cancelled kinds.  Depends on the generated fact
   f_ctx_err_src = SrcErr (DetermineContextError converts ctx.Err(), not context.Cause(ctx)). *)
Theorem ctx_runner_kind_whatever_the_cause : forall c sched r,
  let s := run (x_step gen_facts c) (x_init c) sched in
  x_pc s = CDone r -> r <> ROther.
Proof. exact x_kind_l. Qed.
Print Assumptions ctx_runner_kind_whatever_the_cause.

(* The action's context is cancelled on EVERY exit path of ...AndContext; for ...AndCancelStore on every path on which
   the action failed or was signalled — the only path that leaves it live is "the action returned nil by itself"
   (by design: the file lock's heartbeat keeps running under that context). *)
Theorem ctx_runner_signals_action : forall c sched r,
  let s := run (x_step gen_facts c) (x_init c) sched in
  x_pc s = CDone r -> x_act s <> None ->
  (x_store c = false -> x_cret s = true) /\
  (r = RErr -> x_cret s = true) /\
  (x_store c = true -> x_cret s = true \/ (a_out (x_a c) = ONil /\ x_saw s = false /\ r <> RErr)).
Proof. exact x_signals_l. Qed.
Print Assumptions ctx_runner_signals_action.

Theorem ctx_runner_classes : forall c sched r,
  let s := run (x_step gen_facts c) (x_init c) sched in
  x_pc s = CDone r -> x_act s <> None ->
  (a_own (x_a c) = Never -> x_saw s = true /\ r <> res_of (a_out (x_a c))) /\
  (a_own (x_a c) = Late -> r <> res_of (a_out (x_a c))) /\
  (a_own (x_a c) = Early -> x_ev c = None -> r = res_of (a_out (x_a c))).
Proof. exact x_classes_l. Qed.
Print Assumptions ctx_runner_classes.

Theorem ctx_runner_no_deadlock : forall c, x_wf c = true -> forall sched,
  let s := run (x_step gen_facts c) (x_init c) sched in
  x_is_done s = false -> exists t, x_G c s t = true /\ x_step gen_facts c s t <> None.
Proof. exact x_no_deadlock_l. Qed.
Print Assumptions ctx_runner_no_deadlock.

Theorem ctx_runner_terminates : forall c, x_wf c = true -> forall sigma,
  weakly_fair (x_step gen_facts c) (x_G c) (x_init c) sigma ->
  exists k, x_is_done (state_at (x_step gen_facts c) (x_init c) sigma k) = true.
Proof. exact x_terminates_l. Qed.
Print Assumptions ctx_runner_terminates.

(* The sets of allowed observations used by the correspondence check are complete: the observation of every schedule
   that runs to quiescence is listed (so an implementation observation outside the set contradicts the model). *)
Theorem allowed_observations_complete :
  (forall c sched, (forall t, t_step gen_facts c (run (t_step gen_facts c) t_init sched) t = None) ->
                   In (t_observe (run (t_step gen_facts c) t_init sched)) (t_allowed gen_facts c)) /\
  (forall c sched, (forall t, x_step gen_facts c (run (x_step gen_facts c) (x_init c) sched) t = None) ->
                   In (x_observe (run (x_step gen_facts c) (x_init c) sched)) (x_allowed gen_facts c)).
Proof. split; [exact t_allowed_complete | exact x_allowed_complete]. Qed.
Print Assumptions allowed_observations_complete.

(** ** Parallelise *)

(* For EVERY number of arguments, every vector of invocation results [outs], with or without a result type, and every
   schedule: (1) at any instant no action has been invoked twice and a goroutine holding its result can always send
   it (the buffer of capacity n is never full: nobody is ever blocked, also after an early error return);
   (2) whenever Parallelise has returned, it returned all results as a multiset, or an error that some invocation
   returned — and an error whenever some invocation failed; (3) when nothing can move any more, every action has been
   invoked exactly once, every goroutine has ended and Parallelise has returned. *)
Theorem parallelise_once_each : forall keep outs sched,
  let s := run (p_step (par_cap gen_facts (length outs)) keep outs) (p_init outs) sched in
  (length (p_w s) = length outs /\ Forall (fun st => calls_of st <= 1) (p_w s) /\
   forall i, nth_error (p_w s) i = Some WCalled -> p_step (par_cap gen_facts (length outs)) keep outs s (PSend i) <> None) /\
  (forall r, p_main s = MDone r -> par_allowed keep outs r) /\
  ((forall l, p_step (par_cap gen_facts (length outs)) keep outs s l = None) ->
     Forall (fun st => st = WSent /\ calls_of st = 1) (p_w s) /\ exists r, p_main s = MDone r /\ par_allowed keep outs r).
Proof. exact parallelise_once_each_l. Qed.
Print Assumptions parallelise_once_each.

(* ... and that point is reached: no schedule makes more than 3n+1 effective steps. *)
Theorem parallelise_terminates : forall keep outs sched,
  effective (p_step (par_cap gen_facts (length outs)) keep outs) (p_init outs) sched <= 3 * length outs + 1.
Proof. exact parallelise_terminates_l. Qed.
Print Assumptions parallelise_terminates.

(** ** CancelFunctionStore *)

(* For any number of goroutines running any programs of Register / Cancel / Len calls and every schedule: every
   completed Cancel has invoked every function whose Register had returned when that Cancel was called; a
   registration that has returned is never lost (the append is modelled as read-then-write: this needs the lock). *)
Theorem cancel_store_complete : forall progs sched,
  let s := run (s_step gen_facts) (s_init progs) sched in
  (forall must called, In (must, called) (s_cancels s) -> incl must called) /\
  incl (s_regdone s) (s_fns s) /\
  (forall j th todo, nth_error (s_threads s) j = Some th -> th_pc th = SCanLoop todo ->
     incl (th_must th) (th_called th ++ todo)).
Proof. exact cancel_store_complete_l. Qed.
Print Assumptions cancel_store_complete.

(* The lock discipline cannot deadlock: unless every goroutine has finished its program, some goroutine can step. *)
Theorem cancel_store_no_deadlock : forall progs sched,
  let s := run (s_step gen_facts) (s_init progs) sched in
  (exists j th, nth_error (s_threads s) j = Some th /\ th_finished th = false) ->
  exists i, s_step gen_facts s i <> None.
Proof. exact store_no_deadlock_l. Qed.
Print Assumptions cancel_store_no_deadlock.

(* The executable check of the Parallelise correspondence accepts every result the property allows. *)
Theorem parallelise_check_complete : forall keep outs r, par_allowed keep outs r -> par_allowedb keep outs r = true.
Proof. exact par_allowedb_complete. Qed.
Print Assumptions parallelise_check_complete.

(** ** Non-vacuity *)
Example runner_returns_own_result :
  t_pc (run (t_step gen_facts (mkA OErr true Near)) t_init [LRet; LSend; LRecv; LRun; LRun]) = TDone RErr.
Proof. reflexivity. Qed.
Example runner_times_out_action_ignoring_the_signal :
  t_observe (run (t_step gen_facts (mkA ONil false Late)) t_init [LTimer; LTimeout; LRun; LRun; LRun; LRet; LSend; LWait])
  = Some (mkTO RTimeout false true).
Proof. reflexivity. Qed.
Example runner_race_at_the_deadline :   (* completion and timer both ready: the select may take either *)
  t_pc (run (t_step gen_facts (mkA ONil true Near)) t_init [LTimer; LRet; LSend; LRecv; LRun; LRun]) = TDone RNil /\
  t_pc (run (t_step gen_facts (mkA ONil true Near)) t_init [LTimer; LRet; LSend; LTimeout; LRun; LRun; LRun; LWait]) = TDone RTimeout.
Proof. split; reflexivity. Qed.
Example ctx_runner_timeout_path :
  x_observe (run (x_step gen_facts (mkX true (mkA OErr true Never) PLive None false)) (x_init (mkX true (mkA OErr true Never) PLive None false))
                 [XRun; XRun; XRun; XRun; XTimer; XSelTimeout; XRun; XSee; XRun; XRun; XRet; XSend; XRun; XRun; XRun])
  = Some (mkXO RTimeout true true true true).
Proof. reflexivity. Qed.
Example ctx_store_runner_leaves_context_live_on_success :
  x_observe (run (x_step gen_facts (mkX true (mkA ONil true Near) PLive None false)) (x_init (mkX true (mkA ONil true Near) PLive None false))
                 [XRun; XRun; XRun; XRun; XRet; XSend; XSelChan; XRun; XRun; XRun; XRun])
  = Some (mkXO RNil true false true false).
Proof. reflexivity. Qed.
Example wf_classes_exist : a_wf (mkA ONil false Late) = true /\ x_wf (mkX true (mkA OErr true Never) PLive (Some EvExt) true) = true.
Proof. split; reflexivity. Qed.
Example parallelise_two_arguments_any_order :
  p_main (run (p_step 2 true [PItem 10; PItem 20]%Z) (p_init [PItem 10; PItem 20]%Z)
              [PCall 1; PCall 0; PSend 1; PRecv; PSend 0; PRecv; PFinish]) = MDone (PROk [20; 10]%Z).
Proof. reflexivity. Qed.
Example parallelise_early_error_leaves_senders_unblocked :
  let s := run (p_step 3 true [PFail 1; PItem 20; PItem 30]%Z) (p_init [PFail 1; PItem 20; PItem 30]%Z)
               [PCall 0; PSend 0; PRecv; PCall 1; PCall 2; PSend 2; PSend 1] in
  p_main s = MDone (PRErr 1%Z) /\ p_w s = [WSent; WSent; WSent] /\ forall l, p_step 3 true [PFail 1; PItem 20; PItem 30]%Z s l = None.
Proof. split; [reflexivity|]. split; [reflexivity|]. intros [[|[|[|i]]]|[|[|[|i]]]| |]; try reflexivity; destruct i; reflexivity. Qed.
Example store_cancel_concurrent_with_register :
  (* goroutine 0: Register 7, Register 8; goroutine 1: Cancel — called after Register 7 has returned, runs while 8 is being registered *)
  s_cancels (run (s_step gen_facts) (s_init [[SReg [7]; SReg [8]]; [SCancel]])
                 [0; 0; 0; 0; 0;  1;  0;  1;  0; 0;  1; 1;  0; 0]) = [([7], [7])].
Proof. reflexivity. Qed.

(* the fairness premise of the termination theorems is satisfiable: round-robin over the labels is weakly fair *)
Definition t_index (t : tlabel) : nat :=
  match t with LTimer => 0 | LRecv => 1 | LTimeout => 2 | LRun => 3 | LWait => 4 | LSee => 5 | LRet => 6 | LSend => 7 end.
Example round_robin_is_weakly_fair : forall c,
  weakly_fair (t_step gen_facts c) (t_G c) t_init (fun k => nth (k mod 8) tlabels LTimer).
Proof.
  intros c t k. exists (t_index t + k * 8). split; [apply PeanoNat.Nat.le_trans with (k * 8); [|apply PeanoNat.Nat.le_add_l]|].
  - rewrite PeanoNat.Nat.mul_comm. simpl. apply PeanoNat.Nat.le_add_r.
  - left. rewrite PeanoNat.Nat.mod_add by discriminate. destruct t; reflexivity.
Qed.
Definition x_index (t : xlabel) : nat :=
  match t with XRun => 0 | XSelChan => 1 | XSelTimeout => 2 | XTimer => 3 | XEv => 4 | XExtBegin => 5 | XExtT => 6
             | XExtA => 7 | XSee => 8 | XRet => 9 | XSend => 10 end.
Example ctx_round_robin_is_weakly_fair : forall c,
  weakly_fair (x_step gen_facts c) (x_G c) (x_init c) (fun k => nth (k mod 11) xlabels XRun).
Proof.
  intros c t k. exists (x_index t + k * 11). split; [apply PeanoNat.Nat.le_trans with (k * 11); [|apply PeanoNat.Nat.le_add_l]|].
  - rewrite PeanoNat.Nat.mul_comm. simpl. apply PeanoNat.Nat.le_add_r.
  - left. rewrite PeanoNat.Nat.mod_add by discriminate. destruct t; reflexivity.
Qed.

(* what the generated facts are on this tree, and the consequences that depend on them *)
Example generated_facts_now :
  f_rat_stop_cap gen_facts = 1 /\ f_reg_lock gen_facts = LLock /\ f_reg_copies gen_facts = true /\ par_cap gen_facts 5 = 5 /\
  In XACancelAction (f_x_timeout_branch gen_facts) /\ t_rank gen_facts t_init = 9 /\ f_ctx_err_src gen_facts = SrcErr.
Proof. repeat split; try reflexivity. simpl; tauto. Qed.
Example register_needs_the_write_lock_and_the_copy :
  (let f := mkFacts 1 1 [] [] true true true true true 1 [] [] [] SrcErr true CapLen LRLock true LRLock LRLock in
   let s := run (s_step f) (s_init [[SReg [1]]; [SReg [2]]]) [0; 1; 0; 1; 0; 1; 0; 1; 0; 1] in
   s_regdone s = [2; 1] /\ s_fns s = [2]) /\
  (let f := mkFacts 1 1 [] [] true true true true true 1 [] [] [] SrcErr true CapLen LLock false LRLock LRLock in
   let s := run (s_step f) (s_init [[SReg [1; 2]; SScribble]]) [0; 0; 0; 0; 0; 0] in
   s_regdone s = [1; 2] /\ s_fns s = []).
Proof. split; [exact register_under_rlock_loses_a_function | exact register_without_copy_loses_functions]. Qed.
Example cause_would_leak_with_context_Cause :   (* the same model with DetermineContextError reading context.Cause(ctx) *)
  let f := mkFacts 1 1 [] [] true true true true true 1 [] [] [] SrcCause true CapLen LLock true LRLock LRLock in
  x_observe (run (x_step f (mkX true (mkA ONil false Early) PCancC None false)) (x_init (mkX true (mkA ONil false Early) PCancC None false)) [XRun])
  = Some (mkXO ROther false false true false).
Proof. reflexivity. Qed.
