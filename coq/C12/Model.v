(* C12 — executable models of the timeout / cancellation runners, Parallelise and the cancel-function store.
   Mirrors utils/parallelisation/parallelisation.go (Parallelise, RunActionWithTimeout, RunActionWithTimeoutAndContext,
   RunActionWithTimeoutAndCancelStore) and utils/parallelisation/cancel_functions.go.  Definitions only; proofs are in
   Proofs*.v.  The models are PARAMETERISED by a record [f : facts] (GU.C12.Facts): channel capacities, the statements of
   every select branch, what is registered / deferred, the lock mode of Register and whether it copies its arguments.
   GU.C12.Gen.gen_facts is generated from the source on every run; Props.v states the theorems for [gen_facts].

   All four are small-step interleaving systems in the sense of GU.C12.Conc: [step : state -> label -> option state],
   one label = one atomic action of one goroutine or of the environment (timer, parent context, the ACTION — which is
   environment: it may complete, look at its signal, or idle).  A schedule is any list of labels; disabled labels
   stutter.  "For every completion instant relative to the deadline" is "for every interleaving of the action's
   completion label with the timer label". *)
From Coq Require Import List ZArith Bool Arith Permutation.
Import ListNotations.
From GU Require Import C12.Conc C12.MC C12.Facts C12.Gen.

(* ===================================================================================================== *)
(** * Common vocabulary *)

Inductive outcome := ONil | OErr.                        (* what the action returns: nil / its own error *)
Inductive res := RNil | RErr | RTimeout | RCancelled    (* what the runner returns (error KIND) *)
  | ROther.   (* an error that is neither the action's nor of the timeout / cancelled kind *)
Definition res_of (o : outcome) : res := match o with ONil => RNil | OErr => RErr end.

(* Scenario class of the action (restrictions of the environment; [Near]+[a_looks=true] is the unrestricted one).
   a_own : when the action may return WITHOUT having observed its signal
     Early = it completes on its own before the deadline (the timer cannot fire first),
     Near  = at any instant (the ±2ms window: completion and deadline race),
     Late  = only after the runner has reacted to the deadline (it is far after the deadline),
     Never = never (it only returns once it has seen the signal). *)
Inductive own := Early | Near | Late | Never.
Record acfg := mkA { a_out : outcome; a_looks : bool; a_own : own }.

(* goroutine  `channel <- action(...)`  : running / returned but result not yet sent / result sent *)
Inductive apc := ARun | ARet | ASent.

Definition outcome_eqb a b := match a, b with ONil, ONil | OErr, OErr => true | _, _ => false end.
Definition res_eqb a b :=
  match a, b with RNil, RNil | RErr, RErr | RTimeout, RTimeout | RCancelled, RCancelled | ROther, ROther => true | _, _ => false end.
Definition own_eqb a b :=
  match a, b with Early, Early | Near, Near | Late, Late | Never, Never => true | _, _ => false end.
Definition apc_eqb a b := match a, b with ARun, ARun | ARet, ARet | ASent, ASent => true | _, _ => false end.

(* ===================================================================================================== *)
(** * RunActionWithTimeout (parallelisation.go, parameterised by the generated facts) *)

Definition kres (k : ekind) : res := match k with KTimeout => RTimeout | KCancelled => RCancelled end.

(* runner program counter: at the select / executing the statements of the chosen branch / `<-channel` / returned *)
Inductive tpc := TSel | TProg (l : list ract) | TWait | TDone (r : res).

Record tstate := mkT {
  t_pc : tpc;
  t_a : apc;              (* the action goroutine  go func(...) { channel <- action(stop) } *)
  t_saw : bool;           (* the action has received from the stop channel *)
  t_chan : bool;          (* `channel` holds the action's result *)
  t_fired : bool;         (* time.After(timeout) has fired *)
  t_stop : bool;          (* the stop channel's buffer holds the signal (only with capacity >= 1) *)
  t_sent : bool;          (* ghost: the runner has posted / handed over the stop signal *)
  t_completed : bool;     (* completed (atomic bool) *)
  t_err : res             (* the named result err *)
}.

Inductive tlabel := LTimer | LRecv | LTimeout | LRun | LWait | LSee | LRet | LSend.
Definition tlabels := [LTimer; LRecv; LTimeout; LRun; LWait; LSee; LRet; LSend].

Definition t_init : tstate := mkT TSel ARun false false false false false false RNil.

Definition t_is_done (s : tstate) : bool := match t_pc s with TDone _ => true | _ => false end.

Definition t_step (f : facts) (c : acfg) (s : tstate) (l : tlabel) : option tstate :=
  let '(mkT pc a saw ch fired stop sent comp err) := s in
  let buffered := 1 <=? f_rat_stop_cap f in
  match l with
  | LTimer =>   (* the runtime timer of time.After fires *)
      if negb fired && negb (t_is_done s) && negb (own_eqb (a_own c) Early)
      then Some (mkT pc a saw ch true stop sent comp err) else None
  | LRecv =>    (* select case err = <-channel *)
      match pc with TSel => if ch then Some (mkT (TProg (f_rat_chan_branch f)) a saw false fired stop sent comp (res_of (a_out c))) else None
               | _ => None end
  | LTimeout => (* select case <-time.After(timeout) *)
      match pc with TSel => if fired then Some (mkT (TProg (f_rat_timer_branch f)) a saw ch fired stop sent comp err) else None | _ => None end
  | LRun =>     (* the next statement of the chosen branch; after the last one: if !completed.Load() { <-channel }; return *)
      match pc with
      | TProg (RSetCompleted :: r) => Some (mkT (TProg r) a saw ch fired stop sent true err)
      | TProg (RSetErr k :: r) => Some (mkT (TProg r) a saw ch fired stop sent comp (kres k))
      | TProg (RSendStop :: r) =>   (* into the buffer if there is one with room; unbuffered: only as a rendez-vous (LSee) *)
          if buffered && negb stop then Some (mkT (TProg r) a saw ch fired true true comp err) else None
      | TProg [] => if f_rat_waits f && negb comp then Some (mkT TWait a saw ch fired stop sent comp err)
                    else Some (mkT (TDone err) a saw ch fired stop sent comp err)
      | _ => None end
  | LSee =>     (* the action receives from stop: from the buffer, or (unbuffered) as a rendez-vous with the runner *)
      match a with
      | ARun => if a_looks c && negb saw then
                  if buffered then (if stop then Some (mkT pc a true ch fired false sent comp err) else None)
                  else match pc with TProg (RSendStop :: r) => Some (mkT (TProg r) a true ch fired stop true comp err) | _ => None end
                else None
      | _ => None end
  | LRet =>     (* action(stop) returns *)
      match a with
      | ARun => let late := match pc with TWait => true | TProg (RSendStop :: _) => negb buffered | _ => false end in
                if saw || match a_own c with Early | Near => true | Late => late | Never => false end
                then Some (mkT pc ARet saw ch fired stop sent comp err) else None
      | _ => None end
  | LSend =>    (* channel <- result  (only sender; needs a buffer of capacity >= 1 not to depend on the receiver) *)
      match a with ARet => if (1 <=? f_rat_chan_cap f) && negb ch then Some (mkT pc ASent saw true fired stop sent comp err) else None
                 | _ => None end
  | LWait =>    (* <-channel ; return *)
      match pc with TWait => if ch then Some (mkT (TDone err) a saw false fired stop sent comp err) else None
               | _ => None end
  end.

(* guaranteed actions (weak fairness): goroutines of the library and the timer always; the action is only assumed
   to return "eventually once it has been signalled" (or when the class says it completes early by itself) *)
Definition t_G (c : acfg) (s : tstate) (l : tlabel) : bool :=
  match l with
  | LRet => t_saw s || t_sent s || own_eqb (a_own c) Early
  | _ => true
  end.

(* an action that never returns by itself must at least look at its signal *)
Definition a_wf (c : acfg) : bool := match a_own c with Never => a_looks c | _ => true end.

Definition t_rank (f : facts) (s : tstate) : nat :=
  (match t_pc s with
   | TSel => 3 + Nat.max (length (f_rat_chan_branch f)) (length (f_rat_timer_branch f))
   | TProg l => 2 + length l | TWait => 1 | TDone _ => 0 end) +
  (match t_a s with ARun => 2 | ARet => 1 | ASent => 0 end) +
  (if t_saw s then 0 else 1) + (if t_fired s then 0 else 1).

(* observation of a run: what the runner returned, whether the action had seen its signal, whether the action had
   finished (result sent) — all at quiescence; the last two cannot change after the runner returned *)
Record tobs := mkTO { to_res : res; to_saw : bool; to_finished : bool }.
Definition t_observe (s : tstate) : option tobs :=
  match t_pc s with
  | TDone r => Some (mkTO r (t_saw s) (apc_eqb (t_a s) ASent))
  | _ => None            (* a quiescent state in which the runner has not returned = deadlock *)
  end.

(* ===================================================================================================== *)
(** * RunActionWithTimeoutAndCancelStore and RunActionWithTimeoutAndContext (parameterised by the generated facts) *)

(* context state: live / Canceled / DeadlineExceeded; PCancC / PDeadC: the same reasons, but ended (by the PARENT's
   canceller, inherited by the children) with a custom CAUSE that is not itself of that kind *)
Inductive pst := PLive | PCanc | PDead | PCancC | PDeadC.
Definition pst_eqb a b :=
  match a, b with PLive, PLive | PCanc, PCanc | PDead, PDead | PCancC, PCancC | PDeadC, PDeadC => true | _, _ => false end.
Definition base (p : pst) : pst := match p with PCancC => PCanc | PDeadC => PDead | x => x end.   (* ctx.Err() *)
(* ConvertContextError applied to what DetermineContextError reads (generated fact): ctx.Err() gives the kind whatever
   the cause; context.Cause(ctx) gives the raw cause *)
Definition kind_of (f : facts) (p : pst) : res :=
  match p with
  | PDead => RTimeout
  | PDeadC => match f_ctx_err_src f with SrcErr => RTimeout | SrcCause => ROther end
  | PCancC => match f_ctx_err_src f with SrcErr => RCancelled | SrcCause => ROther end
  | _ => RCancelled
  end.
Definition is_live (p : pst) : bool := pst_eqb p PLive.
Definition ctx_err (f : facts) (p : pst) : res := if is_live p then RNil else kind_of f p.   (* DetermineContextError(ctx) *)

(* events of the environment during the call: the parent context is cancelled / reaches its deadline, or somebody
   else calls store.Cancel() on the store handed to ...AndCancelStore *)
Inductive ev := EvPCancel | EvPDeadline | EvExt
  | EvPCancelC | EvPDeadlineC.     (* ... with a custom cause *)
Definition ev_eqb a b :=
  match a, b with EvPCancel, EvPCancel | EvPDeadline, EvPDeadline | EvExt, EvExt | EvPCancelC, EvPCancelC | EvPDeadlineC, EvPDeadlineC => true | _, _ => false end.

Record xcfg := mkX {
  x_store : bool;          (* true = ...AndCancelStore (caller's store), false = ...AndContext (private store, deferred Cancel) *)
  x_a : acfg;
  x_parent0 : pst;         (* state of the parent context when the runner is called *)
  x_ev : option ev;        (* which event MAY happen during the call *)
  x_ev_first : bool        (* scenario class: the event DOES happen, before the deadline and before the action completes by itself *)
}.

(* runner program counter *)
Inductive cpc :=
  | C0      (* the entry check on the parent context, if there is one *)
  | C1      (* timeoutContext, timeoutCancel := context.WithTimeout(ctx, timeout) (+ registration) *)
  | C2      (* cancelCtx, actionCancel := context.WithCancel(ctx) (+ registration) *)
  | C3      (* go func(...) { channel <- action(actionCtx) }(cancelCtx, ...) *)
  | CSel    (* select *)
  | CProg (l : list xact)   (* executing the statements of the chosen branch *)
  | CDefer (r : res)   (* deferred timeoutCancel(), and store.Cancel() of ...AndContext *)
  | CDone (r : res).

(* the other caller of store.Cancel(): idle / holds the read lock with the list seen (timeoutCancel? actionCancel?) / done *)
Inductive epc := EIdle | ECalls (t a : bool) | EDone.

Record xstate := mkXS {
  x_pc : cpc;
  x_act : option apc;     (* None: the action goroutine has not been started *)
  x_saw : bool;           (* the action has observed ctx.Done() *)
  x_chan : bool;
  x_fired : bool;         (* the timer of timeoutContext has fired *)
  x_parent : pst;
  x_evdone : bool;        (* the parent event has happened *)
  x_tctx : pst;           (* timeoutContext: live / Canceled / DeadlineExceeded (first cause wins) *)
  x_has_t : bool;         (* timeoutContext exists *)
  x_has_a : bool;         (* cancelCtx exists *)
  x_cdone : bool;         (* cancelCtx (the ACTION's context) is done *)
  x_ext : epc;
  x_cret : bool           (* ghost: x_cdone at the instant the runner returned *)
}.

Inductive xlabel :=
  | XRun          (* the next statement of the runner *)
  | XSelChan      (* select: case err = <-channel *)
  | XSelTimeout   (* select: case <-timeoutContext.Done() *)
  | XTimer | XEv | XExtBegin | XExtT | XExtA
  | XSee | XRet | XSend.
Definition xlabels := [XRun; XSelChan; XSelTimeout; XTimer; XEv; XExtBegin; XExtT; XExtA; XSee; XRet; XSend].

Definition x_init (c : xcfg) : xstate :=
  mkXS C0 None false false false (x_parent0 c) false PLive false false false EIdle false.

Definition x_is_done (s : xstate) : bool := match x_pc s with CDone _ => true | _ => false end.

Definition epc_eqb a b :=
  match a, b with
  | EIdle, EIdle | EDone, EDone => true
  | ECalls t a, ECalls t' a' => Bool.eqb t t' && Bool.eqb a a'
  | _, _ => false end.

(* has the scenario's event happened (completely)? *)
Definition x_event_over (c : xcfg) (s : xstate) : bool :=
  match x_ev c with
  | None => true
  | Some EvExt => epc_eqb (x_ext s) EDone
  | Some _ => x_evdone s
  end.
(* gate of the class "the event comes first": timer and spontaneous completion wait for it *)
Definition x_gate (c : xcfg) (s : xstate) : bool := negb (x_ev_first c) || x_event_over c s.
(* ... and, in that class, it happens once the action has been started *)
Definition x_during (c : xcfg) (s : xstate) : bool :=
  negb (x_ev_first c) || match x_act s with None => false | _ => true end.

Definition cancel_t (p : pst) : pst := if is_live p then PCanc else p.

Definition x_step (f : facts) (c : xcfg) (s : xstate) (l : xlabel) : option xstate :=
  let '(mkXS pc act saw ch fired par evd tctx ht ha cd ext cret) := s in
  match l with
  | XRun =>
      match pc with
      | C0 => if negb (f_x_initial_check f) || is_live par
              then Some (mkXS C1 act saw ch fired par evd tctx ht ha cd ext cret)
              else Some (mkXS (CDone (kind_of f par)) act saw ch fired par evd tctx ht ha cd ext false)
      | C1 => (* a child of an ended parent is born ended, with the parent's error *)
              Some (mkXS C2 act saw ch fired par evd par true ha cd ext cret)
      | C2 => Some (mkXS C3 act saw ch fired par evd tctx ht true (negb (is_live par)) ext cret)
      | C3 => Some (mkXS CSel (Some ARun) saw ch fired par evd tctx ht ha cd ext cret)
      | CSel => None
      | CProg (XACancelAction :: r) => Some (mkXS (CProg r) act saw ch fired par evd tctx ht ha true ext cret)
      | CProg (XACancelTimeout :: r) => Some (mkXS (CProg r) act saw ch fired par evd (cancel_t tctx) ht ha cd ext cret)
      | CProg (XAWaitActionDone :: r) => if cd then Some (mkXS (CProg r) act saw ch fired par evd tctx ht ha cd ext cret) else None
      | CProg (XARecvChan :: r) => if ch then Some (mkXS (CProg r) act saw false fired par evd tctx ht ha cd ext cret) else None
      | CProg (XARetTimeoutErrIfAny :: r) =>
          if is_live tctx then Some (mkXS (CProg r) act saw ch fired par evd tctx ht ha cd ext cret)
          else Some (mkXS (CDefer (kind_of f tctx)) act saw ch fired par evd tctx ht ha cd ext cret)
      | CProg (XARetErr :: _) => Some (mkXS (CDefer (res_of (a_out (x_a c)))) act saw ch fired par evd tctx ht ha cd ext cret)
      | CProg (XARetTimeoutErr :: _) => Some (mkXS (CDefer (ctx_err f tctx)) act saw ch fired par evd tctx ht ha cd ext cret)
      | CProg [] => None        (* falling off a branch: the translator refuses such a shape *)
      | CDefer r => (* deferred timeoutCancel(); ...AndContext: deferred store.Cancel() calls what is registered *)
          let private := negb (x_store c) && f_ctx_defer_store_cancel f in
          let cd' := cd || (private && f_x_reg_a f) in
          let tctx' := if f_x_defer_tcancel f || (private && f_x_reg_t f) then cancel_t tctx else tctx in
          Some (mkXS (CDone r) act saw ch fired par evd tctx' ht ha cd' ext cd')
      | CDone _ => None
      end
  | XSelChan =>
      match pc with
      | CSel => if ch then Some (mkXS (CProg ((match a_out (x_a c) with OErr => f_x_err_branch f | ONil => [] end) ++ f_x_chan_tail f))
                                      act saw false fired par evd tctx ht ha cd ext cret) else None
      | _ => None end
  | XSelTimeout =>
      match pc with
      | CSel => if is_live tctx then None else Some (mkXS (CProg (f_x_timeout_branch f)) act saw ch fired par evd tctx ht ha cd ext cret)
      | _ => None end
  | XTimer =>   (* the deadline of timeoutContext *)
      if ht && negb fired && negb (x_is_done s) && negb (own_eqb (a_own (x_a c)) Early) && x_gate c s
      then Some (mkXS pc act saw ch true par evd (if is_live tctx then PDead else tctx) ht ha cd ext cret) else None
  | XEv =>      (* the parent ends: all its existing children end with it, with its error *)
      match x_ev c with
      | Some EvPCancel | Some EvPDeadline | Some EvPCancelC | Some EvPDeadlineC =>
          if negb evd && is_live par && negb (x_is_done s) && x_during c s then
            let k := match x_ev c with Some EvPDeadline => PDead | Some EvPDeadlineC => PDeadC | Some EvPCancelC => PCancC | _ => PCanc end in
            Some (mkXS pc act saw ch fired k true (if ht && is_live tctx then k else tctx) ht ha (cd || ha) ext cret)
          else None
      | _ => None end
  | XExtBegin => (* somebody else: store.Cancel() takes the read lock and sees what is registered *)
      match x_ev c, ext with
      | Some EvExt, EIdle => if negb (x_is_done s) && x_during c s
                             then let t := ht && f_x_reg_t f in let a := ha && f_x_reg_a f in
                                  Some (mkXS pc act saw ch fired par evd tctx ht ha cd
                                             (if t || a then ECalls t a else EDone) cret) else None
      | _, _ => None end
  | XExtT =>
      match ext with
      | ECalls true a => Some (mkXS pc act saw ch fired par evd (cancel_t tctx) ht ha cd
                                    (if a then ECalls false true else EDone) cret)
      | _ => None end
  | XExtA =>
      match ext with
      | ECalls false true => Some (mkXS pc act saw ch fired par evd tctx ht ha true EDone cret)
      | _ => None end
  | XSee =>
      match act with
      | Some ARun => if a_looks (x_a c) && negb saw && cd
                     then Some (mkXS pc act true ch fired par evd tctx ht ha cd ext cret) else None
      | _ => None end
  | XRet =>
      match act with
      | Some ARun =>
          let late := match pc with CProg (XARecvChan :: _) => true | _ => false end in   (* the runner waits for the result *)
          if saw || (match a_own (x_a c) with Early | Near => true | Late => late | Never => false end && x_gate c s)
          then Some (mkXS pc (Some ARet) saw ch fired par evd tctx ht ha cd ext cret) else None
      | _ => None end
  | XSend =>
      match act with Some ARet => if (1 <=? f_x_chan_cap f) && negb ch
                                  then Some (mkXS pc (Some ASent) saw true fired par evd tctx ht ha cd ext cret) else None
                   | _ => None end
  end.

Definition x_G (c : xcfg) (s : xstate) (l : xlabel) : bool :=
  match l with
  | XRet => x_saw s || x_cdone s || own_eqb (a_own (x_a c)) Early
  | XEv | XExtBegin => x_ev_first c
  | _ => true
  end.

(* well-formed scenario classes: the action returns at least when signalled; only the caller's store can be cancelled by others *)
Definition x_wf (c : xcfg) : bool :=
  a_wf (x_a c) && match x_ev c with Some EvExt => x_store c | _ => true end.

Definition x_sel_rank (f : facts) : nat :=
  3 + Nat.max (length (f_x_err_branch f) + length (f_x_chan_tail f)) (length (f_x_timeout_branch f)).

Definition x_rank (f : facts) (s : xstate) : nat :=
  (match x_pc s with
   | C0 => x_sel_rank f + 6 | C1 => x_sel_rank f + 5 | C2 => x_sel_rank f + 4 | C3 => x_sel_rank f + 3 | CSel => x_sel_rank f
   | CProg l => 2 + length l | CDefer _ => 1 | CDone _ => 0 end) +
  (match x_act s with None => 0 | Some ARun => 2 | Some ARet => 1 | Some ASent => 0 end) +
  (if x_saw s then 0 else 1) + (if x_fired s then 0 else 1) + (if x_evdone s then 0 else 1) +
  (match x_ext s with EIdle => 3 | ECalls true _ => 2 | ECalls false _ => 1 | EDone => 0 end).

Record xobs := mkXO { xo_res : res; xo_started : bool; xo_saw : bool; xo_finished : bool; xo_cdone : bool }.
Definition x_observe (s : xstate) : option xobs :=
  match x_pc s with
  | CDone r => Some (mkXO r (match x_act s with None => false | _ => true end) (x_saw s)
                         (match x_act s with Some ASent | None => true | _ => false end) (x_cret s))
  | _ => None
  end.

(* ===================================================================================================== *)
(** * Parallelise (parallelisation.go:30-62) *)

(* what action(arg_i) returns: an item, or an error (identified by a number) *)
Inductive pres := PItem (z : Z) | PFail (e : Z).
(* goroutine i (:36-42): not yet called the action / action returned, result not yet sent / result sent *)
Inductive wst := WInit | WCalled | WSent.
(* what Parallelise returns *)
Inductive pret := PROk (items : list Z) | PRErr (e : Z).
(* the caller: the collecting loop (:48-57) having received k results / returned *)
Inductive mpc := MLoop (k : nat) (acc : list Z) | MDone (r : pret).

Record pstate := mkP {
  p_w : list wst;
  p_chan : list pres;        (* `channel`, FIFO, capacity = number of arguments (:34) *)
  p_main : mpc;
  p_sentlog : list pres;     (* ghost: everything ever sent, in order *)
  p_recvd : nat              (* ghost: number of receives made by the caller *)
}.

Inductive plabel := PCall (i : nat) | PSend (i : nat) | PRecv | PFinish.

Definition p_init (outs : list pres) : pstate := mkP (map (fun _ => WInit) outs) [] (MLoop 0 []) [] 0.

Fixpoint upd {A} (i : nat) (x : A) (l : list A) : list A :=
  match l, i with
  | [], _ => []
  | _ :: r, 0 => x :: r
  | y :: r, S j => y :: upd j x r
  end.

Definition wst_eqb a b := match a, b with WInit, WInit | WCalled, WCalled | WSent, WSent => true | _, _ => false end.

(* [outs] = the results of the invocations (environment); [cap] = capacity of the channel (= par_cap facts (length outs));
   [keep] = a result type was given (:31 keepReturn) *)
Definition p_step (cap : nat) (keep : bool) (outs : list pres) (s : pstate) (l : plabel) : option pstate :=
  let '(mkP w ch m sl rc) := s in
  match l with
  | PCall i =>     (* :38-40  r.Item, r.err = actionFunc(v.Interface()) *)
      match nth_error w i with
      | Some WInit => Some (mkP (upd i WCalled w) ch m sl rc)
      | _ => None end
  | PSend i =>     (* :41  channel <- r   (blocks while the buffer is full) *)
      match nth_error w i, nth_error outs i with
      | Some WCalled, Some o => if length ch <? cap
                                then Some (mkP (upd i WSent w) (ch ++ [o]) m (sl ++ [o]) rc) else None
      | _, _ => None end
  | PRecv =>       (* :49-56  r := <-channel; if r.err != nil return; append *)
      match m, ch with
      | MLoop k acc, r :: ch' =>
          if k <? length outs then
            match r with
            | PFail e => Some (mkP w ch' (MDone (PRErr e)) sl (S rc))
            | PItem z => Some (mkP w ch' (MLoop (S k) (if keep then acc ++ [z] else acc)) sl (S rc))
            end
          else None
      | _, _ => None end
  | PFinish =>     (* :48 loop condition false; :58-61 return results *)
      match m with
      | MLoop k acc => if k <? length outs then None else Some (mkP w ch (MDone (PROk acc)) sl rc)
      | _ => None end
  end.

Definition calls_of (st : wst) : nat := match st with WInit => 0 | _ => 1 end.   (* invocations of the action for argument i *)

Definition items_of (outs : list pres) : list Z := flat_map (fun o => match o with PItem z => [z] | _ => [] end) outs.
Definition fails_of (outs : list pres) : list Z := flat_map (fun o => match o with PFail e => [e] | _ => [] end) outs.

Definition p_final (s : pstate) : Prop :=
  Forall (fun st => st = WSent) (p_w s) /\ exists r, p_main s = MDone r.

(* what the property allows Parallelise to return, given the invocations' results *)
Definition par_allowed (keep : bool) (outs : list pres) (r : pret) : Prop :=
  match r with
  | PROk items => fails_of outs = [] /\ if keep then Permutation items (items_of outs) else items = []
  | PRErr e => In e (fails_of outs)
  end.

(* executable version for the correspondence: equal multiplicities (complete w.r.t. [par_allowed]: ProofsP.par_allowedb_complete) *)
Definition same_multiset (a b : list Z) : bool :=
  forallb (fun x => count_occ Z.eq_dec a x =? count_occ Z.eq_dec b x) (a ++ b).
Definition par_allowedb (keep : bool) (outs : list pres) (r : pret) : bool :=
  match r with
  | PROk items => match fails_of outs with
                  | [] => if keep then same_multiset items (items_of outs) else match items with [] => true | _ => false end
                  | _ => false end
  | PRErr e => existsb (Z.eqb e) (fails_of outs)
  end.

(* ===================================================================================================== *)
(** * CancelFunctionStore (cancel_functions.go:14-37) *)

(* RegisterCancelFunction(fs...) is variadic and COPIES its arguments (append to the store's own slice): what the store
   holds after the call is independent of anything the caller later does to the slice it passed.  [SScribble] is the
   caller overwriting / clearing / appending to / reusing that slice after the call: no effect on the store. *)
Inductive sop := SReg (fs : list nat) | SCancel | SLen | SScribble.

(* program counter of one goroutine inside one call *)
Inductive spc :=
  | SIdle
  | SRegWant (fs : list nat)                       (* :21 s.mu.Lock() pending *)
  | SRegRead (fs : list nat)                       (* holds the write lock, about to read s.cancelFunctions (:22) *)
  | SRegWrite (fs : list nat) (seen : list nat)    (* has read the slice, about to store append(seen, fs...) *)
  | SRegUnlock (fs : list nat)                     (* :20 deferred Unlock *)
  | SCanWant                                 (* Cancel() called; :27 s.mu.RLock() pending *)
  | SCanLoop (todo : list nat)               (* holds the read lock; :28-30 remaining functions of the range *)
  | SLenWant
  | SLenUnlock (n : nat).

Record thread := mkTh {
  th_ops : list sop;        (* calls still to make *)
  th_pc : spc;
  th_must : list nat;       (* ghost: functions whose Register had returned when the current Cancel was called *)
  th_called : list nat;     (* ghost: functions invoked by the current Cancel so far *)
  th_outs : list (list nat) (* results of the completed calls: [Len] -> [n]; Cancel -> functions invoked, in order; Register -> [] *)
}.

Record sstate := mkS {
  s_fns : list nat;         (* s.cancelFunctions *)
  s_writer : bool;          (* write lock held *)
  s_readers : nat;          (* read locks held *)
  s_threads : list thread;
  s_regdone : list nat;     (* ghost: functions whose Register has returned *)
  s_cancels : list (list nat * list nat)   (* ghost: completed Cancel calls: (must, invoked) *)
}.

Definition s_init (progs : list (list sop)) : sstate :=
  mkS [] false 0 (map (fun p => mkTh p SIdle [] [] []) progs) [] [].

(* one step of goroutine [th] in the shared state; returns the new shared parts and the new thread *)
Definition th_step (f : facts) (s : sstate) (th : thread) : option (sstate * thread) :=
  let '(mkS fns wr rd ths rdn cs) := s in
  let '(mkTh ops pc must called outs) := th in
  match pc with
  | SIdle =>
      match ops with
      | [] => None
      | SReg fs :: r => Some (s, mkTh r (SRegWant fs) must called outs)
      | SCancel :: r => Some (s, mkTh r SCanWant rdn [] outs)            (* Cancel is called: ghost snapshot *)
      | SLen :: r => Some (s, mkTh r SLenWant must called outs)
      | SScribble :: r =>   (* caller-side writes: the store is not touched — IF Register copied its arguments; otherwise the
                               store's slice aliases the caller's and its content is lost (worst case) *)
          Some (if f_reg_copies f then s else mkS [] wr rd ths rdn cs, mkTh r SIdle must called ([] :: outs))
      end
  | SRegWant fs =>      (* the lock taken by RegisterCancelFunction, as generated *)
      match f_reg_lock f with
      | LLock => if negb wr && (rd =? 0) then Some (mkS fns true rd ths rdn cs, mkTh ops (SRegRead fs) must called outs) else None
      | LRLock => if negb wr then Some (mkS fns wr (S rd) ths rdn cs, mkTh ops (SRegRead fs) must called outs) else None
      | LNone => Some (s, mkTh ops (SRegRead fs) must called outs)
      end
  | SRegRead fs => Some (s, mkTh ops (SRegWrite fs fns) must called outs)
  | SRegWrite fs seen => Some (mkS (seen ++ fs) wr rd ths rdn cs, mkTh ops (SRegUnlock fs) must called outs)
  | SRegUnlock fs => (* Unlock and return: from here on Register(f) "has completed" *)
      Some (match f_reg_lock f with
            | LLock => mkS fns false rd ths (fs ++ rdn) cs
            | LRLock => mkS fns wr (pred rd) ths (fs ++ rdn) cs
            | LNone => mkS fns wr rd ths (fs ++ rdn) cs end, mkTh ops SIdle must called ([] :: outs))
  | SCanWant => if negb wr then Some (mkS fns wr (S rd) ths rdn cs, mkTh ops (SCanLoop fns) must called outs) else None
  | SCanLoop (f :: todo) => Some (s, mkTh ops (SCanLoop todo) must (called ++ [f]) outs)
  | SCanLoop [] => Some (mkS fns wr (pred rd) ths rdn ((must, called) :: cs), mkTh ops SIdle [] [] (called :: outs))
  | SLenWant => if negb wr then Some (mkS fns wr (S rd) ths rdn cs, mkTh ops (SLenUnlock (length fns)) must called outs) else None
  | SLenUnlock n => Some (mkS fns wr (pred rd) ths rdn cs, mkTh ops SIdle must called ([n] :: outs))
  end.

(* label = index of the goroutine that makes its next step *)
Definition s_step (f : facts) (s : sstate) (i : nat) : option sstate :=
  match nth_error (s_threads s) i with
  | Some th => match th_step f s th with
               | Some (s', th') => Some (mkS (s_fns s') (s_writer s') (s_readers s') (upd i th' (s_threads s))
                                             (s_regdone s') (s_cancels s'))
               | None => None end
  | None => None
  end.

(* a single goroutine running a program to the end (deterministic): used by the sequential correspondence *)
Fixpoint s_run1 (f : facts) (fuel : nat) (s : sstate) : sstate :=
  match fuel with 0 => s | S k => match s_step f s 0 with Some s' => s_run1 f k s' | None => s end end.

(* ===================================================================================================== *)
(** * Reachable sets and allowed observations of the runner models (finite: computed) *)

Definition ekind_eqb a b := match a, b with KTimeout, KTimeout | KCancelled, KCancelled => true | _, _ => false end.
Definition ract_eqb a b :=
  match a, b with RSetCompleted, RSetCompleted | RSendStop, RSendStop => true | RSetErr k, RSetErr k' => ekind_eqb k k' | _, _ => false end.
Definition xact_eqb a b :=
  match a, b with
  | XACancelAction, XACancelAction | XACancelTimeout, XACancelTimeout | XAWaitActionDone, XAWaitActionDone
  | XARecvChan, XARecvChan | XARetTimeoutErrIfAny, XARetTimeoutErrIfAny | XARetErr, XARetErr | XARetTimeoutErr, XARetTimeoutErr => true
  | _, _ => false end.
Fixpoint list_eqb {A} (e : A -> A -> bool) (a b : list A) : bool :=
  match a, b with [], [] => true | x :: a', y :: b' => if e x y then list_eqb e a' b' else false | _, _ => false end.

Definition tpc_eqb (a b : tpc) : bool :=
  match a, b with
  | TSel, TSel | TWait, TWait => true | TDone r, TDone r' => res_eqb r r' | TProg l, TProg l' => list_eqb ract_eqb l l' | _, _ => false end.

Definition tstate_eqb (a b : tstate) : bool :=   (* nested ifs: vm_compute is strict, && would not short-circuit *)
  if tpc_eqb (t_pc a) (t_pc b)
  then if apc_eqb (t_a a) (t_a b) then if Bool.eqb (t_saw a) (t_saw b) then if Bool.eqb (t_chan a) (t_chan b)
  then if Bool.eqb (t_fired a) (t_fired b) then if Bool.eqb (t_stop a) (t_stop b) then if Bool.eqb (t_sent a) (t_sent b)
  then if Bool.eqb (t_completed a) (t_completed b) then res_eqb (t_err a) (t_err b)
  else false else false else false else false else false else false else false else false.

Definition cpc_eqb (a b : cpc) : bool :=
  match a, b with
  | C0, C0 | C1, C1 | C2, C2 | C3, C3 | CSel, CSel => true
  | CProg l, CProg l' => list_eqb xact_eqb l l'
  | CDefer r, CDefer r' | CDone r, CDone r' => res_eqb r r'
  | _, _ => false end.

Definition oapc_eqb (a b : option apc) : bool :=
  match a, b with None, None => true | Some x, Some y => apc_eqb x y | _, _ => false end.

Definition xstate_eqb (a b : xstate) : bool :=
  if cpc_eqb (x_pc a) (x_pc b) then if oapc_eqb (x_act a) (x_act b) then if epc_eqb (x_ext a) (x_ext b)
  then if Bool.eqb (x_saw a) (x_saw b) then if Bool.eqb (x_chan a) (x_chan b) then if Bool.eqb (x_fired a) (x_fired b)
  then if pst_eqb (x_parent a) (x_parent b) then if Bool.eqb (x_evdone a) (x_evdone b)
  then if pst_eqb (x_tctx a) (x_tctx b) then if Bool.eqb (x_has_t a) (x_has_t b)
  then if Bool.eqb (x_has_a a) (x_has_a b) then if Bool.eqb (x_cdone a) (x_cdone b) then Bool.eqb (x_cret a) (x_cret b)
  else false else false else false else false else false else false else false else false else false else false
  else false else false.

Definition t_R (f : facts) (c : acfg) : list tstate := bfs (t_step f c) tstate_eqb tlabels 2000 [t_init] [].
Definition x_R (f : facts) (c : xcfg) : list xstate := bfs (x_step f c) xstate_eqb xlabels 20000 [x_init c] [].

Definition quiescentb {state label} (step : state -> label -> option state) (labels : list label) (s : state) : bool :=
  forallb (fun t => negb (enabledb step s t)) labels.

(* observations of all reachable quiescent states (= of all maximal runs, Proofs.t_allowed_complete) *)
Definition t_allowed (f : facts) (c : acfg) : list (option tobs) :=
  map t_observe (filter (quiescentb (t_step f c) tlabels) (t_R f c)).
Definition x_allowed (f : facts) (c : xcfg) : list (option xobs) :=
  map x_observe (filter (quiescentb (x_step f c) xlabels) (x_R f c)).

Definition tobs_eqb (a b : tobs) : bool :=
  res_eqb (to_res a) (to_res b) && Bool.eqb (to_saw a) (to_saw b) && Bool.eqb (to_finished a) (to_finished b).
Definition xobs_eqb (a b : xobs) : bool :=
  res_eqb (xo_res a) (xo_res b) && Bool.eqb (xo_started a) (xo_started b) && Bool.eqb (xo_saw a) (xo_saw b)
  && Bool.eqb (xo_finished a) (xo_finished b) && Bool.eqb (xo_cdone a) (xo_cdone b).
Definition opt_eqb {A} (e : A -> A -> bool) (a b : option A) : bool :=
  match a, b with None, None => true | Some x, Some y => e x y | _, _ => false end.

(* ===================================================================================================== *)
(** * Correspondence cases: what the harness observed on the real implementation *)

Inductive case :=
  | CaseT (c : acfg) (o : option tobs)     (* RunActionWithTimeout: scenario class; observation (None: did not return) *)
  | CaseX (c : xcfg) (o : option xobs)     (* ...AndContext / ...AndCancelStore *)
  | CaseP (keep : bool) (outs : list pres) (calls : list nat) (r : pret)   (* Parallelise: result type given?, invocation results, invocations counted per argument, returned *)
  | CaseS (prog : list sop) (outs : list (list nat)).        (* store driven by one goroutine: result of every call, in order *)

Fixpoint listnat_eqb (a b : list nat) : bool :=
  match a, b with [], [] => true | x :: a', y :: b' => (x =? y) && listnat_eqb a' b' | _, _ => false end.
Fixpoint listlistnat_eqb (a b : list (list nat)) : bool :=
  match a, b with [], [] => true | x :: a', y :: b' => listnat_eqb x y && listlistnat_eqb a' b' | _, _ => false end.

Fixpoint insertN (x : nat) (l : list nat) : list nat :=
  match l with [] => [x] | y :: r => if x <=? y then x :: l else y :: insertN x r end.
Definition sortN (l : list nat) : list nat := fold_right insertN [] l.

Definition check_case (k : case) : bool :=
  match k with
  | CaseT c o => existsb (opt_eqb tobs_eqb o) (t_allowed gen_facts c)      (* the models instantiated with the GENERATED facts *)
  | CaseX c o => existsb (opt_eqb xobs_eqb o) (x_allowed gen_facts c)
  | CaseP keep outs calls r => listnat_eqb calls (map (fun _ => 1) outs) && par_allowedb keep outs r
  | CaseS prog outs =>
      let s := s_run1 gen_facts (10 + 6 * length prog + 4 * length prog * length prog) (s_init [prog]) in
      match s_threads s with
      | [th] => listlistnat_eqb (map sortN (rev (th_outs th))) outs     (* order of invocation: not compared *)
      | _ => false end
  end.
