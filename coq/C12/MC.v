(* C12 — finite-state model checking inside Coq, on top of GU.C12.Conc.

   For a system whose reachable state space (from a given initial state) is FINITE, the set R of reachable states is
   computed by [bfs] (vm_compute), its closure under [step] is checked by the boolean [closed], and then membership in R
   is an inductive invariant (by [Conc.inv_run], i.e. by induction on the schedule).  Every state property that holds
   on all members of R therefore holds after EVERY schedule (of any length); progress and a strictly decreasing
   variant checked on R give termination of every weakly fair infinite schedule ([Conc.fair_terminates]).
   Nothing here is sampled: the enumeration is of all reachable states, the quantification over schedules is by
   induction. *)
From Coq Require Import List Arith Lia Bool.
Import ListNotations.
From GU Require Import C12.Conc.

Section MC.
  Context {state label : Type}.
  Variable step : state -> label -> option state.
  Variable eqb : state -> state -> bool.
  Hypothesis eqb_ok : forall a b, eqb a b = true -> a = b.
  Variable labels : list label.
  Hypothesis labels_all : forall t : label, In t labels.

  Definition mem (s : state) (R : list state) : bool := existsb (eqb s) R.

  Lemma mem_In s R : mem s R = true -> In s R.
  Proof.
    unfold mem. intros H. apply existsb_exists in H. destruct H as [x [Hin He]].
    apply eqb_ok in He. now subst.
  Qed.

  Definition nexts (s : state) : list state :=
    flat_map (fun t => match step s t with Some s' => [s'] | None => [] end) labels.

  (* worklist exploration; the result is only a CANDIDATE for the reachable set: [closed] is what is relied upon *)
  Fixpoint bfs (fuel : nat) (todo seen : list state) : list state :=
    match fuel with
    | 0 => seen
    | S f => match todo with
             | [] => seen
             | s :: r => if mem s seen then bfs f r seen else bfs f (nexts s ++ r) (s :: seen)
             end
    end.

  Definition closed (R : list state) : bool :=
    forallb (fun s => forallb (fun t => match step s t with Some s' => mem s' R | None => true end) labels) R.

  Lemma closed_step R : closed R = true -> forall s t s', In s R -> step s t = Some s' -> In s' R.
  Proof.
    unfold closed. intros H s t s' Hin E.
    rewrite forallb_forall in H. specialize (H s Hin). rewrite forallb_forall in H.
    specialize (H t (labels_all t)). rewrite E in H. now apply mem_In.
  Qed.

  Lemma closed_run R : closed R = true -> forall sched s, In s R -> In (run step s sched) R.
  Proof.
    intros H sched s Hs. apply (inv_run step (fun x => In x R)); [|exact Hs].
    intros a t b Ha E. eapply closed_step; eauto.
  Qed.

  (* safety: a boolean state property checked on R holds after every schedule *)
  Lemma safe_run R (P : state -> bool) s0 :
    closed R = true -> mem s0 R = true -> forallb P R = true -> forall sched, P (run step s0 sched) = true.
  Proof.
    intros Hc H0 HP sched. rewrite forallb_forall in HP. apply HP. apply closed_run; [exact Hc|now apply mem_In].
  Qed.

  (* liveness ingredients, checked on R *)
  Variable finished : state -> bool.
  Variable G : state -> label -> bool.
  Variable V : state -> nat.

  Definition enabledb (s : state) (t : label) : bool := match step s t with Some _ => true | None => false end.

  Definition progress_ok (R : list state) : bool :=
    forallb (fun s => finished s || existsb (fun t => G s t && enabledb s t) labels) R.

  Definition variant_ok (R : list state) : bool :=
    forallb (fun s => forallb (fun t => match step s t with Some s' => V s' <? V s | None => true end) labels) R.

  Lemma progress_ok_spec R : progress_ok R = true ->
    forall s, In s R -> finished s = false -> exists t, G s t = true /\ step s t <> None.
  Proof.
    unfold progress_ok. intros H s Hin Hf. rewrite forallb_forall in H. specialize (H s Hin).
    rewrite Hf in H. simpl in H. apply existsb_exists in H. destruct H as [t [_ Ht]].
    apply andb_true_iff in Ht. destruct Ht as [Hg He]. exists t. split; [exact Hg|].
    unfold enabledb in He. destruct (step s t); [discriminate|discriminate He].
  Qed.

  Lemma variant_ok_spec R : variant_ok R = true ->
    forall s t s', In s R -> step s t = Some s' -> V s' < V s.
  Proof.
    unfold variant_ok. intros H s t s' Hin E. rewrite forallb_forall in H. specialize (H s Hin).
    rewrite forallb_forall in H. specialize (H t (labels_all t)). rewrite E in H. now apply Nat.ltb_lt.
  Qed.

  (* no reachable unfinished state is without an enabled guaranteed action *)
  Lemma mc_no_deadlock R s0 : closed R = true -> mem s0 R = true -> progress_ok R = true ->
    forall sched, finished (run step s0 sched) = false ->
      exists t, G (run step s0 sched) t = true /\ step (run step s0 sched) t <> None.
  Proof.
    intros Hc H0 Hp sched Hf. eapply progress_ok_spec; eauto. apply closed_run; [exact Hc|now apply mem_In].
  Qed.

  (* every weakly fair infinite schedule reaches a finished state *)
  Lemma mc_fair_terminates R s0 : closed R = true -> mem s0 R = true -> progress_ok R = true -> variant_ok R = true ->
    forall sigma, weakly_fair step G s0 sigma -> exists k, finished (state_at step s0 sigma k) = true.
  Proof.
    intros Hc H0 Hp Hv sigma Hfair.
    apply (fair_terminates step (fun x => In x R)
             (fun a t b Ha E => closed_step R Hc a t b Ha E) V (variant_ok_spec R Hv) finished G
             (progress_ok_spec R Hp) s0 sigma); [now apply mem_In|exact Hfair].
  Qed.

  (* the number of effective steps of ANY schedule is bounded by the variant of the initial state *)
  Lemma mc_steps_bounded R s0 : closed R = true -> mem s0 R = true -> variant_ok R = true ->
    forall sched, effective step s0 sched <= V s0.
  Proof.
    intros Hc H0 Hv sched.
    pose proof (effective_bounded step (fun x => In x R)
             (fun a t b Ha E => closed_step R Hc a t b Ha E) V (variant_ok_spec R Hv) sched s0 (mem_In _ _ H0)).
    lia.
  Qed.
End MC.
