(* C12 — proofs about the Parallelise model (p_* of GU.C12.Model): unbounded number of arguments, every schedule.
   Invariant: everything ever sent = received prefix ++ channel content, and is a permutation of the results of the
   goroutines that have sent; hence the buffer (capacity n) never fills while a sender is pending. *)
From Coq Require Import List ZArith Bool Arith Lia Permutation.
Import ListNotations.
From GU Require Import C12.Conc C12.Facts C12.Gen C12.Model.

(* results of the goroutines that have sent, in index order *)
Fixpoint sent_outs (w : list wst) (outs : list pres) : list pres :=
  match w, outs with
  | st :: w', o :: outs' => (match st with WSent => [o] | _ => [] end) ++ sent_outs w' outs'
  | _, _ => []
  end.

Lemma upd_length {A} i (x : A) l : length (upd i x l) = length l.
Proof. revert i; induction l as [|y l IH]; intros [|i]; simpl; auto. Qed.

Lemma sent_outs_length w outs : length (sent_outs w outs) <= length w.
Proof.
  revert outs; induction w as [|st w IH]; intros [|o outs]; simpl; try lia.
  rewrite app_length. specialize (IH outs). destruct st; simpl; lia.
Qed.

Lemma sent_outs_In w outs x : In x (sent_outs w outs) -> In x outs.
Proof.
  revert outs; induction w as [|st w IH]; intros [|o outs]; simpl; try tauto.
  intros H. apply in_app_or in H. destruct H as [H|H].
  - destruct st; simpl in H; try tauto.
  - right. now apply IH.
Qed.

Lemma sent_outs_full w outs : length w = length outs -> length (sent_outs w outs) = length outs ->
  sent_outs w outs = outs /\ Forall (fun st => st = WSent) w.
Proof.
  revert outs; induction w as [|st w IH]; intros [|o outs]; simpl; intros Hl Hs; try discriminate.
  - split; [reflexivity|constructor].
  - pose proof (sent_outs_length w outs) as Hle. rewrite app_length in Hs.
    destruct st; simpl in Hs; try lia.
    destruct (IH outs) as [E F]; [lia|lia|]. simpl. rewrite E. split; [reflexivity|]. constructor; auto.
Qed.

Lemma sent_outs_call w outs i : nth_error w i = Some WInit -> sent_outs (upd i WCalled w) outs = sent_outs w outs.
Proof.
  revert outs i; induction w as [|st w IH]; intros outs [|i] H; simpl in *; try discriminate.
  - inversion H; subst. destruct outs; reflexivity.
  - destruct outs as [|o outs]; [reflexivity|]. now rewrite IH.
Qed.

Lemma sent_outs_send w outs i o : nth_error w i = Some WCalled -> nth_error outs i = Some o ->
  Permutation (sent_outs (upd i WSent w) outs) (o :: sent_outs w outs).
Proof.
  revert outs i; induction w as [|st w IH]; intros outs [|i] Hw Ho; simpl in *; try discriminate.
  - inversion Hw; subst. destruct outs as [|o' outs]; simpl in *; [discriminate|]. inversion Ho; subst. reflexivity.
  - destruct outs as [|o' outs]; simpl in *; [discriminate|].
    specialize (IH outs i Hw Ho).
    rewrite IH. destruct st; simpl; try reflexivity. apply perm_swap.
Qed.

Lemma sent_outs_pending w outs i : length w = length outs -> nth_error w i = Some WCalled ->
  length (sent_outs w outs) < length outs.
Proof.
  revert outs i; induction w as [|st w IH]; intros [|o outs] [|i] Hl H; simpl in *; try discriminate.
  - inversion H; subst. simpl. pose proof (sent_outs_length w outs). lia.
  - rewrite app_length. specialize (IH outs i ltac:(lia) H). destruct st; simpl; lia.
Qed.

Lemma items_of_app a b : items_of (a ++ b) = items_of a ++ items_of b.
Proof. unfold items_of. now rewrite flat_map_app. Qed.
Lemma fails_of_app a b : fails_of (a ++ b) = fails_of a ++ fails_of b.
Proof. unfold fails_of. now rewrite flat_map_app. Qed.

Lemma perm_items a b : Permutation a b -> Permutation (items_of a) (items_of b).
Proof.
  induction 1; simpl; auto.
  - unfold items_of in *; simpl. now apply Permutation_app_head.
  - unfold items_of; simpl. rewrite !app_assoc. apply Permutation_app_tail. apply Permutation_app_comm.
  - etransitivity; eauto.
Qed.
Lemma perm_fails a b : Permutation a b -> Permutation (fails_of a) (fails_of b).
Proof.
  induction 1; simpl; auto.
  - unfold fails_of in *; simpl. now apply Permutation_app_head.
  - unfold fails_of; simpl. rewrite !app_assoc. apply Permutation_app_tail. apply Permutation_app_comm.
  - etransitivity; eauto.
Qed.

Lemma in_fails e l : In (PFail e) l -> In e (fails_of l).
Proof.
  unfold fails_of. intros H. apply in_flat_map. exists (PFail e). split; [exact H|now left].
Qed.

Section Par.
  Variable keep : bool.
  Variable outs : list pres.
  Let n := length outs.

  Definition kept (recv : list pres) : list Z := if keep then items_of recv else [].

  Definition main_ok (m : mpc) (recv : list pres) : Prop :=
    match m with
    | MLoop k acc => k = length recv /\ fails_of recv = [] /\ acc = kept recv
    | MDone (PROk acc) => length recv = n /\ fails_of recv = [] /\ acc = kept recv
    | MDone (PRErr e) => In (PFail e) recv
    end.

  Definition PI (s : pstate) : Prop :=
    length (p_w s) = n /\
    Permutation (p_sentlog s) (sent_outs (p_w s) outs) /\
    exists recv, p_sentlog s = recv ++ p_chan s /\ length recv = p_recvd s /\ main_ok (p_main s) recv.

  Lemma PI_init : PI (p_init outs).
  Proof.
    unfold PI, p_init; simpl. split; [now rewrite map_length|]. split.
    - assert (E : forall l : list pres, sent_outs (map (fun _ => WInit) l) l = []) by (induction l; simpl; auto).
      rewrite E. constructor.
    - exists []. simpl. repeat split; auto. unfold kept. destruct keep; reflexivity.
  Qed.

  Lemma PI_step s l s' : PI s -> p_step (length outs) keep outs s l = Some s' -> PI s'.
  Proof.
    intros (Hl & Hp & recv & Hs & Hr & Hm) E.
    destruct s as [w ch m sl rc]; simpl in *.
    assert (Hlen : length recv + length ch <= n).
    { pose proof (sent_outs_length w outs) as Hle. pose proof (Permutation_length Hp) as Q.
      rewrite Hs, app_length in Q. lia. }
    destruct l as [i|i| |]; simpl in E.
    - (* PCall *)
      destruct (nth_error w i) as [[]|] eqn:Ew; try discriminate. inversion E; subst; clear E.
      unfold PI; simpl. rewrite upd_length. split; [exact Hl|]. split.
      + now rewrite sent_outs_call.
      + exists recv. auto.
    - (* PSend *)
      destruct (nth_error w i) as [[]|] eqn:Ew; try discriminate.
      destruct (nth_error outs i) as [o|] eqn:Eo; try discriminate.
      destruct (length ch <? length outs) eqn:Ec; try discriminate. inversion E; subst; clear E.
      unfold PI; simpl. rewrite upd_length. split; [exact Hl|]. split.
      + rewrite (sent_outs_send w outs i o Ew Eo). rewrite <- Hp.
        rewrite Permutation_app_comm. reflexivity.
      + exists recv. rewrite app_assoc. auto.
    - (* PRecv *)
      destruct m as [k acc|r]; try discriminate. destruct ch as [|r ch']; try discriminate.
      destruct (k <? length outs) eqn:Ek; try discriminate.
      destruct Hm as (Hk & Hf & Ha).
      destruct r as [z|e]; inversion E; subst; clear E; unfold PI; simpl; (split; [exact Hl|]); (split; [exact Hp|]).
      + exists (recv ++ [PItem z]). rewrite <- app_assoc. simpl. split; [reflexivity|].
        rewrite app_length. simpl. split; [lia|]. split; [lia|]. split.
        * rewrite fails_of_app, Hf. reflexivity.
        * unfold kept. rewrite items_of_app. destruct keep; reflexivity.
      + exists (recv ++ [PFail e]). rewrite <- app_assoc. simpl. split; [reflexivity|].
        rewrite app_length. simpl. split; [lia|]. apply in_or_app. right. now left.
    - (* PFinish *)
      destruct m as [k acc|r]; try discriminate.
      destruct (k <? length outs) eqn:Ek; try discriminate. inversion E; subst; clear E.
      apply Nat.ltb_ge in Ek. destruct Hm as (Hk & Hf & Ha).
      unfold PI; simpl. split; [exact Hl|]. split; [exact Hp|]. exists recv. repeat split; auto.
      (* length recv = n: it is >= n by the loop condition and <= n because at most n results were ever sent *)
      unfold n in *. lia.
  Qed.

  Lemma PI_run sched : PI (run (p_step (length outs) keep outs) (p_init outs) sched).
  Proof. apply (inv_run (p_step (length outs) keep outs) PI PI_step). exact PI_init. Qed.

  (* ---- consequences of the invariant ---- *)

  (* a goroutine that has its result is never blocked on the send: the buffer has room *)
  Lemma PI_send_enabled s i : PI s -> nth_error (p_w s) i = Some WCalled -> p_step (length outs) keep outs s (PSend i) <> None.
  Proof.
    intros (Hl & Hp & recv & Hs & Hr & Hm) Hw.
    destruct s as [w ch m sl rc]; simpl in *. rewrite Hw.
    assert (Hi : i < length w) by (apply nth_error_Some; congruence).
    destruct (nth_error outs i) as [o|] eqn:Eo.
    2:{ apply nth_error_None in Eo. unfold n in Hl. lia. }
    pose proof (sent_outs_pending w outs i Hl Hw) as Hlt.
    apply Permutation_length in Hp. rewrite Hs, app_length in Hp.
    assert (length ch < length outs) by lia.
    apply Nat.ltb_lt in H. rewrite H. discriminate.
  Qed.

  (* what is returned *)
  Lemma PI_result s r : PI s -> p_main s = MDone r -> par_allowed keep outs r.
  Proof.
    intros (Hl & Hp & recv & Hs & Hr & Hm) Em. rewrite Em in Hm.
    destruct r as [acc|e]; simpl in *.
    - destruct Hm as (Hn & Hf & Ha).
      pose proof (sent_outs_length (p_w s) outs) as Hle.
      pose proof (Permutation_length Hp) as Hpl. rewrite Hs, app_length in Hpl.
      assert (Ech : p_chan s = []) by (destruct (p_chan s); [reflexivity|simpl in Hpl; unfold n in *; lia]).
      rewrite Ech, app_nil_r in Hs. rewrite Ech in Hpl. simpl in Hpl.
      destruct (sent_outs_full (p_w s) outs Hl) as [Efull _]; [unfold n in *; lia|].
      rewrite Efull, Hs in Hp.
      split.
      + pose proof (perm_fails _ _ Hp) as Q. rewrite Hf in Q. apply Permutation_nil in Q. exact Q.
      + subst acc. unfold kept. destruct keep; [|reflexivity]. now apply perm_items.
    - apply in_fails. apply (sent_outs_In (p_w s)). rewrite <- Hp. rewrite Hs. apply in_or_app. now left.
  Qed.

  (* a state in which nothing can move is final: every goroutine has sent (so has been invoked, once) and the caller
     has returned *)
  Lemma PI_quiescent_final s : PI s -> (forall l, p_step (length outs) keep outs s l = None) -> p_final s.
  Proof.
    intros HI Hq.
    pose proof HI as (Hl & Hp & recv & Hs & Hr & Hm).
    assert (Hall : Forall (fun st => st = WSent) (p_w s)).
    { apply Forall_forall. intros st Hin. apply In_nth_error in Hin. destruct Hin as [i Hi].
      destruct st; [| |reflexivity].
      - specialize (Hq (PCall i)). destruct s as [w ch m sl rc]; simpl in *. rewrite Hi in Hq. discriminate.
      - exfalso. exact (PI_send_enabled s i HI Hi (Hq (PSend i))). }
    split; [exact Hall|].
    destruct (p_main s) as [k acc|r] eqn:Em; [|now exists r]. exfalso.
    destruct Hm as (Hk & Hf & Ha).
    destruct (k <? length outs) eqn:Ek.
    - (* still receiving: the channel cannot be empty, all n results have been sent and only k < n received *)
      assert (Hfull : length (sent_outs (p_w s) outs) = length outs).
      { clear -Hall Hl. unfold n in Hl. revert Hl. generalize outs. induction (p_w s) as [|st w IH]; intros [|o os] Hl; simpl in *; try discriminate; auto.
        inversion Hall; subst. simpl. f_equal. apply IH; auto. }
      apply Permutation_length in Hp. rewrite Hs, app_length, Hfull in Hp.
      apply Nat.ltb_lt in Ek.
      destruct (p_chan s) as [|r ch'] eqn:Ech; [simpl in Hp; lia|].
      specialize (Hq PRecv). destruct s as [w ch m sl rc]; simpl in *. subst m ch.
      apply Nat.ltb_lt in Ek. rewrite Ek in Hq. destruct r; discriminate.
    - specialize (Hq PFinish). destruct s as [w ch m sl rc]; simpl in *. subst m. rewrite Ek in Hq. discriminate.
  Qed.

  (* ---- termination: a variant that decreases on every step ---- *)
  Definition w_rank (st : wst) : nat := match st with WInit => 2 | WCalled => 1 | WSent => 0 end.
  Fixpoint ws_rank (w : list wst) : nat := match w with [] => 0 | st :: r => w_rank st + ws_rank r end.
  Definition p_rank (s : pstate) : nat :=
    ws_rank (p_w s) + match p_main s with MLoop k _ => 1 + (n - k) | MDone _ => 0 end.

  Lemma ws_rank_upd w i st st' : nth_error w i = Some st -> w_rank st' < w_rank st ->
    ws_rank (upd i st' w) < ws_rank w.
  Proof.
    revert i; induction w as [|x w IH]; intros [|i] H Hlt; simpl in *; try discriminate.
    - inversion H; subst. lia.
    - specialize (IH i H Hlt). lia.
  Qed.

  Lemma p_rank_step s l s' : p_step (length outs) keep outs s l = Some s' -> p_rank s' < p_rank s.
  Proof.
    destruct s as [w ch m sl rc]. unfold p_rank. destruct l as [i|i| |]; simpl; intros E.
    - destruct (nth_error w i) as [[]|] eqn:Ew; try discriminate. inversion E; subst; simpl.
      pose proof (ws_rank_upd w i WInit WCalled Ew ltac:(simpl; lia)). lia.
    - destruct (nth_error w i) as [[]|] eqn:Ew; try discriminate.
      destruct (nth_error outs i); try discriminate. destruct (length ch <? length outs); try discriminate.
      inversion E; subst; simpl.
      pose proof (ws_rank_upd w i WCalled WSent Ew ltac:(simpl; lia)). lia.
    - destruct m as [k acc|r]; try discriminate. destruct ch as [|r ch']; try discriminate.
      destruct (k <? length outs) eqn:Ek; try discriminate. apply Nat.ltb_lt in Ek.
      destruct r; inversion E; subst; simpl; unfold n; lia.
    - destruct m as [k acc|r]; try discriminate. destruct (k <? length outs); try discriminate.
      inversion E; subst; simpl. lia.
  Qed.

  Lemma p_rank_init : p_rank (p_init outs) = 3 * n + 1.
  Proof.
    unfold p_rank, p_init; simpl. unfold n.
    assert (E : forall l : list pres, ws_rank (map (fun _ => WInit) l) = 2 * length l) by (induction l; simpl; lia).
    rewrite E. lia.
  Qed.

  Lemma p_steps_bounded sched : effective (p_step (length outs) keep outs) (p_init outs) sched <= 3 * n + 1.
  Proof.
    pose proof (effective_bounded (p_step (length outs) keep outs) (fun _ => True) (fun _ _ _ _ _ => I) p_rank
                  (fun s t s' _ E => p_rank_step s t s' E) sched (p_init outs) I) as H.
    rewrite p_rank_init in H. lia.
  Qed.
End Par.

(* ---- the statements used by Props.v ---- *)

Lemma parallelise_once_each_n : forall keep outs sched,
  let s := run (p_step (length outs) keep outs) (p_init outs) sched in
  (* at any instant: no argument's action has been invoked more than once, nobody is blocked on the send *)
  (length (p_w s) = length outs /\ Forall (fun st => calls_of st <= 1) (p_w s) /\
   forall i, nth_error (p_w s) i = Some WCalled -> p_step (length outs) keep outs s (PSend i) <> None) /\
  (* whenever Parallelise has returned r, r is allowed *)
  (forall r, p_main s = MDone r -> par_allowed keep outs r) /\
  (* when nothing can move any more: every action has been invoked exactly once, every goroutine has finished,
     Parallelise has returned *)
  ((forall l, p_step (length outs) keep outs s l = None) ->
     Forall (fun st => st = WSent /\ calls_of st = 1) (p_w s) /\ exists r, p_main s = MDone r /\ par_allowed keep outs r).
Proof.
  intros keep outs sched s. pose proof (PI_run keep outs sched) as HI. fold s in HI.
  split; [|split].
  - split; [exact (proj1 HI)|]. split.
    + apply Forall_forall. intros [] _; simpl; lia.
    + intros i Hi. exact (PI_send_enabled keep outs s i HI Hi).
  - intros r Hr. exact (PI_result keep outs s r HI Hr).
  - intros Hq. destruct (PI_quiescent_final keep outs s HI Hq) as [Hall [r Hr]].
    split; [|exists r; split; [exact Hr|exact (PI_result keep outs s r HI Hr)]].
    eapply Forall_impl; [|exact Hall]. intros st ->. split; reflexivity.
Qed.

Lemma parallelise_terminates_n : forall keep outs sched,
  effective (p_step (length outs) keep outs) (p_init outs) sched <= 3 * length outs + 1.
Proof. intros. apply p_steps_bounded. Qed.

(* ... for the channel capacity GENERATED from the source: the statements above need capacity = number of arguments
   (with a smaller buffer a sender stays blocked after an early error return); [par_cap gen_facts n] must compute to n *)
Lemma gen_cap_is_len : forall n, par_cap gen_facts n = n.
Proof. reflexivity. Qed.

Lemma parallelise_once_each_l : forall keep outs sched,
  let cap := par_cap gen_facts (length outs) in
  let s := run (p_step cap keep outs) (p_init outs) sched in
  (length (p_w s) = length outs /\ Forall (fun st => calls_of st <= 1) (p_w s) /\
   forall i, nth_error (p_w s) i = Some WCalled -> p_step cap keep outs s (PSend i) <> None) /\
  (forall r, p_main s = MDone r -> par_allowed keep outs r) /\
  ((forall l, p_step cap keep outs s l = None) ->
     Forall (fun st => st = WSent /\ calls_of st = 1) (p_w s) /\ exists r, p_main s = MDone r /\ par_allowed keep outs r).
Proof. intros keep outs sched. cbv zeta. rewrite gen_cap_is_len. exact (parallelise_once_each_n keep outs sched). Qed.

Lemma parallelise_terminates_l : forall keep outs sched,
  effective (p_step (par_cap gen_facts (length outs)) keep outs) (p_init outs) sched <= 3 * length outs + 1.
Proof. intros. rewrite gen_cap_is_len. apply parallelise_terminates_n. Qed.

(* the executable check used by the correspondence accepts everything the property allows: an implementation result it
   rejects is outside [par_allowed] *)
Lemma par_allowedb_complete keep outs r : par_allowed keep outs r -> par_allowedb keep outs r = true.
Proof.
  destruct r as [items|e]; simpl.
  - intros [Hf Hp]. rewrite Hf. destruct keep; [|subst; reflexivity].
    unfold same_multiset. apply forallb_forall. intros x _. apply Nat.eqb_eq.
    now apply (proj1 (Permutation_count_occ Z.eq_dec items (items_of outs))).
  - intros H. apply existsb_exists. exists e. split; [exact H|apply Z.eqb_refl].
Qed.
