(* C12 — minimal generic interleaving semantics used by the runner models (GU.C12.Model).

   A system is a partial step function  step : state -> label -> option state ; a label names one atomic action
   of one thread (or of the environment: timer, parent context, the action's own decisions).  [None] means the
   action is not enabled in that state (the thread is blocked or is not at that point); a schedule is ANY list of
   labels, a disabled entry is skipped (stutter).  Hence "for all schedules" quantifies over every interleaving
   and every resolution of every non-deterministic choice (select with several ready cases = several labels
   enabled in the same state).

   Provided here (all generic, all proved, no axioms):
     - [run], [reachable], the invariant rule [inv_run];
     - bounded termination: a variant that strictly decreases on every effective step bounds the number of
       effective steps of every schedule ([effective_bounded]);
     - termination under weak fairness for INFINITE schedules ([fair_terminates]): if no reachable unfinished state
       is without an enabled *guaranteed* action, every weakly fair infinite schedule reaches a finished state;
     - an executable exploration [outcomes] of all maximal runs with completeness [outcomes_complete] and
       soundness [outcomes_sound]. *)
From Coq Require Import List Arith Lia Bool.
Import ListNotations.

Section Conc.
  Context {state label : Type}.
  Variable step : state -> label -> option state.

  Fixpoint run (s : state) (sched : list label) : state :=
    match sched with
    | [] => s
    | t :: r => match step s t with Some s' => run s' r | None => run s r end
    end.

  Definition reachable (s0 s : state) : Prop := exists sched, run s0 sched = s.

  Lemma run_app s a b : run s (a ++ b) = run (run s a) b.
  Proof. revert s; induction a as [|t a IH]; intros s; simpl; [reflexivity|]. destruct (step s t); apply IH. Qed.

  (* number of effective (non-stuttering) steps of a schedule *)
  Fixpoint effective (s : state) (sched : list label) : nat :=
    match sched with
    | [] => 0
    | t :: r => match step s t with Some s' => S (effective s' r) | None => effective s r end
    end.

  Section Rules.
    Variable I : state -> Prop.
    Hypothesis I_step : forall s t s', I s -> step s t = Some s' -> I s'.

    (* invariant rule: by induction on the schedule *)
    Lemma inv_run : forall sched s, I s -> I (run s sched).
    Proof.
      induction sched as [|t r IH]; intros s Hs; simpl; [exact Hs|].
      destruct (step s t) eqn:E; [apply IH; eapply I_step; eauto | apply IH; exact Hs].
    Qed.

    Lemma inv_reachable s0 s : I s0 -> reachable s0 s -> I s.
    Proof. intros H [sched <-]. now apply inv_run. Qed.

    Variable V : state -> nat.
    Hypothesis V_step : forall s t s', I s -> step s t = Some s' -> V s' < V s.

    Lemma effective_bounded : forall sched s, I s -> effective s sched + V (run s sched) <= V s.
    Proof.
      induction sched as [|t r IH]; intros s Hs; simpl; [lia|].
      destruct (step s t) eqn:E.
      - specialize (IH s0 (I_step _ _ _ Hs E)). specialize (V_step _ _ _ Hs E). lia.
      - apply IH; exact Hs.
    Qed.

    (* ---------- weak fairness over infinite schedules ---------- *)
    Variable finished : state -> bool.
    Variable G : state -> label -> bool.      (* guaranteed actions: will happen if they stay enabled *)
    Hypothesis progress : forall s, I s -> finished s = false -> exists t, G s t = true /\ step s t <> None.

    Fixpoint prefix (sigma : nat -> label) (k : nat) : list label :=
      match k with 0 => [] | S k' => prefix sigma k' ++ [sigma k'] end.

    Definition state_at s0 sigma k := run s0 (prefix sigma k).

    (* every guaranteed action that is enabled at instant k is, at some later instant, either taken or no
       longer (guaranteed and) enabled *)
    Definition weakly_fair (s0 : state) (sigma : nat -> label) : Prop :=
      forall t k, exists k', k <= k' /\
        (sigma k' = t \/ G (state_at s0 sigma k') t = false \/ step (state_at s0 sigma k') t = None).

    Lemma state_at_S s0 sigma k :
      state_at s0 sigma (S k) = match step (state_at s0 sigma k) (sigma k) with
                                | Some s' => s' | None => state_at s0 sigma k end.
    Proof. unfold state_at; simpl. rewrite run_app. simpl. destruct (step _ _); reflexivity. Qed.

    Lemma state_at_inv s0 sigma k : I s0 -> I (state_at s0 sigma k).
    Proof. intros; now apply inv_run. Qed.

    Lemma V_mono s0 sigma : I s0 -> forall k d, V (state_at s0 sigma (k + d)) <= V (state_at s0 sigma k).
    Proof.
      intros H0 k d; induction d as [|d IH]; [rewrite Nat.add_0_r; lia|].
      rewrite Nat.add_succ_r, state_at_S. destruct (step _ _) eqn:E; [|exact IH].
      pose proof (V_step _ _ _ (state_at_inv s0 sigma (k + d) H0) E). lia.
    Qed.

    (* between k and k+d: either the state did not move, or the variant went down *)
    Lemma still_or_down s0 sigma : I s0 -> forall k d,
      state_at s0 sigma (k + d) = state_at s0 sigma k \/ V (state_at s0 sigma (k + d)) < V (state_at s0 sigma k).
    Proof.
      intros H0 k d; induction d as [|d IH]; [left; now rewrite Nat.add_0_r|].
      rewrite Nat.add_succ_r, state_at_S. destruct (step _ _) eqn:E.
      - right. pose proof (V_step _ _ _ (state_at_inv s0 sigma (k + d) H0) E).
        pose proof (V_mono s0 sigma H0 k d). lia.
      - exact IH.
    Qed.

    Theorem fair_terminates s0 sigma :
      I s0 -> weakly_fair s0 sigma -> exists k, finished (state_at s0 sigma k) = true.
    Proof.
      intros H0 Hf.
      assert (L : forall n k, V (state_at s0 sigma k) < n -> exists k', finished (state_at s0 sigma k') = true).
      { induction n as [|n IH]; intros k Hk; [lia|].
        destruct (finished (state_at s0 sigma k)) eqn:Fk; [now exists k|].
        destruct (progress _ (state_at_inv s0 sigma k H0) Fk) as [t [Gt En]].
        destruct (Hf t k) as [k' [Hle Hk']].
        replace k' with (k + (k' - k)) in Hk' by lia.
        destruct (still_or_down s0 sigma H0 k (k' - k)) as [Same|Down].
        - rewrite Same in Hk'. destruct Hk' as [Hs|[Hg|Hn]]; [|congruence|contradiction].
          (* the guaranteed action is scheduled in an unchanged state: it is effective *)
          apply (IH (S (k + (k' - k)))). rewrite state_at_S, Same, Hs.
          destruct (step (state_at s0 sigma k) t) eqn:E; [|contradiction].
          pose proof (V_step _ _ _ (state_at_inv s0 sigma k H0) E). lia.
        - apply (IH (k + (k' - k))). lia. }
      apply (L (S (V (state_at s0 sigma 0))) 0). lia.
    Qed.

    (* ---------- executable exploration of all maximal runs ---------- *)
    Variable labels : list label.
    Hypothesis labels_all : forall s t s', step s t = Some s' -> In t labels.
    Context {obs : Type}.
    Variable observe : state -> obs.

    Definition quiescent (s : state) : Prop := forall t, step s t = None.

    Definition succs (s : state) : list state :=
      flat_map (fun t => match step s t with Some s' => [s'] | None => [] end) labels.

    (* outcomes of all maximal runs from s (any fuel >= V s is enough, see [outcomes_complete]); [fuel_ok] tells
       whether the fuel sufficed (always, with fuel >= V s: [fuel_ok_enough]) *)
    Fixpoint outcomes (fuel : nat) (s : state) : list obs :=
      match succs s with
      | [] => [observe s]
      | s1 :: ss => match fuel with
                    | 0 => []
                    | S f => flat_map (outcomes f) (s1 :: ss)
                    end
      end.

    Fixpoint fuel_ok (fuel : nat) (s : state) : bool :=
      match succs s with
      | [] => true
      | s1 :: ss => match fuel with
                    | 0 => false
                    | S f => forallb (fuel_ok f) (s1 :: ss)
                    end
      end.

    Lemma outcomes_S f s : outcomes (S f) s =
      match succs s with [] => [observe s] | s1 :: ss => flat_map (outcomes f) (s1 :: ss) end.
    Proof. reflexivity. Qed.
    Lemma fuel_ok_S f s : fuel_ok (S f) s =
      match succs s with [] => true | s1 :: ss => forallb (fuel_ok f) (s1 :: ss) end.
    Proof. reflexivity. Qed.

    Lemma succs_nil_quiescent s : succs s = [] -> quiescent s.
    Proof.
      intros H t. destruct (step s t) eqn:E; [|reflexivity].
      assert (Hin : In s0 (succs s)).
      { unfold succs. apply in_flat_map. exists t. split; [eapply labels_all; eauto|]. rewrite E. now left. }
      rewrite H in Hin. destruct Hin.
    Qed.

    Lemma in_succs s t s' : step s t = Some s' -> In s' (succs s).
    Proof.
      intros E. unfold succs. apply in_flat_map. exists t. split; [eapply labels_all; eauto|]. rewrite E. now left.
    Qed.

    Lemma succs_inv s s' : In s' (succs s) -> exists t, step s t = Some s'.
    Proof.
      unfold succs. intros H. apply in_flat_map in H. destruct H as [t [_ Ht]].
      destruct (step s t) eqn:E; [|destruct Ht]. destruct Ht as [<-|[]]. now exists t.
    Qed.

    (* completeness: the outcome of EVERY schedule that ends in a quiescent state is listed *)
    Lemma outcomes_complete : forall sched s fuel, I s -> V s <= fuel -> quiescent (run s sched) ->
      In (observe (run s sched)) (outcomes fuel s).
    Proof.
      induction sched as [|t r IH]; intros s fuel Hs Hv Hq; simpl in Hq |- *.
      - assert (E : succs s = []).
        { destruct (succs s) eqn:E; [reflexivity|].
          assert (Hin : In s0 (succs s)) by (rewrite E; now left).
          apply succs_inv in Hin. destruct Hin as [t Ht]. rewrite (Hq t) in Ht. discriminate. }
        destruct fuel; simpl; rewrite E; now left.
      - destruct (step s t) eqn:E; [|now apply IH].
        pose proof (V_step _ _ _ Hs E) as Hd.
        destruct fuel as [|f]; [lia|].
        pose proof (in_succs _ _ _ E) as Hin.
        rewrite outcomes_S. destruct (succs s) eqn:Es; [destruct Hin|].
        apply in_flat_map. exists s0. split; [exact Hin|].
        apply IH; [eapply I_step; eauto | lia | exact Hq].
    Qed.

    (* with fuel >= V s the exploration never runs out of fuel *)
    Lemma fuel_ok_enough : forall fuel s, I s -> V s <= fuel -> fuel_ok fuel s = true.
    Proof.
      induction fuel as [|f IH]; intros s Hs Hv.
      - simpl. destruct (succs s) eqn:E; [reflexivity|].
        assert (Hin : In s0 (succs s)) by (rewrite E; now left).
        apply succs_inv in Hin. destruct Hin as [t Et]. pose proof (V_step _ _ _ Hs Et). lia.
      - rewrite fuel_ok_S. destruct (succs s) eqn:E; [reflexivity|].
        apply forallb_forall. intros s' Hin. rewrite <- E in Hin.
        apply succs_inv in Hin. destruct Hin as [t Et].
        apply IH; [eapply I_step; eauto|]. pose proof (V_step _ _ _ Hs Et). lia.
    Qed.

    (* soundness: every listed outcome is the observation of a reachable quiescent state *)
    Lemma outcomes_sound : forall fuel s o, In o (outcomes fuel s) ->
      exists sched, quiescent (run s sched) /\ observe (run s sched) = o.
    Proof.
      induction fuel as [|f IH]; intros s o Hin.
      - simpl in Hin. destruct (succs s) eqn:E; [|destruct Hin]. destruct Hin as [<-|[]].
        exists []. split; [now apply succs_nil_quiescent | reflexivity].
      - rewrite outcomes_S in Hin. destruct (succs s) eqn:E.
        + destruct Hin as [<-|[]]. exists []. split; [now apply succs_nil_quiescent | reflexivity].
        + apply in_flat_map in Hin. destruct Hin as [s' [Hs' Ho]]. rewrite <- E in Hs'.
          apply succs_inv in Hs'. destruct Hs' as [t Et].
          destruct (IH _ _ Ho) as [sched [Hq Hob]]. exists (t :: sched). simpl. rewrite Et. now split.
    Qed.
  End Rules.
End Conc.

Arguments outcomes {state label} step labels {obs} observe fuel s.
Arguments fuel_ok {state label} step labels fuel s.
Arguments succs {state label} step labels s.
