(* C12 — proofs about the CancelFunctionStore model (s_* of GU.C12.Model): any number of goroutines, any programs of
   Register / Cancel / Len calls, every schedule.  The append of Register is modelled as a NON-atomic read-then-write, so
   the write lock matters: without exclusion two registrations could overwrite each other. *)
From Coq Require Import List ZArith Bool Arith Lia.
Import ListNotations.
From GU Require Import C12.Conc C12.Facts C12.Gen C12.Model.

Lemma nth_error_upd {A} (l : list A) i j x :
  nth_error (upd i x l) j = if (j =? i) then (match nth_error l i with Some _ => Some x | None => None end) else nth_error l j.
Proof.
  revert i j; induction l as [|y l IH]; intros [|i] [|j]; simpl; auto; destruct (j =? i); reflexivity.
Qed.

(* a goroutine inside the write-locked section of Register *)
Definition insec (th : thread) : bool :=
  match th_pc th with SRegRead _ | SRegWrite _ _ | SRegUnlock _ => true | _ => false end.

Fixpoint wsec (l : list thread) : nat :=
  match l with [] => 0 | th :: r => (if insec th then 1 else 0) + wsec r end.

Lemma wsec_upd l i th th' : nth_error l i = Some th ->
  wsec (upd i th' l) + (if insec th then 1 else 0) = wsec l + (if insec th' then 1 else 0).
Proof.
  revert i; induction l as [|y l IH]; intros [|i] H; simpl in *; try discriminate.
  - inversion H; subst. lia.
  - specialize (IH i H). lia.
Qed.

Lemma wsec_zero l : wsec l = 0 -> forall j th, nth_error l j = Some th -> insec th = false.
Proof.
  induction l as [|y l IH]; intros H [|j] th E; simpl in *; try discriminate.
  - inversion E; subst. destruct (insec th); [lia|reflexivity].
  - apply (IH ltac:(destruct (insec y); lia) j th E).
Qed.

Lemma wsec_ge l i th : nth_error l i = Some th -> insec th = true -> 1 <= wsec l.
Proof.
  revert i; induction l as [|z l IH]; intros [|i] H Hin; simpl in *; try discriminate.
  - inversion H; subst. rewrite Hin. lia.
  - specialize (IH i H Hin). lia.
Qed.

Lemma wsec_others l i th : nth_error l i = Some th -> insec th = true -> wsec l <= 1 ->
  forall j th2, j <> i -> nth_error l j = Some th2 -> insec th2 = false.
Proof.
  revert i; induction l as [|y l IH]; intros [|i] H Hin Hle [|j] th2 Hne E; simpl in *; try discriminate; try congruence.
  - inversion H; subst. rewrite Hin in Hle. apply (wsec_zero l ltac:(lia) j th2 E).
  - inversion E; subst. destruct (insec th2) eqn:X; [|reflexivity].
    (* th2 at the head is in the section and so is th further down: two in the section *)
    exfalso. pose proof (wsec_ge l i th H Hin). lia.
  - apply (IH i H Hin ltac:(destruct (insec y); lia) j th2 ltac:(congruence) E).
Qed.

(* ---------- the invariant ---------- *)
Definition th_ok (s : sstate) (th : thread) : Prop :=
  match th_pc th with
  | SRegWrite f seen => seen = s_fns s                       (* what it read is still the current slice *)
  | SRegUnlock fs => incl fs (s_fns s)                       (* its functions are in the slice *)
  | SCanWant => incl (th_must th) (s_regdone s)
  | SCanLoop todo => incl (th_must th) (th_called th ++ todo)
  | _ => True
  end.

Definition SI (s : sstate) : Prop :=
  incl (s_regdone s) (s_fns s) /\
  wsec (s_threads s) = (if s_writer s then 1 else 0) /\
  (forall j th, nth_error (s_threads s) j = Some th -> th_ok s th) /\
  (forall must called, In (must, called) (s_cancels s) -> incl must called).

Lemma SI_init progs : SI (s_init progs).
Proof.
  unfold SI, s_init; simpl. split; [intros x []|]. split.
  - induction progs; simpl; auto.
  - split.
    + intros j th H. apply nth_error_In in H. apply in_map_iff in H. destruct H as [p [<- _]]. exact I.
    + intros ? ? [].
Qed.

Section Store.
  (* the facts the proof needs: Register holds the WRITE lock around its read-then-write of the slice, and copies its
     arguments; both are discharged for [gen_facts] by computation at the end of this file *)
  Variable f : facts.
  Hypothesis Hlock : f_reg_lock f = LLock.
  Hypothesis Hcopy : f_reg_copies f = true.

Lemma incl_app_l {A} (a b c : list A) : incl a b -> incl a (b ++ c).
Proof. intros H x Hx. apply in_or_app. left. auto. Qed.

Lemma SI_step s i s' : SI s -> s_step f s i = Some s' -> SI s'.
Proof.
  intros (HA & HW & HT & HC) E. unfold s_step in E.
  destruct (nth_error (s_threads s) i) as [th|] eqn:Ei; [|discriminate].
  destruct (th_step f s th) as [[s1 th']|] eqn:Est; [|discriminate]. inversion E; subst s'; clear E.
  pose proof (HT i th Ei) as Hth.
  pose proof (wsec_upd (s_threads s) i th th' Ei) as HU.
  destruct s as [fns wr rd ths rdn cs]. destruct th as [ops pc must called outs]. simpl in *.
  (* the obligations about the OTHER goroutines, given what changed in the shared state *)
  assert (others : forall (P : thread -> Prop),
            P th' -> (forall j th2, j <> i -> nth_error ths j = Some th2 -> P th2) ->
            forall j th2, nth_error (upd i th' ths) j = Some th2 -> P th2).
  { intros P H1 H2 j th2 Hj. rewrite nth_error_upd in Hj. destruct (j =? i) eqn:Eji.
    - rewrite Ei in Hj. inversion Hj; subst. exact H1.
    - apply Nat.eqb_neq in Eji. eauto. }
  unfold th_ok in Hth; simpl in Hth.
  destruct pc as [|fs|fs|fs seen|fs| |todo| |n]; simpl in Est; rewrite ?Hlock, ?Hcopy in Est.
  - (* SIdle: the next call starts *)
    destruct ops as [|[fs| | |] r]; try discriminate; inversion Est; subst; clear Est; unfold SI; simpl;
      (split; [exact HA|]); (split; [unfold insec in *; simpl in *; lia|]); (split; [|exact HC]);
      apply others; unfold th_ok; simpl; auto; try apply incl_refl;
      intros j th2 _ Hj; exact (HT j th2 Hj).
  - (* SRegWant: Lock *)
    destruct (negb wr && (rd =? 0)) eqn:Eg; [|discriminate]. inversion Est; subst; clear Est.
    apply andb_true_iff in Eg. destruct Eg as [Eg _]. apply negb_true_iff in Eg. subst wr.
    unfold SI; simpl. split; [exact HA|]. split; [unfold insec in *; simpl in *; lia|]. split; [|exact HC].
    apply others; unfold th_ok; simpl; auto. intros j th2 _ Hj; exact (HT j th2 Hj).
  - (* SRegRead *)
    inversion Est; subst; clear Est. unfold SI; simpl. split; [exact HA|].
    split; [unfold insec in *; simpl in *; lia|]. split; [|exact HC].
    apply others; unfold th_ok; simpl; auto. intros j th2 _ Hj; exact (HT j th2 Hj).
  - (* SRegWrite: the slice is replaced by seen ++ [f] = fns ++ [f]; nobody else is in the section *)
    subst seen. inversion Est; subst; clear Est.
    assert (Hle : wsec ths <= 1) by (destruct wr; lia).
    pose proof (wsec_others ths i _ Ei eq_refl Hle) as Hoth.
    unfold SI; simpl. split; [now apply incl_app_l|].
    split; [unfold insec in *; simpl in *; lia|]. split; [|exact HC].
    apply others; unfold th_ok; simpl; [apply incl_appr, incl_refl|].
    intros j th2 Hne Hj. specialize (HT j th2 Hj). specialize (Hoth j th2 Hne Hj).
    unfold th_ok in *; simpl in *. unfold insec in Hoth.
    destruct (th_pc th2); try discriminate; auto.
  - (* SRegUnlock: Register(f) has returned; the lock was held (this goroutine is in the section) *)
    inversion Est; subst; clear Est.
    pose proof (wsec_ge ths i _ Ei eq_refl) as Hge.
    assert (wr = true) by (destruct wr; [reflexivity|lia]). subst wr.
    unfold SI; simpl. split.
    { apply incl_app; [exact Hth|exact HA]. }
    split; [unfold insec in *; simpl in *; lia|]. split; [|exact HC].
    apply others; unfold th_ok; simpl; auto.
    intros j th2 _ Hj. specialize (HT j th2 Hj). unfold th_ok in *; simpl in *.
    destruct (th_pc th2); auto. now apply incl_appr.
  - (* SCanWant: RLock; the range expression is evaluated: everything registered so far *)
    destruct (negb wr) eqn:Eg; [|discriminate]. inversion Est; subst; clear Est.
    unfold SI; simpl. split; [exact HA|]. split; [unfold insec in *; simpl in *; lia|]. split; [|exact HC].
    apply others; unfold th_ok; simpl.
    + apply incl_appr. intros x Hx. apply HA. now apply Hth.
    + intros j th2 _ Hj; exact (HT j th2 Hj).
  - (* SCanLoop *)
    destruct todo as [|g todo]; inversion Est; subst; clear Est; unfold SI; simpl.
    + (* RUnlock, Cancel returns: everything it had to call has been called *)
      split; [exact HA|]. split; [unfold insec in *; simpl in *; lia|]. split.
      * apply others; unfold th_ok; simpl; auto. intros j th2 _ Hj; exact (HT j th2 Hj).
      * intros m c [H|H]; [|now apply HC]. inversion H; subst. rewrite app_nil_r in Hth. exact Hth.
    + split; [exact HA|]. split; [unfold insec in *; simpl in *; lia|]. split; [|exact HC].
      apply others; unfold th_ok; simpl.
      * rewrite <- app_assoc. exact Hth.
      * intros j th2 _ Hj; exact (HT j th2 Hj).
  - (* SLenWant *)
    destruct (negb wr) eqn:Eg; [|discriminate]. inversion Est; subst; clear Est.
    unfold SI; simpl. split; [exact HA|]. split; [unfold insec in *; simpl in *; lia|]. split; [|exact HC].
    apply others; unfold th_ok; simpl; auto. intros j th2 _ Hj; exact (HT j th2 Hj).
  - (* SLenUnlock *)
    inversion Est; subst; clear Est.
    unfold SI; simpl. split; [exact HA|]. split; [unfold insec in *; simpl in *; lia|]. split; [|exact HC].
    apply others; unfold th_ok; simpl; auto. intros j th2 _ Hj; exact (HT j th2 Hj).
Qed.

Lemma SI_run progs sched : SI (run (s_step f) (s_init progs) sched).
Proof. apply (inv_run (s_step f) SI SI_step). apply SI_init. Qed.
End Store.

(* ---- the statement used by Props.v: for the GENERATED facts ---- *)
Lemma gen_register_locks_and_copies : f_reg_lock gen_facts = LLock /\ f_reg_copies gen_facts = true.
Proof. split; reflexivity. Qed.

Lemma cancel_store_complete_l : forall progs sched,
  let s := run (s_step gen_facts) (s_init progs) sched in
  (* every function whose Register had returned when a Cancel was called has been invoked by that Cancel when it returns *)
  (forall must called, In (must, called) (s_cancels s) -> incl must called) /\
  (* no registration that has returned is ever lost from the slice (whatever the callers do to their slices afterwards) *)
  incl (s_regdone s) (s_fns s) /\
  (* a Cancel in progress still has everything it owes ahead of it *)
  (forall j th todo, nth_error (s_threads s) j = Some th -> th_pc th = SCanLoop todo ->
     incl (th_must th) (th_called th ++ todo)).
Proof.
  intros progs sched s.
  destruct (SI_run gen_facts (proj1 gen_register_locks_and_copies) (proj2 gen_register_locks_and_copies) progs sched) as (HA & _ & HT & HC).
  fold s in HA, HT, HC.
  split; [exact HC|]. split; [exact HA|].
  intros j th todo Hj Hpc. specialize (HT j th Hj). unfold th_ok in HT. rewrite Hpc in HT. exact HT.
Qed.

(* why the facts matter: with a READ lock in Register two registrations can interleave their read-then-write and one is
   lost; without the copy, the caller's later writes reach the store *)
Lemma register_under_rlock_loses_a_function :
  let f := mkFacts 1 1 [] [] true true true true true 1 [] [] [] SrcErr true CapLen LRLock true LRLock LRLock in
  let s := run (s_step f) (s_init [[SReg [1]]; [SReg [2]]]) [0; 1; 0; 1; 0; 1; 0; 1; 0; 1] in
  s_regdone s = [2; 1] /\ s_fns s = [2].
Proof. split; reflexivity. Qed.

Lemma register_without_copy_loses_functions :
  let f := mkFacts 1 1 [] [] true true true true true 1 [] [] [] SrcErr true CapLen LLock false LRLock LRLock in
  let s := run (s_step f) (s_init [[SReg [1; 2]; SScribble]]) [0; 0; 0; 0; 0; 0] in
  s_regdone s = [1; 2] /\ s_fns s = [].
Proof. split; reflexivity. Qed.
