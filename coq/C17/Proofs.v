(* C17 — lemmas.  See Props.v for the property theorems. *)
From Coq Require Import List ZArith Bool Lia Sorted.
Import ListNotations.
From GU Require Import C17.Model.
Local Open Scope Z_scope.

(* ------------------------------------------------------------------------------------------------ *)
(* millisecond truncation                                                                            *)

Lemma ms_pos : 0 < ms. Proof. reflexivity. Qed.

Lemma millis_mono a b : a <= b -> millis a <= millis b.
Proof. intros; unfold millis; apply Z.quot_le_mono; [apply ms_pos|assumption]. Qed.

Lemma millis_mul k : millis (k * ms) = k.
Proof. unfold millis. apply Z.quot_mul. discriminate. Qed.

Lemma millis_lt_next d k : 0 <= k -> d < (k + 1) * ms -> millis d <= k.
Proof.
  intros Hk H. destruct (Z_lt_le_dec d 0) as [N|N].
  - assert (millis d <= millis 0) by (apply millis_mono; lia). unfold millis in *. rewrite Z.quot_0_l in H0 by discriminate. lia.
  - assert (millis d < k + 1); [|lia]. unfold millis. apply Z.quot_lt_upper_bound; [assumption|apply ms_pos|lia].
Qed.

Lemma millis_ge_next d k : (k + 1) * ms <= d -> millis d > k.
Proof. intros H. apply millis_mono in H. rewrite millis_mul in H. lia. Qed.

(* with a period of whole milliseconds the test of isStale is "age >= 2*period + 1ms" *)
Lemma stale_time_iff m now pms : 0 <= pms ->
  is_stale_time (Some m) now (pms * ms) = true <-> (2 * pms + 1) * ms <= now - m.
Proof.
  intros Hp. unfold is_stale_time. rewrite millis_mul. rewrite Z.gtb_lt. split; intros H.
  - destruct (Z_lt_le_dec (now - m) ((2 * pms + 1) * ms)) as [L|L]; [|assumption].
    apply millis_lt_next in L; lia.
  - apply millis_ge_next in H. lia.
Qed.

Lemma stale_time_false_iff m now pms : 0 <= pms ->
  is_stale_time (Some m) now (pms * ms) = false <-> now - m < (2 * pms + 1) * ms.
Proof.
  intros Hp. destruct (is_stale_time (Some m) now (pms * ms)) eqn:E.
  - apply stale_time_iff in E; [|assumption]. split; [discriminate|lia].
  - split; [|reflexivity]. intros _. destruct (Z_lt_le_dec (now - m) ((2 * pms + 1) * ms)) as [L|L]; [assumption|].
    apply (stale_time_iff m now pms Hp) in L. congruence.
Qed.

(* staleness is monotone in the age *)
Lemma stale_time_mono m m' now now' p :
  m' <= m -> now <= now' -> is_stale_time (Some m) now p = true -> is_stale_time (Some m') now' p = true.
Proof.
  unfold is_stale_time. rewrite !Z.gtb_lt. intros H1 H2 H.
  assert (millis (now - m) <= millis (now' - m')) by (apply millis_mono; lia). lia.
Qed.

(* ------------------------------------------------------------------------------------------------ *)
(* the view of a two-object trace: which mtime is consulted                                           *)

Definition consulted (evs : list ev) (t1 t2 : Z) : option Z :=
  match last_on ODir evs t1 None with
  | None => None
  | Some _ => match last_on OHb evs t1 None with
              | None => last_on ODir evs t2 None
              | Some _ => last_on OHb evs t2 None
              end
  end.

Lemma is_stale_na_consulted evs t1 t2 t3 p :
  is_stale_na evs t1 t2 t3 p = is_stale_time (consulted evs t1 t2) t3 p.
Proof.
  unfold is_stale_na, is_stale_view, observe, consulted. simpl.
  destruct (last_on ODir evs t1 None); [|reflexivity].
  destruct (last_on OHb evs t1 None); [|reflexivity].
  unfold files_all_stale. simpl. destruct (is_stale_time _ _ _); reflexivity.
Qed.

Definition matches (o : obj) (t : Z) (e : ev) : bool := obj_eqb (e_obj e) o && (e_at e <=? t).

Lemma matches_iff o t e : matches o t e = true <-> e_obj e = o /\ e_at e <= t.
Proof.
  unfold matches. rewrite andb_true_iff, Z.leb_le. destruct (e_obj e), o; simpl; intuition congruence.
Qed.

Lemma last_on_in o evs t : forall acc v,
  last_on o evs t acc = Some v ->
  acc = Some v \/ exists e, In e evs /\ e_obj e = o /\ e_at e <= t /\ e_val e = v.
Proof.
  induction evs as [|x r IH]; intros acc v H; simpl in H; [left; assumption|].
  apply IH in H. fold (matches o t x) in H. destruct H as [H|[e [Hi He]]].
  - destruct (matches o t x) eqn:M.
    + right. exists x. apply matches_iff in M. inversion H. simpl; intuition.
    + left; assumption.
  - right. exists e. simpl; intuition.
Qed.

Lemma last_on_acc_some o evs t : forall a, exists v, last_on o evs t (Some a) = Some v.
Proof.
  induction evs as [|x r IH]; intros a; simpl; [eauto|].
  destruct (obj_eqb (e_obj x) o && (e_at x <=? t)); apply IH.
Qed.

Lemma last_on_some o evs t : forall acc e,
  In e evs -> e_obj e = o -> e_at e <= t -> exists v, last_on o evs t acc = Some v.
Proof.
  induction evs as [|x r IH]; intros acc e Hi Ho Ht; [destruct Hi|]. simpl.
  destruct Hi as [->|Hi].
  - fold (matches o t e). replace (matches o t e) with true by (symmetry; apply matches_iff; auto).
    apply last_on_acc_some.
  - eapply IH; eauto.
Qed.

Definition init_le (a b : ev) : Prop := e_init a <= e_init b.
Definition dir_before (a b : ev) : Prop := e_obj b = ODir -> e_obj a = ODir.

(* a well-formed trace: initiation instants never decrease along the trace, a written value is never earlier than
   the initiation of its operation, directory events precede heartbeat events *)
Definition wf (evs : list ev) : Prop :=
  StronglySorted init_le evs /\ Forall (fun e => e_init e <= e_val e) evs /\ StronglySorted dir_before evs.

Lemma last_on_lower o t lo : forall evs a v,
  last_on o evs t (Some a) = Some v -> lo <= a -> (forall e, In e evs -> lo <= e_val e) -> lo <= v.
Proof.
  intros evs a v H Ha Hall. apply last_on_in in H. destruct H as [H|[e [He [_ [_ Hv]]]]].
  - inversion H; lia.
  - specialize (Hall e He). lia.
Qed.

Lemma last_on_max o evs t : StronglySorted init_le evs -> Forall (fun e => e_init e <= e_val e) evs ->
  forall acc v, last_on o evs t acc = Some v ->
  forall e, In e evs -> e_obj e = o -> e_at e <= t -> e_init e <= v.
Proof.
  induction 1 as [|x r Hss IH Hall]; intros Hiv acc v H e He Ho Ht; [destruct He|].
  apply Forall_cons_iff in Hiv. destruct Hiv as [Hx Hr]. rewrite Forall_forall in Hall, Hr.
  simpl in H. fold (matches o t x) in H. destruct He as [->|He].
  - assert (M : matches o t e = true) by (apply matches_iff; auto). rewrite M in H.
    eapply last_on_lower; [exact H|assumption|].
    intros f Hf. specialize (Hall f Hf). specialize (Hr f Hf). unfold init_le in Hall. simpl in Hr. lia.
  - eapply IH; eauto. apply Forall_forall; assumption.
Qed.

Lemma dir_then_hb evs : StronglySorted init_le evs -> StronglySorted dir_before evs ->
  forall e f, In e evs -> In f evs -> e_obj e = ODir -> e_obj f = OHb -> e_init e <= e_init f.
Proof.
  induction evs as [|x r IH]; intros Hv Hd e f He Hf Eo Fo; [destruct He|].
  inversion Hv as [|? ? Hv' Hva]; inversion Hd as [|? ? Hd' Hda]; subst.
  rewrite Forall_forall in Hva, Hda.
  destruct He as [->|He], Hf as [->|Hf].
  - lia.
  - apply Hva; assumption.
  - specialize (Hda e He). unfold dir_before in Hda. specialize (Hda Eo). congruence.
  - apply IH; assumption.
Qed.

(* every sign of life that had landed when the observer listed the directory was initiated no later than the
   modification time the observer then consults *)
Lemma seen_dominates evs t1 t2 m : wf evs -> t1 <= t2 ->
  consulted evs t1 t2 = Some m ->
  forall e, In e evs -> e_at e <= t1 -> e_init e <= m.
Proof.
  intros [Hv [Hiv Hd]] Ht Hc e He Hat. unfold consulted in Hc.
  destruct (last_on ODir evs t1 None) as [d|] eqn:Ed; [|discriminate].
  destruct (last_on OHb evs t1 None) as [h|] eqn:Eh.
  - (* a heartbeat file is listed *)
    destruct (e_obj e) eqn:Eo.
    + pose proof Hc as Hc'. apply last_on_in in Hc'. destruct Hc' as [Hc'|[f [Hf [Hfo [_ Hfv]]]]]; [discriminate|].
      pose proof (dir_then_hb evs Hv Hd e f He Hf Eo Hfo).
      rewrite Forall_forall in Hiv. specialize (Hiv f Hf). simpl in Hiv. lia.
    + eapply (last_on_max OHb evs t2 Hv Hiv None m Hc e He Eo). lia.
  - (* empty listing: the directory's own time *)
    destruct (e_obj e) eqn:Eo.
    + eapply (last_on_max ODir evs t2 Hv Hiv None m Hc e He Eo). lia.
    + exfalso. destruct (last_on_some OHb evs t1 None e He Eo Hat) as [v Hv']. congruence.
Qed.

(* ------------------------------------------------------------------------------------------------ *)
(* T1  stale only if silent                                                                          *)

Lemma stale_only_if_silent_l evs t1 t2 t3 pms :
  wf evs -> 0 <= pms -> t1 <= t2 ->
  is_stale_na evs t1 t2 t3 (pms * ms) = true ->
  forall e, In e evs -> e_at e <= t1 -> 2 * (pms * ms) < t3 - e_init e.
Proof.
  intros Hwf Hp Ht H e He Hat. rewrite is_stale_na_consulted in H.
  destruct (consulted evs t1 t2) as [m|] eqn:Ec; [|discriminate].
  apply stale_time_iff in H; [|assumption].
  pose proof (seen_dominates evs t1 t2 m Hwf Ht Ec e He Hat). pose proof ms_pos. lia.
Qed.

(* ------------------------------------------------------------------------------------------------ *)
(* T3  a dead holder's lock becomes stale                                                            *)

Lemma consulted_some_dead evs t1 t2 :
  t1 <= t2 -> (exists e, In e evs /\ e_obj e = ODir) -> (forall e, In e evs -> e_at e <= t1) ->
  exists m e, consulted evs t1 t2 = Some m /\ In e evs /\ e_val e = m.
Proof.
  intros Ht [d [Hd Hdo]] Hall. unfold consulted.
  destruct (last_on_some ODir evs t1 None d Hd Hdo (Hall d Hd)) as [v ->].
  destruct (last_on OHb evs t1 None) as [h|] eqn:Eh.
  - apply last_on_in in Eh. destruct Eh as [Eh|[f [Hf [Hfo [Hfa _]]]]]; [discriminate|].
    destruct (last_on_some OHb evs t2 None f Hf Hfo ltac:(lia)) as [m Hm]. rewrite Hm.
    pose proof Hm as Hm'. apply last_on_in in Hm'. destruct Hm' as [Hm'|[g [Hg [_ [_ Hgv]]]]]; [discriminate|].
    exists m, g; auto.
  - destruct (last_on_some ODir evs t2 None d Hd Hdo ltac:(specialize (Hall d Hd); lia)) as [m Hm]. rewrite Hm.
    pose proof Hm as Hm'. apply last_on_in in Hm'. destruct Hm' as [Hm'|[g [Hg [_ [_ Hgv]]]]]; [discriminate|].
    exists m, g; auto.
Qed.

Lemma dead_becomes_stale_l evs t1 t2 t3 pms L :
  0 <= pms -> t1 <= t2 ->
  (exists e, In e evs /\ e_obj e = ODir) ->            (* the lock directory was created *)
  (forall e, In e evs -> e_at e <= t1) ->              (* and nothing lands any more *)
  (forall e, In e evs -> e_val e <= L) ->              (* L: the last sign of life *)
  L + (2 * pms + 1) * ms <= t3 ->
  is_stale_na evs t1 t2 t3 (pms * ms) = true.
Proof.
  intros Hp Ht Hd Hall HL Hb. rewrite is_stale_na_consulted.
  destruct (consulted_some_dead evs t1 t2 Ht Hd Hall) as [m [e [-> [He Hv]]]].
  apply stale_time_iff; [assumption|]. specialize (HL e He). lia.
Qed.

(* state-level consequences *)
Lemma view_of_state_at evs t : view_of (state_at evs t) = observe evs t t.
Proof.
  unfold view_of, state_at, observe. simpl.
  destruct (last_on ODir evs t None); [|reflexivity].
  destruct (last_on OHb evs t None); reflexivity.
Qed.

Lemma is_stale_st_state_at evs t p : is_stale_st (state_at evs t) t p = is_stale_na evs t t t p.
Proof. unfold is_stale_st, is_stale_na. now rewrite view_of_state_at. Qed.

Lemma try_lock_no_lock o now p : try_lock o no_lock now p = (fresh_lock now, OAcquired).
Proof. reflexivity. Qed.

Lemma dead_recovers_l evs t pms :
  0 <= pms ->
  (exists e, In e evs /\ e_obj e = ODir) ->
  (forall e, In e evs -> e_at e <= t) ->
  (forall e, In e evs -> e_val e + (2 * pms + 1) * ms <= t) ->
  let st := state_at evs t in
  run_op OpIsStale st t (pms * ms) = (st, OStale true) /\
  run_op OpRelease st t (pms * ms) = (no_lock, OReleased) /\
  (forall o t', run_op (OpTryLock o) no_lock t' (pms * ms) = (fresh_lock t', OAcquired)) /\
  run_op (OpTryLock false) st t (pms * ms) = (st, OStaleLock) /\
  run_op (OpTryLock true) st t (pms * ms) = (fresh_lock t, OAcquired).
Proof.
  intros Hp Hd Hall Hb. cbv zeta.
  assert (S : is_stale_st (state_at evs t) t (pms * ms) = true).
  { rewrite is_stale_st_state_at. apply dead_becomes_stale_l with (L := t - (2 * pms + 1) * ms); auto; try lia.
    intros e He. specialize (Hb e He). lia. }
  assert (D : exists d, l_dir (state_at evs t) = Some d).
  { destruct Hd as [d [Hd Hdo]]. unfold state_at. simpl. eapply last_on_some; eauto. }
  destruct D as [d D]. remember (state_at evs t) as st.
  unfold run_op, try_lock. simpl. rewrite D, S. simpl. unfold release_if_stale. rewrite S. simpl. auto.
Qed.

(* ------------------------------------------------------------------------------------------------ *)
(* T2  a live lock is never stale (under a latency bound)                                             *)

(* every sign of life is superseded less than 2*period - eps after it was initiated *)
Fixpoint chain (eps p : Z) (evs : list ev) : Prop :=
  match evs with
  | a :: r => match r with
              | b :: _ => e_at b + eps <= e_init a + 2 * p /\ chain eps p r
              | [] => True
              end
  | [] => True
  end.

Lemma live_witness eps p : forall r x t,
  chain eps p (x :: r) -> e_at x <= t -> t < last_at r (e_at x) ->
  exists a, In a (x :: r) /\ e_at a <= t /\ t + eps < e_init a + 2 * p.
Proof.
  induction r as [|b r IH]; intros x t Hc Hx Hl; simpl in Hl; [lia|].
  destruct Hc as [Hab Hc]. destruct (Z_lt_le_dec t (e_at b)) as [L|L].
  - exists x. split; [left; reflexivity|]. lia.
  - destruct (IH b t Hc L Hl) as [a [Ha Hat]]. exists a. split; [right; assumption|assumption].
Qed.

Lemma live_never_stale_l evs x r eps pms t1 t2 t3 :
  evs = x :: r -> wf evs -> chain eps (pms * ms) evs -> 0 <= pms ->
  e_at x <= t1 -> t1 < last_at r (e_at x) ->            (* the holder is alive: something still lands after t1 *)
  t1 <= t2 -> t3 <= t1 + eps ->                          (* the observer's own call takes at most eps *)
  is_stale_na evs t1 t2 t3 (pms * ms) = false.
Proof.
  intros -> Hwf Hc Hp Hx Hl H12 H3. rewrite is_stale_na_consulted.
  destruct (consulted (x :: r) t1 t2) as [m|] eqn:Ec; [|reflexivity].
  destruct (live_witness eps (pms * ms) r x t1 Hc Hx Hl) as [a [Ha [Hat Hfresh]]].
  pose proof (seen_dominates _ t1 t2 m Hwf H12 Ec a Ha Hat).
  apply stale_time_false_iff; [assumption|]. pose proof ms_pos. lia.
Qed.

Lemma live_untouched_l evs x r pms t op :
  evs = x :: r -> e_obj x = ODir -> wf evs -> chain 0 (pms * ms) evs -> 0 <= pms ->
  e_at x <= t -> t < last_at r (e_at x) ->
  run_op op (state_at evs t) t (pms * ms) = (state_at evs t, benign op).
Proof.
  intros E Ex Hwf Hc Hp Hx Hl.
  assert (S : is_stale_st (state_at evs t) t (pms * ms) = false).
  { rewrite is_stale_st_state_at. eapply live_never_stale_l; eauto; lia. }
  assert (D : exists d, l_dir (state_at evs t) = Some d).
  { unfold state_at. simpl. eapply last_on_some with (e := x); subst; simpl; auto. }
  destruct D as [d D]. remember (state_at evs t) as st.
  destruct op; unfold run_op, release_if_stale, try_lock; simpl; rewrite ?D, S; reflexivity.
Qed.

(* ------------------------------------------------------------------------------------------------ *)
(* the holder machine produces well-formed traces, whatever the (non-negative) latencies               *)

Definition acq_ok (a : acq_lat) : Prop := 0 <= a_now a /\ 0 <= a_chtimes a /\ 0 <= a_spawn a.
Definition cyc_ok (c : cyc_lat) : Prop := 0 <= c_open c /\ 0 <= c_write c /\ 0 <= c_chtimes c /\ 0 <= c_sleep c.

Lemma ss_app {A} (R : A -> A -> Prop) l1 l2 :
  StronglySorted R l1 -> StronglySorted R l2 -> (forall a b, In a l1 -> In b l2 -> R a b) ->
  StronglySorted R (l1 ++ l2).
Proof.
  induction 1 as [|x r Hss IH Hall]; intros H2 Hc; simpl; [assumption|].
  constructor.
  - apply IH; [assumption|]. intros a b Ha Hb. apply Hc; [right; assumption|assumption].
  - apply Forall_forall. intros b Hb. apply in_app_or in Hb. destruct Hb as [Hb|Hb].
    + rewrite Forall_forall in Hall. apply Hall; assumption.
    + apply Hc; [left; reflexivity|assumption].
Qed.

Lemma firstn_in {A} : forall k (l : list A) x, In x (firstn k l) -> In x l.
Proof.
  induction k; intros l x H; destruct l; simpl in *; try contradiction.
  destruct H as [H|H]; [left; assumption|right; apply IHk; assumption].
Qed.

Lemma ss_firstn {A} (R : A -> A -> Prop) l : StronglySorted R l -> forall k, StronglySorted R (firstn k l).
Proof.
  induction 1 as [|x r Hss IH Hall]; intros k; destruct k; simpl; try constructor.
  - apply IH.
  - rewrite Forall_forall in *. intros b Hb. apply Hall. eapply firstn_in; eauto.
Qed.

Lemma wf_firstn evs k : wf evs -> wf (firstn k evs).
Proof.
  intros [H1 [H2 H3]]. repeat split; try (apply ss_firstn; assumption).
  rewrite Forall_forall in *. intros e He. apply H2. eapply firstn_in; eauto.
Qed.

Lemma cycle_events_in s ex c e : In e (cycle_events s ex c) ->
  e_obj e = OHb /\ e_init e = s /\
  (cyc_ok c -> s <= e_val e /\ e_val e <= e_at e /\ e_at e <= s + c_open c + c_write c + c_chtimes c).
Proof.
  unfold cycle_events, cyc_ok, ev_create, ev_write, ev_stamp.
  destruct (c_fault c), ex; simpl; intros H; repeat (destruct H as [<-|H]; [simpl; repeat split; lia|]); destruct H.
Qed.

Lemma cycles_events_in : forall cs s ex p e, ms <= p -> Forall cyc_ok cs -> In e (cycles_events s ex cs p) ->
  e_obj e = OHb /\ s <= e_init e /\ e_init e <= e_val e /\ e_val e <= e_at e.
Proof.
  induction cs as [|c r IH]; intros s ex p e Hp Hok He; [destruct He|]. cbn [cycles_events] in He.
  apply Forall_cons_iff in Hok. destruct Hok as [Hc Hr].
  apply in_app_or in He. destruct He as [He|He].
  - apply cycle_events_in in He. destruct He as [Ho [Hi Hv]]. specialize (Hv Hc). repeat split; try lia; assumption.
  - apply IH in He; try assumption. destruct He as [Ho [Hs Hv]]. repeat split; try tauto.
    unfold next_start, cyc_total in Hs. destruct Hc as (?&?&?&?). lia.
Qed.

Lemma cycles_init_sorted : forall cs s ex p, ms <= p -> Forall cyc_ok cs ->
  StronglySorted init_le (cycles_events s ex cs p).
Proof.
  induction cs as [|c r IH]; intros s ex p Hp Hok; [constructor|]. cbn [cycles_events].
  pose proof Hok as Hok'. apply Forall_cons_iff in Hok. destruct Hok as [Hc Hr].
  apply ss_app.
  - unfold cycle_events, ev_create, ev_write, ev_stamp.
    destruct (c_fault c), ex; repeat constructor; unfold init_le; simpl; lia.
  - apply IH; assumption.
  - intros a b Ha Hb. apply cycle_events_in in Ha. destruct Ha as [_ [Hi _]].
    apply cycles_events_in in Hb; try assumption. destruct Hb as [_ [Hs _]].
    unfold init_le, next_start, cyc_total in *. destruct Hc as (?&?&?&?). lia.
Qed.

Lemma all_hb_dir_before l : (forall e, In e l -> e_obj e = OHb) -> StronglySorted dir_before l.
Proof.
  induction l as [|x r IH]; intros H; constructor.
  - apply IH. intros e He. apply H. right; assumption.
  - apply Forall_forall. intros b Hb Hd. rewrite (H b) in Hd; [discriminate|right; assumption].
Qed.

Lemma holder_trace_wf t0 a cs p : ms <= p -> acq_ok a -> Forall cyc_ok cs -> wf (holder_trace t0 a cs p).
Proof.
  intros Hp (A1 & A2 & A3) Hok. unfold holder_trace, wf. repeat split.
  - apply ss_app.
    + unfold acquire_events. repeat constructor; unfold init_le; simpl; lia.
    + apply cycles_init_sorted; assumption.
    + intros x y Hx Hy. apply cycles_events_in in Hy; try assumption. destruct Hy as [_ [Hs _]].
      unfold first_start in Hs. unfold init_le. destruct Hx as [<-|[<-|[]]]; simpl; lia.
  - apply Forall_forall. intros e He. apply in_app_or in He. destruct He as [He|He].
    + destruct He as [<-|[<-|[]]]; simpl; lia.
    + apply cycles_events_in in He; try assumption. tauto.
  - apply ss_app.
    + unfold acquire_events. repeat constructor; unfold dir_before; simpl; auto.
    + apply all_hb_dir_before. intros e He. apply cycles_events_in in He; try assumption. tauto.
    + intros x y Hx Hy Hd. apply cycles_events_in in Hy; try assumption. destruct Hy as [Ho _]. congruence.
Qed.

Lemma holder_val_le_at t0 a cs p e : ms <= p -> acq_ok a -> Forall cyc_ok cs ->
  In e (holder_trace t0 a cs p) -> e_val e <= e_at e.
Proof.
  intros Hp (A1 & A2 & A3) Hok He. unfold holder_trace in He. apply in_app_or in He. destruct He as [He|He].
  - destruct He as [<-|[<-|[]]]; simpl; lia.
  - apply cycles_events_in in He; try assumption. tauto.
Qed.

Lemma holder_prefix_has_dir t0 a cs p k : (1 <= k)%nat ->
  exists e, In e (dead_after k (holder_trace t0 a cs p)) /\ e_obj e = ODir.
Proof.
  intros Hk. destruct k; [lia|]. unfold dead_after, holder_trace. simpl.
  eexists. split; [left; reflexivity|reflexivity].
Qed.

(* ------------------------------------------------------------------------------------------------ *)
(* latency bounds give the chain property                                                            *)

Definition head_open (cs : list cyc_lat) : Z := match cs with c :: _ => c_open c | [] => 0 end.

(* no operation of the iteration fails, and from one `now` to the moment the NEXT iteration's file creation lands
   there is at most period + 1ms - eps of latency *)
Fixpoint cycles_bound (eps p : Z) (cs : list cyc_lat) : Prop :=
  match cs with
  | [] => True
  | c :: r => c_fault c = FNone /\ cyc_total c + head_open r + eps <= p + ms /\ cycles_bound eps p r
  end.

Definition acquire_bound (eps p : Z) (a : acq_lat) (cs : list cyc_lat) : Prop :=
  a_now a + a_chtimes a + a_spawn a + head_open cs + eps <= 2 * p.

Lemma chain_cycles eps p : ms <= p -> 0 <= eps -> forall cs s ex,
  Forall cyc_ok cs -> cycles_bound eps p cs -> chain eps p (cycles_events s ex cs p).
Proof.
  intros Hp He. induction cs as [|c r IH]; intros s ex Hok Hb; [exact I|].
  apply Forall_cons_iff in Hok. destruct Hok as [(C1 & C2 & C3 & C4) Hr]. destruct Hb as [Hf [Hb Hbr]].
  specialize (IH (next_start s c p) (ex || opened c) Hr Hbr).
  assert (H0 : 0 <= head_open r).
  { destruct r; simpl; [lia|]. apply Forall_cons_iff in Hr. destruct Hr as [(?&_) _]. assumption. }
  cbn [cycles_events]. unfold cycle_events at 1. rewrite Hf. unfold ev_create, ev_write, ev_stamp.
  cbn [app chain e_at e_init]. unfold cyc_total in Hb.
  split; [lia|]. split; [lia|].
  destruct r as [|c' r']; [exact I|]. destruct Hbr as [Hf' _].
  cbn [cycles_events] in IH |- *. unfold cycle_events in IH |- *. rewrite Hf' in IH |- *.
  unfold ev_create, ev_write, ev_stamp in IH |- *.
  cbn [app e_at] in IH |- *. cbn [head_open] in Hb. split; [|exact IH].
  unfold next_start, cyc_total. lia.
Qed.

Lemma chain_holder eps p t0 a cs : ms <= p -> 0 <= eps -> acq_ok a -> Forall cyc_ok cs ->
  acquire_bound eps p a cs -> cycles_bound eps p cs -> chain eps p (holder_trace t0 a cs p).
Proof.
  intros Hp He (A1 & A2 & A3) Hok Ha Hb. unfold holder_trace, acquire_events, acquire_bound in *.
  pose proof (chain_cycles eps p Hp He cs (first_start t0 a) false Hok Hb) as Hc.
  assert (H0 : 0 <= head_open cs).
  { destruct cs; simpl; [lia|]. apply Forall_cons_iff in Hok. destruct Hok as [(?&_) _]. assumption. }
  cbn [app chain e_at e_init]. split; [lia|].
  destruct cs as [|c r]; [exact I|]. destruct Hb as [Hf _].
  cbn [cycles_events] in Hc |- *. unfold cycle_events in Hc |- *. rewrite Hf in Hc |- *.
  unfold ev_create, ev_write, ev_stamp in Hc |- *.
  cbn [app e_at] in Hc |- *. cbn [head_open] in Ha. split; [|exact Hc].
  unfold first_start. lia.
Qed.

(* ------------------------------------------------------------------------------------------------ *)
(* any number of observers at any instants of the hold                                               *)

(* the observers share the lock with the holder: [tampered] records the state an observer left behind if it
   ever changed the lock (from then on the model stops following the holder — the theorem shows it never happens) *)
Fixpoint run_observers (evs : list ev) (period : Z) (ops : list (Z * obs_op)) (tampered : option lockst)
  : list outcome * option lockst :=
  match ops with
  | [] => ([], tampered)
  | (t, op) :: r =>
      let st := match tampered with None => state_at evs t | Some s => s end in
      let '(st', o) := run_op op st t period in
      let tampered' := match tampered with
                       | None => if outcome_eqb o (benign op) then None else Some st'
                       | Some _ => Some st'
                       end in
      let '(os, fin) := run_observers evs period r tampered' in (o :: os, fin)
  end.

Lemma outcome_eqb_refl o : outcome_eqb o o = true.
Proof. destruct o; simpl; auto. destruct b; reflexivity. Qed.

Lemma observers_harmless_l evs x r pms : 
  evs = x :: r -> e_obj x = ODir -> wf evs -> chain 0 (pms * ms) evs -> 0 <= pms ->
  forall ops, Forall (fun q => e_at x <= fst q /\ fst q < last_at r (e_at x)) ops ->
  run_observers evs (pms * ms) ops None = (map (fun q => benign (snd q)) ops, None).
Proof.
  intros E Ex Hwf Hc Hp. induction ops as [|[t op] ops IH]; intros Hall; [reflexivity|].
  apply Forall_cons_iff in Hall. destruct Hall as [[H1 H2] Hall]. simpl in H1, H2.
  cbn [run_observers]. rewrite (live_untouched_l evs x r pms t op E Ex Hwf Hc Hp H1 H2).
  rewrite outcome_eqb_refl. rewrite (IH Hall). reflexivity.
Qed.

(* ------------------------------------------------------------------------------------------------ *)
(* statements about the holder machine, as used by Props.v                                            *)

Lemma holder_trace_cons t0 a cs p :
  holder_trace t0 a cs p =
  mkEv t0 ODir t0 t0 :: (mkEv (t0 + a_now a + a_chtimes a) ODir (t0 + a_now a) (t0 + a_now a)
                          :: cycles_events (first_start t0 a) false cs p).
Proof. reflexivity. Qed.

Lemma holder_stale_only_if_silent t0 a cs pms k t1 t2 t3 :
  1 <= pms -> acq_ok a -> Forall cyc_ok cs -> t1 <= t2 ->
  let evs := dead_after k (holder_trace t0 a cs (pms * ms)) in
  is_stale_na evs t1 t2 t3 (pms * ms) = true ->
  forall e, In e evs -> e_at e <= t1 -> 2 * (pms * ms) < t3 - e_init e.
Proof.
  intros Hp Ha Hc Ht evs. apply stale_only_if_silent_l; try assumption; try lia.
  apply wf_firstn. apply holder_trace_wf; try assumption. pose proof ms_pos. nia.
Qed.

Lemma holder_live_never_stale t0 a cs pms eps t1 t2 t3 :
  1 <= pms -> 0 <= eps -> acq_ok a -> Forall cyc_ok cs ->
  acquire_bound eps (pms * ms) a cs -> cycles_bound eps (pms * ms) cs ->
  let tr := holder_trace t0 a cs (pms * ms) in
  t0 <= t1 -> t1 < last_at tr t0 -> t1 <= t2 -> t3 <= t1 + eps ->
  is_stale_na tr t1 t2 t3 (pms * ms) = false.
Proof.
  intros Hp He Ha Hc Hab Hcb tr H0 Hl H12 H3.
  assert (Hms : ms <= pms * ms) by (pose proof ms_pos; nia).
  unfold tr in *. rewrite holder_trace_cons in Hl. cbn [last_at e_at] in Hl.
  eapply live_never_stale_l with (eps := eps); try eassumption; try lia.
  - apply holder_trace_cons.
  - apply holder_trace_wf; assumption.
  - apply chain_holder; assumption.
  - cbn [e_at]. assumption.
  - cbn [e_at last_at]. exact Hl.
Qed.

Lemma chain_weaken eps p : 0 <= eps -> forall evs, chain eps p evs -> chain 0 p evs.
Proof.
  intros He. induction evs as [|a r IH]; intros H; [exact I|].
  destruct r as [|b r']; [exact I|]. destruct H as [H1 H2]. split; [lia|apply IH; exact H2].
Qed.

Lemma holder_observers_harmless t0 a cs pms :
  1 <= pms -> acq_ok a -> Forall cyc_ok cs ->
  acquire_bound 0 (pms * ms) a cs -> cycles_bound 0 (pms * ms) cs ->
  let tr := holder_trace t0 a cs (pms * ms) in
  forall ops, Forall (fun q => t0 <= fst q /\ fst q < last_at tr t0) ops ->
  run_observers tr (pms * ms) ops None = (map (fun q => benign (snd q)) ops, None).
Proof.
  intros Hp Ha Hc Hab Hcb tr ops Hall.
  assert (Hms : ms <= pms * ms) by (pose proof ms_pos; nia).
  unfold tr in *. 
  eapply observers_harmless_l; try (apply holder_trace_cons); try reflexivity; try lia.
  - apply holder_trace_wf; assumption.
  - apply chain_holder; try assumption; lia.
  - rewrite holder_trace_cons in Hall. cbn [last_at e_at] in *. exact Hall.
Qed.

Lemma holder_dead_becomes_stale t0 a cs pms k td t1 t2 t3 :
  1 <= pms -> acq_ok a -> Forall cyc_ok cs -> (1 <= k)%nat ->
  let evs := dead_after k (holder_trace t0 a cs (pms * ms)) in
  (forall e, In e evs -> e_at e <= td) ->
  td <= t1 -> t1 <= t2 -> td + (2 * pms + 1) * ms <= t3 ->
  is_stale_na evs t1 t2 t3 (pms * ms) = true.
Proof.
  intros Hp Ha Hc Hk evs Hd H1 H2 H3.
  assert (Hms : ms <= pms * ms) by (pose proof ms_pos; nia).
  apply dead_becomes_stale_l with (L := td); try assumption; try lia.
  - apply holder_prefix_has_dir; assumption.
  - intros e He. specialize (Hd e He). lia.
  - intros e He. pose proof (Hd e He).
    assert (e_val e <= e_at e); [|lia].
    eapply holder_val_le_at; try eassumption. eapply firstn_in; exact He.
Qed.

Lemma holder_dead_recovers t0 a cs pms k td t :
  1 <= pms -> acq_ok a -> Forall cyc_ok cs -> (1 <= k)%nat ->
  let evs := dead_after k (holder_trace t0 a cs (pms * ms)) in
  (forall e, In e evs -> e_at e <= td) ->
  td + (2 * pms + 1) * ms <= t ->
  let st := state_at evs t in
  run_op OpIsStale st t (pms * ms) = (st, OStale true) /\
  run_op OpRelease st t (pms * ms) = (no_lock, OReleased) /\
  (forall o t', run_op (OpTryLock o) no_lock t' (pms * ms) = (fresh_lock t', OAcquired)) /\
  run_op (OpTryLock false) st t (pms * ms) = (st, OStaleLock) /\
  run_op (OpTryLock true) st t (pms * ms) = (fresh_lock t, OAcquired).
Proof.
  intros Hp Ha Hc Hk evs Hd Ht.
  assert (Hms : ms <= pms * ms) by (pose proof ms_pos; nia).
  apply dead_recovers_l; try lia.
  - apply holder_prefix_has_dir; assumption.
  - intros e He. specialize (Hd e He). pose proof ms_pos. nia.
  - intros e He. pose proof (Hd e He).
    assert (e_val e <= e_at e); [|lia].
    eapply holder_val_le_at; try eassumption. eapply firstn_in; exact He.
Qed.

(* D30: without the latency bound the live lock IS reported stale — one heartbeat iteration oversleeps by 60 ms *)
Definition d30_acq := mkAcq 0 0 0.
Definition d30_cycles := [mkCyc 0 0 0 (60 * ms) FNone; mkCyc 0 0 0 0 FNone].

Lemma live_stale_witness :
  let tr := holder_trace 0 d30_acq d30_cycles (50 * ms) in
  acq_ok d30_acq /\ Forall cyc_ok d30_cycles /\
  0 <= 105 * ms /\ 105 * ms < last_at tr 0 /\
  is_stale_na tr (105 * ms) (105 * ms) (105 * ms) (50 * ms) = true /\
  run_op OpRelease (state_at tr (105 * ms)) (105 * ms) (50 * ms) = (no_lock, OReleased) /\
  snd (run_op (OpTryLock true) (state_at tr (105 * ms)) (105 * ms) (50 * ms)) = OAcquired.
Proof.
  cbv zeta. repeat split; try (vm_compute; congruence).
  repeat constructor; vm_compute; congruence.
Qed.

(* ------------------------------------------------------------------------------------------------ *)
(* the view-level decision: "stale" needs EVERY listed file readable and old (or, for an empty listing, the
   directory readable and old); nothing readable => not stale *)
Lemma all_true_forall l : all_true l = true -> l <> [] /\ Forall (fun b => b = true) l.
Proof.
  destruct l as [|b r]; [discriminate|]. unfold all_true. intros H. split; [discriminate|].
  apply Forall_forall. intros x Hx. rewrite forallb_forall in H. apply H. exact Hx.
Qed.

Lemma stale_view_l v now pms : 0 <= pms ->
  is_stale_view v now (pms * ms) = true ->
  (v_ls v = Some [] /\ exists d, v_dir v = Some d /\ (2 * pms + 1) * ms <= now - d) \/
  (exists fs, v_ls v = Some fs /\ fs <> [] /\
              Forall (fun s => exists m, s = Some m /\ (2 * pms + 1) * ms <= now - m) fs).
Proof.
  intros Hp. unfold is_stale_view. destruct (v_ls v) as [[|f fs]|] eqn:E; try discriminate.
  - intros H. left. split; [reflexivity|]. destruct (v_dir v) as [d|]; [|discriminate].
    exists d. split; [reflexivity|]. apply stale_time_iff in H; assumption.
  - intros H. right. exists (f :: fs). split; [reflexivity|]. split; [discriminate|].
    unfold files_all_stale in H. apply all_true_forall in H. destruct H as [_ H].
    rewrite Forall_map in H. eapply Forall_impl; [|exact H].
    intros s Hs. simpl in Hs. destruct s as [m|]; [|discriminate].
    exists m. split; [reflexivity|]. apply stale_time_iff in Hs; assumption.
Qed.

(* ------------------------------------------------------------------------------------------------ *)
(* transient faults: the loop goes on, and once the faults are over the lock is live again             *)

Fixpoint ex_after (ex : bool) (cs : list cyc_lat) : bool :=
  match cs with [] => ex | c :: r => ex_after (ex || opened c) r end.

Lemma cycles_events_app : forall cs1 cs2 s ex p,
  cycles_events s ex (cs1 ++ cs2) p =
  cycles_events s ex cs1 p ++ cycles_events (end_start s cs1 p) (ex_after ex cs1) cs2 p.
Proof.
  induction cs1 as [|c r IH]; intros cs2 s ex p; [reflexivity|].
  cbn [app cycles_events end_start ex_after]. rewrite IH. now rewrite app_assoc.
Qed.

Lemma last_at_app pre x r d : last_at (pre ++ x :: r) d = last_at r (e_at x).
Proof. revert d. induction pre as [|y pre IH]; intros d; simpl; [reflexivity|apply IH]. Qed.

Lemma live_suffix_l evs pre x r eps pms t1 t2 t3 :
  evs = pre ++ x :: r -> wf evs -> chain eps (pms * ms) (x :: r) -> 0 <= pms ->
  e_at x <= t1 -> t1 < last_at r (e_at x) -> t1 <= t2 -> t3 <= t1 + eps ->
  is_stale_na evs t1 t2 t3 (pms * ms) = false.
Proof.
  intros E Hwf Hc Hp Hx Hl H12 H3. rewrite is_stale_na_consulted.
  destruct (consulted evs t1 t2) as [m|] eqn:Ec; [|reflexivity].
  destruct (live_witness eps (pms * ms) r x t1 Hc Hx Hl) as [a [Ha [Hat Hfresh]]].
  assert (Ha' : In a evs) by (subst evs; apply in_or_app; right; exact Ha).
  pose proof (seen_dominates _ t1 t2 m Hwf H12 Ec a Ha' Hat).
  apply stale_time_false_iff; [assumption|]. pose proof ms_pos. lia.
Qed.

(* cs1: ANY iterations (any faults, any latencies); then fault-free iterations c2 :: cs2 within the latency bound:
   from the moment c2's file creation lands, the lock is live again *)
Lemma holder_live_again t0 a cs1 c2 cs2 pms eps t1 t2 t3 :
  1 <= pms -> 0 <= eps -> acq_ok a -> Forall cyc_ok cs1 -> Forall cyc_ok (c2 :: cs2) ->
  cycles_bound eps (pms * ms) (c2 :: cs2) ->
  let tr := holder_trace t0 a (cs1 ++ c2 :: cs2) (pms * ms) in
  end_start (first_start t0 a) cs1 (pms * ms) + c_open c2 <= t1 -> t1 < last_at tr t0 ->
  t1 <= t2 -> t3 <= t1 + eps ->
  is_stale_na tr t1 t2 t3 (pms * ms) = false.
Proof.
  intros Hp He Ha Hc1 Hc2 Hb tr Hx Hl H12 H3.
  assert (Hms : ms <= pms * ms) by (pose proof ms_pos; nia).
  set (s1 := end_start (first_start t0 a) cs1 (pms * ms)) in *.
  set (ex1 := ex_after false cs1).
  pose proof (chain_cycles eps (pms * ms) Hms He (c2 :: cs2) s1 ex1 Hc2 Hb) as Hch.
  assert (Hf : c_fault c2 = FNone) by (destruct Hb as [Hf _]; exact Hf).
  assert (E : tr = (acquire_events t0 a ++ cycles_events (first_start t0 a) false cs1 (pms * ms))
                   ++ ev_create s1 c2 :: (ev_write s1 c2 :: ev_stamp s1 c2
                        :: cycles_events (next_start s1 c2 (pms * ms)) (ex1 || opened c2) cs2 (pms * ms))).
  { unfold tr, holder_trace. rewrite cycles_events_app. fold s1. fold ex1.
    cbn [cycles_events]. unfold cycle_events. rewrite Hf. rewrite <- app_assoc. reflexivity. }
  cbn [cycles_events] in Hch. unfold cycle_events in Hch. rewrite Hf in Hch. cbn [app] in Hch.
  eapply live_suffix_l with (eps := eps); try exact E; try eassumption; try lia.
  - unfold tr. apply holder_trace_wf; try assumption. apply Forall_app. split; assumption.
  - rewrite E in Hl. rewrite last_at_app in Hl. exact Hl.
Qed.

(* death by cancellation of the context (no Unlock): the loop ends, the trace is that of the iterations made *)
Lemma holder_cancelled_becomes_stale t0 a cs pms td t1 t2 t3 :
  1 <= pms -> acq_ok a -> Forall cyc_ok cs ->
  let evs := holder_trace t0 a cs (pms * ms) in
  (forall e, In e evs -> e_at e <= td) ->
  td <= t1 -> t1 <= t2 -> td + (2 * pms + 1) * ms <= t3 ->
  is_stale_na evs t1 t2 t3 (pms * ms) = true.
Proof.
  intros Hp Ha Hc evs Hd H1 H2 H3.
  pose proof (holder_dead_becomes_stale t0 a cs pms (length (holder_trace t0 a cs (pms * ms))) td t1 t2 t3 Hp Ha Hc) as H.
  unfold dead_after in H. rewrite firstn_all in H. apply H; try assumption.
  rewrite holder_trace_cons. simpl. lia.
Qed.

Lemma holder_cancelled_recovers t0 a cs pms td t :
  1 <= pms -> acq_ok a -> Forall cyc_ok cs ->
  let evs := holder_trace t0 a cs (pms * ms) in
  (forall e, In e evs -> e_at e <= td) ->
  td + (2 * pms + 1) * ms <= t ->
  let st := state_at evs t in
  run_op OpIsStale st t (pms * ms) = (st, OStale true) /\
  run_op OpRelease st t (pms * ms) = (no_lock, OReleased) /\
  (forall o t', run_op (OpTryLock o) no_lock t' (pms * ms) = (fresh_lock t', OAcquired)) /\
  run_op (OpTryLock false) st t (pms * ms) = (st, OStaleLock) /\
  run_op (OpTryLock true) st t (pms * ms) = (fresh_lock t, OAcquired).
Proof.
  intros Hp Ha Hc evs Hd Ht.
  pose proof (holder_dead_recovers t0 a cs pms (length (holder_trace t0 a cs (pms * ms))) td t Hp Ha Hc) as H.
  unfold dead_after in H. rewrite firstn_all in H. apply H; try assumption.
  rewrite holder_trace_cons. simpl. lia.
Qed.

(* ------------------------------------------------------------------------------------------------ *)
(* what ends the heartbeat loop *)
Lemma loop_end_only_own calls t : loop_end calls = Some t ->
  exists c, In c calls /\ api_at c = t /\
            (api_k c = KCancelOwn \/ (api_k c = KUnlock /\ api_same c = true)).
Proof.
  induction calls as [|c r IH]; simpl; [discriminate|].
  destruct (ends_loop c) eqn:E.
  - intros H. inversion H; subst. exists c. split; [left; reflexivity|]. split; [reflexivity|].
    unfold ends_loop in E. destruct (api_k c); try discriminate; auto.
  - intros H. destruct (IH H) as [d [Hd Hr]]. exists d. split; [right; assumption|assumption].
Qed.

Lemma loop_not_ended_by_others calls :
  Forall (fun c => api_k c <> KCancelOwn /\ (api_k c = KUnlock -> api_same c = false)) calls ->
  loop_end calls = None.
Proof.
  induction 1 as [|c r [H1 H2] _ IH]; [reflexivity|]. simpl.
  replace (ends_loop c) with false; [exact IH|].
  unfold ends_loop. destruct (api_k c) eqn:E; try reflexivity; [congruence|]. rewrite H2; reflexivity.
Qed.

(* ------------------------------------------------------------------------------------------------ *)
(* the model instantiated by the generated facts coincides with the reference reading, under named   *)
(* conditions on the record — each theorem of Props.v discharges exactly the conditions it needs     *)
From GU Require Import C17.Facts.

(* isStale's arithmetic and what is aged *)
Definition thr_ok (F : facts) : Prop :=
  f_nil_time_stale F = false /\ f_time_source F = TModTime /\ f_ft_default_modtime F = TModTime /\
  f_ft_default_when_sys_nil F = true /\
  f_age_unit F = UMillis /\ f_cmp F = CGt /\ f_factor F = 2 /\ f_period_unit F = UMillis.

(* IsStale's ordered guards and areHeartBeatFilesAllStale *)
Definition view_ok (F : facts) : Prop :=
  f_ls_err_stale F = false /\ f_empty_uses_dir F = true /\ f_dir_stat_err_stale F = false /\
  f_empty_period F = PHeartBeat /\ f_files_period F = PHeartBeat /\
  f_file_default_stale F = false /\ f_file_judged_when_stat_ok F = true /\ f_combine F = CombAll.

(* heartBeat's loop and the acquire path *)
Definition loop_ok (F : facts) : Prop :=
  f_hb_ctx_check_first F = true /\ f_hb_now_in_loop F = true /\ f_hb_write_err F = EIgnore /\
  f_hb_chtimes_err F = EIgnore /\ f_hb_chtimes_arg F = ANow /\ f_hb_sleep_with_ctx F = true /\
  f_hb_sleep_slack_ns F = ms /\ f_hb_spawn_period F = PHeartBeat /\ f_tl_chtimes_dir_now F = true /\
  f_wtf_ops F = [WOpen; WDeferClose; WCopy; WClose].

(* TryLock's branches and ReleaseIfStale *)
Definition op_ok (F : facts) : Prop :=
  f_tl_mkdir F = true /\ f_tl_stale_test F = true /\ f_tl_override_test F = true /\
  f_tl_override_releases F = true /\ f_tl_stale_err F = TLStaleLock /\ f_tl_live_err F = TLLocked /\
  f_release F = RIfStaleUnlock.

(* what ends the loop *)
Definition end_ok (F : facts) : Prop :=
  f_hb_ctx_check_first F = true /\ f_hb_ctx F = DCancelOfCtx /\ f_hb_cancel_registered F = true /\
  f_unlock_cancels_first F = true /\
  has_store (f_x_timeout_branch F) = false /\ has_store (f_x_err_branch F) = false /\ has_store (f_x_ok_tail F) = false.

Lemma is_stale_time_f_eq F : thr_ok F -> forall mt now p, is_stale_time_f F mt now p = is_stale_time mt now p.
Proof.
  intros (H1 & H2 & H3 & H4 & H5 & H6 & H7 & H8) mt now p.
  unfold is_stale_time_f, is_stale_time, reads_mtime. rewrite H1, H2, H3, H4, H5, H6, H7, H8.
  destruct mt; reflexivity.
Qed.

Lemma is_stale_view_f_eq F : thr_ok F -> view_ok F -> forall v now p, is_stale_view_f F v now p = is_stale_view v now p.
Proof.
  intros Ht (H1 & H2 & H3 & H4 & H5 & H6 & H7 & H8) v now p.
  unfold is_stale_view_f, is_stale_view, files_all_stale, file_stale_f, per.
  rewrite H1, H2, H3, H4, H5, H6, H7, H8.
  destruct (v_ls v) as [[|f fs]|]; try reflexivity.
  - destruct (v_dir v); [apply is_stale_time_f_eq; assumption|reflexivity].
  - cbn [combine_f]. f_equal. apply map_ext. intros [m|]; [apply is_stale_time_f_eq; assumption|reflexivity].
Qed.

Lemma is_stale_na_f_eq F : thr_ok F -> view_ok F -> forall evs t1 t2 t3 p,
  is_stale_na_f F evs t1 t2 t3 p = is_stale_na evs t1 t2 t3 p.
Proof. intros Ht Hv evs t1 t2 t3 p. apply is_stale_view_f_eq; assumption. Qed.

Lemma run_op_f_eq F : thr_ok F -> view_ok F -> op_ok F -> forall op st now p,
  run_op_f F op st now p = run_op op st now p.
Proof.
  intros Ht Hv (H1 & H2 & H3 & H4 & H5 & H6 & H7) op st now p.
  assert (S : forall s, is_stale_st_f F s now p = is_stale_st s now p)
    by (intros s; apply is_stale_view_f_eq; assumption).
  assert (R : forall s, release_f F s now p = release_if_stale s now p).
  { intros s. unfold release_f, release_if_stale, unlock_st. rewrite H7, S.
    destruct (is_stale_st s now p) eqn:E; [|reflexivity].
    destruct (l_dir s) eqn:D; [reflexivity|].
    unfold is_stale_st, view_of, is_stale_view in E. rewrite D in E. discriminate. }
  destruct op; unfold run_op_f, run_op; [now rewrite S | apply R |].
  unfold try_lock. generalize 2%nat as fuel. intros fuel. revert st.
  induction fuel as [|f IH]; intros st; cbn [try_lock_fuel_f try_lock_fuel]; rewrite H1, H2, H3, ?H4, H5, H6; cbn [negb];
    destruct (l_dir st); try reflexivity; rewrite S;
    destruct (is_stale_st st now p); cbn [Bool.eqb tl_out]; try reflexivity;
    destruct override; cbn [Bool.eqb]; try reflexivity.
  rewrite R. apply IH.
Qed.

Lemma cycles_events_f_eq F : loop_ok F -> forall cs s ex p,
  cycles_events_f F s ex cs p = cycles_events s ex cs p.
Proof.
  intros (H1 & H2 & H3 & H4 & H5 & H6 & H7 & H8 & H9 & H10).
  induction cs as [|c r IH]; intros s ex p; [reflexivity|].
  cbn [cycles_events_f cycles_events].
  assert (G : goes_on F c = true) by (unfold goes_on; rewrite H3, H4; destruct (c_fault c); reflexivity).
  rewrite G. f_equal.
  - unfold cycle_events_f, cycle_events, stamp_f. rewrite H3, H5. destruct (c_fault c), ex; reflexivity.
  - unfold next_start_f, next_start. rewrite H7. apply IH.
Qed.

Lemma holder_trace_f_eq F : loop_ok F -> forall t0 a cs p, holder_trace_f F t0 a cs p = holder_trace t0 a cs p.
Proof.
  intros H t0 a cs p. pose proof H as (H1 & H2 & H3 & H4 & H5 & H6 & H7 & H8 & H9 & H10).
  unfold holder_trace_f, holder_trace, acquire_events_f, acquire_events, per. rewrite H8, H9.
  now rewrite cycles_events_f_eq.
Qed.

Lemma iter_ops_f_eq F : loop_ok F -> iter_ops_f F = iter_ops.
Proof. intros (_ & _ & _ & _ & _ & _ & _ & _ & _ & H). unfold iter_ops_f. rewrite H. reflexivity. Qed.

Lemma loop_end_f_eq F : end_ok F -> forall calls, loop_end_f F calls = loop_end calls.
Proof.
  intros (H1 & H2 & H3 & H4 & H5 & H6 & H7). induction calls as [|c r IH]; [reflexivity|].
  cbn [loop_end_f loop_end]. rewrite IH.
  replace (ends_loop_f F c) with (ends_loop c); [reflexivity|].
  unfold ends_loop_f, ends_loop. rewrite H1, H2, H3, H4, H5, H6, H7.
  destruct (api_k c), (api_same c), (f_lwt_own_store F); reflexivity.
Qed.

(* observers, generically in the operation interpreter *)
Fixpoint run_observers_g (ro : obs_op -> lockst -> Z -> Z -> lockst * outcome)
  (evs : list ev) (period : Z) (ops : list (Z * obs_op)) (tampered : option lockst) : list outcome * option lockst :=
  match ops with
  | [] => ([], tampered)
  | (t, op) :: r =>
      let st := match tampered with None => state_at evs t | Some s => s end in
      let '(st', o) := ro op st t period in
      let tampered' := match tampered with
                       | None => if outcome_eqb o (benign op) then None else Some st'
                       | Some _ => Some st'
                       end in
      let '(os, fin) := run_observers_g ro evs period r tampered' in (o :: os, fin)
  end.

Lemma run_observers_g_ext ro1 ro2 : (forall op st t p, ro1 op st t p = ro2 op st t p) ->
  forall evs p ops tam, run_observers_g ro1 evs p ops tam = run_observers_g ro2 evs p ops tam.
Proof.
  intros E evs p. induction ops as [|[t op] r IH]; intros tam; [reflexivity|].
  cbn [run_observers_g]. rewrite E. destruct (ro2 op _ t p) as [st' o]. rewrite IH. reflexivity.
Qed.

Lemma run_observers_g_run_op evs p ops tam : run_observers_g run_op evs p ops tam = run_observers evs p ops tam.
Proof.
  revert tam. induction ops as [|[t op] r IH]; intros tam; [reflexivity|].
  cbn [run_observers_g run_observers]. destruct (run_op op _ t p) as [st' o]. rewrite IH. reflexivity.
Qed.
