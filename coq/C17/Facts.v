(* C17 — the FACTS about utils/filesystem/{lockfile.go,filetimes.go} and
   parallelisation.RunActionWithTimeoutAndCancelStore that the model is parameterised by.
   The record [gen_facts : facts] of GU.C17.Gen is written on every run by translator-c17/cmd/lock2coq (go/ast) from
   the repository's current working tree; the decision functions, the holder machine and the "what ends the
   heartbeat loop" table of Model.v interpret it, the theorems of Props.v are stated for that instance, and the
   correspondence's check_case is evaluated on it. *)
From Coq Require Import List ZArith.
Import ListNotations.
Local Open Scope Z_scope.

Inductive dunit := UNanos | UMicros | UMillis | USeconds.   (* d / d.Microseconds() / d.Milliseconds() / int(d.Seconds()) *)
Inductive cmpop := CGt | CGe | CLt | CLe | CEq | CNe.
Inductive tsrc := TModTime | TAccessTime | TChangeTime | TBirthTime.
Inductive pfield := PHeartBeat | PBetweenTries.              (* l.lockHeartBeatPeriod / l.timeBetweenLockTries *)
Inductive comb := CombAll | CombAny.                         (* collection.All / collection.Any *)
Inductive errh := EIgnore | EReturn.                         (* `_ = f(...)`  /  `if err := f(...); err != nil { return }` *)
Inductive targ := ANow | AOther.                             (* the time passed to Chtimes: the iteration's `now` or anything else *)
Inductive ctxd := DCancelOfCtx | DCancelOfWithoutCancel | DCancelOfBackground.
(* context.WithCancel(ctx) / WithCancel(context.WithoutCancel(ctx)) / WithCancel(context.Background()) *)
Inductive risshape := RIfStaleUnlock | RIfNotStaleUnlock | RAlwaysUnlock | RNeverUnlock.
Inductive tlerr := TLLocked | TLStaleLock.                   (* commonerrors.ErrLocked / ErrStaleLock *)
(* statements of VFS.WriteToFile that touch the back end, in order (files.go) *)
Inductive wstmt := WOpen | WDeferClose | WCopy | WSync | WClose.
(* kinds of backend operations as the shim sees them *)
Inductive bopk := BOpenFile | BWrite | BClose | BChtimes | BSync | BStat | BOther.
Inductive xcancel := XAction | XTimeout | XStore.            (* actionCancel() / timeoutCancel() / store.Cancel() *)

Record facts := mkFacts {
  (* NewGenericRemoteLockFile *)
  f_period_ns : Z;                 (* lockHeartBeatPeriod, nanoseconds *)
  f_tries_ns : Z;                  (* timeBetweenLockTries *)
  (* isStale:  if filetime == nil { return B };  return time.Since(filetime.T()).U1() OP K*beatPeriod.U2() *)
  f_nil_time_stale : bool;
  f_time_source : tsrc;
  f_age_unit : dunit;
  f_cmp : cmpop;
  f_factor : Z;
  f_period_unit : dunit;
  (* IsStale *)
  f_ls_err_stale : bool;           (* heartBeatFiles, err := l.fs.Ls(lockPath); if err != nil { return B } *)
  f_empty_uses_dir : bool;         (* if len(heartBeatFiles) == 0 { dirInfo, err := l.fs.StatTimes(lockPath) ... } *)
  f_dir_stat_err_stale : bool;     (* if err != nil { return B } *)
  f_empty_period : pfield;         (* return isStale(dirInfo, l.FIELD) *)
  f_files_period : pfield;         (* return areHeartBeatFilesAllStale(l.fs, lockPath, heartBeatFiles, l.FIELD) *)
  (* areHeartBeatFilesAllStale *)
  f_file_default_stale : bool;     (* isStaleB := B *)
  f_file_judged_when_stat_ok : bool; (* if err == nil { isStaleB = isStale(info, period) }   (false: `err != nil`) *)
  f_combine : comb;                (* return collection.All(staleFiles) *)
  (* filetimes.go: what ModTime() of the value returned by StatTimes is *)
  f_ft_default_when_sys_nil : bool;  (* if info.Sys() == nil { default } else { generic (djherbis/times) } *)
  f_ft_default_modtime : tsrc;       (* newDefaultTimeInfo: info.modTime = f.ModTime();  ModTime() returns i.modTime *)
  (* heartBeat's loop *)
  f_hb_ctx_check_first : bool;     (* if err := DetermineContextError(ctx); err != nil { return } opens the loop body *)
  f_hb_now_in_loop : bool;         (* now := time.Now() inside the loop, after the check *)
  f_hb_write_err : errh;           (* fs.WriteFile(filepath, "alive @ now", ...) *)
  f_hb_chtimes_err : errh;         (* fs.Chtimes(filepath, T, T) *)
  f_hb_chtimes_arg : targ;
  f_hb_sleep_with_ctx : bool;      (* parallelisation.SleepWithContext(ctx, ...) *)
  f_hb_sleep_slack_ns : Z;         (* ... period - SLACK *)
  f_wtf_ops : list wstmt;          (* fs.WriteFile -> WriteFileWithContext -> WriteToFile: open, deferred close, copy, close *)
  (* TryLock *)
  f_tl_mkdir : bool;               (* l.fs.vfs.Mkdir(lockPath, ...)  (not MkdirAll) *)
  f_tl_stale_test : bool;          (* on ErrExists: `if l.IsStale() {`   (false: negated) *)
  f_tl_override_test : bool;       (* `if l.overrideStaleLock {` (false: negated) *)
  f_tl_override_releases : bool;   (* _ = l.ReleaseIfStale(ctx); err = l.TryLock(ctx); return *)
  f_tl_stale_err : tlerr;          (* stale, no override: return commonerrors.E *)
  f_tl_live_err : tlerr;           (* not stale: return commonerrors.E *)
  f_tl_chtimes_dir_now : bool;     (* now := time.Now(); _ = l.fs.Chtimes(lockPath, now, now) *)
  f_hb_ctx : ctxd;                 (* subctx, cancelFunc := ... *)
  f_hb_cancel_registered : bool;   (* l.cancelStore.RegisterCancelFunction(cancelFunc) *)
  f_hb_spawn_period : pfield;      (* go heartBeat(subctx, l.fs, l.FIELD, heartBeatFilePath) *)
  (* ReleaseIfStale / Unlock *)
  f_release : risshape;
  f_unlock_cancels_first : bool;   (* l.cancelStore.Cancel() is Unlock's first statement, unconditionally *)
  (* LockWithTimeout -> RunActionWithTimeoutAndCancelStore(ctx, timeout, l.cancelStore, l.Lock) *)
  f_lwt_own_store : bool;          (* the lock's own cancel store is the one passed *)
  f_x_err_branch : list xcancel;   (* case err = <-channel, if err != nil { ... }: cancel calls, in order *)
  f_x_ok_tail : list xcancel;      (* ... after it, before `return err` *)
  f_x_timeout_branch : list xcancel (* case <-timeoutContext.Done() *)
}.
