(* C17 — Stale-lock detection is sound: live locks are safe, dead ones recover.
   Property theorems only (each closed by a lemma of Proofs.v, followed by Print Assumptions).
   Model: GU.C17.Model (mirrors utils/filesystem/lockfile.go:61-165), tied to the code by harness/cmd/c17.

   Conventions: instants and durations are integer nanoseconds; the period is [pms] whole milliseconds
   (the code's constant is 50 ms); [holder_trace_f gen_facts t0 a cs p] is the sequence of signs of life written by a holder
   that created the lock directory at t0 and then ran [length cs] heartbeat iterations, with ARBITRARY non-negative
   latencies [a], [cs] before each of its file-system operations; [dead_after k] cuts it after the k-th operation
   (the holder died there); an IsStale call lists the directory at t1, stats at t2 >= t1 and reads the clock at
   t3 >= t2 ([is_stale_na]). *)
From Coq Require Import List ZArith Bool.
Import ListNotations.
From GU Require Import C17.Facts C17.Gen C17.Model C17.Proofs.
Local Open Scope Z_scope.

(* Every theorem below is stated for the model INSTANTIATED WITH THE RECORD [gen_facts] that translator-c17 extracted
   from the current source (GU.C17.Gen).  Each proof first discharges, by computation on that record, exactly the
   conditions it depends on — [thr_ok] (isStale's arithmetic and which time is aged), [view_ok] (IsStale's ordered
   guards), [loop_ok] (heartBeat's loop and the acquire path), [op_ok] (TryLock's branches, ReleaseIfStale),
   [end_ok] (what ends the loop) — and then transfers the statement to the reference reading proved in Proofs.v.
   A changed fact makes the `assert` of the theorems that depend on it fail. *)
Ltac facts_ok := repeat split.
Ltac use_thr T := assert (T : thr_ok gen_facts) by facts_ok.
Ltac use_view V := assert (V : view_ok gen_facts) by facts_ok.
Ltac use_loop L := assert (L : loop_ok gen_facts) by facts_ok.
Ltac use_op O := assert (O : op_ok gen_facts) by facts_ok.
Ltac use_end E := assert (E : end_ok gen_facts) by facts_ok.

(* isStale's millisecond arithmetic: with a period of whole milliseconds a modification time is judged stale
   exactly when it is at least 2*period + 1 ms old (strict ">" on truncated milliseconds). *)
Theorem stale_threshold_exact : forall m now pms, 0 <= pms ->
  is_stale_time_f gen_facts (Some m) now (pms * ms) = true <-> (2 * pms + 1) * ms <= now - m.
Proof. use_thr T. intros m now pms Hp. rewrite (is_stale_time_f_eq gen_facts T). apply stale_time_iff; assumption. Qed.
Print Assumptions stale_threshold_exact.

(* IsStale's decision on what it read: "stale" requires a successful listing and EVERY listed file readable and at
   least 2*period+1ms old (for an empty listing: the directory itself).  An unreadable sign of life (failed stat,
   failed listing) never yields "stale"; one fresh file among several keeps the lock live. *)
Theorem stale_requires_every_sign_old : forall v now pms, 0 <= pms ->
  is_stale_view_f gen_facts v now (pms * ms) = true ->
  (v_ls v = Some [] /\ exists d, v_dir v = Some d /\ (2 * pms + 1) * ms <= now - d) \/
  (exists fs, v_ls v = Some fs /\ fs <> [] /\
              Forall (fun s => exists m, s = Some m /\ (2 * pms + 1) * ms <= now - m) fs).
Proof. use_thr T. use_view V. intros v now pms Hp. rewrite (is_stale_view_f_eq gen_facts T V). apply stale_view_l; assumption. Qed.
Print Assumptions stale_requires_every_sign_old.

(* First sentence of the property.  Whatever the latencies, whatever the hold duration, whether the holder is
   alive or died after any of its operations (k arbitrary), for a non-atomic IsStale call:
   if it answers "stale", then EVERY sign of life that had landed when the call listed the directory was
   initiated more than two periods before the call read its clock.  No hypothesis on latency. *)
Theorem stale_only_if_silent : forall t0 a cs pms k t1 t2 t3,
  1 <= pms -> acq_ok a -> Forall cyc_ok cs -> t1 <= t2 ->
  let evs := dead_after k (holder_trace_f gen_facts t0 a cs (pms * ms)) in
  is_stale_na_f gen_facts evs t1 t2 t3 (pms * ms) = true ->
  forall e, In e evs -> e_at e <= t1 -> 2 * (pms * ms) < t3 - e_init e.
Proof.
  use_thr T. use_view V. use_loop L. cbv zeta. intros t0 a cs pms k t1 t2 t3.
  rewrite (holder_trace_f_eq gen_facts L), (is_stale_na_f_eq gen_facts T V). apply holder_stale_only_if_silent.
Qed.
Print Assumptions stale_only_if_silent.

(* Second sentence.  FULL statement (false of the code, see live_never_stale_refuted): for every latencies, while
   the holder is alive IsStale = false.
   PROVED PART: under a latency bound — the acquire path reaches the first heartbeat creation within 2*period - eps
   ([acquire_bound]) and every heartbeat iteration's total latency (file operations, over-sleep, and the next
   iteration's file creation) is at most period + 1ms - eps ([cycles_bound]), where eps bounds the duration of the
   observer's own call — a live lock is never reported stale, for every number of heartbeat iterations (every hold
   duration), at every instant of the hold.  MISSING: the bound itself is a fact about the machine (scheduler and
   I/O latency), which no theorem about the code can establish; the harness measures it. *)
Theorem live_never_stale_partial : forall t0 a cs pms eps t1 t2 t3,
  1 <= pms -> 0 <= eps -> acq_ok a -> Forall cyc_ok cs ->
  acquire_bound eps (pms * ms) a cs -> cycles_bound eps (pms * ms) cs ->
  let tr := holder_trace_f gen_facts t0 a cs (pms * ms) in
  t0 <= t1 -> t1 < last_at tr t0 -> t1 <= t2 -> t3 <= t1 + eps ->
  is_stale_na_f gen_facts tr t1 t2 t3 (pms * ms) = false.
Proof.
  use_thr T. use_view V. use_loop L. cbv zeta. intros t0 a cs pms eps t1 t2 t3.
  rewrite (holder_trace_f_eq gen_facts L), (is_stale_na_f_eq gen_facts T V). apply holder_live_never_stale.
Qed.
Print Assumptions live_never_stale_partial.

(* ... never released by ReleaseIfStale and never taken over, for ANY number of observers issuing ANY sequence of
   IsStale / ReleaseIfStale / TryLock (with or without stale-lock override) at ANY instants of the hold: every
   answer is false / no-op / ErrLocked and the lock is left exactly as the holder wrote it.  Same latency bound
   (observer calls atomic, eps = 0); same missing part as above. *)
Theorem live_never_released_nor_taken_over_partial : forall t0 a cs pms,
  1 <= pms -> acq_ok a -> Forall cyc_ok cs ->
  acquire_bound 0 (pms * ms) a cs -> cycles_bound 0 (pms * ms) cs ->
  let tr := holder_trace_f gen_facts t0 a cs (pms * ms) in
  forall ops, Forall (fun q => t0 <= fst q /\ fst q < last_at tr t0) ops ->
  run_observers_g (run_op_f gen_facts) tr (pms * ms) ops None = (map (fun q => benign (snd q)) ops, None).
Proof.
  use_thr T. use_view V. use_loop L. use_op HO. cbv zeta. intros t0 a cs pms H1 H2 H3 H4 H5 ops.
  rewrite (holder_trace_f_eq gen_facts L).
  rewrite (run_observers_g_ext _ run_op (run_op_f_eq gen_facts T V HO)), run_observers_g_run_op.
  apply holder_observers_harmless; assumption.
Qed.
Print Assumptions live_never_released_nor_taken_over_partial.

(* D30 (known finding): without the latency bound the second sentence is false of the faithful model — a holder
   that is alive, whose heartbeat goroutine over-sleeps once by 60 ms (period 50 ms): at 105 ms its lock is
   reported stale, ReleaseIfStale removes it and an overriding TryLock takes it over, while the holder's next
   heartbeat is still to come (at 109 ms).  The harness replays this on the implementation by stalling the
   heartbeat writer's file-system calls. *)
Theorem live_never_stale_refuted : exists t0 a cs t,
  let tr := holder_trace_f gen_facts t0 a cs (50 * ms) in
  acq_ok a /\ Forall cyc_ok cs /\ t0 <= t /\ t < last_at tr t0 /\
  is_stale_na_f gen_facts tr t t t (50 * ms) = true /\
  run_op_f gen_facts OpRelease (state_at tr t) t (50 * ms) = (no_lock, OReleased) /\
  snd (run_op_f gen_facts (OpTryLock true) (state_at tr t) t (50 * ms)) = OAcquired.
Proof.
  use_thr T. use_view V. use_loop L. use_op HO. exists 0, d30_acq, d30_cycles, (105 * ms). cbv zeta.
  rewrite (holder_trace_f_eq gen_facts L), (is_stale_na_f_eq gen_facts T V), !(run_op_f_eq gen_facts T V HO).
  exact live_stale_witness.
Qed.
Print Assumptions live_never_stale_refuted.

(* Third sentence, detection.  The holder dies after ANY of its file-system operations (k >= 1: the directory
   exists; k = 1: between creating the lock and anything else; k = 2: before the first heartbeat; k = 3, 4: between
   creating and stamping the heartbeat file; ...), at instant td (everything it initiated has landed by td).  Then
   EVERY IsStale call that starts after td and reads its clock at or after td + 2*period + 1ms answers "stale":
   the delay is bounded by 2*period + 1 ms, independently of all latencies and of the hold duration. *)
Theorem dead_becomes_stale : forall t0 a cs pms k td t1 t2 t3,
  1 <= pms -> acq_ok a -> Forall cyc_ok cs -> (1 <= k)%nat ->
  let evs := dead_after k (holder_trace_f gen_facts t0 a cs (pms * ms)) in
  (forall e, In e evs -> e_at e <= td) ->
  td <= t1 -> t1 <= t2 -> td + (2 * pms + 1) * ms <= t3 ->
  is_stale_na_f gen_facts evs t1 t2 t3 (pms * ms) = true.
Proof.
  use_thr T. use_view V. use_loop L. cbv zeta. intros t0 a cs pms k td t1 t2 t3.
  rewrite (holder_trace_f_eq gen_facts L), (is_stale_na_f_eq gen_facts T V). apply holder_dead_becomes_stale.
Qed.
Print Assumptions dead_becomes_stale.

(* Third sentence, recovery (no interference): from td + 2*period + 1ms on, IsStale = true, ReleaseIfStale removes
   the lock, and a new TryLock on the released lock succeeds (for every instant, with or without override);
   a non-overriding TryLock on the stale lock reports ErrStaleLock, an overriding one acquires directly. *)
Theorem dead_lock_recovers : forall t0 a cs pms k td t,
  1 <= pms -> acq_ok a -> Forall cyc_ok cs -> (1 <= k)%nat ->
  let evs := dead_after k (holder_trace_f gen_facts t0 a cs (pms * ms)) in
  (forall e, In e evs -> e_at e <= td) ->
  td + (2 * pms + 1) * ms <= t ->
  let st := state_at evs t in
  run_op_f gen_facts OpIsStale st t (pms * ms) = (st, OStale true) /\
  run_op_f gen_facts OpRelease st t (pms * ms) = (no_lock, OReleased) /\
  (forall o t', run_op_f gen_facts (OpTryLock o) no_lock t' (pms * ms) = (fresh_lock t', OAcquired)) /\
  run_op_f gen_facts (OpTryLock false) st t (pms * ms) = (st, OStaleLock) /\
  run_op_f gen_facts (OpTryLock true) st t (pms * ms) = (fresh_lock t, OAcquired).
Proof.
  use_thr T. use_view V. use_loop L. use_op HO. cbv zeta. intros t0 a cs pms k td t H1 H2 H3 H4.
  rewrite (holder_trace_f_eq gen_facts L). intros H5 H6.
  destruct (holder_dead_recovers t0 a cs pms k td t H1 H2 H3 H4 H5 H6) as (A & B & C & D & E).
  rewrite !(run_op_f_eq gen_facts T V HO). repeat split; try assumption.
Qed.
Print Assumptions dead_lock_recovers.

(* "While the holder is alive and its context not cancelled the heartbeat is refreshed every period": the loop of the
   model, like heartBeat (lockfile.go:62-73), IGNORES the errors of its writes.  cs1: ANY iterations — any of their
   operations failing (transient EIO / ENOSPC / EMFILE on open, write or Chtimes), any latencies; then fault-free
   iterations c2 :: cs2 within the latency bound.  From the moment c2's file creation lands the lock is live again,
   for as long as the hold lasts: faults lose signs of life, they never stop the writer.  (Partial for the same
   reason as live_never_stale_partial: the latency bound is a fact about the machine.) *)
Theorem live_again_after_faults_partial : forall t0 a cs1 c2 cs2 pms eps t1 t2 t3,
  1 <= pms -> 0 <= eps -> acq_ok a -> Forall cyc_ok cs1 -> Forall cyc_ok (c2 :: cs2) ->
  cycles_bound eps (pms * ms) (c2 :: cs2) ->
  let tr := holder_trace_f gen_facts t0 a (cs1 ++ c2 :: cs2) (pms * ms) in
  end_start (first_start t0 a) cs1 (pms * ms) + c_open c2 <= t1 -> t1 < last_at tr t0 ->
  t1 <= t2 -> t3 <= t1 + eps ->
  is_stale_na_f gen_facts tr t1 t2 t3 (pms * ms) = false.
Proof.
  use_thr T. use_view V. use_loop L. cbv zeta. intros t0 a cs1 c2 cs2 pms eps t1 t2 t3.
  rewrite (holder_trace_f_eq gen_facts L), (is_stale_na_f_eq gen_facts T V). apply holder_live_again.
Qed.
Print Assumptions live_again_after_faults_partial.

(* Death by cancellation of the holder's context, WITHOUT Unlock: the loop checks its context before every
   iteration (lockfile.go:63) and ends; the trace is that of the iterations made (any number, any faults).  Once
   everything it initiated has landed (td), the lock is reported stale from td + 2*period + 1ms on and recovers. *)
Theorem cancelled_holder_becomes_stale : forall t0 a cs pms td t1 t2 t3,
  1 <= pms -> acq_ok a -> Forall cyc_ok cs ->
  let evs := holder_trace_f gen_facts t0 a cs (pms * ms) in
  (forall e, In e evs -> e_at e <= td) ->
  td <= t1 -> t1 <= t2 -> td + (2 * pms + 1) * ms <= t3 ->
  is_stale_na_f gen_facts evs t1 t2 t3 (pms * ms) = true.
Proof.
  use_thr T. use_view V. use_loop L. cbv zeta. intros t0 a cs pms td t1 t2 t3.
  rewrite (holder_trace_f_eq gen_facts L), (is_stale_na_f_eq gen_facts T V). apply holder_cancelled_becomes_stale.
Qed.
Print Assumptions cancelled_holder_becomes_stale.

Theorem cancelled_holder_lock_recovers : forall t0 a cs pms td t,
  1 <= pms -> acq_ok a -> Forall cyc_ok cs ->
  let evs := holder_trace_f gen_facts t0 a cs (pms * ms) in
  (forall e, In e evs -> e_at e <= td) ->
  td + (2 * pms + 1) * ms <= t ->
  let st := state_at evs t in
  run_op_f gen_facts OpIsStale st t (pms * ms) = (st, OStale true) /\
  run_op_f gen_facts OpRelease st t (pms * ms) = (no_lock, OReleased) /\
  (forall o t', run_op_f gen_facts (OpTryLock o) no_lock t' (pms * ms) = (fresh_lock t', OAcquired)) /\
  run_op_f gen_facts (OpTryLock false) st t (pms * ms) = (st, OStaleLock) /\
  run_op_f gen_facts (OpTryLock true) st t (pms * ms) = (fresh_lock t, OAcquired).
Proof.
  use_thr T. use_view V. use_loop L. use_op HO. cbv zeta. intros t0 a cs pms td t H1 H2 H3.
  rewrite (holder_trace_f_eq gen_facts L). intros H5 H6.
  destruct (holder_cancelled_recovers t0 a cs pms td t H1 H2 H3 H5 H6) as (A & B & C & D & E).
  rewrite !(run_op_f_eq gen_facts T V HO). repeat split; try assumption.
Qed.
Print Assumptions cancelled_holder_lock_recovers.

(* What may end a holder's heartbeat loop: only the cancellation of the holder's own context and Unlock on the
   holder's own lock object.  Whatever other calls are made on the lock meanwhile — failing TryLock, Lock whose
   deadline expires, LockWithTimeout that times out, IsStale, ReleaseIfStale, on the same object or through other
   objects, and Unlock through another object — the loop is not ended ([loop_end] = None), so the hold is a
   [holder_trace] that keeps growing and every theorem above about live holders applies unchanged.  The
   correspondence (CHolder cases) checks the implementation against exactly this: after such calls the recorded
   holder must not fall silent. *)
Theorem heartbeat_ended_only_by_own_cancel_or_unlock : forall calls,
  (forall t, loop_end_f gen_facts calls = Some t ->
     exists c, In c calls /\ api_at c = t /\ (api_k c = KCancelOwn \/ (api_k c = KUnlock /\ api_same c = true))) /\
  (Forall (fun c => api_k c <> KCancelOwn /\ (api_k c = KUnlock -> api_same c = false)) calls -> loop_end_f gen_facts calls = None).
Proof.
  use_end E. intros calls. rewrite (loop_end_f_eq gen_facts E).
  split; [intros t; apply loop_end_only_own | apply loop_not_ended_by_others].
Qed.
Print Assumptions heartbeat_ended_only_by_own_cancel_or_unlock.

(* The shape of a heartbeat iteration: between `now := time.Now()` and the stamp that records it, the iteration
   issues on the heartbeat file exactly open, write, close, (deferred) close, then Chtimes — the three latency slots
   of the holder machine.  No Sync, no Stat, no second write: a blocking operation added to the iteration delays the
   landing of a time taken BEFORE it, so the heartbeat is born old.  (Fact f_wtf_ops of loop_ok; the correspondence
   compares this list with the operations the shim records.) *)
Theorem heartbeat_iteration_shape : iter_ops_f gen_facts = [BOpenFile; BWrite; BClose; BClose; BChtimes].
Proof. use_loop L. exact (iter_ops_f_eq gen_facts L). Qed.
Print Assumptions heartbeat_iteration_shape.

(* ---- non-vacuity: the hypotheses are satisfiable and the conclusions are not trivially true ---- *)

Definition ex_acq := mkAcq (20000) (150000) (40000).                        (* 20 us, 150 us, 40 us *)
Definition ex_cyc := mkCyc 200000 100000 100000 300000 FNone.                      (* 0.7 ms of latency per iteration *)
Definition ex_cycles := repeat ex_cyc 40.                                     (* a hold of 40 periods *)

Example ex_bounds : acq_ok ex_acq /\ Forall cyc_ok ex_cycles /\
  acquire_bound (1 * ms) (50 * ms) ex_acq ex_cycles /\ cycles_bound (1 * ms) (50 * ms) ex_cycles.
Proof.
  repeat split; try (vm_compute; congruence).
  unfold ex_cycles. simpl. repeat constructor; vm_compute; congruence.
Qed.

(* the hold lasts about 2 s, and at its end the lock is live *)
Example ex_hold : last_at (holder_trace 0 ex_acq ex_cycles (50 * ms)) 0 = 1938910000. Proof. reflexivity. Qed.
Example ex_live : is_stale_na (holder_trace 0 ex_acq ex_cycles (50 * ms)) (1900 * ms) (1900 * ms) (1901 * ms) (50 * ms) = false.
Proof. reflexivity. Qed.
(* the same holder dead after its 4th operation (heartbeat file created, written, never stamped): fresh at first,
   stale 101 ms after its last operation *)
Example ex_dead_fresh : is_stale_na (dead_after 4 (holder_trace 0 ex_acq ex_cycles (50 * ms))) (60 * ms) (60 * ms) (60 * ms) (50 * ms) = false.
Proof. reflexivity. Qed.
Example ex_dead_stale : is_stale_na (dead_after 4 (holder_trace 0 ex_acq ex_cycles (50 * ms))) (102 * ms) (102 * ms) (102 * ms) (50 * ms) = true.
Proof. reflexivity. Qed.
(* dead between Mkdir and everything else: judged by the directory's own time *)
Example ex_dead_first : is_stale_na (dead_after 1 (holder_trace 0 ex_acq ex_cycles (50 * ms))) (101 * ms) (101 * ms) (101 * ms) (50 * ms) = true.
Proof. reflexivity. Qed.
(* one failed open (file already there: only the stamp lands), one failed write, one failed Chtimes, then the
   loop is back to normal: live at 230 ms (it would be stale had the loop stopped at the first fault, see ex_stopped) *)
Definition ex_faulty := [ex_cyc; mkCyc 200000 0 100000 300000 FOpen; mkCyc 200000 100000 100000 300000 FWrite;
                         mkCyc 200000 100000 100000 300000 FChtimes; ex_cyc; ex_cyc].
Example ex_live_again : is_stale_na (holder_trace 0 ex_acq ex_faulty (50 * ms)) (230 * ms) (230 * ms) (231 * ms) (50 * ms) = false.
Proof. reflexivity. Qed.
Example ex_stopped : is_stale_na (holder_trace 0 ex_acq [ex_cyc] (50 * ms)) (230 * ms) (230 * ms) (231 * ms) (50 * ms) = true.
Proof. reflexivity. Qed.
(* a first iteration whose open fails leaves no heartbeat file at all: the directory's time is consulted *)
Example ex_first_open_fails : state_at (holder_trace 0 ex_acq [mkCyc 200000 0 100000 300000 FOpen] (50 * ms)) (40 * ms) = mkLock (Some 20000) [].
Proof. reflexivity. Qed.
(* boundary of the millisecond arithmetic: 100.999999 ms is not stale, 101 ms is *)
Example ex_boundary : is_stale_time (Some 0) (101 * ms - 1) (50 * ms) = false /\ is_stale_time (Some 0) (101 * ms) (50 * ms) = true.
Proof. split; reflexivity. Qed.
(* several files in the lock directory: all must be stale; a failed stat counts as fresh *)
Example ex_files : is_stale_view (mkView (Some [Some 0; Some (150 * ms)]) (Some 0)) (200 * ms) (50 * ms) = false
                /\ is_stale_view (mkView (Some [Some 0; Some (50 * ms)]) (Some 0)) (200 * ms) (50 * ms) = true
                /\ is_stale_view (mkView (Some [Some 0; None]) (Some 0)) (200 * ms) (50 * ms) = false.
Proof. repeat split; reflexivity. Qed.
