(* C17 — Stale-lock detection (utils/filesystem/lockfile.go, filetimes.go).  DEFINITIONS ONLY.

   Time is an integer number of NANOSECONDS (what Go's time.Duration holds); the millisecond truncation of
   [Duration.Milliseconds()] is written out ([millis], truncation toward zero = Z.quot).

   Three layers, each mirroring a piece of the Go code:
   1. the decision functions   isStale / areHeartBeatFilesAllStale / IsStale / ReleaseIfStale / TryLock
      over what the observer actually reads from the file system (a [view]) resp. over the lock's state;
   2. a timed trace of "signs of life" (mtime updates of the lock directory and of the heartbeat file) and what a
      NON-atomic IsStale (Ls at t1, Stat at t2 >= t1, time.Since at t3 >= t2) reads from it;
   3. the holder (TryLock's acquire path + the heartBeat goroutine) as a generator of such traces from arbitrary
      latencies, with a death point = any prefix of the trace. *)
From Coq Require Import List ZArith Bool.
Import ListNotations.
From GU Require Import C17.Facts C17.Gen.
Local Open Scope Z_scope.

(* ------------------------------------------------------------------------------------------------ *)
(* 1. decisions                                                                                      *)

Definition ms : Z := 1000000.                         (* nanoseconds in a millisecond *)
Definition millis (d : Z) : Z := Z.quot d ms.          (* time.Duration.Milliseconds() *)

(* isStale, lockfile.go:115-120.  [None] = nil FileTimeInfo (StatTimes failed): not stale.
   time.Since(modTime).Milliseconds() > 2*beatPeriod.Milliseconds()  — strict. *)
Definition is_stale_time (mt : option Z) (now period : Z) : bool :=
  match mt with
  | None => false
  | Some m => millis (now - m) >? 2 * millis period
  end.

(* collection.All, collection/conditions.go:140-150: false on the empty slice. *)
Definition all_true (l : list bool) : bool :=
  match l with [] => false | _ => forallb (fun b => b) l end.

(* areHeartBeatFilesAllStale, lockfile.go:99-113: one StatTimes per listed file; a failed stat counts as "not stale". *)
Definition files_all_stale (stats : list (option Z)) (now period : Z) : bool :=
  all_true (map (fun s => is_stale_time s now period) stats).

(* What one IsStale call reads: the listing of the lock directory ([None] = Ls failed, e.g. no lock), for each
   listed entry the result of StatTimes ([None] = error), and StatTimes of the directory itself. *)
Record view := mkView { v_ls : option (list (option Z)); v_dir : option Z }.

(* IsStale, lockfile.go:80-97. *)
Definition is_stale_view (v : view) (now period : Z) : bool :=
  match v_ls v with
  | None => false
  | Some [] => is_stale_time (v_dir v) now period      (* directory but no heartbeat yet: judged by its own time *)
  | Some fs => files_all_stale fs now period
  end.

(* The lock as it sits on the file system: the directory (with its mtime) and the mtimes of the files in it. *)
Record lockst := mkLock { l_dir : option Z; l_files : list Z }.
Definition no_lock : lockst := mkLock None [].
Definition fresh_lock (now : Z) : lockst := mkLock (Some now) [].

Definition view_of (st : lockst) : view :=
  mkView (match l_dir st with None => None | Some _ => Some (map Some (l_files st)) end) (l_dir st).

Definition is_stale_st (st : lockst) (now period : Z) : bool := is_stale_view (view_of st) now period.

Inductive outcome := OStale (b : bool) | OReleased | ONoop | OAcquired | OLocked | OStaleLock.

(* ReleaseIfStale, lockfile.go:122-127 (Unlock = recursive removal of the lock directory). *)
Definition release_if_stale (st : lockst) (now period : Z) : lockst * outcome :=
  if is_stale_st st now period then (no_lock, OReleased) else (st, ONoop).

(* TryLock, lockfile.go:130-165: Mkdir; on "exists": stale? -> (override ? release + TryLock again : ErrStaleLock)
   : ErrLocked.  The recursion of the Go code is bounded here by [fuel] (2 suffices when nobody interferes). *)
Fixpoint try_lock_fuel (fuel : nat) (override : bool) (st : lockst) (now period : Z) : lockst * outcome :=
  match l_dir st with
  | None => (fresh_lock now, OAcquired)               (* Mkdir succeeded, Chtimes(lockPath, now, now) *)
  | Some _ =>
      if is_stale_st st now period then
        if override then
          match fuel with
          | O => (st, OLocked)
          | S f => try_lock_fuel f override (fst (release_if_stale st now period)) now period
          end
        else (st, OStaleLock)
      else (st, OLocked)
  end.
Definition try_lock := try_lock_fuel 2.

Inductive obs_op := OpIsStale | OpRelease | OpTryLock (override : bool).

Definition run_op (op : obs_op) (st : lockst) (now period : Z) : lockst * outcome :=
  match op with
  | OpIsStale => (st, OStale (is_stale_st st now period))
  | OpRelease => release_if_stale st now period
  | OpTryLock o => try_lock o st now period
  end.

(* what a live lock must answer to an observer *)
Definition benign (op : obs_op) : outcome :=
  match op with OpIsStale => OStale false | OpRelease => ONoop | OpTryLock _ => OLocked end.

(* ------------------------------------------------------------------------------------------------ *)
(* 2. timed traces of signs of life                                                                  *)

Inductive obj := ODir | OHb.
Definition obj_eqb (a b : obj) : bool :=
  match a, b with ODir, ODir | OHb, OHb => true | _, _ => false end.

(* one mtime update: it takes effect ("lands") at [e_at]; from then on the object exists and its mtime is [e_val].
   [e_init] is the instant at which the holder initiated it (the `now := time.Now()` of the loop iteration or of the
   acquire path that the operation belongs to): it plays no role in what observers see, it is what the property's
   "has written no heartbeat for more than two periods" is measured against — the recorded mtime of a heartbeat is
   the instant captured BEFORE the write (lockfile.go:66-70), so mtimes go back by the write latency at each Chtimes. *)
Record ev := mkEv { e_at : Z; e_obj : obj; e_val : Z; e_init : Z }.

(* mtime of [o] as seen at instant [t]: the value of the last event on [o] (in trace order) that has landed. *)
Fixpoint last_on (o : obj) (evs : list ev) (t : Z) (acc : option Z) : option Z :=
  match evs with
  | [] => acc
  | e :: r => last_on o r t (if obj_eqb (e_obj e) o && (e_at e <=? t) then Some (e_val e) else acc)
  end.

Definition state_at (evs : list ev) (t : Z) : lockst :=
  mkLock (last_on ODir evs t None)
         (match last_on OHb evs t None with None => [] | Some m => [m] end).

(* A NON-atomic IsStale: Ls at t1, StatTimes at t2. *)
Definition observe (evs : list ev) (t1 t2 : Z) : view :=
  mkView (match last_on ODir evs t1 None with
          | None => None
          | Some _ => Some (match last_on OHb evs t1 None with
                            | None => []
                            | Some _ => [last_on OHb evs t2 None]
                            end)
          end)
         (last_on ODir evs t2 None).

Definition is_stale_na (evs : list ev) (t1 t2 t3 period : Z) : bool :=
  is_stale_view (observe evs t1 t2) t3 period.

(* ------------------------------------------------------------------------------------------------ *)
(* 3. the holder                                                                                     *)

(* latencies (>= 0 in every real run) of the acquire path, TryLock lockfile.go:137-163:
   Mkdir lands at t0 (the file system stamps the directory with its clock);
   a_now: Mkdir's return -> `now := time.Now()`; a_chtimes: -> Chtimes(lockPath, now, now) lands;
   a_spawn: -> the heartBeat goroutine captures its first `now`. *)
Record acq_lat := mkAcq { a_now : Z; a_chtimes : Z; a_spawn : Z }.

(* One iteration of heartBeat's loop, lockfile.go:62-73.  Latencies are counted from `now := time.Now()` (:66):
   c_open: -> OpenFile(O_WRONLY|O_CREATE|O_TRUNC) lands (file exists, stamped by the file system) or fails;
   c_write: -> the write lands (stamped again) or fails; c_chtimes: -> Chtimes(file, now, now) lands (mtime := now)
   or fails; c_sleep: everything beyond the nominal `period - 1ms` of SleepWithContext until the next `now`.
   c_fault: the ERRORS OF THE WRITE ARE IGNORED by the loop (`_ = fs.WriteFile`, `_ = fs.Chtimes`): a failed
   operation loses that sign of life and nothing else, the next iteration starts as if nothing had happened.
   The loop ends only when its context is cancelled (:63): a holder whose context is cancelled after n iterations
   is the trace of n iterations ([cycles_events] over a list of length n). *)
Inductive fault := FNone | FOpen | FWrite | FChtimes.
Record cyc_lat := mkCyc { c_open : Z; c_write : Z; c_chtimes : Z; c_sleep : Z; c_fault : fault }.

Definition acquire_events (t0 : Z) (a : acq_lat) : list ev :=
  [ mkEv t0 ODir t0 t0;
    mkEv (t0 + a_now a + a_chtimes a) ODir (t0 + a_now a) (t0 + a_now a) ].

Definition first_start (t0 : Z) (a : acq_lat) : Z := t0 + a_now a + a_chtimes a + a_spawn a.

Definition ev_create (s : Z) (c : cyc_lat) : ev := mkEv (s + c_open c) OHb (s + c_open c) s.
Definition ev_write (s : Z) (c : cyc_lat) : ev := mkEv (s + c_open c + c_write c) OHb (s + c_open c + c_write c) s.
Definition ev_stamp (s : Z) (c : cyc_lat) : ev := mkEv (s + c_open c + c_write c + c_chtimes c) OHb s s.

(* [ex]: the heartbeat file already exists (an earlier iteration managed to create it).
   FOpen: WriteFile fails at OpenFile, nothing is written; Chtimes still runs and lands iff the file exists.
   FWrite: the file is created/truncated (stamped), the write fails, Chtimes lands.
   FChtimes: created and written (stamped by the file system), the explicit stamp is lost. *)
Definition cycle_events (s : Z) (ex : bool) (c : cyc_lat) : list ev :=
  match c_fault c with
  | FNone => [ev_create s c; ev_write s c; ev_stamp s c]
  | FOpen => if ex then [ev_stamp s c] else []
  | FWrite => [ev_create s c; ev_stamp s c]
  | FChtimes => [ev_create s c; ev_write s c]
  end.

Definition opened (c : cyc_lat) : bool := match c_fault c with FOpen => false | _ => true end.

Definition cyc_total (c : cyc_lat) : Z := c_open c + c_write c + c_chtimes c + c_sleep c.

Definition next_start (s : Z) (c : cyc_lat) (period : Z) : Z := s + cyc_total c + (period - ms).

Fixpoint cycles_events (s : Z) (ex : bool) (cs : list cyc_lat) (period : Z) : list ev :=
  match cs with
  | [] => []
  | c :: r => cycle_events s ex c ++ cycles_events (next_start s c period) (ex || opened c) r period
  end.

(* the instants at which the iterations capture their `now` *)
Fixpoint cycle_starts (s : Z) (cs : list cyc_lat) (period : Z) : list Z :=
  match cs with
  | [] => []
  | c :: r => s :: cycle_starts (next_start s c period) r period
  end.

(* the instant at which the iteration after the last one captures its `now` (with no over-sleep) *)
Fixpoint end_start (s : Z) (cs : list cyc_lat) (p : Z) : Z :=
  match cs with [] => s | c :: r => end_start (next_start s c p) r p end.

(* What may end the heartbeat loop.  The API calls made on the lock while it is held, by the holder's own lock
   object ([api_same]) or through other objects for the same lock, each with the instant at which it took effect.
   heartBeat returns only when ITS context is done (lockfile.go:63): that context is derived from the context given
   to the acquiring call and registered in the object's cancel store (:161-162), so the loop is ended by the
   cancellation of the holder's context and by Unlock on the holder's own object (cancelStore.Cancel, :201) — and by
   nothing else: not by a failing TryLock, not by a Lock whose deadline expires, not by a LockWithTimeout that
   times out (it cancels only the two contexts it registered itself), not by IsStale / ReleaseIfStale, not by
   anything done through another object (an Unlock there removes the directory; the loop goes on, its writes fail). *)
Inductive api_kind := KCancelOwn | KUnlock | KTryLock | KLockDeadline | KLockWithTimeout | KIsStale | KReleaseIfStale.
Record api_call := mkApi { api_k : api_kind; api_same : bool; api_at : Z }.

Definition ends_loop (c : api_call) : bool :=
  match api_k c with
  | KCancelOwn => true
  | KUnlock => api_same c
  | _ => false
  end.

Fixpoint loop_end (calls : list api_call) : option Z :=
  match calls with
  | [] => None
  | c :: r => if ends_loop c then Some (api_at c) else loop_end r
  end.

Definition holder_trace (t0 : Z) (a : acq_lat) (cs : list cyc_lat) (period : Z) : list ev :=
  acquire_events t0 a ++ cycles_events (first_start t0 a) false cs period.

(* the holder dies after its k-th file-system operation: nothing after it ever lands *)
Definition dead_after (k : nat) (tr : list ev) : list ev := firstn k tr.

Fixpoint last_at (evs : list ev) (d : Z) : Z :=
  match evs with [] => d | e :: r => last_at r (e_at e) end.

(* ------------------------------------------------------------------------------------------------ *)
(* 4. the model INSTANTIATED BY THE FACTS extracted from the source (GU.C17.Facts / GU.C17.Gen)       *)
(* Everything above is the reference reading of the code; everything below interprets the generated   *)
(* record.  Proofs.v shows that under named conditions on the record the two coincide; Props.v states   *)
(* the theorems for [gen_facts] and discharges the conditions each theorem needs by computation.      *)

Definition conv (u : dunit) (d : Z) : Z :=
  match u with
  | UNanos => d
  | UMicros => Z.quot d 1000
  | UMillis => Z.quot d ms
  | USeconds => Z.quot d 1000000000
  end.

Definition cmp_f (c : cmpop) (a b : Z) : bool :=
  match c with
  | CGt => a >? b | CGe => a >=? b | CLt => a <? b | CLe => a <=? b | CEq => a =? b | CNe => negb (a =? b)
  end.

(* the views and traces of this model carry MODIFICATION times; a code that ages any other time is outside it *)
Definition reads_mtime (F : facts) : bool :=
  match f_time_source F, f_ft_default_modtime F with
  | TModTime, TModTime => f_ft_default_when_sys_nil F
  | _, _ => false
  end.

(* isStale *)
Definition is_stale_time_f (F : facts) (mt : option Z) (now period : Z) : bool :=
  match mt with
  | None => f_nil_time_stale F
  | Some m => reads_mtime F &&
              cmp_f (f_cmp F) (conv (f_age_unit F) (now - m)) (f_factor F * conv (f_period_unit F) period)
  end.

Definition per (F : facts) (fld : pfield) (period : Z) : Z :=
  match fld with PHeartBeat => period | PBetweenTries => f_tries_ns F end.

Definition combine_f (c : comb) (l : list bool) : bool :=
  match c with CombAll => all_true l | CombAny => existsb (fun b => b) l end.

(* one round of areHeartBeatFilesAllStale's loop: [s] = None is a failed StatTimes *)
Definition file_stale_f (F : facts) (s : option Z) (now period : Z) : bool :=
  match s with
  | Some m => if f_file_judged_when_stat_ok F then is_stale_time_f F (Some m) now period else f_file_default_stale F
  | None => if f_file_judged_when_stat_ok F then f_file_default_stale F else is_stale_time_f F None now period
  end.

(* IsStale: the ordered guards *)
Definition is_stale_view_f (F : facts) (v : view) (now period : Z) : bool :=
  match v_ls v with
  | None => f_ls_err_stale F
  | Some fs =>
      if (match fs with [] => f_empty_uses_dir F | _ => false end)
      then match v_dir v with
           | None => f_dir_stat_err_stale F
           | Some d => is_stale_time_f F (Some d) now (per F (f_empty_period F) period)
           end
      else combine_f (f_combine F) (map (fun s => file_stale_f F s now (per F (f_files_period F) period)) fs)
  end.

Definition is_stale_st_f (F : facts) (st : lockst) (now period : Z) : bool := is_stale_view_f F (view_of st) now period.

Definition unlock_st (st : lockst) : lockst * outcome :=
  (no_lock, match l_dir st with Some _ => OReleased | None => ONoop end).

Definition release_f (F : facts) (st : lockst) (now period : Z) : lockst * outcome :=
  match f_release F with
  | RIfStaleUnlock => if is_stale_st_f F st now period then unlock_st st else (st, ONoop)
  | RIfNotStaleUnlock => if is_stale_st_f F st now period then (st, ONoop) else unlock_st st
  | RAlwaysUnlock => unlock_st st
  | RNeverUnlock => (st, ONoop)
  end.

Definition tl_out (e : tlerr) : outcome := match e with TLLocked => OLocked | TLStaleLock => OStaleLock end.

Fixpoint try_lock_fuel_f (F : facts) (fuel : nat) (override : bool) (st : lockst) (now period : Z) : lockst * outcome :=
  if negb (f_tl_mkdir F) then (mkLock (Some now) (l_files st), OAcquired)      (* MkdirAll never reports "exists" *)
  else
  match l_dir st with
  | None => (fresh_lock now, OAcquired)
  | Some _ =>
      if Bool.eqb (is_stale_st_f F st now period) (f_tl_stale_test F) then
        if Bool.eqb override (f_tl_override_test F) then
          match fuel with
          | O => (st, OLocked)
          | S f => try_lock_fuel_f F f override
                     (if f_tl_override_releases F then fst (release_f F st now period) else st) now period
          end
        else (st, tl_out (f_tl_stale_err F))
      else (st, tl_out (f_tl_live_err F))
  end.

Definition run_op_f (F : facts) (op : obs_op) (st : lockst) (now period : Z) : lockst * outcome :=
  match op with
  | OpIsStale => (st, OStale (is_stale_st_f F st now period))
  | OpRelease => release_f F st now period
  | OpTryLock o => try_lock_fuel_f F 2 o st now period
  end.

Definition is_stale_na_f (F : facts) (evs : list ev) (t1 t2 t3 period : Z) : bool :=
  is_stale_view_f F (observe evs t1 t2) t3 period.

(* the holder: TryLock's acquire path and heartBeat's loop *)
Definition acquire_events_f (F : facts) (t0 : Z) (a : acq_lat) : list ev :=
  mkEv t0 ODir t0 t0 ::
  (if f_tl_chtimes_dir_now F then [mkEv (t0 + a_now a + a_chtimes a) ODir (t0 + a_now a) (t0 + a_now a)] else []).

Definition stamp_f (F : facts) (s : Z) (c : cyc_lat) : list ev :=
  match f_hb_chtimes_arg F with ANow => [ev_stamp s c] | AOther => [] end.

(* what an iteration leaves behind, given how the loop treats the errors of its two operations *)
Definition cycle_events_f (F : facts) (s : Z) (ex : bool) (c : cyc_lat) : list ev :=
  match c_fault c with
  | FNone => ev_create s c :: ev_write s c :: stamp_f F s c
  | FOpen => match f_hb_write_err F with EIgnore => if ex then stamp_f F s c else [] | EReturn => [] end
  | FWrite => ev_create s c :: match f_hb_write_err F with EIgnore => stamp_f F s c | EReturn => [] end
  | FChtimes => [ev_create s c; ev_write s c]
  end.

(* does the loop go on after this iteration? *)
Definition goes_on (F : facts) (c : cyc_lat) : bool :=
  match c_fault c with
  | FNone => true
  | FOpen | FWrite => match f_hb_write_err F with EIgnore => true | EReturn => false end
  | FChtimes => match f_hb_chtimes_err F with EIgnore => true | EReturn => false end
  end.

Definition next_start_f (F : facts) (s : Z) (c : cyc_lat) (period : Z) : Z :=
  s + cyc_total c + (period - f_hb_sleep_slack_ns F).

Fixpoint cycles_events_f (F : facts) (s : Z) (ex : bool) (cs : list cyc_lat) (period : Z) : list ev :=
  match cs with
  | [] => []
  | c :: r => cycle_events_f F s ex c ++
              (if goes_on F c then cycles_events_f F (next_start_f F s c period) (ex || opened c) r period else [])
  end.

Fixpoint cycle_starts_f (F : facts) (s : Z) (cs : list cyc_lat) (period : Z) : list Z :=
  match cs with
  | [] => []
  | c :: r => s :: (if goes_on F c then cycle_starts_f F (next_start_f F s c period) r period else [])
  end.

Fixpoint end_start_f (F : facts) (s : Z) (cs : list cyc_lat) (period : Z) : Z :=
  match cs with [] => s | c :: r => end_start_f F (next_start_f F s c period) r period end.

(* the backend operations of one complete, fault-free heartbeat iteration, as the shim sees them on the heartbeat
   file: WriteToFile's statements in order, its deferred close at the return, then heartBeat's Chtimes.  The holder
   machine has exactly one latency slot for the open, one for the write (with the closes) and one for the stamp:
   any further blocking operation between `now` and the stamp (a Sync, a Stat, a second write) is outside it. *)
Definition wstmt_ops (w : wstmt) : list bopk :=
  match w with WOpen => [BOpenFile] | WCopy => [BWrite] | WSync => [BSync] | WClose => [BClose] | WDeferClose => [] end.
Definition iter_ops_f (F : facts) : list bopk :=
  flat_map wstmt_ops (f_wtf_ops F) ++
  flat_map (fun w => match w with WDeferClose => [BClose] | _ => [] end) (f_wtf_ops F) ++ [BChtimes].
Definition iter_ops : list bopk := [BOpenFile; BWrite; BClose; BClose; BChtimes].

Definition bopk_eqb (a b : bopk) : bool :=
  match a, b with
  | BOpenFile, BOpenFile | BWrite, BWrite | BClose, BClose | BChtimes, BChtimes | BSync, BSync | BStat, BStat
  | BOther, BOther => true
  | _, _ => false
  end.
Fixpoint bopks_eqb (a b : list bopk) : bool :=
  match a, b with
  | [], [] => true
  | x :: xs, y :: ys => bopk_eqb x y && bopks_eqb xs ys
  | _, _ => false
  end.

Definition stopped_f (F : facts) (cs : list cyc_lat) : bool := existsb (fun c => negb (goes_on F c)) cs.

Definition holder_trace_f (F : facts) (t0 : Z) (a : acq_lat) (cs : list cyc_lat) (period : Z) : list ev :=
  acquire_events_f F t0 a ++
  cycles_events_f F (first_start t0 a) false cs (per F (f_hb_spawn_period F) period).

(* what ends the loop: the heartbeat context is a child of the holder's context iff [f_hb_ctx] says so and the loop
   looks at it; its cancel function sits in the lock's store iff it is registered there; Unlock cancels that store;
   so does the timeout runner of LockWithTimeout if (and only if) one of its branches calls store.Cancel() on the
   lock's own store *)
Definition has_store (l : list xcancel) : bool := existsb (fun x => match x with XStore => true | _ => false end) l.

Definition ends_loop_f (F : facts) (c : api_call) : bool :=
  match api_k c with
  | KCancelOwn => f_hb_ctx_check_first F && match f_hb_ctx F with DCancelOfCtx => true | _ => false end
  | KUnlock => api_same c && f_unlock_cancels_first F && f_hb_cancel_registered F
  | KLockWithTimeout =>
      api_same c && f_lwt_own_store F && f_hb_cancel_registered F && f_hb_ctx_check_first F &&
      (has_store (f_x_timeout_branch F) || has_store (f_x_err_branch F) || has_store (f_x_ok_tail F))
  | _ => false
  end.

Fixpoint loop_end_f (F : facts) (calls : list api_call) : option Z :=
  match calls with
  | [] => None
  | c :: r => if ends_loop_f F c then Some (api_at c) else loop_end_f F r
  end.

(* ------------------------------------------------------------------------------------------------ *)
(* correspondence cases                                                                              *)

Definition outcome_eqb (a b : outcome) : bool :=
  match a, b with
  | OStale x, OStale y => Bool.eqb x y
  | OReleased, OReleased | ONoop, ONoop | OAcquired, OAcquired | OLocked, OLocked | OStaleLock, OStaleLock => true
  | _, _ => false
  end.

Definition cyc_nonneg (c : cyc_lat) : bool :=
  (0 <=? c_open c) && (0 <=? c_write c) && (0 <=? c_chtimes c) && (0 <=? c_sleep c).
Definition acq_nonneg (a : acq_lat) : bool := (0 <=? a_now a) && (0 <=? a_chtimes a) && (0 <=? a_spawn a).

Fixpoint evs_eqb (a b : list ev) : bool :=
  match a, b with
  | [], [] => true
  | x :: xs, y :: ys => (e_at x =? e_at y) && obj_eqb (e_obj x) (e_obj y) && (e_val x =? e_val y) && (e_init x =? e_init y) && evs_eqb xs ys
  | _, _ => false
  end.

Inductive case :=
(* one IsStale call of the real code: what it read ([v]), the interval [lo, hi] in which its time.Since was
   evaluated, its answer.  The answer must be the model's whenever the model's answer is the same at both ends. *)
| CView (period : Z) (v : view) (lo hi : Z) (got : bool)
(* one IsStale / ReleaseIfStale / TryLock call on a planted lock state, no interference: outcome and whether the
   lock directory exists afterwards *)
| COp (period : Z) (op : obs_op) (st : lockst) (lo hi : Z) (got : outcome) (dir_after : bool)
(* one IsStale call against the recorded signs of life of a real holder.  [late]: every event landed at the END
   of its operation (and stamped values at their lowest); [early]: at the beginning.  The observer's Ls happened
   in [l1, h1], its StatTimes in [l2, h2], time.Since in [l3, h3]. *)
| CTrace (period : Z) (early late : list ev) (l1 h1 l2 h2 l3 h3 : Z) (got : bool)
(* the recorded operations of a real holder are those of the holder machine run with the measured latencies *)
(* [calls]: the API calls made on the lock during the hold, in chronological order.  If one of them ends the loop
   ([loop_end]) at most ONE iteration (whose context check had already passed) starts after it.
   [shapes]: the distinct sequences of backend operation kinds that the holder's complete fault-free iterations
   issued on the heartbeat file, as recorded by the shim: each must be the model's [iter_ops_f].
   [alive_until]: an instant up to which the process was demonstrably responsive (reference sleeper): as long as
   nothing has ended the loop it never ends by itself (errors of its writes are ignored, other calls do not touch
   it), so the next iteration is due at [end_start]; more than 10 periods of silence are not a run of the machine *)
| CHolder (period : Z) (t0 : Z) (a : acq_lat) (cs : list cyc_lat) (k : nat) (observed : list ev) (calls : list api_call) (alive_until : option Z)
          (shapes : list (list bopk)).

Definition check_case_f (F : facts) (c : case) : bool :=
  match c with
  | CView p v lo hi got =>
      let a := is_stale_view_f F v lo p in
      let b := is_stale_view_f F v hi p in
      if Bool.eqb a b then Bool.eqb got a else true
  | COp p op st lo hi got dir_after =>
      let '(s1, o1) := run_op_f F op st lo p in
      let '(s2, o2) := run_op_f F op st hi p in
      if outcome_eqb o1 o2
      then outcome_eqb got o1 && Bool.eqb dir_after (match l_dir s1 with Some _ => true | None => false end)
      else true
  | CTrace p early late l1 h1 l2 h2 l3 h3 got =>
      (* the answer is monotone: later landing, earlier reading, later evaluation => staler *)
      if got then is_stale_na_f F late l1 l2 h3 p       (* the stalest reading consistent with the record must be stale *)
      else negb (is_stale_na_f F early h1 h2 l3 p)      (* the freshest one must not be *)
  | CHolder p t0 a cs k observed calls alive_until shapes =>
      forallb (fun sh => bopks_eqb sh (iter_ops_f F)) shapes &&
      acq_nonneg a && forallb cyc_nonneg cs && evs_eqb (dead_after k (holder_trace_f F t0 a cs p)) observed
      && match loop_end_f F calls with
         | None => true
         | Some tc => Nat.leb (length (filter (fun s => tc <? s) (cycle_starts_f F (first_start t0 a) cs (per F (f_hb_spawn_period F) p)))) 1
         end
      && match alive_until with
         | None => true
         | Some t =>
             match loop_end_f F calls with
             | Some tc => (t <=? tc) && (stopped_f F cs || (t <=? end_start_f F (first_start t0 a) cs (per F (f_hb_spawn_period F) p) + 10 * p)) || (tc <? t)
             | None => stopped_f F cs || (t <=? end_start_f F (first_start t0 a) cs (per F (f_hb_spawn_period F) p) + 10 * p)
             end
         end
  end.

(* the correspondence is evaluated on the GENERATED instance; the period the harness assumes must be the code's *)
Definition case_period (c : case) : Z :=
  match c with CView p _ _ _ _ => p | COp p _ _ _ _ _ _ => p | CTrace p _ _ _ _ _ _ _ _ _ => p | CHolder p _ _ _ _ _ _ _ _ => p end.

Definition check_case (c : case) : bool :=
  (case_period c =? f_period_ns gen_facts) && check_case_f gen_facts c.
