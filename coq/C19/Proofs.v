(* C19 — proofs about the paginator model: refinement to the abstract specification
   "a cursor into the concatenation of the pages", and its corollaries. *)
From Coq Require Import List ZArith Bool Lia.
Import ListNotations.
From GU Require Import C19.Model.

(* ---------- the abstract specification ---------- *)

(* items of the pages before the first failing page *)
Fixpoint good_items (ps : list page) : list Z :=
  match ps with
  | Page i :: r => i ++ good_items r
  | _ => []
  end.

Definition is_page (p : page) : bool := match p with Page _ => true | _ => false end.
Definition all_good (ps : list page) : bool := forallb is_page ps.
Definition good_segment (seg : list page) : bool :=
  match seg with [] => false | _ => all_good seg end.

Definition page_items (p : page) : list Z := match p with Page i => i | _ => [] end.
Definition concat_pages (ps : list page) : list Z := flat_map page_items ps.

Lemma good_items_all_good ps : all_good ps = true -> good_items ps = concat_pages ps.
Proof.
  induction ps as [|p ps IH]; simpl; intros H; [reflexivity|].
  apply andb_true_iff in H as [Hp Hps]. destruct p; try discriminate. simpl. now rewrite IH.
Qed.

Definition rem (i : option (list Z)) (r : list page) : list Z :=
  match i with None => [] | Some l => l ++ good_items r end.

Definition remaining (s : st) : list Z := rem (it s) (rest s).

(* spec state: the items still to come, and whether the paginator was stopped *)
Definition spec_step (q : list Z * bool) (o : op) : out * (list Z * bool) :=
  let '(l, c) := q in
  match o with
  | HasNext => (OBool (if c then false else match l with [] => false | _ => true end), q)
  | GetNext => if c then (OErr ECancelled, q)
               else match l with [] => (OErr ENotFound, q) | x :: xs => (OItem x, (xs, c)) end
  | Stop | Close => (OUnit, (l, true))
  | DryUp => (OUnit, q)
  end.

Fixpoint spec_run (q : list Z * bool) (ops : list op) : list out :=
  match ops with
  | [] => []
  | o :: os => let '(x, q') := spec_step q o in x :: spec_run q' os
  end.

(* ---------- AbstractPaginator.HasNext ---------- *)

Lemma hnp_spec : forall r i b i' r',
  has_next_pages i r = (b, (i', r')) ->
  rem i' r' = rem i r /\
  (if b then exists x xs, i' = Some (x :: xs) else rem i r = []).
Proof.
  induction r as [|p r IH]; intros i b i' r' H.
  - destruct i as [[|x xs]|]; simpl in H; inversion H; subst; simpl; eauto.
  - destruct i as [[|x xs]|]; simpl in H.
    + destruct p as [items| |].
      * apply IH in H. destruct H as [H1 H2]. simpl in *. split; [exact H1|].
        destruct b; [exact H2|]. exact H2.
      * inversion H; subst; simpl; auto.
      * inversion H; subst; simpl; auto.
    + inversion H; subst; simpl; eauto.
    + inversion H; subst; simpl; auto.
Qed.

Lemma abs_has_next_spec s b s' :
  abs_has_next s = (b, s') ->
  cancelled s' = cancelled s /\ futures s' = futures s /\ dry s' = dry s /\
  (cancelled s = true -> b = false /\ s' = s) /\
  (cancelled s = false ->
     remaining s' = remaining s /\
     (if b then exists x xs, it s' = Some (x :: xs) else remaining s = [])).
Proof.
  unfold abs_has_next. destruct (cancelled s) eqn:C.
  - intros H; inversion H; subst. rewrite C. split; [reflexivity|]. split; [reflexivity|]. split; [reflexivity|].
    split; [auto|discriminate].
  - destruct (has_next_pages (it s) (rest s)) as [b0 [i r]] eqn:E.
    intros H; inversion H; subst; simpl. apply hnp_spec in E.
    split; [auto|]. split; [reflexivity|]. split; [reflexivity|]. split; [discriminate|].
    intros _. exact E.
Qed.

(* ---------- refinement, plain (static / dynamic) paginators ---------- *)

Definition R (s : st) (q : list Z * bool) : Prop :=
  cancelled s = snd q /\ (snd q = false -> fst q = remaining s).

Lemma step_refines e s q o :
  R s q ->
  let '(x, s') := step false e s o in
  let '(y, q') := spec_step q o in
  x = y /\ R s' q'.
Proof.
  intros [Hc Hr]. destruct q as [l c]. simpl in Hc, Hr.
  destruct o; simpl.
  - (* HasNext *)
    destruct (abs_has_next s) as [b s'] eqn:E. apply abs_has_next_spec in E.
    destruct E as (E1 & E2 & E3 & E4 & E5).
    destruct c.
    + destruct (E4 Hc) as [-> ->]. split; [reflexivity|]. split; simpl; auto.
    + destruct (E5 Hc) as [F1 F2]. rewrite (Hr eq_refl). split.
      * destruct b.
        -- destruct F2 as (x & xs & F2). unfold remaining in F1 at 1. rewrite F2 in F1. simpl in F1.
           rewrite <- F1. reflexivity.
        -- rewrite F2. reflexivity.
      * split; simpl; [congruence|]. intros _. now rewrite F1, <- Hr.
  - (* GetNext *)
    unfold get_next. rewrite Hc. destruct c.
    + split; [reflexivity|]. split; simpl; auto.
    + simpl. destruct (abs_has_next s) as [b s'] eqn:E. apply abs_has_next_spec in E.
      destruct E as (E1 & E2 & E3 & E4 & E5). destruct (E5 Hc) as [F1 F2].
      rewrite (Hr eq_refl). destruct b.
      * destruct F2 as (x & xs & F2). unfold pop. rewrite F2.
        unfold remaining in F1 at 1. rewrite F2 in F1. simpl in F1. rewrite <- F1.
        split; [reflexivity|]. split; simpl; [congruence|]. intros _. reflexivity.
      * rewrite F2. split; [reflexivity|]. split; simpl; [congruence|]. intros _. now rewrite F1.
  - split; [reflexivity|]. split; simpl; auto. discriminate.
  - split; [reflexivity|]. split; simpl; auto. discriminate.
  - split; [reflexivity|]. split; simpl; auto.
Qed.

Lemma run_refines e : forall ops s q, R s q -> fst (run false e s ops) = spec_run q ops.
Proof.
  induction ops as [|o os IH]; intros s q HR; [reflexivity|].
  simpl. pose proof (step_refines e s q o HR) as H.
  destruct (step false e s o) as [x s1]. destruct (spec_step q o) as [y q1].
  destruct H as [-> HR1]. specialize (IH s1 q1 HR1).
  destruct (run false e s1 os) as [xs s2]. simpl in *. now rewrite IH.
Qed.

Lemma R_init s : R s (remaining s, cancelled s).
Proof. split; simpl; auto. Qed.

Lemma paginator_refines_cursor_l e s ops :
  fst (run false e s ops) = spec_run (remaining s, cancelled s) ops.
Proof. apply run_refines, R_init. Qed.

(* ---------- facts about the specification ---------- *)

Lemma spec_items_prefix : forall ops l c,
  items_of (spec_run (l, c) ops) = firstn (length (items_of (spec_run (l, c) ops))) l.
Proof.
  induction ops as [|o os IH]; intros l c; [reflexivity|].
  destruct o; simpl; try apply IH.
  - destruct c; simpl; [apply IH|].
    destruct l as [|x xs]; simpl; [apply IH|]. f_equal. apply IH.
Qed.

Lemma spec_cancelled_yields_nothing : forall ops l,
  Forall (fun o => o = OBool false \/ o = OErr ECancelled \/ o = OUnit) (spec_run (l, true) ops).
Proof.
  induction ops as [|o os IH]; intros l; simpl; [constructor|].
  destruct o; simpl; constructor; auto.
Qed.

Definition spec_state (q : list Z * bool) (ops : list op) : list Z * bool :=
  fold_left (fun q o => snd (spec_step q o)) ops q.

Lemma spec_run_app : forall a b q, spec_run q (a ++ b) = spec_run q a ++ spec_run (spec_state q a) b.
Proof.
  induction a as [|o a IH]; intros b q; [reflexivity|].
  simpl. unfold spec_state. simpl. destruct (spec_step q o) as [x q'] eqn:E. simpl. f_equal.
  apply IH.
Qed.

Lemma spec_state_cancel_sticky : forall ops l, snd (spec_state (l, true) ops) = true.
Proof.
  induction ops as [|o os IH]; intros l; [reflexivity|].
  unfold spec_state in *. simpl. destruct o; simpl; apply IH.
Qed.

(* HasNext is idempotent and yields nothing: it changes neither the cursor nor later outputs *)
Lemma spec_hasnext_neutral q os : spec_run q (HasNext :: os) = OBool (match q with (l, c) => if c then false else match l with [] => false | _ => true end end) :: spec_run q os.
Proof. destruct q as [l c]. reflexivity. Qed.

(* ---------- the canonical drain loop ---------- *)

Lemma drain_plain e : forall fuel s,
  cancelled s = false -> length (remaining s) < fuel ->
  drain false e fuel s = (remaining s, true).
Proof.
  induction fuel as [|f IH]; intros s Hc Hl; [lia|].
  simpl. destruct (abs_has_next s) as [b s1] eqn:E. apply abs_has_next_spec in E.
  destruct E as (E1 & E2 & E3 & E4 & E5). destruct (E5 Hc) as [F1 F2].
  destruct b.
  - destruct F2 as (x & xs & F2). unfold get_next. rewrite E1, Hc. simpl.
    destruct (abs_has_next s1) as [b2 s2] eqn:E'.
    (* second HasNext (inside GetNext) is a no-op on a non-empty iterator *)
    unfold abs_has_next in E'. rewrite E1, Hc in E'. rewrite F2 in E'.
    assert (Hh : has_next_pages (Some (x :: xs)) (rest s1) = (true, (Some (x :: xs), rest s1))) by (destruct (rest s1); reflexivity).
    rewrite Hh in E'. inversion E'; subst b2 s2. unfold pop. simpl.
    set (s3 := mkSt (Some xs) (rest s1) (futures s1) (dry s1) false).
    assert (Hrem : remaining s = x :: remaining s3).
    { rewrite <- F1. unfold remaining. rewrite F2. reflexivity. }
    rewrite (IH s3); [now rewrite Hrem| reflexivity | rewrite Hrem in Hl; simpl in Hl; lia].
  - now rewrite F2.
Qed.

(* ---------- stream paginators ---------- *)

Fixpoint fut_items (futs : list (list page)) : list Z :=
  match futs with [] => [] | seg :: fs => concat_pages seg ++ fut_items fs end.

Definition good_futures (futs : list (list page)) : bool := forallb good_segment futs.

(* When the grace period has elapsed after DryUp, the stream paginator behaves as the plain one. *)
Lemma stream_loop_dry_elapsed i r futs :
  stream_loop true true false i r futs =
  let '(b, (i1, r1)) := has_next_pages i r in (b, (i1, r1, futs)).
Proof.
  destruct futs as [|seg fs]; simpl; destruct (has_next_pages i r) as [b [i1 r1]]; destruct b; reflexivity.
Qed.

(* Not dry (or grace not elapsed), live context, well-formed futures: HasNext finds the next item
   wherever it is — in the current segment or in any future segment. *)
Lemma stream_loop_spec : forall futs i r b i' r' f' e d,
  d && e = false -> good_futures futs = true ->
  stream_loop e d false i r futs = (b, (i', r', f')) ->
  rem i' r' ++ fut_items f' = rem i r ++ fut_items futs /\
  good_futures f' = true /\
  (if b then exists x xs, i' = Some (x :: xs) else rem i r ++ fut_items futs = []).
Proof.
  induction futs as [|seg fs IH]; intros i r b i' r' f' e d Hde Hg H.
  - simpl in H. destruct (has_next_pages i r) as [b0 [i1 r1]] eqn:E. apply hnp_spec in E.
    destruct E as [E1 E2]. destruct b0; inversion H; subst; simpl; rewrite ?app_nil_r; auto.
  - simpl in H. destruct (has_next_pages i r) as [b0 [i1 r1]] eqn:E. apply hnp_spec in E.
    destruct E as [E1 E2]. destruct b0.
    + inversion H; subst. rewrite E1. auto.
    + rewrite Hde in H. simpl in Hg. apply andb_true_iff in Hg as [Hs Hfs].
      destruct seg as [|p seg']; [discriminate|]. simpl in Hs. apply andb_true_iff in Hs as [Hp Hseg'].
      destruct p as [items| |]; try discriminate.
      eapply IH in H; eauto. destruct H as (H1 & H2 & H3). rewrite E2. simpl.
      assert (Hgi : good_items seg' = concat_pages seg') by now apply good_items_all_good.
      simpl in H1. rewrite Hgi in H1. rewrite <- app_assoc in H1.
      split; [now rewrite <- app_assoc|]. split; [exact H2|].
      destruct b; [exact H3|]. simpl in H3. rewrite Hgi in H3. now rewrite <- !app_assoc in *.
Qed.

Definition sremaining (s : st) : list Z := remaining s ++ fut_items (futures s).

Lemma stream_has_next_spec e s b s' :
  cancelled s = false -> dry s && e = false -> good_futures (futures s) = true ->
  stream_has_next e s = (b, s') ->
  cancelled s' = false /\ dry s' = dry s /\ good_futures (futures s') = true /\
  sremaining s' = sremaining s /\
  (if b then exists x xs, it s' = Some (x :: xs) else sremaining s = []).
Proof.
  intros Hc Hd Hg. unfold stream_has_next. rewrite Hc.
  destruct (stream_loop e (dry s) false (it s) (rest s) (futures s)) as [b0 [[i r] f]] eqn:E.
  intros H; inversion H; subst; simpl. eapply stream_loop_spec in E; eauto.
  destruct E as (E1 & E2 & E3). unfold sremaining, remaining. simpl. auto.
Qed.

(* a stream that is never told to dry up (no DryUp among the calls), or whose grace period does not
   elapse (e = false), refines the cursor over current AND future pages *)
Definition no_dryup (ops : list op) : bool :=
  forallb (fun o => match o with DryUp => false | _ => true end) ops.

Definition RS (e : bool) (s : st) (q : list Z * bool) : Prop :=
  cancelled s = snd q /\
  (snd q = false -> fst q = sremaining s /\ good_futures (futures s) = true /\ dry s && e = false).

Lemma sstep_refines e s q o :
  RS e s q -> (e = false \/ o <> DryUp) ->
  let '(x, s') := step true e s o in
  let '(y, q') := spec_step q o in
  x = y /\ RS e s' q'.
Proof.
  intros [Hc Hr] Ho. destruct q as [l c]. simpl in Hc, Hr.
  destruct o; simpl.
  - destruct c.
    + (* cancelled: the loop may consume futures but answers false *)
      unfold stream_has_next. rewrite Hc.
      destruct (stream_loop e (dry s) true (it s) (rest s) (futures s)) as [b [[i r] f]] eqn:E.
      assert (b = false).
      { clear -E. revert E. generalize (it s) (rest s). induction (futures s) as [|seg fs IH]; intros i0 r0 E; simpl in E.
        - inversion E; auto.
        - destruct (dry s && e); [inversion E; auto|]. destruct seg as [|[items| |] seg']; try (inversion E; auto; fail).
          eapply IH; eauto. }
      subst b. split; [reflexivity|]. split; simpl; auto. discriminate.
    + destruct (Hr eq_refl) as (Hl & Hg & Hd).
      destruct (stream_has_next e s) as [b s'] eqn:E. eapply stream_has_next_spec in E; eauto.
      destruct E as (E1 & E2 & E3 & E4 & E5). rewrite Hl. split.
      * destruct b.
        -- destruct E5 as (x & xs & E5). unfold sremaining in E4. unfold remaining in E4 at 1. rewrite E5 in E4. simpl in E4.
           unfold sremaining. rewrite <- E4. reflexivity.
        -- rewrite E5. reflexivity.
      * split; simpl; auto. intros _. rewrite E4. split; auto. split; auto. now rewrite E2.
  - unfold get_next. rewrite Hc. destruct c.
    + split; [reflexivity|]. split; simpl; auto.
    + simpl. destruct (Hr eq_refl) as (Hl & Hg & Hd).
      destruct (stream_has_next e s) as [b s'] eqn:E. eapply stream_has_next_spec in E; eauto.
      destruct E as (E1 & E2 & E3 & E4 & E5). rewrite Hl. destruct b.
      * destruct E5 as (x & xs & E5). unfold pop. rewrite E5.
        unfold sremaining in E4. unfold remaining in E4 at 1. rewrite E5 in E4. simpl in E4.
        unfold sremaining at 1 2. rewrite <- E4.
        split; [reflexivity|]. split; simpl; auto. intros _. split; [reflexivity|]. split; auto. now rewrite E2.
      * rewrite E5. split; [reflexivity|]. split; simpl; auto. intros _. rewrite E4. split; auto. split; auto. now rewrite E2.
  - split; [reflexivity|]. split; simpl; auto. discriminate.
  - split; [reflexivity|]. split; simpl; auto. discriminate.
  - destruct Ho as [He|Ho]; [|congruence]. subst e.
    split; [reflexivity|]. split; simpl; auto. intros Hcf. destruct (Hr Hcf) as (Hl & Hg & Hd).
    split; [exact Hl|]. split; [exact Hg|]. reflexivity.
Qed.

Lemma srun_refines e : forall ops s q,
  RS e s q -> (e = false \/ no_dryup ops = true) ->
  fst (run true e s ops) = spec_run q ops.
Proof.
  induction ops as [|o os IH]; intros s q HR Ho; [reflexivity|].
  simpl. assert (Ho1 : e = false \/ o <> DryUp).
  { destruct Ho as [Ho|Ho]; [auto|]. right. simpl in Ho. destruct o; try discriminate; congruence. }
  pose proof (sstep_refines e s q o HR Ho1) as H.
  destruct (step true e s o) as [x s1]. destruct (spec_step q o) as [y q1].
  destruct H as [-> HR1].
  assert (Ho2 : e = false \/ no_dryup os = true).
  { destruct Ho as [Ho|Ho]; [auto|]. right. simpl in Ho. apply andb_true_iff in Ho. tauto. }
  specialize (IH s1 q1 HR1 Ho2).
  destruct (run true e s1 os) as [xs s2]. simpl in *. now rewrite IH.
Qed.

(* once dry and elapsed, a stream answers HasNext exactly as the plain paginator: futures are not consulted *)
Lemma stream_dry_elapsed_is_plain s :
  dry s = true -> cancelled s = false ->
  stream_has_next true s = abs_has_next s.
Proof.
  intros Hd Hc. unfold stream_has_next, abs_has_next. rewrite Hd, Hc, stream_loop_dry_elapsed.
  destruct (has_next_pages (it s) (rest s)) as [b [i r]]. destruct s; simpl in *; subst; reflexivity.
Qed.

(* ---------- constructors ---------- *)
Lemma init_reports_failure pages futs :
  match pages with Page _ :: _ => False | _ => True end -> init pages futs = None.
Proof. destruct pages as [|[| |] ?]; simpl; tauto. Qed.

Lemma init_ok items r futs :
  exists s, init (Page items :: r) futs = Some s /\ remaining s = items ++ good_items r /\
            cancelled s = false /\ futures s = futs /\ dry s = false.
Proof. eexists; split; [reflexivity|]; simpl; auto. Qed.
