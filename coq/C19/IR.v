(* C19 — the statement-level IR into which translator-c19/cmd/pagination2coq translates the bodies of the paginator
   methods on every run (coq/C19/Gen.v).  One constructor per statement shape of pagination.go / stream.go. *)

(* func (a *AbstractPaginator) HasNext() bool *)
Inductive hstmt :=
  | HCtxCheck        (* if parallelisation.DetermineContextError(a.ctx) != nil { return false } *)
  | HGetIter         (* currentIt, err := a.FetchCurrentPageIterator() *)
  | HRetFalseIfErr   (* if err != nil { return false } *)
  | HIterHasNext     (* if currentIt.HasNext() { return true } *)
  | HGetPage         (* currentPage, err := a.FetchCurrentPage() *)
  | HPageHasNext     (* if !currentPage.HasNext() { return false } *)
  | HFetchNext       (* err = a.fetchNextPage() *)
  | HRecurse.        (* return a.HasNext() *)

(* func (a *AbstractPaginator) fetchNextPage() (err error) *)
Inductive fstmt :=
  | FGetPage         (* currentPage, err := a.FetchCurrentPage() *)
  | FRetIfErr        (* if err != nil { return } *)
  | FPageHasNext     (* if !currentPage.HasNext() { return } *)
  | FFetch           (* newPage, err := a.FetchNextPage(a.ctx, currentPage) *)
  | FSetPage         (* err = a.setCurrentPage(newPage) *)
  | FReturn.         (* return *)

(* func (a *AbstractPaginator) setCurrentPage(page IStaticPage) (err error) *)
Inductive pstmt :=
  | PSetPage         (* a.currentPage = page *)
  | PClearIter       (* a.currentPageIterator = nil *)
  | PGetIterIfPage   (* if page != nil { a.currentPageIterator, err = page.GetItemIterator() } *)
  | PReturn.         (* return *)

(* func (a *AbstractPaginator) SetCurrentPage(page IStaticPage) (err error) *)
Inductive xstmt :=
  | XRejectNil       (* if page == nil { err = ErrUndefined "missing page"; return } *)
  | XSetPage         (* err = a.setCurrentPage(page) *)
  | XReturn.         (* return *)

(* func (a *AbstractPaginator) GetNext() (item interface{}, err error) *)
Inductive gstmt :=
  | GCtx                 (* err = parallelisation.DetermineContextError(a.ctx) *)
  | GRetIfErr            (* if err != nil { return } *)
  | GHasNextOrNotFound   (* if !a.HasNext() { err = ErrNotFound; return } *)
  | GGetIter             (* currentIt, err := a.FetchCurrentPageIterator() *)
  | GIterGetNext         (* item, err = currentIt.GetNext() *)
  | GReturn.             (* return *)

(* the body of the `for { … }` of func (s *AbstractStreamPaginator) HasNext() bool *)
Inductive tstmt :=
  | TAbsHasNext            (* if s.AbstractPaginator.HasNext() { s.timeReachLast.Store(time.Now()); return true } *)
  | TGetPage               (* page, err := s.AbstractPaginator.FetchCurrentPage() *)
  | TRetFalseIfErr         (* if err != nil { return false } *)
  | TCast                  (* stream, ok := page.(IStaticPageStream) *)
  | TRetFalseIfNotStream   (* if !ok { return false } *)
  | THasFuture             (* if !stream.HasFuture() { return false } *)
  | TDryCheck              (* if s.IsRunningDry() { if time.Since(s.timeReachLast.Load()) >= s.timeOut { return false } } else { s.timeReachLast.Store(time.Now()) } *)
  | TFetchFuture           (* future, err := s.FetchFuturePage(s.GetContext(), stream) *)
  | TSetPage               (* err = s.AbstractPaginator.SetCurrentPage(future) *)
  | TSleep.                (* parallelisation.SleepWithContext(s.GetContext(), s.backoff) *)

(* the body of the `for { … }` of func (s *AbstractStreamPaginator) GetNext() (interface{}, error) *)
Inductive ustmt :=
  | UAbsGetNext                 (* item, err := s.AbstractPaginator.GetNext() *)
  | URetIfItemOrContextError    (* if commonerrors.Any(err, nil, ErrCancelled, ErrTimeout) { return item, err } *)
  | UHasNextOrNotFound          (* if !s.HasNext() { err = ErrNotFound; return nil, err } *)
  | USleep.                     (* parallelisation.SleepWithContext(s.GetContext(), s.backoff) *)
