(* C19 — lemmas about the timed model of the stream grace period (Model.tloop). *)
From Coq Require Import List ZArith Bool Lia.
Import ListNotations.
From GU Require Import C19.Model.
Local Open Scope Z_scope.

(* the instant the grace period is counted from: the clock value of the last poll made while the stream
   was not (yet) marked dry — timeReachLast on entry if there was none *)
Definition last_live (reach : Z) (pre : list (Z * bool)) : Z :=
  fold_left (fun (acc : Z) (rd : Z * bool) => if snd rd then acc else fst rd) pre reach.

Lemma last_live_cons reach now d pre :
  last_live reach ((now, d) :: pre) = last_live (if d then reach else now) pre.
Proof. reflexivity. Qed.

Definition tres_bool (t : tres) : bool := match t with TTrue => true | _ => false end.

(* (1) the loop gives up for "grace period elapsed" only at a reading taken after DryUp whose clock is at least
   timeOut later than the last live poll *)
Lemma tloop_expired : forall futs T reach i r env s',
  tloop T reach i r futs env = (TExpired, s') ->
  exists pre now post, env = pre ++ (now, true) :: post /\ t_env s' = post /\
                       t_reach s' = last_live reach pre /\ T <= now - last_live reach pre.
Proof.
  induction futs as [|seg fs IH]; intros T reach i r env s' H.
  - destruct env as [|[now d] env']; simpl in H; [discriminate|].
    destruct (has_next_pages i r) as [b [i1 r1]]. destruct b; discriminate.
  - destruct env as [|[now d] env']; simpl in H; [discriminate|].
    destruct (has_next_pages i r) as [b [i1 r1]]. destruct b; [discriminate|].
    destruct (d && (T <=? now - reach)) eqn:E.
    + inversion H; subst s'; clear H. apply andb_true_iff in E as [Ed El]. subst d.
      exists [], now, env'. simpl. repeat split; auto. apply Z.leb_le in El. exact El.
    + destruct seg as [|p seg']; [discriminate|]. destruct p as [items| |]; try discriminate.
      apply IH in H. destruct H as (pre & now' & post & He & Hp & Hr & Hl).
      exists ((now, d) :: pre), now', post. rewrite last_live_cons. simpl. subst env'. repeat split; auto.
Qed.

(* every post-DryUp reading is within the grace period counted from the last live poll *)
Definition within_grace (T reach : Z) (env : list (Z * bool)) : Prop :=
  forall pre now post, env = pre ++ (now, true) :: post -> now - last_live reach pre < T.

Lemma within_grace_tail T reach now d env :
  within_grace T reach ((now, d) :: env) -> within_grace T (if d then reach else now) env.
Proof.
  intros H pre now' post He. specialize (H ((now, d) :: pre) now' post). rewrite last_live_cons in H.
  apply H. simpl. now rewrite He.
Qed.

(* (2) within the grace period the timed loop is the untimed loop with "not elapsed": it keeps fetching future pages *)
Lemma tloop_within_grace : forall futs T reach i r env d0,
  within_grace T reach env -> (length futs < length env)%nat ->
  let '(t, s') := tloop T reach i r futs env in
  let '(b, (i', r', f')) := stream_loop false d0 false i r futs in
  tres_bool t = b /\ t <> TExpired /\ t <> TEnvExhausted /\ t_it s' = i' /\ t_rest s' = r' /\ t_futs s' = f'.
Proof.
  induction futs as [|seg fs IH]; intros T reach i r env d0 Hg Hl.
  - destruct env as [|[now d] env']; simpl in Hl; [lia|]. simpl.
    destruct (has_next_pages i r) as [b [i1 r1]]. destruct b; simpl; repeat split; auto; discriminate.
  - destruct env as [|[now d] env']; simpl in Hl; [lia|]. simpl.
    destruct (has_next_pages i r) as [b [i1 r1]] eqn:Eh. destruct b; simpl.
    { repeat split; auto; discriminate. }
    rewrite andb_false_r.
    assert (E : d && (T <=? now - reach) = false).
    { destruct d; simpl; auto. apply Z.leb_gt. apply (Hg [] now env'). reflexivity. }
    rewrite E.
    destruct seg as [|p seg']; [simpl; repeat split; auto; discriminate|].
    destruct p as [items| |]; try (simpl; repeat split; auto; discriminate).
    apply (IH T _ (Some items) seg' env' d0).
    + now apply within_grace_tail in Hg.
    + lia.
Qed.

(* (3) once dry and past the grace period, nothing is fetched any more *)
Lemma tloop_expired_now T reach i r seg fs now env' :
  fst (has_next_pages i r) = false -> T <= now - reach ->
  fst (tloop T reach i r (seg :: fs) ((now, true) :: env')) = TExpired.
Proof.
  intros Hh Hl. simpl. destruct (has_next_pages i r) as [b [i1 r1]]. simpl in Hh. subst b.
  apply Z.leb_le in Hl. rewrite Hl. reflexivity.
Qed.
