(* C19 — interpreters of the IR (C19.IR) over the paginator state of C19.Model.  Definitions only. *)
From Coq Require Import List ZArith Bool.
Import ListNotations.
From GU Require Import C19.Model C19.IR.

Definition set_it (s : st) (i : option (list Z)) : st := mkSt i (rest s) (futures s) (dry s) (cancelled s).
Definition set_rest (s : st) (r : list page) : st := mkSt (it s) r (futures s) (dry s) (cancelled s).
Definition set_futures (s : st) (f : list (list page)) : st := mkSt (it s) (rest s) f (dry s) (cancelled s).

(* setCurrentPage(page): [p] is the page handed in, [tl] the pages reachable from it through next links *)
Fixpoint run_setpage (b : list pstmt) (s : st) (p : page) (tl : list page) (err : bool) : st * bool :=
  match b with
  | [] => (s, err)
  | PSetPage :: b' => run_setpage b' (set_rest s tl) p tl err
  | PClearIter :: b' => run_setpage b' (set_it s None) p tl err
  | PGetIterIfPage :: b' =>
      match p with
      | Page items => run_setpage b' (set_it s (Some items)) p tl false
      | _ => run_setpage b' s p tl true                  (* GetItemIterator() fails *)
      end
  | PReturn :: _ => (s, err)
  end.

(* fetchNextPage() *)
Fixpoint run_fetch (b : list fstmt) (pb : list pstmt) (s : st) (err : bool) (newp : option (page * list page)) : st * bool :=
  match b with
  | [] => (s, err)
  | FGetPage :: b' => run_fetch b' pb s false newp
  | FRetIfErr :: b' => if err then (s, err) else run_fetch b' pb s err newp
  | FPageHasNext :: b' => match rest s with [] => (s, err) | _ => run_fetch b' pb s err newp end
  | FFetch :: b' =>
      match rest s with
      | [] => run_fetch b' pb s true newp
      | FetchFail :: _ => run_fetch b' pb s true newp     (* the fetch function returns an error *)
      | p :: tl => run_fetch b' pb s false (Some (p, tl))
      end
  | FSetPage :: b' =>
      match newp with
      | Some (p, tl) => let '(s', e) := run_setpage pb s p tl false in run_fetch b' pb s' e newp
      | None => run_fetch b' pb s true newp
      end
  | FReturn :: _ => (s, err)
  end.

(* AbstractPaginator.HasNext(); the recursion `return a.HasNext()` consumes one unit of fuel *)
Fixpoint run_hasnext (fuel : nat) (hb : list hstmt) (fb : list fstmt) (pb : list pstmt) (s : st) : bool * st :=
  match fuel with
  | O => (false, s)
  | S f =>
      (fix go (b : list hstmt) (s : st) (err : bool) (cur : list Z) {struct b} : bool * st :=
         match b with
         | [] => (false, s)
         | HCtxCheck :: b' => if cancelled s then (false, s) else go b' s err cur
         | HGetIter :: b' => match it s with None => go b' s true cur | Some l => go b' s false l end
         | HRetFalseIfErr :: b' => if err then (false, s) else go b' s err cur
         | HIterHasNext :: b' => match cur with _ :: _ => (true, s) | [] => go b' s err cur end
         | HGetPage :: b' => go b' s false cur
         | HPageHasNext :: b' => match rest s with [] => (false, s) | _ => go b' s err cur end
         | HFetchNext :: b' => let '(s', e) := run_fetch fb pb s false None in go b' s' e cur
         | HRecurse :: _ => run_hasnext f hb fb pb s
         end) hb s false []
  end.

(* AbstractPaginator.GetNext(), given HasNext *)
Fixpoint run_getnext (b : list gstmt) (hasnext : st -> bool * st) (s : st) (err : option errk) (cur : list Z) (item : option Z)
  : out * st :=
  match b with
  | [] => ((match err, item with Some e, _ => OErr e | None, Some z => OItem z | None, None => OErr EOther end), s)
  | GCtx :: b' => run_getnext b' hasnext s (if cancelled s then Some ECancelled else None) cur item
  | GRetIfErr :: b' => match err with Some e => (OErr e, s) | None => run_getnext b' hasnext s err cur item end
  | GHasNextOrNotFound :: b' =>
      let '(h, s') := hasnext s in
      if h then run_getnext b' hasnext s' err cur item else (OErr ENotFound, s')
  | GGetIter :: b' => match it s with None => run_getnext b' hasnext s (Some EOther) cur item
                                 | Some l => run_getnext b' hasnext s None l item end
  | GIterGetNext :: b' => match cur with
                          | x :: xs => run_getnext b' hasnext (set_it s (Some xs)) None xs (Some x)
                          | [] => run_getnext b' hasnext s (Some EOther) cur item
                          end
  | GReturn :: _ => ((match err, item with Some e, _ => OErr e | None, Some z => OItem z | None, None => OErr EOther end), s)
  end.

(* SetCurrentPage(future) of the exported variant: nil is rejected *)
Fixpoint run_setpage_exported (b : list xstmt) (pb : list pstmt) (s : st) (fut : option (page * list page)) (err : bool) : st * bool :=
  match b with
  | [] => (s, err)
  | XRejectNil :: b' => match fut with None => (s, true) | Some _ => run_setpage_exported b' pb s fut err end
  | XSetPage :: b' => match fut with
                      | Some (p, tl) => let '(s', e) := run_setpage pb s p tl false in run_setpage_exported b' pb s' fut e
                      | None => run_setpage_exported b' pb s fut true
                      end
  | XReturn :: _ => (s, err)
  end.

(* AbstractStreamPaginator.HasNext(): one turn of the loop consumes one unit of fuel; [elapsed] is the grace-period oracle *)
Fixpoint run_stream_hasnext (fuel : nat) (tb : list tstmt) (xb : list xstmt) (pb : list pstmt) (abs_hn : st -> bool * st)
         (elapsed : bool) (s : st) : bool * st :=
  match fuel with
  | O => (false, s)
  | S f =>
      (fix go (b : list tstmt) (s : st) (err : bool) (fut : option (page * list page)) {struct b} : bool * st :=
         match b with
         | [] => run_stream_hasnext f tb xb pb abs_hn elapsed s       (* end of the loop body: next turn *)
         | TAbsHasNext :: b' => let '(h, s') := abs_hn s in if h then (true, s') else go b' s' err fut
         | TGetPage :: b' => go b' s false fut
         | TRetFalseIfErr :: b' => if err then (false, s) else go b' s err fut
         | TCast :: b' => go b' s err fut
         | TRetFalseIfNotStream :: b' => go b' s err fut               (* the pages of the model are stream pages *)
         | THasFuture :: b' => match futures s with [] => (false, s) | _ => go b' s err fut end
         | TDryCheck :: b' => if dry s && elapsed then (false, s) else go b' s err fut
         | TFetchFuture :: b' =>
             match futures s with
             | [] => go b' s true fut
             | (FetchFail :: _) :: _ => go b' s true fut                (* the future fetcher returns an error *)
             | [] :: fs => go b' (set_futures s fs) false None          (* it answers (nil, nil) *)
             | (p :: tl) :: fs => go b' (set_futures s fs) false (Some (p, tl))
             end
         | TSetPage :: b' => let '(s', e) := run_setpage_exported xb pb s fut false in go b' s' e fut
         | TSleep :: b' => go b' s err fut
         end) tb s false None
  end.
