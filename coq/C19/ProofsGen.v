(* C19 — the generated bodies (Gen.v), interpreted (Interp.v), ARE the hand-written model functions (Model.v). *)
From Coq Require Import List ZArith Bool Lia.
Import ListNotations.
From GU Require Import C19.Model C19.IR C19.Gen C19.Interp.

Definition gen_abs_has_next (fuel : nat) (s : st) : bool * st :=
  run_hasnext fuel has_next_body fetch_next_page_body set_current_page_body s.

Lemma gen_abs_has_next_is_model : forall r i f d c fuel,
  (length r < fuel)%nat ->
  gen_abs_has_next fuel (mkSt i r f d c) = abs_has_next (mkSt i r f d c).
Proof.
  induction r as [|p r IH]; intros i f d c fuel Hf; (destruct fuel as [|fuel]; [simpl in Hf; lia|]);
    unfold gen_abs_has_next, abs_has_next, has_next_body, fetch_next_page_body, set_current_page_body in *;
    cbn [run_hasnext cancelled it rest futures dry]; destruct c; try reflexivity.
  - destruct i as [[|x xs]|]; reflexivity.
  - destruct i as [[|x xs]|]; try reflexivity.
    destruct p as [items| |]; cbn; try reflexivity.
    simpl in Hf. specialize (IH (Some items) f d false fuel ltac:(lia)).
    cbn [cancelled it rest futures dry] in IH. unfold set_it, set_rest. cbn [cancelled it rest futures dry].
    rewrite IH. reflexivity.
Qed.

(* enough fuel for a state: one unit per page still reachable through next links, plus one *)
Definition abs_fuel (s : st) : nat := S (length (rest s)).

Lemma gen_abs_has_next_is_model' s : gen_abs_has_next (abs_fuel s) s = abs_has_next s.
Proof. destruct s as [i r f d c]. apply gen_abs_has_next_is_model. unfold abs_fuel. simpl. lia. Qed.

(* AbstractPaginator.GetNext *)
Definition gen_abs_get_next (s : st) : out * st :=
  run_getnext get_next_body (fun s => gen_abs_has_next (abs_fuel s) s) s None [] None.

Lemma gen_abs_get_next_is_model e s : gen_abs_get_next s = get_next false e s.
Proof.
  unfold gen_abs_get_next, get_next_body, get_next, has_next. cbn [run_getnext].
  destruct (cancelled s) eqn:Ec; [reflexivity|].
  rewrite gen_abs_has_next_is_model'.
  destruct (abs_has_next s) as [b s'] eqn:E. destruct b; [|reflexivity].
  unfold pop. destruct (it s') as [[|x xs]|]; reflexivity.
Qed.

(* AbstractStreamPaginator.HasNext: the loop, with the abstract HasNext as translated above *)
Definition gen_stream_has_next (fuel : nat) (elapsed : bool) (s : st) : bool * st :=
  run_stream_hasnext fuel stream_has_next_loop_body exported_set_current_page_body set_current_page_body
                     (fun s => gen_abs_has_next (abs_fuel s) s) elapsed s.

Lemma gen_stream_has_next_is_model : forall futs i r d c fuel e,
  (length futs < fuel)%nat ->
  gen_stream_has_next fuel e (mkSt i r futs d c) = stream_has_next e (mkSt i r futs d c).
Proof.
  induction futs as [|seg fs IH]; intros i r d c fuel e Hf; (destruct fuel as [|fuel]; [simpl in Hf; lia|]);
    unfold gen_stream_has_next, stream_has_next, stream_has_next_loop_body, exported_set_current_page_body,
           set_current_page_body in *;
    cbn [run_stream_hasnext]; rewrite gen_abs_has_next_is_model'; unfold abs_has_next;
    cbn [cancelled it rest futures dry stream_loop].
  - destruct c.
    + reflexivity.
    + destruct (has_next_pages i r) as [b [i1 r1]]. destruct b; reflexivity.
  - simpl in Hf.
    assert (IH' : forall i r, run_stream_hasnext fuel
              [TAbsHasNext; TGetPage; TRetFalseIfErr; TCast; TRetFalseIfNotStream; THasFuture; TDryCheck; TFetchFuture;
               TRetFalseIfErr; TSetPage; TRetFalseIfErr; TSleep] [XRejectNil; XSetPage; XReturn]
              [PSetPage; PClearIter; PGetIterIfPage; PReturn] (fun s => gen_abs_has_next (abs_fuel s) s) e
              (mkSt i r fs d c) =
            (let '(b, (i0, r0, f)) := stream_loop e d c i r fs in (b, mkSt i0 r0 f d c))).
    { intros i0 r0. apply (IH i0 r0 d c fuel e). lia. }
    destruct c.
    + (* cancelled: the abstract HasNext answers false without touching the state *)
      cbn [cancelled it rest futures dry]. destruct (d && e) eqn:Ede; [reflexivity|].
      destruct seg as [|p tl]; [reflexivity|].
      destruct p as [items| |]; cbn; unfold set_it, set_rest, set_futures; cbn [cancelled it rest futures dry];
        try reflexivity.
      rewrite IH'. reflexivity.
    + destruct (has_next_pages i r) as [b [i1 r1]]. destruct b; [reflexivity|].
      cbn [cancelled it rest futures dry]. destruct (d && e) eqn:Ede; [reflexivity|].
      destruct seg as [|p tl]; [reflexivity|].
      destruct p as [items| |]; cbn; unfold set_it, set_rest, set_futures; cbn [cancelled it rest futures dry];
        try reflexivity.
      rewrite IH'. reflexivity.
Qed.

(* the static / dynamic paginator assembled from the generated HasNext and GetNext *)
Definition gen_step_plain (s : st) (o : op) : out * st :=
  match o with
  | HasNext => let '(b, s') := gen_abs_has_next (abs_fuel s) s in (OBool b, s')
  | GetNext => gen_abs_get_next s
  | Stop | Close => (OUnit, mkSt (it s) (rest s) (futures s) (dry s) true)   (* Stop hands out the store's Cancel, Close invokes it *)
  | DryUp => (OUnit, s)
  end.

Fixpoint gen_run_plain (s : st) (ops : list op) : list out * st :=
  match ops with
  | [] => ([], s)
  | o :: os => let '(x, s1) := gen_step_plain s o in
               let '(xs, s2) := gen_run_plain s1 os in (x :: xs, s2)
  end.

Lemma gen_step_plain_is_model e s o : gen_step_plain s o = step false e s o.
Proof.
  destruct o; simpl; unfold has_next.
  - now rewrite gen_abs_has_next_is_model'.
  - apply gen_abs_get_next_is_model.
  - reflexivity.
  - reflexivity.
  - destruct s; reflexivity.
Qed.

Lemma gen_run_plain_is_model e : forall ops s, gen_run_plain s ops = run false e s ops.
Proof.
  induction ops as [|o os IH]; intros s; [reflexivity|].
  simpl. rewrite (gen_step_plain_is_model e). destruct (step false e s o) as [x s1]. now rewrite IH.
Qed.

Definition stream_fuel (s : st) : nat := S (length (futures s)).

Lemma gen_stream_has_next_is_model' e s : gen_stream_has_next (stream_fuel s) e s = stream_has_next e s.
Proof. destruct s as [i r f d c]. apply gen_stream_has_next_is_model. unfold stream_fuel. simpl. lia. Qed.
