(* C19 — executable model of the paginators.
   Mirrors utils/collection/pagination/pagination.go (AbstractPaginator: HasNext :28-51, fetchNextPage :57-71,
   GetNext :73-88, Stop/Close, setCurrentPage :94-101, constructors :132-227) and stream.go
   (AbstractStreamPaginator: HasNext :35-69, GetNext :71-84, DryUp).  Definitions only; proofs are in Proofs.v. *)
From Coq Require Import List ZArith Bool.
Import ListNotations.

(* A page as the paginator sees it through IStaticPage/IPage/IStream:
   - [Page items]: fetching it succeeds and its item iterator yields [items];
   - [FetchFail]: the fetch function (page.GetNext / fetchNextPageFunc / GetFuture) returns an error;
   - [IterFail]: the page is fetched but GetItemIterator() returns an error. *)
Inductive page := Page (items : list Z) | FetchFail | IterFail.

Inductive errk := ENotFound | ECancelled | EOther.
Inductive out := OBool (b : bool) | OItem (z : Z) | OErr (e : errk) | OUnit.
Inductive op := HasNext | GetNext | Stop | Close | DryUp.

Record st := mkSt {
  it : option (list Z);          (* current page iterator: items not yet yielded; None = "missing page iterator" *)
  rest : list page;              (* pages reachable from the current one through next-links; [] = page.HasNext() false *)
  futures : list (list page);    (* stream only: future segments; [] = page.HasFuture() false *)
  dry : bool;                    (* stream only: DryUp has been called *)
  cancelled : bool               (* Stop()/Close() has cancelled the paginator's context *)
}.

(* AbstractPaginator.HasNext on a live context: skips exhausted and empty pages, recursively. *)
Fixpoint has_next_pages (i : option (list Z)) (r : list page) {struct r} : bool * (option (list Z) * list page) :=
  match i with
  | None => (false, (None, r))
  | Some (_ :: _) => (true, (i, r))
  | Some [] =>
      match r with
      | [] => (false, (i, r))
      | FetchFail :: _ => (false, (i, r))
      | IterFail :: r' => (false, (None, r'))
      | Page items :: r' => has_next_pages (Some items) r'
      end
  end.

Definition abs_has_next (s : st) : bool * st :=
  if cancelled s then (false, s)
  else let '(b, (i, r)) := has_next_pages (it s) (rest s) in
       (b, mkSt i r (futures s) (dry s) (cancelled s)).

(* AbstractStreamPaginator.HasNext: loop over future segments.  [elapsed] is the grace-period oracle
   (time.Since(timeReachLast) >= timeOut); the harness pins it with timeOut = 0 or one hour. *)
Fixpoint stream_loop (elapsed dry_ cancelled_ : bool) (i : option (list Z)) (r : list page)
         (futs : list (list page)) {struct futs} : bool * (option (list Z) * list page * list (list page)) :=
  let '(b, (i1, r1)) := if cancelled_ then (false, (i, r)) else has_next_pages i r in
  if b then (true, (i1, r1, futs))
  else match futs with
       | [] => (false, (i1, r1, []))
       | seg :: fs =>
           if dry_ && elapsed then (false, (i1, r1, futs))
           else match seg with
                | [] => (false, (i1, r1, fs))        (* the fetcher answered (nil, nil): SetCurrentPage(nil) fails, the state is kept *)
                | FetchFail :: _ => (false, (i1, r1, futs))
                | IterFail :: r' => (false, (None, r', fs))
                | Page items :: r' =>
                    stream_loop elapsed dry_ cancelled_ (Some items) r' fs
                end
       end.

Definition stream_has_next (elapsed : bool) (s : st) : bool * st :=
  let '(b, (i, r, f)) := stream_loop elapsed (dry s) (cancelled s) (it s) (rest s) (futures s) in
  (b, mkSt i r f (dry s) (cancelled s)).

Definition has_next (stream elapsed : bool) (s : st) : bool * st :=
  if stream then stream_has_next elapsed s else abs_has_next s.

Definition pop (s : st) : out * st :=
  match it s with
  | Some (x :: xs) => (OItem x, mkSt (Some xs) (rest s) (futures s) (dry s) (cancelled s))
  | _ => (OErr EOther, s)
  end.

Definition get_next (stream elapsed : bool) (s : st) : out * st :=
  if cancelled s then (OErr ECancelled, s)
  else let '(b, s') := has_next stream elapsed s in
       if b then pop s' else (OErr ENotFound, s').

Definition step (stream elapsed : bool) (s : st) (o : op) : out * st :=
  match o with
  | HasNext => let '(b, s') := has_next stream elapsed s in (OBool b, s')
  | GetNext => get_next stream elapsed s
  | Stop | Close => (OUnit, mkSt (it s) (rest s) (futures s) (dry s) true)
  | DryUp => (OUnit, mkSt (it s) (rest s) (futures s) (if stream then true else dry s) (cancelled s))
  end.

Fixpoint run (stream elapsed : bool) (s : st) (ops : list op) : list out * st :=
  match ops with
  | [] => ([], s)
  | o :: os => let '(x, s1) := step stream elapsed s o in
               let '(xs, s2) := run stream elapsed s1 os in (x :: xs, s2)
  end.

(* Constructors: the first page is fetched and installed; any failure is reported (None). *)
Definition init (pages : list page) (futs : list (list page)) : option st :=
  match pages with
  | Page items :: r => Some (mkSt (Some items) r futs false false)
  | _ => None
  end.

(* The canonical drain loop:  for p.HasNext() { x := p.GetNext(); yield x }  *)
Fixpoint drain (stream elapsed : bool) (fuel : nat) (s : st) : list Z * bool (* finished *) :=
  match fuel with
  | O => ([], false)
  | S f => let '(b, s1) := has_next stream elapsed s in
           if b then match get_next stream elapsed s1 with
                     | (OItem x, s2) => let '(xs, fin) := drain stream elapsed f s2 in (x :: xs, fin)
                     | _ => ([], false)
                     end
           else ([], true)
  end.

Definition items_of (outs : list out) : list Z :=
  flat_map (fun o => match o with OItem z => [z] | _ => [] end) outs.

(* --- correspondence cases: what the harness observed on the real paginators --- *)
Record case := mkCase {
  c_stream : bool; c_elapsed : bool;
  c_pages : list page; c_futures : list (list page);
  c_ops : list op;
  c_ctor_ok : bool;           (* the real constructor returned a paginator and no error *)
  c_outs : list out           (* one observation per op *)
}.

Definition out_eqb (a b : out) : bool :=
  match a, b with
  | OBool x, OBool y => Bool.eqb x y
  | OItem x, OItem y => Z.eqb x y
  | OErr ENotFound, OErr ENotFound | OErr ECancelled, OErr ECancelled | OErr EOther, OErr EOther => true
  | OUnit, OUnit => true
  | _, _ => false
  end.

Fixpoint outs_eqb (a b : list out) : bool :=
  match a, b with
  | [], [] => true
  | x :: xs, y :: ys => out_eqb x y && outs_eqb xs ys
  | _, _ => false
  end.

Definition check_case (c : case) : bool :=
  match init (c_pages c) (c_futures c) with
  | None => negb (c_ctor_ok c)
  | Some s => c_ctor_ok c && outs_eqb (fst (run (c_stream c) (c_elapsed c) s (c_ops c))) (c_outs c)
  end.

(* ------------------------------------------------------------------------------------------------
   Timed model of the stream grace period (stream.go:35-69, AbstractStreamPaginator.HasNext).
   Each iteration of the polling loop takes ONE reading of the environment: the clock value it reads
   (time.Now() / time.Since) and whether DryUp() — possibly called from another goroutine while
   HasNext is blocked in its loop — has happened by then.  [reach] is timeReachLast:
     - an item is available            -> timeReachLast := now; return true        (:37-40)
     - the stream has no future        -> return false                             (:49-51)
     - dry  and now - reach >= timeOut -> return false   (grace period elapsed)    (:52-55)
     - not dry                         -> timeReachLast := now                     (:56-58)
     - fetch the future page and loop                                              (:59-68)
   Times are integers (milliseconds in the harness); the context is live. *)
Inductive tres := TTrue | TNoFuture | TExpired | TFetchStop | TEnvExhausted.

Record tstate := mkT {
  t_it : option (list Z); t_rest : list page; t_futs : list (list page);
  t_reach : Z;                    (* timeReachLast *)
  t_env : list (Z * bool)         (* readings not yet consumed: (clock, DryUp already called) *)
}.

Fixpoint tloop (T : Z) (reach : Z) (i : option (list Z)) (r : list page) (futs : list (list page))
         (env : list (Z * bool)) {struct futs} : tres * tstate :=
  match env with
  | [] => (TEnvExhausted, mkT i r futs reach [])
  | (now, d) :: env' =>
      let '(b, (i1, r1)) := has_next_pages i r in
      if b then (TTrue, mkT i1 r1 futs now env')
      else match futs with
           | [] => (TNoFuture, mkT i1 r1 [] reach env')
           | seg :: fs =>
               if d && (T <=? now - reach)%Z then (TExpired, mkT i1 r1 futs reach env')
               else let reach' := if d then reach else now in
                    match seg with
                    | [] => (TFetchStop, mkT i1 r1 fs reach' env')
                    | FetchFail :: _ => (TFetchStop, mkT i1 r1 futs reach' env')
                    | IterFail :: r' => (TFetchStop, mkT None r' fs reach' env')
                    | Page items :: r' => tloop T reach' (Some items) r' fs env'
                    end
           end
  end.

Definition t_has_next (T : Z) (s : tstate) : tres * tstate :=
  tloop T (t_reach s) (t_it s) (t_rest s) (t_futs s) (t_env s).

(* stream GetNext (stream.go:71-84) on a live context: AbstractPaginator.GetNext, which itself starts with HasNext;
   when that finds nothing, the stream's HasNext polls. *)
Definition t_get_next (T : Z) (s : tstate) : out * tstate :=
  let '(b, (i1, r1)) := has_next_pages (t_it s) (t_rest s) in
  match b, i1 with
  | true, Some (x :: xs) => (OItem x, mkT (Some xs) r1 (t_futs s) (t_reach s) (t_env s))
  | _, _ =>
      match t_has_next T (mkT i1 r1 (t_futs s) (t_reach s) (t_env s)) with
      | (TTrue, s1) =>
          match t_it s1 with
          | Some (x :: xs) => (OItem x, mkT (Some xs) (t_rest s1) (t_futs s1) (t_reach s1) (t_env s1))
          | _ => (OErr EOther, s1)
          end
      | (_, s1) => (OErr ENotFound, s1)
      end
  end.

Definition tstep (T : Z) (s : tstate) (o : op) : out * tstate :=
  match o with
  | HasNext => let '(b, s') := t_has_next T s in (OBool (match b with TTrue => true | _ => false end), s')
  | GetNext => t_get_next T s
  | _ => (OUnit, s)
  end.

Fixpoint trun (T : Z) (s : tstate) (ops : list op) : list out :=
  match ops with
  | [] => []
  | o :: os => let '(x, s1) := tstep T s o in x :: trun T s1 os
  end.

(* a timed correspondence case: the schedule the harness imposes (nominal readings), the future segments it serves,
   and the observations made on the real stream paginator *)
Record tcase := mkTCase {
  tc_T : Z; tc_reach0 : Z;
  tc_items : list Z; tc_futs : list (list page); tc_env : list (Z * bool);
  tc_ops : list op; tc_outs : list out
}.

Definition check_tcase (c : tcase) : bool :=
  outs_eqb (trun (tc_T c) (mkT (Some (tc_items c)) [] (tc_futs c) (tc_reach0 c) (tc_env c)) (tc_ops c)) (tc_outs c).

Inductive anycase := CPlain (c : case) | CTimed (c : tcase).
Definition check_any (c : anycase) : bool :=
  match c with CPlain c => check_case c | CTimed c => check_tcase c end.
